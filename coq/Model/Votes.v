(* C13 - executable model of the votes module
     packages/governance/src/votes/storage.rs   (units, delegation, checkpoints, binary search)
   and of the two token extensions that feed it
     packages/tokens/src/fungible/extensions/votes/storage.rs      (FungibleVotes, + burnable)
     packages/tokens/src/non_fungible/extensions/votes/storage.rs  (NonFungibleVotes)
   together with the thin token layers underneath (balances, allowance / approval gating only).

   Conventions (BUILDING.md section 2): integers are Z with the Rust range checks written out,
   a failing call returns the old state, error codes are not modelled.

   Checkpoint storage.  The contract stores, per timeline, a counter [num] and entries
   index -> Checkpoint for index in [0, num).  The model keeps a timeline as a list, NEWEST
   FIRST: storage index i is list position (num-1-i).  All reads go through [tl_get] (the
   transcription of get_checkpoint, failing like CheckpointNotFound when the index is absent). *)
From SC Require Import Lib.Prelude Lib.Int Lib.Host.
Open Scope Z_scope.

(* ------------------------------------------------------------------ *)
(* checkpoints                                                          *)
(* ------------------------------------------------------------------ *)
Record checkpoint := { cp_ledger : Z; cp_votes : Z }.
Definition timeline := list checkpoint.

Definition tl_num (t : timeline) : Z := Z.of_nat (length t).

(* get_checkpoint(e, type, index) *)
Definition tl_get (t : timeline) (i : Z) : res checkpoint :=
  if (0 <=? i) && (i <? tl_num t)
  then of_option (nth_error t (Z.to_nat (tl_num t - 1 - i)))
  else Fail.

(* get_votes / get_total_supply: 0 if num = 0, else votes of checkpoint num-1 *)
Definition tl_latest (t : timeline) : res Z :=
  let num := tl_num t in
  if num =? 0 then Ok 0 else do c <- tl_get t (num - 1); Ok (cp_votes c).

(* the `while low < high` loop of lookup_checkpoint_at; mid = low + (high-low).div_ceil(2).
   Structural recursion on fuel; out-of-fuel is proved unreachable for fuel = 32 (u32 indices). *)
Fixpoint bsearch (fuel : nat) (t : timeline) (ledger low high : Z) : res Z :=
  if low <? high then
    match fuel with
    | O => Fail
    | S f =>
        let mid := low + (high - low + 1) / 2 in
        do c <- tl_get t mid;
        if cp_ledger c <=? ledger
        then bsearch f t ledger mid high
        else bsearch f t ledger low (mid - 1)
    end
  else Ok low.

Definition BS_FUEL : nat := 32.

(* lookup_checkpoint_at(e, ledger, num, type) *)
Definition lookup_checkpoint_at (t : timeline) (ledger : Z) : res Z :=
  let num := tl_num t in
  if num =? 0 then Ok 0 else
  do latest <- tl_get t (num - 1);
  if cp_ledger latest <=? ledger then Ok (cp_votes latest) else
  do first <- tl_get t 0;
  if ledger <? cp_ledger first then Ok 0 else
  do low <- bsearch BS_FUEL t ledger 0 (num - 1);
  do c <- tl_get t low;
  Ok (cp_votes c).

(* get_votes_at_checkpoint / get_total_supply_at_checkpoint *)
Definition lookup_past (now : Z) (t : timeline) (ledger : Z) : res Z :=
  if now <=? ledger then Fail else lookup_checkpoint_at t ledger.

Inductive cpop := OpAdd | OpSub.

Definition apply_checkpoint_op (previous : Z) (op : cpop) (delta : Z) : res Z :=
  of_option (match op with
             | OpAdd => checked_add_u128 previous delta
             | OpSub => checked_sub_u128 previous delta
             end).

(* push_checkpoint: returns the new timeline and (previous_votes, votes) *)
Definition push_checkpoint (now : Z) (t : timeline) (op : cpop) (delta : Z)
  : res (timeline * (Z * Z)) :=
  let num := tl_num t in
  do last <- (if 0 <? num then do c <- tl_get t (num - 1); Ok (Some c) else Ok None);
  let previous := match last with Some c => cp_votes c | None => 0 end in
  do votes <- apply_checkpoint_op previous op delta;
  let new := {| cp_ledger := now; cp_votes := votes |} in
  let append := do _ <- guard (in_u32 (num + 1)); Ok (new :: t, (previous, votes)) in
  match last with
  | Some c =>
      if cp_ledger c =? now
      then Ok (new :: tl t, (previous, votes))      (* overwrite entry num-1 *)
      else append
  | None => append
  end.

(* ------------------------------------------------------------------ *)
(* votes state                                                          *)
(* ------------------------------------------------------------------ *)
Record vstate := {
  v_units : list (addr * Z);          (* VotingUnits(account); entry removed when 0 *)
  v_dlg : list (addr * addr);         (* Delegatee(account) *)
  v_cps : list (addr * timeline);     (* NumCheckpoints / DelegateCheckpoint(account, i) *)
  v_ts : timeline                     (* NumTotalSupplyCheckpoints / TotalSupplyCheckpoint(i) *)
}.
Definition v_init : vstate := {| v_units := []; v_dlg := []; v_cps := []; v_ts := [] |}.

Definition units_of (s : vstate) (a : addr) : Z :=
  match alist_get a (v_units s) with Some u => u | None => 0 end.
Definition delegate_of (s : vstate) (a : addr) : option addr := alist_get a (v_dlg s).
Definition tl_of (s : vstate) (a : addr) : timeline :=
  match alist_get a (v_cps s) with Some t => t | None => [] end.

Inductive cptype := CTotal | CAcct (a : addr).
Definition get_tl (s : vstate) (ct : cptype) : timeline :=
  match ct with CTotal => v_ts s | CAcct a => tl_of s a end.
Definition set_tl (s : vstate) (ct : cptype) (t : timeline) : vstate :=
  match ct with
  | CTotal => {| v_units := v_units s; v_dlg := v_dlg s; v_cps := v_cps s; v_ts := t |}
  | CAcct a => {| v_units := v_units s; v_dlg := v_dlg s; v_cps := alist_set a t (v_cps s); v_ts := v_ts s |}
  end.

(* set_voting_units: remove the entry when the new value is 0 *)
Definition set_units (s : vstate) (a : addr) (u : Z) : vstate :=
  {| v_units := if u =? 0 then alist_remove a (v_units s) else alist_set a u (v_units s);
     v_dlg := v_dlg s; v_cps := v_cps s; v_ts := v_ts s |}.
Definition set_delegate (s : vstate) (a d : addr) : vstate :=
  {| v_units := v_units s; v_dlg := alist_set a d (v_dlg s); v_cps := v_cps s; v_ts := v_ts s |}.

Definition oaddr_eqb (a b : option addr) : bool :=
  match a, b with
  | Some x, Some y => N.eqb x y
  | None, None => true
  | _, _ => false
  end.

Definition push (now : Z) (s : vstate) (ct : cptype) (op : cpop) (delta : Z) : res vstate :=
  do r <- push_checkpoint now (get_tl s ct) op delta;
  Ok (set_tl s ct (fst r)).

(* move_delegate_votes *)
Definition move_delegate_votes (now : Z) (s : vstate) (from to : option addr) (amount : Z)
  : res vstate :=
  if amount =? 0 then Ok s else
  if oaddr_eqb from to then Ok s else
  do s1 <- match from with Some f => push now s (CAcct f) OpSub amount | None => Ok s end;
  match to with Some t => push now s1 (CAcct t) OpAdd amount | None => Ok s1 end.

(* transfer_voting_units(e, from, to, amount) *)
Definition transfer_voting_units (now : Z) (s : vstate) (from to : option addr) (amount : Z)
  : res vstate :=
  if amount =? 0 then Ok s else
  let from_delegate := match from with Some a => delegate_of s a | None => None end in
  let to_delegate := match to with Some a => delegate_of s a | None => None end in
  do s1 <- match from with
           | Some f =>
               do nu <- of_option (checked_sub_u128 (units_of s f) amount);
               Ok (set_units s f nu)
           | None => push now s CTotal OpAdd amount
           end;
  do s2 <- match to with
           | Some t =>
               do nu <- of_option (checked_add_u128 (units_of s1 t) amount);
               Ok (set_units s1 t nu)
           | None => push now s1 CTotal OpSub amount
           end;
  move_delegate_votes now s2 from_delegate to_delegate amount.

(* delegate(e, account, delegatee) *)
Definition delegate (now : Z) (auths : list addr) (s : vstate) (account delegatee : addr)
  : res vstate :=
  do _ <- guard (has_auth auths account);
  let old := delegate_of s account in
  do _ <- guard (negb (oaddr_eqb old (Some delegatee)));
  let s1 := set_delegate s account delegatee in
  let voting_units := units_of s1 account in
  move_delegate_votes now s1 old (Some delegatee) voting_units.

(* public getters *)
Definition get_votes (s : vstate) (a : addr) : res Z := tl_latest (tl_of s a).
Definition get_total_supply (s : vstate) : res Z := tl_latest (v_ts s).
Definition get_votes_at (now : Z) (s : vstate) (a : addr) (q : Z) : res Z := lookup_past now (tl_of s a) q.
Definition get_total_supply_at (now : Z) (s : vstate) (q : Z) : res Z := lookup_past now (v_ts s) q.

(* ------------------------------------------------------------------ *)
(* token layers (balances; allowance / approval only as gates)          *)
(* ------------------------------------------------------------------ *)
Inductive kind :=
| KFung       (* harness wrapper: FungibleToken{ContractType = FungibleVotes} + FungibleBurnable via FungibleVotes::burn *)
| KExample    (* the real examples/fungible-votes contract: mint is only_owner, no burn *)
| KNft.       (* harness wrapper: NonFungibleToken{ContractType = NonFungibleVotes} + burnable + mint / sequential_mint *)

Record header := {
  h_kind : kind;
  h_n : nat;          (* accounts 0 .. n-1 are observed after every call *)
  h_ids : nat;        (* NFT ids 0 .. ids-1 are observed *)
  h_start : Z;        (* ledger sequence at the start *)
  h_maxttl : Z;       (* host max_entry_ttl (bounds live_until of allowances / approvals) *)
  h_owner : addr;     (* KExample: the Ownable owner that gates mint *)
  h_db : bool         (* the trace comes from a token that uses the DEFAULT FungibleBurnable bodies (Base::burn /
                         Base::burn_from, no votes hook) instead of wiring them through FungibleVotes::burn:
                         only [step_db] below looks at it, the theorems are about [step] *)
}.

Record state := {
  s_now : Z;
  s_v : vstate;
  s_bal : list (addr * Z);                 (* fungible: Balance(a) i128; nft: Balance(a) u32 *)
  s_supply : Z;                            (* fungible TotalSupply *)
  s_alw : list ((addr * addr) * (Z * Z));  (* fungible Allowance(owner, spender) = (amount, live_until) *)
  s_owner : list (N * addr);               (* nft Owner(id) *)
  s_appr : list (N * (addr * Z));          (* nft Approval(id) = (approved, live_until) *)
  s_next : Z                               (* nft sequential TokenIdCounter *)
}.
Definition init (h : header) : state :=
  {| s_now := h_start h; s_v := v_init; s_bal := []; s_supply := 0; s_alw := [];
     s_owner := []; s_appr := []; s_next := 0 |}.

Definition with_now (s : state) (n : Z) : state :=
  {| s_now := n; s_v := s_v s; s_bal := s_bal s; s_supply := s_supply s; s_alw := s_alw s;
     s_owner := s_owner s; s_appr := s_appr s; s_next := s_next s |}.
Definition with_v (s : state) (v : vstate) : state :=
  {| s_now := s_now s; s_v := v; s_bal := s_bal s; s_supply := s_supply s; s_alw := s_alw s;
     s_owner := s_owner s; s_appr := s_appr s; s_next := s_next s |}.
Definition with_bal (s : state) (b : list (addr * Z)) : state :=
  {| s_now := s_now s; s_v := s_v s; s_bal := b; s_supply := s_supply s; s_alw := s_alw s;
     s_owner := s_owner s; s_appr := s_appr s; s_next := s_next s |}.
Definition with_supply (s : state) (x : Z) : state :=
  {| s_now := s_now s; s_v := s_v s; s_bal := s_bal s; s_supply := x; s_alw := s_alw s;
     s_owner := s_owner s; s_appr := s_appr s; s_next := s_next s |}.
Definition with_alw (s : state) (x : list ((addr * addr) * (Z * Z))) : state :=
  {| s_now := s_now s; s_v := s_v s; s_bal := s_bal s; s_supply := s_supply s; s_alw := x;
     s_owner := s_owner s; s_appr := s_appr s; s_next := s_next s |}.
Definition with_owner (s : state) (x : list (N * addr)) : state :=
  {| s_now := s_now s; s_v := s_v s; s_bal := s_bal s; s_supply := s_supply s; s_alw := s_alw s;
     s_owner := x; s_appr := s_appr s; s_next := s_next s |}.
Definition with_appr (s : state) (x : list (N * (addr * Z))) : state :=
  {| s_now := s_now s; s_v := s_v s; s_bal := s_bal s; s_supply := s_supply s; s_alw := s_alw s;
     s_owner := s_owner s; s_appr := x; s_next := s_next s |}.
Definition with_next (s : state) (x : Z) : state :=
  {| s_now := s_now s; s_v := s_v s; s_bal := s_bal s; s_supply := s_supply s; s_alw := s_alw s;
     s_owner := s_owner s; s_appr := s_appr s; s_next := x |}.

Definition balance_of (s : state) (a : addr) : Z :=
  match alist_get a (s_bal s) with Some b => b | None => 0 end.
Definition set_bal (s : state) (a : addr) (b : Z) : state := with_bal s (alist_set a b (s_bal s)).

(* the votes hook of every extension entry point *)
Definition tvu (s : state) (from to : option addr) (amount : Z) : res state :=
  do v <- transfer_voting_units (s_now s) (s_v s) from to amount; Ok (with_v s v).

(* ---- fungible Base ---- *)
Definition pair_eqb (x y : addr * addr) : bool := N.eqb (fst x) (fst y) && N.eqb (snd x) (snd y).
Fixpoint pget {V} (k : addr * addr) (l : list ((addr * addr) * V)) : option V :=
  match l with
  | [] => None
  | (k', v) :: r => if pair_eqb k k' then Some v else pget k r
  end.
Fixpoint premove {V} (k : addr * addr) (l : list ((addr * addr) * V)) : list ((addr * addr) * V) :=
  match l with
  | [] => []
  | (k', v) :: r => if pair_eqb k k' then premove k r else (k', v) :: premove k r
  end.
Definition pset {V} (k : addr * addr) (v : V) (l : list ((addr * addr) * V)) := (k, v) :: premove k l.

(* Base::allowance_data: (0,0) when absent or live_until < now.  The temporary entry itself
   outlives live_until whenever amount > 0 (set + extend_ttl(live_for, live_for)), and an entry
   with amount = 0 reads like an absent one, so host expiry is not observable here. *)
Definition allowance_data (s : state) (owner spender : addr) : Z * Z :=
  match pget (owner, spender) (s_alw s) with
  | Some (amt, live) => if live <? s_now s then (0, 0) else (amt, live)
  | None => (0, 0)
  end.

(* Base::set_allowance *)
Definition set_allowance (h : header) (s : state) (owner spender : addr) (amount live : Z) : res state :=
  do _ <- guard (0 <=? amount);
  do _ <- guard (negb ((s_now s + h_maxttl h - 1 <? live) || ((0 <? amount) && (live <? s_now s))));
  Ok (with_alw s (pset (owner, spender) (amount, live) (s_alw s))).

(* Base::spend_allowance *)
Definition spend_allowance (h : header) (s : state) (owner spender : addr) (amount : Z) : res state :=
  do _ <- guard (0 <=? amount);
  let a := allowance_data s owner spender in
  do _ <- guard (amount <=? fst a);
  if 0 <? amount then set_allowance h s owner spender (fst a - amount) (snd a) else Ok s.

(* Base::update *)
Definition f_update (s : state) (from to : option addr) (amount : Z) : res state :=
  do _ <- guard (0 <=? amount);
  do s1 <- match from with
           | Some a =>
               let b := balance_of s a in
               do _ <- guard (amount <=? b);
               Ok (set_bal s a (b - amount))
           | None =>
               do ns <- of_option (checked_add (s_supply s) amount);
               Ok (with_supply s ns)
           end;
  match to with
  | Some a => do nb <- of_option (fit128 (balance_of s1 a + amount)); Ok (set_bal s1 a nb)
  | None => do ns <- of_option (fit128 (s_supply s1 - amount)); Ok (with_supply s1 ns)
  end.

(* every FungibleVotes entry point: the Base operation, then `if amount > 0 { transfer_voting_units }` *)
Definition f_votes_hook (s : state) (from to : option addr) (amount : Z) : res state :=
  if 0 <? amount then tvu s from to amount else Ok s.

(* ---- non-fungible Base ---- *)
Definition checked_sub_u32 (a b : Z) : option Z := if in_u32 (a - b) then Some (a - b) else None.
Definition owner_of (s : state) (id : Z) : option addr := alist_get (Z.to_N id) (s_owner s).

(* Base::get_approved: None when absent or live_until < now (the temporary entry outlives
   live_until, see allowance_data) *)
Definition get_approved (s : state) (id : Z) : option addr :=
  match alist_get (Z.to_N id) (s_appr s) with
  | Some (a, live) => if live <? s_now s then None else Some a
  | None => None
  end.

(* Base::update (non-fungible) *)
Definition n_update (s : state) (from to : option addr) (id : Z) : res state :=
  do s1 <- match from with
           | Some f =>
               do o <- of_option (owner_of s id);
               do _ <- guard (N.eqb o f);
               do nb <- of_option (checked_sub_u32 (balance_of s f) 1);
               Ok (with_appr (set_bal s f nb) (alist_remove (Z.to_N id) (s_appr s)))
           | None => Ok s
           end;
  match to with
  | Some t =>
      do nb <- of_option (checked_add_u32 (balance_of s1 t) 1);
      let s2 := set_bal s1 t nb in
      Ok (with_owner s2 (alist_set (Z.to_N id) t (s_owner s2)))
  | None => Ok (with_owner s1 (alist_remove (Z.to_N id) (s_owner s1)))
  end.

(* Base::check_spender_approval (no operator approvals are ever granted in the harness) *)
Definition check_spender_approval (s : state) (spender owner : addr) (id : Z) : res unit :=
  guard (N.eqb spender owner || oaddr_eqb (get_approved s id) (Some spender)).

(* Base::approve -> approve_for_owner *)
Definition n_approve (h : header) (auths : list addr) (s : state) (approver approved : addr) (id live : Z)
  : res state :=
  do _ <- guard (has_auth auths approver);
  do o <- of_option (owner_of s id);
  do _ <- guard (N.eqb approver o);
  if live =? 0 then Ok (with_appr s (alist_remove (Z.to_N id) (s_appr s))) else
  do _ <- guard (s_now s <=? live);
  (* temporary().set + extend_ttl(live_for, live_for): the host refuses to extend beyond max_ttl - 1 *)
  do _ <- guard (live - s_now s <=? h_maxttl h - 1);
  Ok (with_appr s (alist_set (Z.to_N id) (approved, live) (s_appr s))).

(* ------------------------------------------------------------------ *)
(* calls                                                                *)
(* ------------------------------------------------------------------ *)
Inductive call :=
| Advance (n : Z)                                  (* ledger sequence += n *)
| Mint (to : addr) (x : Z)                         (* fungible: amount; nft: token id *)
| SeqMint (to : addr)                              (* nft only; returns the id *)
| Burn (from : addr) (x : Z)
| BurnFrom (spender from : addr) (x : Z)
| Transfer (from to : addr) (x : Z)
| TransferFrom (spender from to : addr) (x : Z)
| Approve (owner spender : addr) (x live : Z)      (* fungible: amount; nft: token id *)
| Delegate (account delegatee : addr).

Definition is_fungible (k : kind) : bool := match k with KNft => false | _ => true end.

Definition step_f (h : header) (s : state) (auths : list addr) (c : call) : res (state * Z) :=
  match c with
  | Advance n =>
      do _ <- guard ((0 <=? n) && in_u32 (s_now s + n));
      Ok (with_now s (s_now s + n), 0)
  | Mint to amount =>
      do _ <- guard (match h_kind h with KExample => has_auth auths (h_owner h) | _ => true end);
      do s1 <- f_update s None (Some to) amount;
      do s2 <- f_votes_hook s1 None (Some to) amount;
      Ok (s2, 0)
  | SeqMint _ => Fail
  | Burn from amount =>
      do _ <- guard (match h_kind h with KExample => false | _ => true end);
      do _ <- guard (has_auth auths from);
      do s1 <- f_update s (Some from) None amount;
      do s2 <- f_votes_hook s1 (Some from) None amount;
      Ok (s2, 0)
  | BurnFrom spender from amount =>
      do _ <- guard (match h_kind h with KExample => false | _ => true end);
      do _ <- guard (has_auth auths spender);
      do s0 <- spend_allowance h s from spender amount;
      do s1 <- f_update s0 (Some from) None amount;
      do s2 <- f_votes_hook s1 (Some from) None amount;
      Ok (s2, 0)
  | Transfer from to amount =>
      do _ <- guard (has_auth auths from);
      do s1 <- f_update s (Some from) (Some to) amount;
      do s2 <- f_votes_hook s1 (Some from) (Some to) amount;
      Ok (s2, 0)
  | TransferFrom spender from to amount =>
      do _ <- guard (has_auth auths spender);
      do s0 <- spend_allowance h s from spender amount;
      do s1 <- f_update s0 (Some from) (Some to) amount;
      do s2 <- f_votes_hook s1 (Some from) (Some to) amount;
      Ok (s2, 0)
  | Approve owner spender amount live =>
      do _ <- guard (has_auth auths owner);
      do s1 <- set_allowance h s owner spender amount live;
      Ok (s1, 0)
  | Delegate account delegatee =>
      do v <- delegate (s_now s) auths (s_v s) account delegatee;
      Ok (with_v s v, 0)
  end.

(* token ids and live_until are u32 arguments: a value outside u32 cannot be passed at all *)
Definition call_arg (c : call) : Z :=
  match c with
  | Mint _ x | Burn _ x | BurnFrom _ _ x | Transfer _ _ x | TransferFrom _ _ _ x | Approve _ _ x _ => x
  | _ => 0
  end.

Definition step_n (h : header) (s : state) (auths : list addr) (c : call) : res (state * Z) :=
  do _ <- guard (in_u32 (call_arg c));
  match c with
  | Advance n =>
      do _ <- guard ((0 <=? n) && in_u32 (s_now s + n));
      Ok (with_now s (s_now s + n), 0)
  | Mint to id =>
      do s1 <- n_update s None (Some to) id;
      do s2 <- tvu s1 None (Some to) 1;
      Ok (s2, 0)
  | SeqMint to =>
      let id := s_next s in
      do nx <- of_option (checked_add_u32 id 1);
      do s1 <- n_update (with_next s nx) None (Some to) id;
      do s2 <- tvu s1 None (Some to) 1;
      Ok (s2, id)
  | Burn from id =>
      do _ <- guard (has_auth auths from);
      do s1 <- n_update s (Some from) None id;
      do s2 <- tvu s1 (Some from) None 1;
      Ok (s2, 0)
  | BurnFrom spender from id =>
      do _ <- guard (has_auth auths spender);
      do _ <- check_spender_approval s spender from id;
      do s1 <- n_update s (Some from) None id;
      do s2 <- tvu s1 (Some from) None 1;
      Ok (s2, 0)
  | Transfer from to id =>
      do _ <- guard (has_auth auths from);
      do s1 <- n_update s (Some from) (Some to) id;
      do s2 <- tvu s1 (Some from) (Some to) 1;
      Ok (s2, 0)
  | TransferFrom spender from to id =>
      do _ <- guard (has_auth auths spender);
      do _ <- check_spender_approval s spender from id;
      do s1 <- n_update s (Some from) (Some to) id;
      do s2 <- tvu s1 (Some from) (Some to) 1;
      Ok (s2, 0)
  | Approve approver approved id live =>
      do s1 <- n_approve h auths s approver approved id live;
      Ok (s1, 0)
  | Delegate account delegatee =>
      do v <- delegate (s_now s) auths (s_v s) account delegatee;
      Ok (with_v s v, 0)
  end.

Definition outcome := res Z.

(* The library footgun: `impl FungibleBurnable for T {}` on a token whose ContractType is FungibleVotes keeps the
   default bodies Base::burn / Base::burn_from - tokens are destroyed without transfer_voting_units.  This is the
   model of such a token (everything else as KFung); it is used by the trace checker for traces with h_db = true
   and by Properties/C13.v to show that units = balance fails under that wiring. *)
Definition step_db_f (h : header) (s : state) (auths : list addr) (c : call) : res (state * Z) :=
  match c with
  | Burn from amount =>
      do _ <- guard (has_auth auths from);
      do s1 <- f_update s (Some from) None amount;
      Ok (s1, 0)
  | BurnFrom spender from amount =>
      do _ <- guard (has_auth auths spender);
      do s0 <- spend_allowance h s from spender amount;
      do s1 <- f_update s0 (Some from) None amount;
      Ok (s1, 0)
  | _ => step_f h s auths c
  end.

(* one call: a failing call leaves the state unchanged (host rollback) *)
Definition step (h : header) (s : state) (auths : list addr) (c : call) : state * outcome :=
  match (if is_fungible (h_kind h) then step_f h s auths c else step_n h s auths c) with
  | Ok (s', r) => (s', Ok r)
  | Fail => (s, Fail)
  end.

Definition step_db (h : header) (s : state) (auths : list addr) (c : call) : state * outcome :=
  match step_db_f h s auths c with
  | Ok (s', r) => (s', Ok r)
  | Fail => (s, Fail)
  end.

(* ------------------------------------------------------------------ *)
(* observations: every public getter, for every account of the universe *)
(* ------------------------------------------------------------------ *)
Definition rz (r : res Z) : Z := match r with Ok v => v | Fail => -1 end.
Definition ro (r : res Z) : option Z := match r with Ok v => Some v | Fail => None end.

(* get_checkpoint(i) for i = 0 .. num-1, as (ledger, votes) *)
Definition cps_view (t : timeline) : list (Z * Z) :=
  map (fun c => (cp_ledger c, cp_votes c)) (rev t).

Record acct_obs := mkA {
  ao_bal : Z;                 (* token balance *)
  ao_units : Z;               (* get_voting_units *)
  ao_dlg : option addr;       (* get_delegate *)
  ao_votes : Z;               (* get_votes *)
  ao_cps : list (Z * Z)       (* num_checkpoints + get_checkpoint(Account, i) *)
}.
Record obs := mkO {
  o_now : Z;                              (* e.ledger().sequence() *)
  o_accts : list acct_obs;                (* account k at position k *)
  o_supply : Z;                           (* fungible total_supply() (0 for nft) *)
  o_ts : Z;                               (* get_total_supply() of the votes module *)
  o_ts_cps : list (Z * Z);                (* get_checkpoint(TotalSupply, i) *)
  o_owners : list (option addr);          (* nft owner_of(id), id at position id *)
  o_past : list (Z * list (option Z))     (* (q, [get_votes_at_checkpoint(a, q) for a] ++ [get_total_supply_at_checkpoint(q)]); None = refused *)
}.

Definition accounts (n : nat) : list addr := map N.of_nat (seq 0 n).
Definition sum_list (l : list Z) : Z := fold_right Z.add 0 l.

Definition observe_acct (s : state) (a : addr) : acct_obs :=
  mkA (balance_of s a) (units_of (s_v s) a) (delegate_of (s_v s) a)
      (rz (get_votes (s_v s) a)) (cps_view (tl_of (s_v s) a)).

Definition observe_past (h : header) (s : state) (q : Z) : Z * list (option Z) :=
  (q, map (fun a => ro (get_votes_at (s_now s) (s_v s) a q)) (accounts (h_n h))
      ++ [ro (get_total_supply_at (s_now s) (s_v s) q)]).

Definition observe (h : header) (s : state) (qs : list Z) : obs :=
  mkO (s_now s)
      (map (observe_acct s) (accounts (h_n h)))
      (s_supply s)
      (rz (get_total_supply (s_v s)))
      (cps_view (v_ts (s_v s)))
      (map (fun i => owner_of s (Z.of_nat i)) (seq 0 (h_ids h)))
      (map (observe_past h s) qs).

(* ------------------------------------------------------------------ *)
(* runs                                                                 *)
(* ------------------------------------------------------------------ *)
(* the accounts a call names (token holders, spenders, delegators, delegatees) *)
Definition call_addrs (c : call) : list addr :=
  match c with
  | Advance _ => []
  | Mint to _ => [to]
  | SeqMint to => [to]
  | Burn from _ => [from]
  | BurnFrom spender from _ => [spender; from]
  | Transfer from to _ => [from; to]
  | TransferFrom spender from to _ => [spender; from; to]
  | Approve owner spender _ _ => [owner; spender]
  | Delegate account delegatee => [account; delegatee]
  end.

(* the state after a sequence of (authorisation set, call) pairs *)
Definition run (h : header) (s : state) (cs : list (list addr * call)) : state :=
  fold_left (fun s ac => fst (step h s (fst ac) (snd ac))) cs s.

(* ------------------------------------------------------------------ *)
(* sibling entry path: a MUXED destination                              *)
(* ------------------------------------------------------------------ *)
(* FungibleToken::transfer takes `to : MuxedAddress` (an account address plus a 64-bit id that only travels in the
   event).  Balances, voting units and delegation are keyed by `to.address()`: the model of a transfer to the muxed
   address (to, mux_id) IS the transfer to `to` - the id is erased.  The harness prints such calls with this constructor,
   so the trace shows the id that was used and the checker replays the call as a plain [Transfer]. *)
Definition TransferMuxed (from to : addr) (mux_id : Z) (x : Z) : call := Transfer from to x.
