(* Model of the fungible token of packages/tokens/src/fungible (storage.rs, extensions/
   burnable, allowlist, blocklist, votes), of the vault share token (vault/storage.rs) and of
   the RWA token's balance-moving operations (rwa/storage.rs).  Shared by C01 and C02.

   Everything that moves a balance goes through [update], transcribed guard by guard from
   [Base::update]; everything that touches an allowance goes through [set_allowance] /
   [spend_allowance]; the allowance entry lives in the temporary storage of Lib/Host.v.
   Plain `+` / `-` of the Rust (overflow checks are on) are [checked_add]/[checked_sub]
   = trap when out of i128.  A failing call returns the old state ([step]). *)
From SC Require Import Lib.Prelude Lib.Int Lib.Host Model.Math.

(* ------------------------------------------------------------------------- *)
(* small finite-map helpers (own copies; Lib/Host.v has the N-keyed alist)    *)

Definition getd (l : list (N * Z)) (k : N) : Z :=
  match alist_get k l with Some v => v | None => 0 end.

Definition mem (a : addr) (l : list addr) : bool := existsb (N.eqb a) l.
Definition set_add (a : addr) (l : list addr) : list addr := if mem a l then l else a :: l.
Definition set_del (a : addr) (l : list addr) : list addr := filter (fun x => negb (N.eqb a x)) l.

Definition pkey := (addr * addr)%type.
Definition pkey_eqb (a b : pkey) : bool := N.eqb (fst a) (fst b) && N.eqb (snd a) (snd b).
Fixpoint pget {V} (k : pkey) (l : list (pkey * V)) : option V :=
  match l with
  | [] => None
  | (k', v) :: r => if pkey_eqb k k' then Some v else pget k r
  end.
Fixpoint premove {V} (k : pkey) (l : list (pkey * V)) : list (pkey * V) :=
  match l with
  | [] => []
  | (k', v) :: r => if pkey_eqb k k' then premove k r else (k', v) :: premove k r
  end.
Definition pset {V} (k : pkey) (v : V) (l : list (pkey * V)) : list (pkey * V) :=
  (k, v) :: premove k l.

Definition oaddr_eqb (a b : option addr) : bool :=
  match a, b with
  | Some x, Some y => N.eqb x y
  | None, None => true
  | _, _ => false
  end.

(* ------------------------------------------------------------------------- *)
(* events (only the ones the property names; everything else is not recorded) *)

Inductive event :=
| EMint (to : addr) (amt : Z)
| EBurn (from : addr) (amt : Z)
| ETransfer (from to : addr) (mux : option Z) (amt : Z)
| EApprove (owner spender : addr) (amt lu : Z)
| EDeposit (operator from receiver : addr) (assets shares : Z)
| EWithdraw (operator receiver owner : addr) (assets shares : Z).

(* ------------------------------------------------------------------------- *)
(* the token core: balances (persistent), total supply (instance),            *)
(* allowances (temporary entries holding AllowanceData = (amount, live_until)) *)

Record tok := {
  bals : list (addr * Z);
  supply : Z;
  allows : list (pkey * tentry (Z * Z))
}.
Definition tok0 : tok := {| bals := []; supply := 0; allows := [] |}.

Definition balance (t : tok) (a : addr) : Z := getd (bals t) a.
Definition set_bal (t : tok) (a : addr) (v : Z) : tok :=
  {| bals := alist_set a v (bals t); supply := supply t; allows := allows t |}.
Definition set_supply (t : tok) (v : Z) : tok :=
  {| bals := bals t; supply := v; allows := allows t |}.
Definition aentry (t : tok) (o s : addr) : option (tentry (Z * Z)) := pget (o, s) (allows t).
Definition set_aentry (t : tok) (o s : addr) (e : option (tentry (Z * Z))) : tok :=
  {| bals := bals t; supply := supply t;
     allows := match e with Some en => pset (o, s) en (allows t) | None => premove (o, s) (allows t) end |}.

(* Base::update *)
Definition update (t : tok) (from to : option addr) (amt : Z) : res tok :=
  do _ <- guard (0 <=? amt);                                   (* amount < 0 -> LessThanZero *)
  do t1 <- match from with
           | Some a =>
               let fb := balance t a in
               do _ <- guard (amt <=? fb);                     (* from_balance < amount -> InsufficientBalance *)
               do nb <- of_option (checked_sub fb amt);        (* from_balance -= amount   (plain -) *)
               Ok (set_bal t a nb)
           | None =>
               do ns <- of_option (checked_add (supply t) amt); (* checked_add -> MathOverflow *)
               Ok (set_supply t ns)
           end;
  match to with
  | Some a =>
      do nb <- of_option (checked_add (balance t1 a) amt);     (* Base::balance(to) + amount  (plain +) *)
      Ok (set_bal t1 a nb)
  | None =>
      do ns <- of_option (checked_sub (supply t1) amt);        (* total_supply - amount  (plain -) *)
      Ok (set_supply t1 ns)
  end.

(* Base::allowance_data: TTL-based read, then the explicit live_until < now test *)
Definition allowance_data (now : Z) (t : tok) (o s : addr) : Z * Z :=
  let d := match tget now (aentry t o s) with Some d => d | None => (0, 0) end in
  if snd d <? now then (0, 0) else d.
Definition allowance (now : Z) (t : tok) (o s : addr) : Z := fst (allowance_data now t o s).

(* Base::set_allowance *)
Definition set_allowance (hc : hostcfg) (now : Z) (t : tok) (o s : addr) (amt lu : Z) : res tok :=
  do _ <- guard (0 <=? amt);
  do _ <- guard (negb ((max_live_until hc now <? lu) || ((0 <? amt) && (lu <? now))));
  let e1 := tset hc now (aentry t o s) (amt, lu) in
  if 0 <? amt then
    let live_for := lu - now in
    do e2 <- textend hc now e1 live_for live_for;
    Ok (set_aentry t o s e2)
  else Ok (set_aentry t o s e1).

(* Base::spend_allowance *)
Definition spend_allowance (hc : hostcfg) (now : Z) (t : tok) (o s : addr) (amt : Z) : res tok :=
  do _ <- guard (0 <=? amt);
  let d := allowance_data now t o s in
  do _ <- guard (amt <=? fst d);                               (* allowance.amount < amount -> InsufficientAllowance *)
  if 0 <? amt then
    do na <- of_option (checked_sub (fst d) amt);
    set_allowance hc now t o s na (snd d)
  else Ok t.

(* the entry points of Base (storage.rs, extensions/burnable/storage.rs); [auths] is the
   set of addresses whose authorisation (for this invocation tree) is attached to the call *)
Definition require_auth (auths : list addr) (a : addr) : res unit := guard (has_auth auths a).

Definition b_approve hc now t auths o s amt lu : res (tok * list event) :=
  do _ <- require_auth auths o;
  do t' <- set_allowance hc now t o s amt lu;
  Ok (t', [EApprove o s amt lu]).
Definition b_transfer (t : tok) auths from to (mux : option Z) amt : res (tok * list event) :=
  do _ <- require_auth auths from;
  do t' <- update t (Some from) (Some to) amt;
  Ok (t', [ETransfer from to mux amt]).
Definition b_transfer_from hc now t auths sp from to amt : res (tok * list event) :=
  do _ <- require_auth auths sp;
  do t1 <- spend_allowance hc now t from sp amt;
  do t2 <- update t1 (Some from) (Some to) amt;
  Ok (t2, [ETransfer from to None amt]).
Definition b_mint (t : tok) to amt : res (tok * list event) :=
  do t' <- update t None (Some to) amt;
  Ok (t', [EMint to amt]).
Definition b_burn (t : tok) auths from amt : res (tok * list event) :=
  do _ <- require_auth auths from;
  do t' <- update t (Some from) None amt;
  Ok (t', [EBurn from amt]).
Definition b_burn_from hc now t auths sp from amt : res (tok * list event) :=
  do _ <- require_auth auths sp;
  do t1 <- spend_allowance hc now t from sp amt;
  do t2 <- update t1 (Some from) None amt;
  Ok (t2, [EBurn from amt]).

(* ------------------------------------------------------------------------- *)
(* flavours, configuration, state                                             *)

Inductive flavour := FBase | FAllow | FBlock | FVotes | FVault | FRwa.

Record cfg := {
  c_host : hostcfg;
  c_flav : flavour;
  c_self : addr;          (* the token contract's own address *)
  c_offset : Z            (* vault: virtual decimals offset *)
}.

Record state := {
  now : Z;                              (* ledger sequence *)
  tk : tok;                             (* the token under test *)
  hist : list event;                    (* ghost: every event emitted so far, oldest first *)
  listed : list addr;                   (* AllowList: allowed accounts / BlockList: blocked accounts *)
  units : list (addr * Z);              (* votes: VotingUnits *)
  deleg : list (addr * addr);           (* votes: Delegatee *)
  dvotes : list (addr * Z);             (* votes: latest delegate checkpoint *)
  tsvotes : Z;                          (* votes: latest total-supply checkpoint *)
  asset : tok;                          (* vault: the underlying asset token (a Base token) *)
  frozen : list (addr * Z);             (* rwa: FrozenTokens *)
  afrozen : list addr;                  (* rwa: AddressFrozen = true *)
  paused : bool;                        (* rwa: pausable *)
  rtarget : list (addr * addr)          (* rwa: identity verifier mock, recovery_target *)
}.

Definition init (start : Z) : state :=
  {| now := start; tk := tok0; hist := []; listed := []; units := []; deleg := []; dvotes := [];
     tsvotes := 0; asset := tok0; frozen := []; afrozen := []; paused := false; rtarget := [] |}.

Definition w_now s v := {| now := v; tk := tk s; hist := hist s; listed := listed s; units := units s; deleg := deleg s; dvotes := dvotes s; tsvotes := tsvotes s; asset := asset s; frozen := frozen s; afrozen := afrozen s; paused := paused s; rtarget := rtarget s |}.
Definition w_tk s v := {| now := now s; tk := v; hist := hist s; listed := listed s; units := units s; deleg := deleg s; dvotes := dvotes s; tsvotes := tsvotes s; asset := asset s; frozen := frozen s; afrozen := afrozen s; paused := paused s; rtarget := rtarget s |}.
Definition w_hist s v := {| now := now s; tk := tk s; hist := v; listed := listed s; units := units s; deleg := deleg s; dvotes := dvotes s; tsvotes := tsvotes s; asset := asset s; frozen := frozen s; afrozen := afrozen s; paused := paused s; rtarget := rtarget s |}.
Definition w_listed s v := {| now := now s; tk := tk s; hist := hist s; listed := v; units := units s; deleg := deleg s; dvotes := dvotes s; tsvotes := tsvotes s; asset := asset s; frozen := frozen s; afrozen := afrozen s; paused := paused s; rtarget := rtarget s |}.
Definition w_units s v := {| now := now s; tk := tk s; hist := hist s; listed := listed s; units := v; deleg := deleg s; dvotes := dvotes s; tsvotes := tsvotes s; asset := asset s; frozen := frozen s; afrozen := afrozen s; paused := paused s; rtarget := rtarget s |}.
Definition w_deleg s v := {| now := now s; tk := tk s; hist := hist s; listed := listed s; units := units s; deleg := v; dvotes := dvotes s; tsvotes := tsvotes s; asset := asset s; frozen := frozen s; afrozen := afrozen s; paused := paused s; rtarget := rtarget s |}.
Definition w_dvotes s v := {| now := now s; tk := tk s; hist := hist s; listed := listed s; units := units s; deleg := deleg s; dvotes := v; tsvotes := tsvotes s; asset := asset s; frozen := frozen s; afrozen := afrozen s; paused := paused s; rtarget := rtarget s |}.
Definition w_tsvotes s v := {| now := now s; tk := tk s; hist := hist s; listed := listed s; units := units s; deleg := deleg s; dvotes := dvotes s; tsvotes := v; asset := asset s; frozen := frozen s; afrozen := afrozen s; paused := paused s; rtarget := rtarget s |}.
Definition w_asset s v := {| now := now s; tk := tk s; hist := hist s; listed := listed s; units := units s; deleg := deleg s; dvotes := dvotes s; tsvotes := tsvotes s; asset := v; frozen := frozen s; afrozen := afrozen s; paused := paused s; rtarget := rtarget s |}.
Definition w_frozen s v := {| now := now s; tk := tk s; hist := hist s; listed := listed s; units := units s; deleg := deleg s; dvotes := dvotes s; tsvotes := tsvotes s; asset := asset s; frozen := v; afrozen := afrozen s; paused := paused s; rtarget := rtarget s |}.
Definition w_afrozen s v := {| now := now s; tk := tk s; hist := hist s; listed := listed s; units := units s; deleg := deleg s; dvotes := dvotes s; tsvotes := tsvotes s; asset := asset s; frozen := frozen s; afrozen := v; paused := paused s; rtarget := rtarget s |}.
Definition w_paused s v := {| now := now s; tk := tk s; hist := hist s; listed := listed s; units := units s; deleg := deleg s; dvotes := dvotes s; tsvotes := tsvotes s; asset := asset s; frozen := frozen s; afrozen := afrozen s; paused := v; rtarget := rtarget s |}.
Definition w_rtarget s v := {| now := now s; tk := tk s; hist := hist s; listed := listed s; units := units s; deleg := deleg s; dvotes := dvotes s; tsvotes := tsvotes s; asset := asset s; frozen := frozen s; afrozen := afrozen s; paused := paused s; rtarget := v |}.

(* ------------------------------------------------------------------------- *)
(* calls                                                                       *)

Inductive call :=
| Advance (n : Z)                                                   (* ledger sequence += n *)
(* the fungible entry points (every flavour that has them) *)
| Mint (to : addr) (amt : Z)
| Transfer (auths : list addr) (from to : addr) (mux : option Z) (amt : Z)
| TransferFrom (auths : list addr) (spender from to : addr) (amt : Z)
| Approve (auths : list addr) (owner spender : addr) (amt lu : Z)
| Burn (auths : list addr) (from : addr) (amt : Z)
| BurnFrom (auths : list addr) (spender from : addr) (amt : Z)
(* getters through the real entry points *)
| QBalance (a : addr) | QSupply | QAllowance (o s : addr)
(* allow / block list administration: allow_user/disallow_user, block_user/unblock_user *)
| SetListed (a : addr) (b : bool)
(* votes *)
| Delegate (auths : list addr) (a d : addr)
(* vault *)
| VDeposit (auths sub : list addr) (assets : Z) (receiver from operator : addr)   (* sub: signers whose authorisation also covers the nested asset-token call *)
| VMint (auths sub : list addr) (shares : Z) (receiver from operator : addr)
| VWithdraw (auths : list addr) (assets : Z) (receiver owner operator : addr)
| VRedeem (auths : list addr) (shares : Z) (receiver owner operator : addr)
| AssetMint (to : addr) (amt : Z)
| AssetApprove (auths : list addr) (owner spender : addr) (amt lu : Z)
(* RWA supervisory operations (library level: no operator argument) and mock controls *)
| RForcedTransfer (from to : addr) (amt : Z)
| RBurn (a : addr) (amt : Z)
| RRecover (old new : addr)
| RFreeze (a : addr) (amt : Z)
| RUnfreeze (a : addr) (amt : Z)
| RSetFrozen (a : addr) (b : bool)
| RPause (b : bool)
| RSetRecovery (old new : addr).

(* ------------------------------------------------------------------------- *)
(* flavour gates (extensions/allowlist, blocklist) *)

Definition gate (c : cfg) (s : state) (who : list addr) : res unit :=
  match c_flav c with
  | FAllow => guard (forallb (fun a => mem a (listed s)) who)
  | FBlock => guard (forallb (fun a => negb (mem a (listed s))) who)
  | _ => Ok tt
  end.

(* ------------------------------------------------------------------------- *)
(* votes (packages/governance/src/votes/storage.rs): only what decides ok/fail *)

Definition get_delegate (s : state) (a : addr) : option addr := alist_get a (deleg s).
Definition cp_apply (prev : Z) (add : bool) (delta : Z) : res Z :=
  of_option (if add then checked_add_u128 prev delta else checked_sub_u128 prev delta).

Definition move_delegate_votes (s : state) (from to : option addr) (amt : Z) : res state :=
  if amt =? 0 then Ok s
  else if oaddr_eqb from to then Ok s
  else
    do s1 <- match from with
             | Some f => do v <- cp_apply (getd (dvotes s) f) false amt; Ok (w_dvotes s (alist_set f v (dvotes s)))
             | None => Ok s
             end;
    match to with
    | Some t => do v <- cp_apply (getd (dvotes s1) t) true amt; Ok (w_dvotes s1 (alist_set t v (dvotes s1)))
    | None => Ok s1
    end.

Definition bind_opt {A B} (o : option A) (f : A -> option B) : option B :=
  match o with Some a => f a | None => None end.

Definition transfer_voting_units (s : state) (from to : option addr) (amt : Z) : res state :=
  if amt =? 0 then Ok s
  else
    let fd := bind_opt from (get_delegate s) in
    let td := bind_opt to (get_delegate s) in
    do s1 <- match from with
             | Some f =>
                 do nu <- of_option (checked_sub_u128 (getd (units s) f) amt);
                 Ok (w_units s (alist_set f nu (units s)))
             | None => do v <- cp_apply (tsvotes s) true amt; Ok (w_tsvotes s v)
             end;
    do s2 <- match to with
             | Some t =>
                 do nu <- of_option (checked_add_u128 (getd (units s1) t) amt);
                 Ok (w_units s1 (alist_set t nu (units s1)))
             | None => do v <- cp_apply (tsvotes s1) false amt; Ok (w_tsvotes s1 v)
             end;
    move_delegate_votes s2 fd td amt.

(* FungibleVotes::* : `if amount > 0 { transfer_voting_units(..) }` after the Base call *)
Definition votes_hook (c : cfg) (s : state) (from to : option addr) (amt : Z) : res state :=
  match c_flav c with
  | FVotes => if 0 <? amt then transfer_voting_units s from to amt else Ok s
  | _ => Ok s
  end.

Definition do_delegate (s : state) (auths : list addr) (a d : addr) : res state :=
  do _ <- require_auth auths a;
  let old := get_delegate s a in
  do _ <- guard (negb (oaddr_eqb old (Some d)));
  let s1 := w_deleg s (alist_set a d (deleg s)) in
  move_delegate_votes s1 old (Some d) (getd (units s1) a).

(* ------------------------------------------------------------------------- *)
(* vault (packages/tokens/src/vault/storage.rs) *)

Definition total_assets (c : cfg) (s : state) : Z := balance (asset s) (c_self c).
Definition pow10 (off : Z) : res Z := of_option (fit128 (10 ^ off)).

Definition conv_to_shares (c : cfg) (s : state) (assets : Z) (rd : rounding) : res Z :=
  do _ <- guard (0 <=? assets);
  if assets =? 0 then Ok 0
  else
    do pw <- pow10 (c_offset c);
    do y <- of_option (checked_add (supply (tk s)) pw);
    do d <- of_option (checked_add (total_assets c s) 1);
    mul_div128 rd assets y d.

Definition conv_to_assets (c : cfg) (s : state) (shares : Z) (rd : rounding) : res Z :=
  do _ <- guard (0 <=? shares);
  if shares =? 0 then Ok 0
  else
    do y <- of_option (checked_add (total_assets c s) 1);
    do pw <- pow10 (c_offset c);
    do d <- of_option (checked_add (supply (tk s)) pw);
    mul_div128 rd shares y d.

(* deposit_internal: pull the assets (asset token = a Base token; the nested require_auth inside the
   token's frame is answered by [auths] = the signers whose authorisation entry contains the nested
   sub-invocation), then mint shares *)
Definition deposit_internal (c : cfg) (s : state) auths (receiver : addr) (assets shares : Z) (from operator : addr)
  : res state :=
  do '(a', _) <- (if N.eqb operator from
                  then b_transfer (asset s) auths from (c_self c) None assets
                  else b_transfer_from (c_host c) (now s) (asset s) auths operator from (c_self c) assets);
  do t' <- update (tk s) None (Some receiver) shares;
  Ok (w_tk (w_asset s a') t').

Definition withdraw_internal (c : cfg) (s : state) (receiver owner : addr) (assets shares : Z) (operator : addr)
  : res state :=
  do t1 <- (if N.eqb operator owner then Ok (tk s)
            else spend_allowance (c_host c) (now s) (tk s) owner operator shares);
  do t2 <- update t1 (Some owner) None shares;
  (* token_client.transfer(&e.current_contract_address(), receiver, &assets): the vault authorises itself *)
  do '(a', _) <- b_transfer (asset s) [c_self c] (c_self c) receiver None assets;
  Ok (w_tk (w_asset s a') t2).

(* ------------------------------------------------------------------------- *)
(* RWA (packages/tokens/src/rwa/storage.rs) with permissive compliance / identity mocks *)

Definition frozen_of (s : state) (a : addr) : Z := getd (frozen s) a.
Definition is_frozen (s : state) (a : addr) : bool := mem a (afrozen s).
Definition free_tokens (s : state) (a : addr) : res Z :=
  of_option (checked_sub (balance (tk s) a) (frozen_of s a)).

Definition validate_transfer (s : state) (from to : addr) (amt : Z) : res unit :=
  do _ <- guard (negb (paused s));
  do _ <- guard (negb (is_frozen s from || is_frozen s to));
  do fr <- free_tokens s from;
  guard (amt <=? fr).
  (* verify_identity(from/to), can_transfer: permissive mocks *)

(* the unfreeze-as-needed prologue shared by forced_transfer and burn *)
Definition unfreeze_for (s : state) (a : addr) (amt : Z) : res state :=
  do fr <- free_tokens s a;
  if fr <? amt then
    do tu <- of_option (checked_sub amt fr);
    do nf <- of_option (checked_sub (frozen_of s a) tu);
    Ok (w_frozen s (alist_set a nf (frozen s)))
  else Ok s.

Definition forced_transfer (s : state) (from to : addr) (amt : Z) : res (state * list event) :=
  do _ <- guard (amt <=? balance (tk s) from);
  do s1 <- unfreeze_for s from amt;
  do t' <- update (tk s1) (Some from) (Some to) amt;
  Ok (w_tk s1 t', [ETransfer from to None amt]).

Definition freeze_partial (s : state) (a : addr) (amt : Z) : res state :=
  do _ <- guard (0 <=? amt);
  do nf <- of_option (checked_add (frozen_of s a) amt);
  do _ <- guard (nf <=? balance (tk s) a);
  Ok (w_frozen s (alist_set a nf (frozen s))).

Definition unfreeze_partial (s : state) (a : addr) (amt : Z) : res state :=
  do _ <- guard (0 <=? amt);
  do _ <- guard (amt <=? frozen_of s a);
  do nf <- of_option (checked_sub (frozen_of s a) amt);
  Ok (w_frozen s (alist_set a nf (frozen s))).

(* ------------------------------------------------------------------------- *)
(* one call: [exec] returns the new state, the returned value (0 for unit, 0/1 for bool)
   and the events emitted by the token contract *)

Definition ret (s : state) (v : Z) (evs : list event) : res (state * Z * list event) := Ok (s, v, evs).

Definition is_std (f : flavour) : bool :=      (* flavours that expose burn / burn_from *)
  match f with FBase | FAllow | FBlock | FVotes => true | _ => false end.

Definition exec (c : cfg) (s : state) (cl : call) : res (state * Z * list event) :=
  let hc := c_host c in
  let fl := c_flav c in
  match cl with
  | Advance n =>
      do _ <- guard ((0 <=? n) && in_u32 (now s + n));
      ret (w_now s (now s + n)) 0 []
  | QBalance a => ret s (balance (tk s) a) []
  | QSupply => ret s (supply (tk s)) []
  | QAllowance o sp => ret s (allowance (now s) (tk s) o sp) []
  | Mint to amt =>
      match fl with
      | FVault => Fail                                       (* the vault has no free mint *)
      | _ =>
          (* RWA::mint: verify_identity(to), can_create: permissive mocks *)
          do '(t', evs) <- b_mint (tk s) to amt;
          do s' <- votes_hook c (w_tk s t') None (Some to) amt;
          ret s' 0 evs
      end
  | Transfer auths from to mux amt =>
      match fl with
      | FRwa =>
          (* RWA::transfer(from, to.address(), amount) *)
          do _ <- require_auth auths from;
          do _ <- validate_transfer s from to amt;
          do t' <- update (tk s) (Some from) (Some to) amt;
          ret (w_tk s t') 0 [ETransfer from to None amt]
      | _ =>
          do _ <- gate c s [from; to];
          do '(t', evs) <- b_transfer (tk s) auths from to mux amt;
          do s' <- votes_hook c (w_tk s t') (Some from) (Some to) amt;
          ret s' 0 evs
      end
  | TransferFrom auths sp from to amt =>
      match fl with
      | FRwa =>
          do _ <- require_auth auths sp;
          do _ <- validate_transfer s from to amt;
          do t1 <- spend_allowance hc (now s) (tk s) from sp amt;
          do t2 <- update t1 (Some from) (Some to) amt;
          ret (w_tk s t2) 0 [ETransfer from to None amt]
      | _ =>
          do _ <- gate c s [from; to];
          do '(t', evs) <- b_transfer_from hc (now s) (tk s) auths sp from to amt;
          do s' <- votes_hook c (w_tk s t') (Some from) (Some to) amt;
          ret s' 0 evs
      end
  | Approve auths o sp amt lu =>
      do _ <- gate c s [o];
      do '(t', evs) <- b_approve hc (now s) (tk s) auths o sp amt lu;
      ret (w_tk s t') 0 evs
  | Burn auths from amt =>
      if is_std fl then
        do _ <- gate c s [from];
        do '(t', evs) <- b_burn (tk s) auths from amt;
        do s' <- votes_hook c (w_tk s t') (Some from) None amt;
        ret s' 0 evs
      else Fail
  | BurnFrom auths sp from amt =>
      if is_std fl then
        do _ <- gate c s [from];
        do '(t', evs) <- b_burn_from hc (now s) (tk s) auths sp from amt;
        do s' <- votes_hook c (w_tk s t') (Some from) None amt;
        ret s' 0 evs
      else Fail
  | SetListed a b =>
      match fl with
      | FAllow | FBlock => ret (w_listed s (if b then set_add a (listed s) else set_del a (listed s))) 0 []
      | _ => Fail
      end
  | Delegate auths a d =>
      match fl with
      | FVotes => do s' <- do_delegate s auths a d; ret s' 0 []
      | _ => Fail
      end
  | VDeposit auths sub assets receiver from operator =>
      match fl with
      | FVault =>
          do _ <- require_auth auths operator;
          (* assets > max_deposit = i128::MAX: impossible *)
          do shares <- conv_to_shares c s assets Floor;
          do s' <- deposit_internal c s sub receiver assets shares from operator;
          ret s' shares [EDeposit operator from receiver assets shares]
      | _ => Fail
      end
  | VMint auths sub shares receiver from operator =>
      match fl with
      | FVault =>
          do _ <- require_auth auths operator;
          do assets <- conv_to_assets c s shares Ceil;
          do s' <- deposit_internal c s sub receiver assets shares from operator;
          ret s' assets [EDeposit operator from receiver assets shares]
      | _ => Fail
      end
  | VWithdraw auths assets receiver owner operator =>
      match fl with
      | FVault =>
          do _ <- require_auth auths operator;
          do maxa <- conv_to_assets c s (balance (tk s) owner) Floor;
          do _ <- guard (assets <=? maxa);
          do shares <- conv_to_shares c s assets Ceil;
          do s' <- withdraw_internal c s receiver owner assets shares operator;
          ret s' shares [EWithdraw operator receiver owner assets shares]
      | _ => Fail
      end
  | VRedeem auths shares receiver owner operator =>
      match fl with
      | FVault =>
          do _ <- require_auth auths operator;
          do _ <- guard (shares <=? balance (tk s) owner);
          do assets <- conv_to_assets c s shares Floor;
          do s' <- withdraw_internal c s receiver owner assets shares operator;
          ret s' assets [EWithdraw operator receiver owner assets shares]
      | _ => Fail
      end
  | AssetMint to amt =>
      match fl with
      | FVault => do '(a', _) <- b_mint (asset s) to amt; ret (w_asset s a') 0 []
      | _ => Fail
      end
  | AssetApprove auths o sp amt lu =>
      match fl with
      | FVault => do '(a', _) <- b_approve hc (now s) (asset s) auths o sp amt lu; ret (w_asset s a') 0 []
      | _ => Fail
      end
  | RForcedTransfer from to amt =>
      match fl with
      | FRwa => do '(s', evs) <- forced_transfer s from to amt; ret s' 0 evs
      | _ => Fail
      end
  | RBurn a amt =>
      match fl with
      | FRwa =>
          do _ <- guard (amt <=? balance (tk s) a);
          do s1 <- unfreeze_for s a amt;
          do t' <- update (tk s1) (Some a) None amt;
          ret (w_tk s1 t') 0 [EBurn a amt]
      | _ => Fail
      end
  | RRecover old new =>
      match fl with
      | FRwa =>
          do tgt <- of_option (alist_get old (rtarget s));
          do _ <- guard (N.eqb tgt new);
          let lost := balance (tk s) old in
          if lost =? 0 then ret s 0 []
          else
            let fz := frozen_of s old in
            let af := is_frozen s old in
            do '(s1, evs) <- forced_transfer s old new lost;
            do s2 <- (if 0 <? fz then freeze_partial s1 new fz else Ok s1);
            let s3 := if af then w_afrozen s2 (set_add new (afrozen s2)) else s2 in
            ret s3 1 evs
      | _ => Fail
      end
  | RFreeze a amt =>
      match fl with FRwa => do s' <- freeze_partial s a amt; ret s' 0 [] | _ => Fail end
  | RUnfreeze a amt =>
      match fl with FRwa => do s' <- unfreeze_partial s a amt; ret s' 0 [] | _ => Fail end
  | RSetFrozen a b =>
      match fl with
      | FRwa => ret (w_afrozen s (if b then set_add a (afrozen s) else set_del a (afrozen s))) 0 []
      | _ => Fail
      end
  | RPause b =>
      match fl with
      | FRwa => do _ <- guard (negb (Bool.eqb (paused s) b)); ret (w_paused s b) 0 []
      | _ => Fail
      end
  | RSetRecovery old new =>
      match fl with
      | FRwa => ret (w_rtarget s (alist_set old new (rtarget s))) 0 []
      | _ => Fail
      end
  end.

Definition outcome := res Z.

(* a failing call leaves no trace (host rollback) *)
Definition step (c : cfg) (s : state) (cl : call) : state * outcome * list event :=
  match exec c s cl with
  | Ok (s', v, evs) => (w_hist s' (hist s ++ evs), Ok v, evs)
  | Fail => (s, Fail, [])
  end.

Definition step_state c s cl : state := fst (fst (step c s cl)).
Definition run (c : cfg) (s : state) (cs : list call) : state := fold_left (step_state c) cs s.

(* ------------------------------------------------------------------------- *)
(* vocabulary of the properties: balance movements, event replay, sums          *)

Definition credit (f : addr -> Z) (a : addr) (v : Z) : addr -> Z := fun x => if N.eqb x a then f x + v else f x.
Definition ocredit (f : addr -> Z) (o : option addr) (v : Z) : addr -> Z :=
  match o with Some a => credit f a v | None => f end.
Definition is_none {A} (o : option A) : bool := match o with None => true | Some _ => false end.

(* a movement (from, to, amount): None = mint / burn side *)
Definition move := (option addr * option addr * Z)%type.
Definition no_move : move := (None, None, 0).
Definition ledger := ((addr -> Z) * Z)%type.          (* balances, supply *)
Definition apply_move (l : ledger) (m : move) : ledger :=
  let '(f, t, amt) := m in
  (ocredit (ocredit (fst l) f (- amt)) t amt,
   snd l + (if is_none f then amt else 0) - (if is_none t then amt else 0)).

(* what an emitted event says happened (deposit / withdraw are the vault's mint / burn of shares) *)
Definition ev_move (e : event) : move :=
  match e with
  | EMint to amt => (None, Some to, amt)
  | EBurn from amt => (Some from, None, amt)
  | ETransfer from to _ amt => (Some from, Some to, amt)
  | EApprove _ _ _ _ => no_move
  | EDeposit _ _ receiver _ shares => (None, Some receiver, shares)
  | EWithdraw _ _ owner _ shares => (Some owner, None, shares)
  end.
Definition apply_event (l : ledger) (e : event) : ledger := apply_move l (ev_move e).
Definition ledger0 : ledger := (fun _ => 0, 0).
(* replaying the emitted events from genesis *)
Definition replay (evs : list event) : ledger := fold_left apply_event evs ledger0.

Fixpoint sum_over (f : N -> Z) (u : list N) : Z := match u with [] => 0 | a :: r => f a + sum_over f r end.
