(* C16 - gates: pause, allow/block lists, supply cap, migration flag.

   Executable model of
     packages/contract-utils/src/pausable/storage.rs      (paused, pause, unpause, when_[not_]paused)
     packages/macros/src/pausable.rs                      (#[when_not_paused] = check inserted first)
     packages/tokens/src/fungible/extensions/allowlist/storage.rs
     packages/tokens/src/fungible/extensions/blocklist/storage.rs
     packages/tokens/src/fungible/extensions/capped/storage.rs
     packages/contract-utils/src/upgradeable/storage.rs   (migration flag)
     packages/macros/src/upgradeable.rs                   (derive Upgradeable / UpgradeableMigratable)
   over a minimal fungible core transcribed from packages/tokens/src/fungible/storage.rs and
   extensions/burnable/storage.rs, and of the entry points of the four example contracts
     examples/fungible-{pausable,allowlist,blocklist,capped}/src/contract.rs
   plus the harness contracts that call every library override directly (harness/src/bin/c16.rs).

   One [state] record serves every contract kind; a kind only ever touches its own fields.
   Failing calls return the old state ([step]). Error codes are not modelled. *)
From SC Require Import Lib.Prelude Lib.Int Lib.Host.

(* ------------------------------------------------------------------ *)
(* contract kinds                                                      *)
Inductive kind :=
| KPaus       (* examples/fungible-pausable *)
| KPausEx     (* examples/pausable: counter with increment under #[when_not_paused], emergency_reset under #[when_paused] *)
| KPausLib    (* harness contract: pausable::{pause,unpause} + one entry point under each of #[when_not_paused] / #[when_paused] *)
| KAllowEx    (* examples/fungible-allowlist (burn wired to AllowList::burn: the fixed tree) *)
| KAllowLib   (* harness contract calling AllowList::{transfer,transfer_from,approve,burn,burn_from,allow_user,disallow_user} *)
| KBlockEx    (* examples/fungible-blocklist (has no burn entry points) *)
| KBlockLib   (* harness contract calling every BlockList::* function *)
| KCapEx      (* examples/fungible-capped *)
| KCapLib     (* harness contract: set_cap / check_cap + Base::mint / Base burn *)
| KUpgV1      (* examples/upgradeable/v1 (#[derive(Upgradeable)]); after its first successful upgrade the address
                 runs examples/upgradeable/v2 (#[derive(UpgradeableMigratable)]) *)
| KUpgV2      (* harness contract with #[derive(UpgradeableMigratable)] *)
| KUpgLib.    (* harness contract exposing enable_migration / complete_migration / ensure_can_complete_migration *)

Definition kind_eqb (a b : kind) : bool :=
  match a, b with
  | KPaus, KPaus | KPausEx, KPausEx | KPausLib, KPausLib | KAllowEx, KAllowEx | KAllowLib, KAllowLib | KBlockEx, KBlockEx
  | KBlockLib, KBlockLib | KCapEx, KCapEx | KCapLib, KCapLib | KUpgV1, KUpgV1
  | KUpgV2, KUpgV2 | KUpgLib, KUpgLib => true
  | _, _ => false
  end.

Definition is_allow (k : kind) : bool := match k with KAllowEx | KAllowLib => true | _ => false end.
Definition is_block (k : kind) : bool := match k with KBlockEx | KBlockLib => true | _ => false end.
Definition is_cap (k : kind) : bool := match k with KCapEx | KCapLib => true | _ => false end.
Definition is_upg (k : kind) : bool := match k with KUpgV1 | KUpgV2 | KUpgLib => true | _ => false end.

(* configuration of one deployed contract = constructor arguments + host parameters *)
Record cfg := mkCfg {
  knd : kind;
  na : nat;            (* size of the address universe 0 .. na-1 that is observed *)
  owner : addr;        (* pausable: OWNER; allow/block list: admin (receives the initial supply); upgradeable: OWNER *)
  manager : addr;      (* allow/block list: holder of the "manager" role *)
  max_ttl : Z;         (* host max_entry_ttl *)
  init_supply : Z;     (* constructor argument initial_supply (pausable, allow/block list examples) *)
  init_cap : Z;        (* constructor argument cap (capped example) *)
  now0 : Z             (* ledger sequence at deployment *)
}.

(* ------------------------------------------------------------------ *)
(* state                                                               *)
Record state := mkState {
  now : Z;
  supply : Z;
  bal : addr -> Z;
  alw : addr -> addr -> Z * Z;      (* owner, spender -> (amount, live_until_ledger) as stored *)
  paused : bool;
  allowed : addr -> bool;
  blocked : addr -> bool;
  cap : option Z;
  migrating : bool;
  mdata : option Z;                 (* what _migrate stored *)
  mgr : addr -> bool                (* allow/block-list examples: holders of the "manager" role *)
}.

Definition updZ (f : addr -> Z) (a : addr) (v : Z) : addr -> Z := fun x => if N.eqb x a then v else f x.
Definition updB (f : addr -> bool) (a : addr) (v : bool) : addr -> bool := fun x => if N.eqb x a then v else f x.
Definition upd2 (f : addr -> addr -> Z * Z) (a b : addr) (v : Z * Z) : addr -> addr -> Z * Z :=
  fun x y => if N.eqb x a && N.eqb y b then v else f x y.

Definition set_now s v := mkState v (supply s) (bal s) (alw s) (paused s) (allowed s) (blocked s) (cap s) (migrating s) (mdata s) (mgr s).
Definition set_supply s v := mkState (now s) v (bal s) (alw s) (paused s) (allowed s) (blocked s) (cap s) (migrating s) (mdata s) (mgr s).
Definition set_bal s a v := mkState (now s) (supply s) (updZ (bal s) a v) (alw s) (paused s) (allowed s) (blocked s) (cap s) (migrating s) (mdata s) (mgr s).
Definition set_alw s o sp v := mkState (now s) (supply s) (bal s) (upd2 (alw s) o sp v) (paused s) (allowed s) (blocked s) (cap s) (migrating s) (mdata s) (mgr s).
Definition set_paused s v := mkState (now s) (supply s) (bal s) (alw s) v (allowed s) (blocked s) (cap s) (migrating s) (mdata s) (mgr s).
Definition set_allowed s a v := mkState (now s) (supply s) (bal s) (alw s) (paused s) (updB (allowed s) a v) (blocked s) (cap s) (migrating s) (mdata s) (mgr s).
Definition set_blocked s a v := mkState (now s) (supply s) (bal s) (alw s) (paused s) (allowed s) (updB (blocked s) a v) (cap s) (migrating s) (mdata s) (mgr s).
Definition set_capv s v := mkState (now s) (supply s) (bal s) (alw s) (paused s) (allowed s) (blocked s) v (migrating s) (mdata s) (mgr s).
Definition set_mig s v := mkState (now s) (supply s) (bal s) (alw s) (paused s) (allowed s) (blocked s) (cap s) v (mdata s) (mgr s).
Definition set_mgr s a v := mkState (now s) (supply s) (bal s) (alw s) (paused s) (allowed s) (blocked s) (cap s) (migrating s) (mdata s) (updB (mgr s) a v).
Definition set_mdata s v := mkState (now s) (supply s) (bal s) (alw s) (paused s) (allowed s) (blocked s) (cap s) (migrating s) v (mgr s).

(* ------------------------------------------------------------------ *)
(* calls                                                               *)
Inductive op :=
| Advance (n : Z)                                  (* ledger sequence += n (not a contract call) *)
| Transfer (from to : addr) (amt : Z)
| TransferMux (from to : addr) (id : Z) (amt : Z)  (* transfer whose `to` is a MuxedAddress (to, id): the token code
                                                      only ever uses to.address(); the id goes into the event *)
| TransferFrom (spender from to : addr) (amt : Z)
| Approve (ow spender : addr) (amt live_until : Z)
| Burn (from : addr) (amt : Z)
| BurnFrom (spender from : addr) (amt : Z)
| Mint (to : addr) (amt : Z)
| Pause (caller : addr)
| Unpause (caller : addr)
| AllowUser (user operator : addr)                 (* operator is ignored by the Lib kinds *)
| DisallowUser (user operator : addr)
| BlockUser (user operator : addr)
| UnblockUser (user operator : addr)
| SetCap (c : Z)
| Upgrade (wasm_ok : bool) (operator : addr)       (* wasm_ok: the hash names an uploaded wasm (host input) *)
| Migrate (data : Z) (operator : addr)
| LibEnable | LibComplete | LibEnsure
| WhenNotPaused | WhenPaused
| GrantManager (account caller : addr)             (* AccessControl::grant_role(account, "manager", caller) *)
| RevokeManager (account caller : addr)            (* AccessControl::revoke_role(account, "manager", caller) *)
| RenounceManager (caller : addr).                 (* AccessControl::renounce_role("manager", caller) *)                      (* empty entry points under #[when_not_paused] / #[when_paused] *)

(* a call = entry point with arguments + the set of addresses whose authorisation is attached *)
Definition call := (op * list addr)%type.

Definition require_auth (au : list addr) (a : addr) : res unit := guard (has_auth au a).

(* ------------------------------------------------------------------ *)
(* fungible core: packages/tokens/src/fungible/storage.rs              *)

(* Base::allowance_data: temporary entry, (0,0) when absent/expired or live_until < now.
   (The host entry of a positive allowance always outlives its live_until_ledger:
   set_allowance extends it to exactly that ledger and the host never shrinks a TTL;
   an entry with amount 0 reads as amount 0 whether or not the host still has it.) *)
Definition allowance_data (s : state) (o sp : addr) : Z * Z :=
  let '(a, lu) := alw s o sp in if lu <? now s then (0, 0) else (a, lu).
Definition allowance (s : state) (o sp : addr) : Z := fst (allowance_data s o sp).

(* e.ledger().max_live_until_ledger() *)
Definition max_live (c : cfg) (s : state) : Z := now s + max_ttl c - 1.

(* Base::set_allowance *)
Definition set_allowance (c : cfg) (s : state) (o sp : addr) (amt lu : Z) : res state :=
  do _ <- guard (negb (amt <? 0));
  do _ <- guard (negb ((max_live c s <? lu) || ((0 <? amt) && (lu <? now s))));
  Ok (set_alw s o sp (amt, lu)).

(* Base::approve *)
Definition base_approve (c : cfg) (s : state) (au : list addr) (o sp : addr) (amt lu : Z) : res state :=
  do _ <- require_auth au o;
  set_allowance c s o sp amt lu.

(* Base::spend_allowance *)
Definition spend_allowance (c : cfg) (s : state) (o sp : addr) (amt : Z) : res state :=
  do _ <- guard (negb (amt <? 0));
  let '(a, lu) := allowance_data s o sp in
  do _ <- guard (negb (a <? amt));
  if 0 <? amt then
    do na <- of_option (checked_sub a amt);     (* plain `-`, overflow checks on *)
    set_allowance c s o sp na lu
  else Ok s.

(* Base::update *)
Definition update (s : state) (from to : option addr) (amt : Z) : res state :=
  do _ <- guard (negb (amt <? 0));
  do s1 <- match from with
           | Some a =>
               do _ <- guard (negb (bal s a <? amt));
               do nb <- of_option (checked_sub (bal s a) amt);
               Ok (set_bal s a nb)
           | None =>
               do ns <- of_option (checked_add (supply s) amt);
               Ok (set_supply s ns)
           end;
  match to with
  | Some a =>
      do nb <- of_option (checked_add (bal s1 a) amt);   (* plain `+` *)
      Ok (set_bal s1 a nb)
  | None =>
      do ns <- of_option (checked_sub (supply s1) amt);  (* plain `-` *)
      Ok (set_supply s1 ns)
  end.

Definition base_transfer (s : state) (au : list addr) (f t : addr) (amt : Z) : res state :=
  do _ <- require_auth au f;
  update s (Some f) (Some t) amt.

Definition base_transfer_from (c : cfg) (s : state) (au : list addr) (sp f t : addr) (amt : Z) : res state :=
  do _ <- require_auth au sp;
  do s1 <- spend_allowance c s f sp amt;
  update s1 (Some f) (Some t) amt.

Definition base_mint (s : state) (t : addr) (amt : Z) : res state := update s None (Some t) amt.

(* extensions/burnable/storage.rs *)
Definition base_burn (s : state) (au : list addr) (f : addr) (amt : Z) : res state :=
  do _ <- require_auth au f;
  update s (Some f) None amt.

Definition base_burn_from (c : cfg) (s : state) (au : list addr) (sp f : addr) (amt : Z) : res state :=
  do _ <- require_auth au sp;
  do s1 <- spend_allowance c s f sp amt;
  update s1 (Some f) None amt.

(* ------------------------------------------------------------------ *)
(* pausable/storage.rs                                                 *)
Definition when_not_paused (s : state) : res unit := guard (negb (paused s)).
Definition when_paused (s : state) : res unit := guard (paused s).
Definition pause (s : state) : res state := do _ <- when_not_paused s; Ok (set_paused s true).
Definition unpause (s : state) : res state := do _ <- when_paused s; Ok (set_paused s false).

(* ------------------------------------------------------------------ *)
(* allowlist/storage.rs                                                *)
Definition allow_user (s : state) (u : addr) : state := if allowed s u then s else set_allowed s u true.
Definition disallow_user (s : state) (u : addr) : state := if allowed s u then set_allowed s u false else s.

Definition al_transfer (s : state) au f t amt : res state :=
  do _ <- guard (negb (negb (allowed s f) || negb (allowed s t)));
  base_transfer s au f t amt.
Definition al_transfer_from c (s : state) au sp f t amt : res state :=
  do _ <- guard (negb (negb (allowed s f) || negb (allowed s t)));
  base_transfer_from c s au sp f t amt.
Definition al_approve c (s : state) au o sp amt lu : res state :=
  do _ <- guard (negb (negb (allowed s o)));
  base_approve c s au o sp amt lu.
Definition al_burn (s : state) au f amt : res state :=
  do _ <- guard (negb (negb (allowed s f)));
  base_burn s au f amt.
Definition al_burn_from c (s : state) au sp f amt : res state :=
  do _ <- guard (negb (negb (allowed s f)));
  base_burn_from c s au sp f amt.

(* blocklist/storage.rs *)
Definition block_user (s : state) (u : addr) : state := if blocked s u then s else set_blocked s u true.
Definition unblock_user (s : state) (u : addr) : state := if blocked s u then set_blocked s u false else s.

Definition bl_transfer (s : state) au f t amt : res state :=
  do _ <- guard (negb (blocked s f || blocked s t));
  base_transfer s au f t amt.
Definition bl_transfer_from c (s : state) au sp f t amt : res state :=
  do _ <- guard (negb (blocked s f || blocked s t));
  base_transfer_from c s au sp f t amt.
Definition bl_approve c (s : state) au o sp amt lu : res state :=
  do _ <- guard (negb (blocked s o));
  base_approve c s au o sp amt lu.
Definition bl_burn (s : state) au f amt : res state :=
  do _ <- guard (negb (blocked s f));
  base_burn s au f amt.
Definition bl_burn_from c (s : state) au sp f amt : res state :=
  do _ <- guard (negb (blocked s f));
  base_burn_from c s au sp f amt.

(* `#[only_role(operator, "manager")]`: ensure_role (the operator holds the role now), then
   operator.require_auth(). *)
Definition only_manager (s : state) (au : list addr) (operator : addr) : res unit :=
  do _ <- guard (mgr s operator);
  require_auth au operator.

(* packages/access/src/access_control/storage.rs, for the role "manager" (no role-admin is
   configured, so only the contract admin may grant/revoke; the admin itself is not changed
   during a trace). *)
Definition ensure_admin (c : cfg) (caller : addr) : res unit := guard (N.eqb caller (owner c)).
Definition grant_manager (c : cfg) (s : state) (au : list addr) (account caller : addr) : res state :=
  do _ <- require_auth au caller;
  do _ <- ensure_admin c caller;
  Ok (if mgr s account then s else set_mgr s account true).
Definition revoke_manager (c : cfg) (s : state) (au : list addr) (account caller : addr) : res state :=
  do _ <- require_auth au caller;
  do _ <- ensure_admin c caller;
  do _ <- guard (mgr s account);                      (* RoleNotHeld *)
  Ok (set_mgr s account false).
Definition renounce_manager (s : state) (au : list addr) (caller : addr) : res state :=
  do _ <- require_auth au caller;
  do _ <- guard (mgr s caller);
  Ok (set_mgr s caller false).

(* ------------------------------------------------------------------ *)
(* capped/storage.rs                                                   *)
Definition set_cap (s : state) (x : Z) : res state :=
  do _ <- guard (negb (x <? 0));
  Ok (set_capv s (Some x)).
Definition check_cap (s : state) (amt : Z) : res unit :=
  do cp <- of_option (cap s);                         (* query_cap: CapNotSet *)
  do sum <- of_option (checked_add (supply s) amt);   (* MathOverflow *)
  guard (negb (cp <? sum)).                           (* ExceededCap *)

(* ------------------------------------------------------------------ *)
(* upgradeable/storage.rs + macros/src/upgradeable.rs                  *)
Definition enable_migration (s : state) : state := set_mig s true.
Definition complete_migration (s : state) : state := set_mig s false.
Definition ensure_can_complete_migration (s : state) : res unit := guard (migrating s).

(* _require_auth of the harness contracts (same as examples/upgradeable/v1,v2):
   operator.require_auth(); operator == OWNER *)
Definition upg_require_auth (c : cfg) (au : list addr) (operator : addr) : res unit :=
  do _ <- require_auth au operator;
  guard (N.eqb operator (owner c)).

(* derive(Upgradeable) / derive(UpgradeableMigratable): upgrade.
   update_current_contract_wasm is opaque: it succeeds iff the hash names an uploaded wasm;
   a failure rolls the flag back with the rest of the invocation. *)
Definition upgrade (c : cfg) (s : state) (au : list addr) (wasm_ok : bool) (operator : addr) : res state :=
  do _ <- upg_require_auth c au operator;
  let s1 := enable_migration s in
  do _ <- guard wasm_ok;
  Ok s1.

(* derive(UpgradeableMigratable): migrate *)
Definition migrate (c : cfg) (s : state) (au : list addr) (d : Z) (operator : addr) : res state :=
  do _ <- upg_require_auth c au operator;
  do _ <- ensure_can_complete_migration s;
  let s1 := set_mdata s (Some d) in                   (* _migrate *)
  Ok (complete_migration s1).

(* ------------------------------------------------------------------ *)
(* entry points per contract                                           *)

(* examples/fungible-pausable *)
Definition exec_paus (c : cfg) (s : state) (au : list addr) (o : op) : res state :=
  match o with
  | Mint t a =>
      do _ <- when_not_paused s;
      do _ <- require_auth au (owner c);
      base_mint s t a
  | Pause caller =>
      do _ <- require_auth au caller;
      do _ <- guard (N.eqb (owner c) caller);
      pause s
  | Unpause caller =>
      do _ <- require_auth au caller;
      do _ <- guard (N.eqb (owner c) caller);
      unpause s
  | Transfer f t a => do _ <- when_not_paused s; base_transfer s au f t a
  | TransferFrom sp f t a => do _ <- when_not_paused s; base_transfer_from c s au sp f t a
  | Approve o sp a lu => base_approve c s au o sp a lu             (* not declared pausable *)
  | Burn f a => do _ <- when_not_paused s; base_burn s au f a
  | BurnFrom sp f a => do _ <- when_not_paused s; base_burn_from c s au sp f a
  | _ => Fail
  end.

(* examples/pausable: the counter lives in the [supply] field (i32 in the code) *)
Definition MAXI32 : Z := 2 ^ 31 - 1.
Definition increment (s : state) : res state :=
  do _ <- when_not_paused s;                              (* #[when_not_paused] *)
  do _ <- guard (supply s + 1 <=? MAXI32);                (* counter += 1, overflow checks on *)
  Ok (set_supply s (supply s + 1)).
Definition emergency_reset (s : state) : res state :=
  do _ <- when_paused s;                                  (* #[when_paused] *)
  Ok (set_supply s 0).

Definition exec_paus_ex (c : cfg) (s : state) (au : list addr) (o : op) : res state :=
  match o with
  | Pause caller =>
      do _ <- require_auth au caller;
      do _ <- guard (N.eqb (owner c) caller);
      pause s
  | Unpause caller =>
      do _ <- require_auth au caller;
      do _ <- guard (N.eqb (owner c) caller);
      unpause s
  | WhenNotPaused => increment s
  | WhenPaused => emergency_reset s
  | _ => Fail
  end.

(* library level: pausable::pause / unpause without any authorisation (the library has none),
   packages/macros/src/pausable.rs: the check is inserted before the body (same bodies as the example) *)
Definition exec_paus_lib (c : cfg) (s : state) (au : list addr) (o : op) : res state :=
  match o with
  | Pause _ => pause s
  | Unpause _ => unpause s
  | WhenNotPaused => increment s
  | WhenPaused => emergency_reset s
  | _ => Fail
  end.

(* examples/fungible-allowlist.  [fixed = false] is the tree before commit 4342d51
   (FungibleBurnable defaults = Base::burn / Base::burn_from). *)
Definition exec_allow_ex (fixed : bool) (c : cfg) (s : state) (au : list addr) (o : op) : res state :=
  match o with
  | Transfer f t a => al_transfer s au f t a
  | TransferFrom sp f t a => al_transfer_from c s au sp f t a
  | Approve o sp a lu => al_approve c s au o sp a lu
  | Burn f a => if fixed then al_burn s au f a else base_burn s au f a
  | BurnFrom sp f a => if fixed then al_burn_from c s au sp f a else base_burn_from c s au sp f a
  | AllowUser u operator => do _ <- only_manager s au operator; Ok (allow_user s u)
  | DisallowUser u operator => do _ <- only_manager s au operator; Ok (disallow_user s u)
  | GrantManager a caller => grant_manager c s au a caller
  | RevokeManager a caller => revoke_manager c s au a caller
  | RenounceManager caller => renounce_manager s au caller
  | _ => Fail
  end.

Definition exec_allow_lib (c : cfg) (s : state) (au : list addr) (o : op) : res state :=
  match o with
  | Transfer f t a => al_transfer s au f t a
  | TransferFrom sp f t a => al_transfer_from c s au sp f t a
  | Approve o sp a lu => al_approve c s au o sp a lu
  | Burn f a => al_burn s au f a
  | BurnFrom sp f a => al_burn_from c s au sp f a
  | Mint t a => base_mint s t a
  | AllowUser u _ => Ok (allow_user s u)
  | DisallowUser u _ => Ok (disallow_user s u)
  | _ => Fail
  end.

(* examples/fungible-blocklist: no FungibleBurnable impl, hence no burn entry points *)
Definition exec_block_ex (c : cfg) (s : state) (au : list addr) (o : op) : res state :=
  match o with
  | Transfer f t a => bl_transfer s au f t a
  | TransferFrom sp f t a => bl_transfer_from c s au sp f t a
  | Approve o sp a lu => bl_approve c s au o sp a lu
  | BlockUser u operator => do _ <- only_manager s au operator; Ok (block_user s u)
  | UnblockUser u operator => do _ <- only_manager s au operator; Ok (unblock_user s u)
  | GrantManager a caller => grant_manager c s au a caller
  | RevokeManager a caller => revoke_manager c s au a caller
  | RenounceManager caller => renounce_manager s au caller
  | _ => Fail
  end.

Definition exec_block_lib (c : cfg) (s : state) (au : list addr) (o : op) : res state :=
  match o with
  | Transfer f t a => bl_transfer s au f t a
  | TransferFrom sp f t a => bl_transfer_from c s au sp f t a
  | Approve o sp a lu => bl_approve c s au o sp a lu
  | Burn f a => bl_burn s au f a
  | BurnFrom sp f a => bl_burn_from c s au sp f a
  | Mint t a => base_mint s t a
  | BlockUser u _ => Ok (block_user s u)
  | UnblockUser u _ => Ok (unblock_user s u)
  | _ => Fail
  end.

(* examples/fungible-capped: mint = check_cap; Base::mint (no authorisation, as the example says) *)
Definition capped_mint (s : state) (t : addr) (a : Z) : res state :=
  do _ <- check_cap s a;
  base_mint s t a.

Definition exec_cap_ex (c : cfg) (s : state) (au : list addr) (o : op) : res state :=
  match o with
  | Mint t a => capped_mint s t a
  | Transfer f t a => base_transfer s au f t a
  | TransferFrom sp f t a => base_transfer_from c s au sp f t a
  | Approve o sp a lu => base_approve c s au o sp a lu
  | _ => Fail
  end.

Definition exec_cap_lib (c : cfg) (s : state) (au : list addr) (o : op) : res state :=
  match o with
  | Mint t a => capped_mint s t a
  | SetCap x => set_cap s x
  | Transfer f t a => base_transfer s au f t a
  | TransferFrom sp f t a => base_transfer_from c s au sp f t a
  | Approve o sp a lu => base_approve c s au o sp a lu
  | Burn f a => base_burn s au f a
  | BurnFrom sp f a => base_burn_from c s au sp f a
  | _ => Fail
  end.

(* v1 has only `upgrade`; once an upgrade succeeded the address runs v2, which has `upgrade` and
   `migrate`.  Before the first upgrade the flag is clear, so "no migrate entry point" and "migrate
   refused because the flag is clear" coincide: one definition serves both phases. *)
Definition exec_upg_v1 (c : cfg) (s : state) (au : list addr) (o : op) : res state :=
  match o with
  | Upgrade w operator => upgrade c s au w operator
  | Migrate d operator => migrate c s au d operator
  | _ => Fail
  end.

Definition exec_upg_v2 (c : cfg) (s : state) (au : list addr) (o : op) : res state :=
  match o with
  | Upgrade w operator => upgrade c s au w operator
  | Migrate d operator => migrate c s au d operator
  | _ => Fail
  end.

Definition exec_upg_lib (c : cfg) (s : state) (au : list addr) (o : op) : res state :=
  match o with
  | LibEnable => Ok (enable_migration s)
  | LibComplete => Ok (complete_migration s)
  | LibEnsure => do _ <- ensure_can_complete_migration s; Ok s
  | _ => Fail
  end.

Definition exec_kind (fixed : bool) (c : cfg) (s : state) (au : list addr) (o : op) : res state :=
  match knd c with
  | KPaus => exec_paus c s au o
  | KPausEx => exec_paus_ex c s au o
  | KPausLib => exec_paus_lib c s au o
  | KAllowEx => exec_allow_ex fixed c s au o
  | KAllowLib => exec_allow_lib c s au o
  | KBlockEx => exec_block_ex c s au o
  | KBlockLib => exec_block_lib c s au o
  | KCapEx => exec_cap_ex c s au o
  | KCapLib => exec_cap_lib c s au o
  | KUpgV1 => exec_upg_v1 c s au o
  | KUpgV2 => exec_upg_v2 c s au o
  | KUpgLib => exec_upg_lib c s au o
  end.

Definition exec_gen (fixed : bool) (c : cfg) (s : state) (cl : call) : res state :=
  match fst cl with
  | Advance n => do _ <- guard (negb (n <? 0)); Ok (set_now s (now s + n))
  | TransferMux f t _ a => exec_kind fixed c s (snd cl) (Transfer f t a)     (* to.address() *)
  | o => exec_kind fixed c s (snd cl) o
  end.

(* the current tree *)
Definition exec := exec_gen true.
(* the tree before the F6 fix (commit 4342d51) *)
Definition exec_prefix := exec_gen false.

(* host rollback: a failing call leaves the old state *)
Definition step_gen (fixed : bool) (c : cfg) (s : state) (cl : call) : state * bool :=
  match exec_gen fixed c s cl with Ok s' => (s', true) | Fail => (s, false) end.
Definition step := step_gen true.
Definition step_prefix := step_gen false.

(* ------------------------------------------------------------------ *)
(* deployment                                                          *)
Definition empty_state (c : cfg) : state :=
  mkState (now0 c) 0 (fun _ => 0) (fun _ _ => (0, 0)) false (fun _ => false) (fun _ => false) None false None
          (fun a => N.eqb a (manager c)).     (* constructor: grant_role_no_auth(manager, "manager") *)

(* constructors.  The harness only deploys with arguments for which the constructor succeeds
   (0 <= initial_supply <= i128::MAX, 0 <= cap): [wf_cfg] in Run/C16.v. *)
Definition init (c : cfg) : state :=
  let s := empty_state c in
  match knd c with
  | KPaus => set_bal (set_supply s (init_supply c)) (owner c) (init_supply c)
  | KAllowEx =>
      let s1 := set_allowed s (owner c) true in
      set_bal (set_supply s1 (init_supply c)) (owner c) (init_supply c)
  | KBlockEx => set_bal (set_supply s (init_supply c)) (owner c) (init_supply c)
  | KCapEx => set_capv s (Some (init_cap c))
  | _ => s
  end.

(* does the constructor accept its arguments?  (set_cap: cap >= 0; Base::mint: 0 <= amount <= i128::MAX) *)
Definition ctor_ok (c : cfg) : bool :=
  match knd c with
  | KPaus | KAllowEx | KBlockEx => (0 <=? init_supply c) && (init_supply c <=? MAX128)
  | KCapEx => 0 <=? init_cap c
  | _ => true
  end.

Definition run_gen (fixed : bool) (c : cfg) (s : state) (cs : list call) : state :=
  fold_left (fun st cl => fst (step_gen fixed c st cl)) cs s.
Definition run := run_gen true.

(* ------------------------------------------------------------------ *)
(* observation: every public getter over the address universe          *)
Record obs := mkObs {
  o_supply : Z;
  o_bal : list Z;               (* balance(a), a = 0 .. na-1 *)
  o_alw : list (list Z);        (* allowance(o, sp) at the current ledger, row = owner *)
  o_paused : bool;              (* paused() *)
  o_list : list (option bool);  (* allowed(a) resp. blocked(a); None = deliberately NOT read after this call
                                   (reading a list entry extends its lifetime, so histories in which an
                                   account's status is left alone for many ledgers need unread entries) *)
  o_cap : option Z;             (* query_cap(), None = CapNotSet *)
  o_mig : bool;                 (* can_complete_migration() *)
  o_data : option Z;            (* value stored by _migrate *)
  o_trap : bool;                (* some getter trapped while observing (never, in the model) *)
  o_mgr : list bool             (* has_role(a, "manager") is Some (allow/block-list examples) *)
}.

Definition universe (c : cfg) : list addr := map N.of_nat (seq 0 (na c)).

Definition listed (c : cfg) (s : state) : addr -> bool :=
  if is_block (knd c) then blocked s else allowed s.

Definition observe (c : cfg) (s : state) : obs :=
  let u := universe c in
  mkObs (supply s) (map (bal s) u)
        (map (fun o => map (fun sp => allowance s o sp) u) u)
        (paused s) (map (fun x => Some (listed c s x)) u) (cap s) (migrating s) (mdata s) false (map (mgr s) u).
