(* C20 / registry 2: document manager
   (packages/tokens/src/rwa/extensions/doc_manager/storage.rs).
   Documents are kept in buckets of BUCKET_SIZE (name, document) pairs under Bucket(k),
   an index entry Index(name) -> flat position, and Count; removal is swap-and-pop. *)
From SC Require Import Lib.Prelude Model.SwapPop Model.RegCommon.
Local Open Scope nat_scope.

Record dm_cfg := { dm_bs : nat;          (* BUCKET_SIZE *)
                   dm_max : nat;         (* MAX_DOCUMENTS *)
                   dm_max_uri : N }.     (* MAX_URI_LEN *)

(* a document: the uri (a small id chosen by the harness and its length), the hash, the
   ledger timestamp at which it was last written *)
Record doc := { d_uri : N; d_ulen : N; d_hash : N; d_ts : N }.
Definition doc_eqb (a b : doc) : bool :=
  N.eqb (d_uri a) (d_uri b) && N.eqb (d_ulen a) (d_ulen b) && N.eqb (d_hash a) (d_hash b) && N.eqb (d_ts a) (d_ts b).
Lemma doc_eqb_spec a b : doc_eqb a b = true <-> a = b.
Proof.
  destruct a, b. unfold doc_eqb. cbn. rewrite !andb_true_iff, !N.eqb_eq. split.
  - intros [[[-> ->] ->] ->]. reflexivity.
  - intros H. inversion H. auto.
Qed.

Notation dname := (N) (only parsing).
Notation dentry := (dname * doc)%type (only parsing).

Record dm_state := { dm_count : nat;                      (* Count (absent = 0) *)
                     dm_buckets : buckets dentry;         (* Bucket(k) *)
                     dm_index : list (dname * nat) }.     (* Index(name) *)
Definition dm_init : dm_state := {| dm_count := 0; dm_buckets := []; dm_index := [] |}.

Definition ix_get (ix : list (dname * nat)) (nm : dname) : option nat := aget N.eqb nm ix.
Definition ix_set (ix : list (dname * nat)) (nm : dname) (i : nat) := aset N.eqb nm i ix.
Definition ix_del (ix : list (dname * nat)) (nm : dname) := adel N.eqb nm ix.

Section WithCfg.
  Variable c : dm_cfg.
  Local Notation bs := (dm_bs c).

  (* get_document_by_index *)
  Definition dm_by_index_nat (s : dm_state) (i : nat) : res dentry :=
    if dm_count s <=? i then Fail
    else do b <- of_option (bk_get (dm_buckets s) (i / bs));       (* .expect("bucket to be present") *)
         of_option (nth_error b (i mod bs)).
  Definition dm_by_index (s : dm_state) (i : N) : res dentry :=
    if (N.of_nat (dm_count s) <=? i)%N then Fail else dm_by_index_nat s (N.to_nat i).

  (* get_document *)
  Definition dm_get (s : dm_state) (nm : dname) : res doc :=
    do i <- of_option (ix_get (dm_index s) nm);
    do e <- dm_by_index_nat s i;
    Ok (snd e).

  (* get_documents(bucket_index) *)
  Definition dm_bucket (s : dm_state) (k : N) : list dentry := bk_get0 (dm_buckets s) (N.to_nat k).

  (* set_document *)
  Definition dm_set (s : dm_state) (nm : dname) (d : doc) : res dm_state :=
    if (dm_max_uri c <? d_ulen d)%N then Fail                      (* UriTooLong *)
    else match ix_get (dm_index s) nm with
         | Some i =>
             do b <- of_option (bk_get (dm_buckets s) (i / bs));   (* .expect("bucket to be present") *)
             do b' <- vec_set (i mod bs) (nm, d) b;
             Ok {| dm_count := dm_count s; dm_buckets := bk_set (dm_buckets s) (i / bs) b';
                   dm_index := dm_index s |}
         | None =>
             let count := dm_count s in
             if dm_max c <=? count then Fail                       (* MaxDocumentsReached *)
             else
               let k := count / bs in
               let b := bk_get0 (dm_buckets s) k in
               Ok {| dm_count := S count; dm_buckets := bk_set (dm_buckets s) k (b ++ [(nm, d)]);
                     dm_index := ix_set (dm_index s) nm count |}
         end.

  (* remove_document *)
  Definition dm_remove (s : dm_state) (nm : dname) : res dm_state :=
    do di <- of_option (ix_get (dm_index s) nm);                   (* DocumentNotFound *)
    let count := dm_count s in
    if count =? 0 then Fail                                        (* count - 1 underflows *)
    else
      let last := count - 1 in
      do st1 <- (if di =? last then Ok (dm_buckets s, dm_index s)
                 else
                   do lb <- of_option (bk_get (dm_buckets s) (last / bs));
                   do le <- of_option (nth_error lb (last mod bs));
                   let ix1 := ix_set (dm_index s) (fst le) di in
                   do db <- of_option (bk_get (dm_buckets s) (di / bs));
                   do db' <- vec_set (di mod bs) le db;
                   Ok (bk_set (dm_buckets s) (di / bs) db', ix1));
      let '(bk1, ix1) := st1 in
      do lb <- of_option (bk_get bk1 (last / bs));                 (* .expect("last bucket to be present") *)
      Ok {| dm_count := last; dm_buckets := bk_set bk1 (last / bs) (removelast lb);
            dm_index := ix_del ix1 nm |}.

  (* test fixture of the harness (not library code): the storage that setting the documents
     of [pre] (strictly increasing names) one after the other in the empty registry produces.
     Used as the INITIAL state of the capacity-limit trace of the quick tier. *)
  Fixpoint index_from (i : nat) (l : list dentry) : list (dname * nat) :=
    match l with [] => [] | e :: r => (fst e, i) :: index_from (S i) r end.
  Definition dm_start (pre : list dentry) : dm_state :=
    {| dm_count := length pre;
       dm_buckets := map (fun k => (k, chunk bs k pre)) (seq 0 ((length pre + bs - 1) / bs));
       dm_index := index_from 0 pre |}.
  Definition dm_pre_ok (pre : list dentry) : bool :=
    incrb (map fst pre) && (length pre <=? dm_max c) && (0 <? bs)
    && forallb (fun e => (d_ulen (snd e) <=? dm_max_uri c)%N) pre.
End WithCfg.

(* ---- calls, queries, answers ---- *)
Inductive dm_call :=
| DmSet (nm : dname) (d : doc)        (* the timestamp of [d] is the ledger timestamp of the call *)
| DmRemove (nm : dname).

Definition dm_step (c : dm_cfg) (s : dm_state) (k : dm_call) : res (dm_state * unit) :=
  match k with
  | DmSet nm d => do s' <- dm_set c s nm d; Ok (s', tt)
  | DmRemove nm => do s' <- dm_remove c s nm; Ok (s', tt)
  end.

Inductive dm_query :=
| DqCount
| DqGet (nm : dname)
| DqByIndex (i : N)
| DqBucket (k : N).

Inductive dm_ans :=
| DaNat (n : N)
| DaDoc (r : res doc)
| DaEntry (r : res dentry)
| DaList (l : list dentry)
| DaTrap.

Definition dm_answer (c : dm_cfg) (s : dm_state) (q : dm_query) : dm_ans :=
  match q with
  | DqCount => DaNat (N.of_nat (dm_count s))
  | DqGet nm => DaDoc (dm_get c s nm)
  | DqByIndex i => DaEntry (dm_by_index c s i)
  | DqBucket k => DaList (dm_bucket s k)
  end.

Definition dentry_eqb : dentry -> dentry -> bool := pair_eqb N.eqb doc_eqb.
Definition dm_ans_eqb (a b : dm_ans) : bool :=
  match a, b with
  | DaNat x, DaNat y => N.eqb x y
  | DaDoc x, DaDoc y => res_eqb doc_eqb x y
  | DaEntry x, DaEntry y => res_eqb dentry_eqb x y
  | DaList x, DaList y => list_eqb dentry_eqb x y
  | DaTrap, DaTrap => true
  | _, _ => false
  end.
