(* Model of the tokenised vault:
     packages/tokens/src/vault/storage.rs   (Vault: conversions, previews, max getters, deposit/mint/withdraw/redeem)
     packages/tokens/src/fungible/storage.rs (Base: update, allowance_data, set_allowance, spend_allowance,
                                              transfer, transfer_from, approve, mint) - used twice: for the share
                                              token (the vault itself) and for the harness asset token
     examples/fungible-vault/src/contract.rs (constructor)
   Conversions go through the C12 model of mul_div_i128 (Model/Math.v), so the 256-bit intermediate product and the
   "does not fit" failure are those of the code.  Transcribed guard by guard, in the order of the code. *)
From SC Require Import Lib.Prelude Lib.Int Lib.Host Model.Math.

(* ---------- configuration: constructor arguments and constants of the code ---------- *)
Record cfg := {
  c_off : Z;        (* decimals_offset passed to the constructor (u32) *)
  c_max_off : Z;    (* pub const MAX_DECIMALS_OFFSET *)
  c_adec : Z;       (* decimals() of the underlying asset token (u32) *)
  c_max_ttl : Z     (* host max_entry_ttl (for max_live_until_ledger) *)
}.

(* the vault's own address: the harness numbers it 0 *)
Definition V : addr := 0%N.

(* ---------- authorisation attached to a call ----------
   One entry per address.  [ARoot]: the address signed the top-level call only.  [AFull]: it signed the
   top-level call together with the nested asset-token call that deposit/mint make (sub-invocation with the
   exact arguments).  [ASub]: it signed only the nested asset-token call as a stand-alone entry (not the
   vault call).  For calls without nested user authorisation AFull and ARoot coincide. *)
Inductive akind := AFull | ARoot | ASub.
Definition auths := list (addr * akind).
Definition auth_root (au : auths) (a : addr) : bool :=
  existsb (fun p => N.eqb (fst p) a && match snd p with AFull | ARoot => true | ASub => false end) au.
Definition auth_full (au : auths) (a : addr) : bool :=
  existsb (fun p => N.eqb (fst p) a && match snd p with AFull => true | _ => false end) au.

(* ---------- total maps ---------- *)
Definition bmap := addr -> Z.
Definition upd (m : bmap) (k : addr) (v : Z) : bmap := fun a => if N.eqb a k then v else m a.
Definition almap := addr -> addr -> (Z * Z).            (* (amount, live_until_ledger) *)
Definition upd2 (m : almap) (o s : addr) (v : Z * Z) : almap :=
  fun a b => if N.eqb a o && N.eqb b s then v else m a b.

(* ---------- one fungible token built on fungible::Base ---------- *)
Record token := { bal : bmap; supply : Z; allow : almap }.
Definition set_bal (t : token) (b : bmap) := {| bal := b; supply := supply t; allow := allow t |}.
Definition set_supply (t : token) (s : Z) := {| bal := bal t; supply := s; allow := allow t |}.
Definition set_allow (t : token) (a : almap) := {| bal := bal t; supply := supply t; allow := a |}.
Definition empty_token : token := {| bal := fun _ => 0; supply := 0; allow := fun _ _ => (0, 0) |}.

(* Base::allowance_data: the stored pair, or {0,0} when absent or live_until_ledger < current ledger.
   (The temporary entry's own TTL is >= live_until whenever amount > 0, see DESIGN 3 / the C02 model; an
   entry that the host dropped earlier had amount 0 or is past live_until, so it reads as 0 either way.) *)
Definition allowance_data (now : Z) (t : token) (o s : addr) : Z * Z :=
  let d := allow t o s in if snd d <? now then (0, 0) else d.
Definition allowance (now : Z) (t : token) (o s : addr) : Z := fst (allowance_data now t o s).

(* Base::set_allowance *)
Definition set_allowance (c : cfg) (now : Z) (t : token) (o s : addr) (amount live : Z) : res token :=
  do _ <- guard (negb (amount <? 0));
  do _ <- guard (negb ((now + c_max_ttl c - 1 <? live) || ((0 <? amount) && (live <? now))));
  Ok (set_allow t (upd2 (allow t) o s (amount, live))).

(* Base::spend_allowance *)
Definition spend_allowance (c : cfg) (now : Z) (t : token) (o s : addr) (amount : Z) : res token :=
  do _ <- guard (negb (amount <? 0));
  let a := allowance_data now t o s in
  do _ <- guard (negb (fst a <? amount));
  if 0 <? amount then set_allowance c now t o s (fst a - amount) (snd a) else Ok t.

(* Base::update (from = None: mint, to = None: burn); the second balance is re-read after the first write *)
Definition update (t : token) (from to : option addr) (amount : Z) : res token :=
  do _ <- guard (negb (amount <? 0));
  do t1 <- match from with
           | Some a =>
               let fb := bal t a in
               do _ <- guard (negb (fb <? amount));
               do nb <- of_option (checked_sub fb amount);
               Ok (set_bal t (upd (bal t) a nb))
           | None =>
               do ns <- of_option (checked_add (supply t) amount);
               Ok (set_supply t ns)
           end;
  match to with
  | Some a =>
      do nb <- of_option (checked_add (bal t1 a) amount);
      Ok (set_bal t1 (upd (bal t1) a nb))
  | None =>
      do ns <- of_option (checked_sub (supply t1) amount);
      Ok (set_supply t1 ns)
  end.

(* Base::transfer / transfer_from / approve, [ok_auth a] = a.require_auth() succeeds *)
Definition tok_transfer (ok_auth : addr -> bool) (t : token) (from to : addr) (amount : Z) : res token :=
  do _ <- guard (ok_auth from);
  update t (Some from) (Some to) amount.
Definition tok_transfer_from (c : cfg) (now : Z) (ok_auth : addr -> bool) (t : token)
  (spender from to : addr) (amount : Z) : res token :=
  do _ <- guard (ok_auth spender);
  do t1 <- spend_allowance c now t from spender amount;
  update t1 (Some from) (Some to) amount.
Definition tok_approve (c : cfg) (now : Z) (ok_auth : addr -> bool) (t : token)
  (owner spender : addr) (amount live : Z) : res token :=
  do _ <- guard (ok_auth owner);
  set_allowance c now t owner spender amount live.

(* ---------- the vault ---------- *)
(* the asset token contract's address: the harness numbers it 255 *)
Definition ASSET_ADDR : addr := 255%N.

(* v_asset / v_off: the vault's instance-storage entries VaultStorageKey::AssetAddress and
   VaultStorageKey::VirtualDecimalsOffset (None = never set) *)
Record state := { now : Z; asset : token; share : token; v_asset : option addr; v_off : option Z }.
Definition set_asset (s : state) (t : token) :=
  {| now := now s; asset := t; share := share s; v_asset := v_asset s; v_off := v_off s |}.
Definition set_share (s : state) (t : token) :=
  {| now := now s; asset := asset s; share := t; v_asset := v_asset s; v_off := v_off s |}.
(* before the constructor ran *)
Definition blank (now0 : Z) : state :=
  {| now := now0; asset := empty_token; share := empty_token; v_asset := None; v_off := None |}.

(* Vault::set_asset: once *)
Definition vault_set_asset (s : state) (a : addr) : res state :=
  match v_asset s with
  | Some _ => Fail
  | None => Ok {| now := now s; asset := asset s; share := share s; v_asset := Some a; v_off := v_off s |}
  end.
(* Vault::set_decimals_offset: offset <= MAX_DECIMALS_OFFSET, once *)
Definition vault_set_decimals_offset (c : cfg) (s : state) (off : Z) : res state :=
  do _ <- guard (negb (c_max_off c <? off));
  match v_off s with
  | Some _ => Fail
  | None => Ok {| now := now s; asset := asset s; share := share s; v_asset := v_asset s; v_off := Some off |}
  end.
(* Vault::get_decimals_offset: unwrap_or(0) *)
Definition get_decimals_offset (s : state) : Z := match v_off s with Some o => o | None => 0 end.
(* Vault::query_asset *)
Definition query_asset (s : state) : res addr := of_option (v_asset s).
(* token::Client::new(e, &Self::query_asset(e)): calls on it reach the asset token only if the stored
   address is the asset token's *)
Definition asset_client (s : state) : res unit := do a <- query_asset s; guard (N.eqb a ASSET_ADDR).

(* Vault::decimals: asset decimals checked_add offset (u32) *)
Definition vault_decimals (c : cfg) (s : state) : res Z :=
  do _ <- asset_client s;
  of_option (checked_add_u32 (c_adec c) (get_decimals_offset s)).

(* ExampleContract::__constructor(asset, decimals_offset): Vault::set_asset; Vault::set_decimals_offset;
   Base::set_metadata(Vault::decimals(), ..).  Returns the constructed state and the vault's decimals. *)
Definition construct (c : cfg) (now0 : Z) : res (state * Z) :=
  do s1 <- vault_set_asset (blank now0) ASSET_ADDR;
  do s2 <- vault_set_decimals_offset c s1 (c_off c);
  do d <- vault_decimals c s2;
  Ok (s2, d).
(* the state a successful constructor leaves *)
Definition init (c : cfg) (now0 : Z) : state :=
  {| now := now0; asset := empty_token; share := empty_token; v_asset := Some ASSET_ADDR; v_off := Some (c_off c) |}.

(* the asset token's balance of the vault *)
Definition total_assets (s : state) : Z := bal (asset s) V.
(* Vault::total_assets: token_client.balance(current contract) *)
Definition total_assets_r (s : state) : res Z := do _ <- asset_client s; Ok (total_assets s).
Definition total_supply (s : state) : Z := supply (share s).
(* 10_i128.checked_pow(Self::get_decimals_offset(e)) *)
Definition pow10 (s : state) : res Z := of_option (fit128 (10 ^ get_decimals_offset s)).

(* Vault::convert_to_shares_with_rounding *)
Definition to_shares (c : cfg) (s : state) (assets : Z) (rd : rounding) : res Z :=
  if assets <? 0 then Fail
  else if assets =? 0 then Ok 0
  else
    do pow <- pow10 s;
    do y <- of_option (checked_add (total_supply s) pow);
    do ta <- total_assets_r s;
    do den <- of_option (checked_add ta 1);
    mul_div128 rd assets y den.

(* Vault::convert_to_assets_with_rounding *)
Definition to_assets (c : cfg) (s : state) (shares : Z) (rd : rounding) : res Z :=
  if shares <? 0 then Fail
  else if shares =? 0 then Ok 0
  else
    do ta <- total_assets_r s;
    do y <- of_option (checked_add ta 1);
    do pow <- pow10 s;
    do den <- of_option (checked_add (total_supply s) pow);
    mul_div128 rd shares y den.

Definition convert_to_shares c s a := to_shares c s a Floor.
Definition convert_to_assets c s x := to_assets c s x Floor.
Definition preview_deposit c s a := to_shares c s a Floor.
Definition preview_mint c s x := to_assets c s x Ceil.
Definition preview_withdraw c s a := to_shares c s a Ceil.
Definition preview_redeem c s x := to_assets c s x Floor.
Definition max_deposit (_ : addr) : Z := MAX128.
Definition max_mint (_ : addr) : Z := MAX128.
Definition max_withdraw c s (owner : addr) : res Z := to_assets c s (bal (share s) owner) Floor.
Definition max_redeem (s : state) (owner : addr) : Z := bal (share s) owner.

(* events of the vault: (kind, a1, a2, a3, assets, shares);
   kind 0 = Deposit(operator, from, receiver), kind 1 = Withdraw(operator, receiver, owner) *)
Definition event := (N * addr * addr * addr * Z * Z)%type.

(* Vault::deposit_internal.  The nested asset-token call needs the operator's authorisation for exactly
   that sub-invocation (AFull). *)
Definition deposit_internal (c : cfg) (s : state) (au : auths)
  (receiver : addr) (assets shares : Z) (from operator : addr) : res state :=
  do _ <- asset_client s;
  do a1 <- (if N.eqb operator from
            then tok_transfer (auth_full au) (asset s) from V assets
            else tok_transfer_from c (now s) (auth_full au) (asset s) operator from V assets);
  do s1 <- update (share s) None (Some receiver) shares;
  Ok {| now := now s; asset := a1; share := s1; v_asset := v_asset s; v_off := v_off s |}.

(* Vault::withdraw_internal.  The asset transfer out of the vault is authorised by the vault being the
   direct caller. *)
Definition withdraw_internal (c : cfg) (s : state)
  (receiver owner : addr) (assets shares : Z) (operator : addr) : res state :=
  do s0 <- (if negb (N.eqb operator owner)
            then spend_allowance c (now s) (share s) owner operator shares
            else Ok (share s));
  do s1 <- update s0 (Some owner) None shares;
  do _ <- asset_client s;
  do a1 <- tok_transfer (fun _ => true) (asset s) V receiver assets;
  Ok {| now := now s; asset := a1; share := s1; v_asset := v_asset s; v_off := v_off s |}.

Definition deposit (c : cfg) (s : state) (au : auths) (assets : Z) (receiver from operator : addr)
  : res (state * (Z * list event)) :=
  do _ <- guard (auth_root au operator);
  do _ <- guard (negb (max_deposit receiver <? assets));
  do shares <- preview_deposit c s assets;
  do s' <- deposit_internal c s au receiver assets shares from operator;
  Ok (s', (shares, [(0%N, operator, from, receiver, assets, shares)])).

Definition mint (c : cfg) (s : state) (au : auths) (shares : Z) (receiver from operator : addr)
  : res (state * (Z * list event)) :=
  do _ <- guard (auth_root au operator);
  do _ <- guard (negb (max_mint receiver <? shares));
  do assets <- preview_mint c s shares;
  do s' <- deposit_internal c s au receiver assets shares from operator;
  Ok (s', (assets, [(0%N, operator, from, receiver, assets, shares)])).

Definition withdraw (c : cfg) (s : state) (au : auths) (assets : Z) (receiver owner operator : addr)
  : res (state * (Z * list event)) :=
  do _ <- guard (auth_root au operator);
  do max_assets <- max_withdraw c s owner;
  do _ <- guard (negb (max_assets <? assets));
  do shares <- preview_withdraw c s assets;
  do s' <- withdraw_internal c s receiver owner assets shares operator;
  Ok (s', (shares, [(1%N, operator, receiver, owner, assets, shares)])).

Definition redeem (c : cfg) (s : state) (au : auths) (shares : Z) (receiver owner operator : addr)
  : res (state * (Z * list event)) :=
  do _ <- guard (auth_root au operator);
  do _ <- guard (negb (max_redeem s owner <? shares));
  do assets <- preview_redeem c s shares;
  do s' <- withdraw_internal c s receiver owner assets shares operator;
  Ok (s', (assets, [(1%N, operator, receiver, owner, assets, shares)])).

(* ---------- the call alphabet ---------- *)
Inductive query :=
| QConvShares (a : Z) | QConvAssets (x : Z)
| QPrevDeposit (a : Z) | QPrevMint (x : Z) | QPrevWithdraw (a : Z) | QPrevRedeem (x : Z)
| QMaxDeposit (r : addr) | QMaxMint (r : addr) | QMaxWithdraw (o : addr) | QMaxRedeem (o : addr).

Inductive call :=
| Deposit (assets : Z) (receiver from operator : addr) (au : auths)
| MintS (shares : Z) (receiver from operator : addr) (au : auths)
| Withdraw (assets : Z) (receiver owner operator : addr) (au : auths)
| Redeem (shares : Z) (receiver owner operator : addr) (au : auths)
| ATransfer (from to : addr) (amount : Z) (au : auths)       (* asset token transfer; to = V is a donation *)
| AMint (to : addr) (amount : Z)                              (* asset token mint (funding users; yield when to = V) *)
| AApprove (owner spender : addr) (amount live : Z) (au : auths)
| STransfer (from to : addr) (amount : Z) (au : auths)       (* share token = the vault contract *)
| STransferFrom (spender from to : addr) (amount : Z) (au : auths)
| SApprove (owner spender : addr) (amount live : Z) (au : auths)
| Advance (n : Z)                                             (* ledger sequence += n *)
| Query (q : query)
| SetAsset (a : addr)                                         (* library Vault::set_asset (no authorisation) *)
| SetOffset (off : Z).                                        (* library Vault::set_decimals_offset *)

Definition run_query (c : cfg) (s : state) (q : query) : res Z :=
  match q with
  | QConvShares a => convert_to_shares c s a
  | QConvAssets x => convert_to_assets c s x
  | QPrevDeposit a => preview_deposit c s a
  | QPrevMint x => preview_mint c s x
  | QPrevWithdraw a => preview_withdraw c s a
  | QPrevRedeem x => preview_redeem c s x
  | QMaxDeposit r => Ok (max_deposit r)
  | QMaxMint r => Ok (max_mint r)
  | QMaxWithdraw o => max_withdraw c s o
  | QMaxRedeem o => Ok (max_redeem s o)
  end.

Definition outcome := res (Z * list event).

(* unit-returning calls report 0 *)
Definition lift_tok (f : token -> state) (r : res token) : res (state * (Z * list event)) :=
  do t <- r; Ok (f t, (0, [])).

Definition step_res (c : cfg) (s : state) (cl : call) : res (state * (Z * list event)) :=
  match cl with
  | Deposit a r f o au => deposit c s au a r f o
  | MintS x r f o au => mint c s au x r f o
  | Withdraw a r ow o au => withdraw c s au a r ow o
  | Redeem x r ow o au => redeem c s au x r ow o
  | ATransfer f t a au => lift_tok (set_asset s) (tok_transfer (auth_root au) (asset s) f t a)
  | AMint t a => lift_tok (set_asset s) (update (asset s) None (Some t) a)
  | AApprove o sp a l au => lift_tok (set_asset s) (tok_approve c (now s) (auth_root au) (asset s) o sp a l)
  | STransfer f t a au => lift_tok (set_share s) (tok_transfer (auth_root au) (share s) f t a)
  | STransferFrom sp f t a au =>
      lift_tok (set_share s) (tok_transfer_from c (now s) (auth_root au) (share s) sp f t a)
  | SApprove o sp a l au => lift_tok (set_share s) (tok_approve c (now s) (auth_root au) (share s) o sp a l)
  | Advance n =>
      do _ <- guard ((0 <=? n) && in_u32 (now s + n));
      Ok ({| now := now s + n; asset := asset s; share := share s; v_asset := v_asset s; v_off := v_off s |}, (0, []))
  | Query q => do v <- run_query c s q; Ok (s, (v, []))
  | SetAsset a => do s' <- vault_set_asset s a; Ok (s', (0, []))
  | SetOffset off => do s' <- vault_set_decimals_offset c s off; Ok (s', (0, []))
  end.

(* a failing call leaves the old state (host rollback) *)
Definition step (c : cfg) (s : state) (cl : call) : state * outcome :=
  match step_res c s cl with
  | Ok (s', o) => (s', Ok o)
  | Fail => (s, Fail)
  end.

Definition run (c : cfg) (s : state) (cs : list call) : state :=
  fold_left (fun st cl => fst (step c st cl)) cs s.

(* values queried immediately before an operation: (matching preview, matching max getter) *)
Definition pre_values (c : cfg) (s : state) (cl : call) : res Z * res Z :=
  match cl with
  | Deposit a r _ _ _ => (preview_deposit c s a, Ok (max_deposit r))
  | MintS x r _ _ _ => (preview_mint c s x, Ok (max_mint r))
  | Withdraw a _ ow _ _ => (preview_withdraw c s a, max_withdraw c s ow)
  | Redeem x _ ow _ _ => (preview_redeem c s x, Ok (max_redeem s ow))
  | _ => (Ok 0, Ok 0)
  end.
