(* C03 - executable model of the smart-account authorisation machinery of
   packages/accounts/src/smart_account/storage.rs (rule table, do_check_auth) as driven
   through examples/multisig-smart-account/account/src/contract.rs.

   Verifier and policy contracts are external collaborators: they appear as an
   [oracles] record (arbitrary functions in the theorems; read from the mock answer
   table in the correspondence runs).  Every call of a collaborator that survives
   (i.e. is not rolled back) is recorded as an [event]; the mocks of the harness log
   the same events in contract storage, so a failing invocation leaves no event. *)
From SC Require Import Lib.Prelude Lib.Int Lib.Host.

(* ------------------------------------------------------------------------- *)
(* Data                                                                       *)
(* ------------------------------------------------------------------------- *)

(* Signer::Delegated(Address) | Signer::External(verifier Address, key Bytes) *)
Inductive signer := Delegated (a : N) | External (v k : N).
(* ContextRuleType *)
Inductive ctype := TDefault | TCall (a : N) | TCreate (w : N).
(* auth::Context: contract call (contract, fn name), create contract (wasm hash),
   create contract with constructor (wasm hash); CTransfer a amt = the contract call
   transfer(from, to, amt) of contract a (the shape the spending-limit policy looks at) *)
Inductive ctx := CCall (a f : N) | CCreate (w : N) | CCreateCtor (w : N) | CTransfer (a : N) (amt : Z).
(* what the harness knows about a supplied signature: produced for the right key and
   payload / anything else / makes the verifier trap *)
Inductive sigc := SGood | SBad | STrap.

Definition policy := N.

(* how a rule fares for one context: requirement met / not met (rule passed over) /
   one of its policies' can_enforce traps (the whole invocation aborts) *)
Inductive rstat := RSat | RUnsat | RTrap.

Record rule := mkRule {
  r_id : Z; r_type : ctype; r_name : N; r_valid : option Z;
  r_signers : list signer; r_policies : list policy }.

Definition signer_eqb (x y : signer) : bool :=
  match x, y with
  | Delegated a, Delegated b => N.eqb a b
  | External v k, External v' k' => N.eqb v v' && N.eqb k k'
  | _, _ => false
  end.
Definition ctype_eqb (x y : ctype) : bool :=
  match x, y with
  | TDefault, TDefault => true
  | TCall a, TCall b => N.eqb a b
  | TCreate a, TCreate b => N.eqb a b
  | _, _ => false
  end.
Definition ctx_eqb (x y : ctx) : bool :=
  match x, y with
  | CCall a f, CCall b g => N.eqb a b && N.eqb f g
  | CCreate a, CCreate b => N.eqb a b
  | CCreateCtor a, CCreateCtor b => N.eqb a b
  | CTransfer a x, CTransfer b y => N.eqb a b && (x =? y)
  | _, _ => false
  end.
Definition sigc_eqb (x y : sigc) : bool :=
  match x, y with SGood, SGood | SBad, SBad | STrap, STrap => true | _, _ => false end.

Lemma signer_eqb_eq x y : signer_eqb x y = true <-> x = y.
Proof.
  destruct x, y; cbn; try (split; [discriminate|congruence]).
  - rewrite N.eqb_eq. split; congruence.
  - rewrite andb_true_iff, !N.eqb_eq. split; [intros [-> ->]; reflexivity|intros H; inversion H; auto].
Qed.
Lemma ctype_eqb_eq x y : ctype_eqb x y = true <-> x = y.
Proof.
  destruct x, y; cbn; try (split; [discriminate|congruence]); try tauto;
    rewrite N.eqb_eq; split; congruence.
Qed.
Lemma ctx_eqb_eq x y : ctx_eqb x y = true <-> x = y.
Proof.
  destruct x, y; cbn; try (split; [discriminate|congruence]).
  - rewrite andb_true_iff, !N.eqb_eq. split; [intros [-> ->]; reflexivity|intros H; inversion H; auto].
  - rewrite N.eqb_eq. split; congruence.
  - rewrite N.eqb_eq. split; congruence.
  - rewrite andb_true_iff, N.eqb_eq, Z.eqb_eq. split; [intros [-> ->]; reflexivity|intros H; inversion H; auto].
Qed.
Lemma sigc_eqb_eq x y : sigc_eqb x y = true <-> x = y.
Proof. destruct x, y; cbn; split; congruence. Qed.
Lemma signer_eqb_refl x : signer_eqb x x = true. Proof. apply signer_eqb_eq; reflexivity. Qed.
Lemma ctype_eqb_refl x : ctype_eqb x x = true. Proof. apply ctype_eqb_eq; reflexivity. Qed.

(* generic boolean equalities *)
Fixpoint list_eqb {A} (eqb : A -> A -> bool) (l1 l2 : list A) : bool :=
  match l1, l2 with
  | [], [] => true
  | x :: r1, y :: r2 => eqb x y && list_eqb eqb r1 r2
  | _, _ => false
  end.
Definition option_eqb {A} (eqb : A -> A -> bool) (a b : option A) : bool :=
  match a, b with Some x, Some y => eqb x y | None, None => true | _, _ => false end.

Lemma list_eqb_eq {A} (eqb : A -> A -> bool) :
  (forall x y, eqb x y = true <-> x = y) -> forall l1 l2, list_eqb eqb l1 l2 = true <-> l1 = l2.
Proof.
  intros H. induction l1 as [|x r IH]; destruct l2 as [|y r2]; cbn; try (split; [discriminate|congruence]); try tauto.
  rewrite andb_true_iff, H, IH. split; [intros [-> ->]; reflexivity|intros E; inversion E; auto].
Qed.
Lemma option_eqb_eq {A} (eqb : A -> A -> bool) :
  (forall x y, eqb x y = true <-> x = y) -> forall a b, option_eqb eqb a b = true <-> a = b.
Proof.
  intros H [x|] [y|]; cbn; try (split; [discriminate|congruence]); try tauto.
  rewrite H. split; congruence.
Qed.

Definition rule_eqb (x y : rule) : bool :=
  (r_id x =? r_id y) && ctype_eqb (r_type x) (r_type y) && N.eqb (r_name x) (r_name y)
  && option_eqb Z.eqb (r_valid x) (r_valid y)
  && list_eqb signer_eqb (r_signers x) (r_signers y) && list_eqb N.eqb (r_policies x) (r_policies y).
Lemma rule_eqb_eq x y : rule_eqb x y = true <-> x = y.
Proof.
  destruct x, y; unfold rule_eqb; cbn [r_id r_type r_name r_valid r_signers r_policies].
  rewrite !andb_true_iff, Z.eqb_eq, ctype_eqb_eq, N.eqb_eq,
    (option_eqb_eq Z.eqb Z.eqb_eq), (list_eqb_eq signer_eqb signer_eqb_eq), (list_eqb_eq N.eqb N.eqb_eq).
  split; [intros [[[[[-> ->] ->] ->] ->] ->]; reflexivity|intros H; inversion H; tauto].
Qed.

(* membership *)
Definition mem_s (s : signer) (l : list signer) : bool := existsb (signer_eqb s) l.
Definition mem_p (p : policy) (l : list policy) : bool := existsb (N.eqb p) l.
Lemma mem_s_In s l : mem_s s l = true <-> In s l.
Proof.
  unfold mem_s. rewrite existsb_exists. split.
  - intros [x [Hi He]]. apply signer_eqb_eq in He. subst. exact Hi.
  - intros Hi. exists s. split; [exact Hi|apply signer_eqb_refl].
Qed.
Lemma mem_p_In p l : mem_p p l = true <-> In p l.
Proof.
  unfold mem_p. rewrite existsb_exists. split.
  - intros [x [Hi He]]. apply N.eqb_eq in He. subst. exact Hi.
  - intros Hi. exists p. split; [exact Hi|apply N.eqb_refl].
Qed.
Fixpoint nodup_s (l : list signer) : bool :=
  match l with [] => true | x :: r => negb (mem_s x r) && nodup_s r end.
Fixpoint nodup_p (l : list policy) : bool :=
  match l with [] => true | x :: r => negb (mem_p x r) && nodup_p r end.

Definition zlen {A} (l : list A) : Z := Z.of_nat (length l).
Definition isnil {A} (l : list A) : bool := match l with [] => true | _ => false end.

(* ------------------------------------------------------------------------- *)
(* Collaborators                                                              *)
(* ------------------------------------------------------------------------- *)

(* every surviving call of a collaborator contract, with the arguments it received *)
Inductive event :=
| EVerify (v k : N) (d : sigc)                                  (* Verifier::verify *)
| ECan (p : policy) (c : ctx) (auth : list signer) (r : rule)   (* Policy::can_enforce *)
| EEnforce (p : policy) (c : ctx) (auth : list signer) (r : rule) (* Policy::enforce *)
| EInstall (p : policy) (param : N) (r : rule)                  (* Policy::install *)
| EUninstall (p : policy) (r : rule).                           (* Policy::uninstall *)

Definition event_eqb (x y : event) : bool :=
  match x, y with
  | EVerify v k d, EVerify v' k' d' => N.eqb v v' && N.eqb k k' && sigc_eqb d d'
  | ECan p c a r, ECan p' c' a' r' | EEnforce p c a r, EEnforce p' c' a' r' =>
      N.eqb p p' && ctx_eqb c c' && list_eqb signer_eqb a a' && rule_eqb r r'
  | EInstall p n r, EInstall p' n' r' => N.eqb p p' && N.eqb n n' && rule_eqb r r'
  | EUninstall p r, EUninstall p' r' => N.eqb p p' && rule_eqb r r'
  | _, _ => false
  end.
Lemma event_eqb_eq x y : event_eqb x y = true <-> x = y.
Proof.
  destruct x, y; cbn; try (split; [discriminate|congruence]);
    rewrite ?andb_true_iff, ?N.eqb_eq, ?sigc_eqb_eq, ?ctx_eqb_eq, ?rule_eqb_eq,
      ?(list_eqb_eq signer_eqb signer_eqb_eq);
    (split; [intuition congruence|intros H; inversion H; tauto]).
Qed.

(* the answers of the collaborators; [None] = the contract traps *)
Record oracles := mkOracles {
  o_verify : N -> N -> sigc -> option bool;                       (* verifier key sig *)
  o_can : policy -> ctx -> list signer -> rule -> option bool;
  (* true = returns normally; the first argument lists the enforce calls already made during this
     check (enforce hooks are stateful: a later call sees the effects of the earlier ones) *)
  o_enforce : list event -> policy -> ctx -> list signer -> rule -> bool;
  o_install : policy -> N -> rule -> bool;
  o_uninstall : policy -> rule -> bool }.

(* ------------------------------------------------------------------------- *)
(* Account state (one record per storage key family of SmartAccountStorageKey) *)
(* ------------------------------------------------------------------------- *)

Definition fp := (ctype * list signer * list policy)%type.   (* what Fingerprint(sha256(..)) hashes *)

Record cfg := { max_rules : Z; max_signers : Z; max_policies : Z }.

Record acct := mkAcct {
  a_rules : list rule;                 (* Meta(id) + Signers(id) + Policies(id), in id order *)
  a_ids : list (ctype * list Z);       (* Ids(type) *)
  a_next : Z;                          (* NextId, absent = 0 *)
  a_count : option Z;                  (* Count *)
  a_fps : list fp }.                   (* Fingerprint(h) keys present *)

Definition acct0 : acct := mkAcct [] [] 0 None [].

Definition get_rule (a : acct) (id : Z) : option rule := find (fun r => r_id r =? id) (a_rules a).
Definition set_rule (r : rule) (l : list rule) : list rule :=
  map (fun x => if r_id x =? r_id r then r else x) l.
Definition del_rule (id : Z) (l : list rule) : list rule := filter (fun x => negb (r_id x =? id)) l.
Definition ids_of (a : acct) (t : ctype) : list Z :=
  match find (fun p => ctype_eqb (fst p) t) (a_ids a) with Some p => snd p | None => [] end.
Definition set_ids (t : ctype) (l : list Z) (ids : list (ctype * list Z)) : list (ctype * list Z) :=
  (t, l) :: filter (fun p => negb (ctype_eqb (fst p) t)) ids.
Definition count_of (a : acct) : Z := match a_count a with Some c => c | None => 0 end.

Fixpoint mapM {A B} (f : A -> res B) (l : list A) : res (list B) :=
  match l with
  | [] => Ok []
  | x :: r => do y <- f x; do ys <- mapM f r; Ok (y :: ys)
  end.

(* get_context_rule / get_context_rules *)
Definition get_context_rule (a : acct) (id : Z) : res rule := of_option (get_rule a id).
Definition get_context_rules (a : acct) (t : ctype) : res (list rule) := mapM (get_context_rule a) (ids_of a t).

(* ------------------------------------------------------------------------- *)
(* do_check_auth                                                              *)
(* ------------------------------------------------------------------------- *)

Definition ctx_type (c : ctx) : ctype :=
  match c with CCall a _ => TCall a | CCreate w => TCreate w | CCreateCtor w => TCreate w | CTransfer a _ => TCall a end.

Definition expired (now : Z) (r : rule) : bool :=
  match r_valid r with Some u => u <? now | None => false end.

(* the closure [get_rules] of get_valid_context_rules: push_front of every unexpired rule *)
Fixpoint collect (a : acct) (now : Z) (ids : list Z) (acc : list rule) : res (list rule) :=
  match ids with
  | [] => Ok acc
  | id :: rest =>
      do r <- get_context_rule a id;
      if expired now r then collect a now rest acc else collect a now rest (r :: acc)
  end.

Definition get_valid_context_rules (a : acct) (now : Z) (t : ctype) : res (list rule) :=
  do m <- collect a now (ids_of a t) [];
  do d <- collect a now (ids_of a TDefault) [];
  Ok (m ++ d).

Definition get_authenticated_signers (rule_signers all_signers : list signer) : list signer :=
  filter (fun s => mem_s s all_signers) rule_signers.

Section CheckAuth.
  Variable O : oracles.

  (* authenticate: in the order of the signature map *)
  Fixpoint authenticate (auths : list addr) (sigs : list (signer * sigc)) : res (list event) :=
    match sigs with
    | [] => Ok []
    | (External v k, d) :: rest =>
        match o_verify O v k d with
        | Some true => do l <- authenticate auths rest; Ok (EVerify v k d :: l)
        | _ => Fail
        end
    | (Delegated a, _) :: rest =>
        if has_auth auths a then authenticate auths rest else Fail
    end.

  (* can_enforce_all_policies: stops at the first refusal; a trap aborts everything *)
  Fixpoint can_enforce_all (ps : list policy) (c : ctx) (au : list signer) (r : rule)
    : res (bool * list event) :=
    match ps with
    | [] => Ok (true, [])
    | p :: rest =>
        match o_can O p c au r with
        | None => Fail
        | Some false => Ok (false, [ECan p c au r])
        | Some true => do '(b, l) <- can_enforce_all rest c au r; Ok (b, ECan p c au r :: l)
        end
    end.

  (* the loop of get_validated_context *)
  Fixpoint select (rules : list rule) (c : ctx) (all_signers : list signer)
    : res (rule * list signer * list event) :=
    match rules with
    | [] => Fail                                           (* UnvalidatedContext *)
    | r :: rest =>
        let au := get_authenticated_signers (r_signers r) all_signers in
        if isnil (r_policies r) then
          if (zlen (r_signers r) =? zlen au) then Ok (r, au, [])
          else select rest c all_signers
        else
          do '(b, l) <- can_enforce_all (r_policies r) c au r;
          if b then Ok (r, au, l)
          else do '(r', au', l') <- select rest c all_signers; Ok (r', au', l ++ l')
    end.

  Definition get_validated_context (a : acct) (now : Z) (c : ctx) (all_signers : list signer)
    : res (rule * list signer * list event) :=
    do rules <- get_valid_context_rules a now (ctx_type c);
    select rules c all_signers.

  Fixpoint validate_all (a : acct) (now : Z) (cs : list ctx) (all_signers : list signer)
    : res (list (rule * ctx * list signer) * list event) :=
    match cs with
    | [] => Ok ([], [])
    | c :: rest =>
        do '(r, au, l) <- get_validated_context a now c all_signers;
        do '(vs, l') <- validate_all a now rest all_signers;
        Ok ((r, c, au) :: vs, l ++ l')
    end.

  (* [pre] = the enforce calls made so far in this check *)
  Fixpoint enforce_policies (pre : list event) (ps : list policy) (c : ctx) (au : list signer) (r : rule)
    : res (list event) :=
    match ps with
    | [] => Ok []
    | p :: rest =>
        if o_enforce O pre p c au r
        then do l <- enforce_policies (pre ++ [EEnforce p c au r]) rest c au r; Ok (EEnforce p c au r :: l)
        else Fail
    end.

  Fixpoint enforce_all (pre : list event) (vs : list (rule * ctx * list signer)) : res (list event) :=
    match vs with
    | [] => Ok []
    | (r, c, au) :: rest =>
        do l <- enforce_policies pre (r_policies r) c au r;
        do l' <- enforce_all (pre ++ l) rest; Ok (l ++ l')
    end.

  Definition do_check_auth (a : acct) (now : Z) (auths : list addr) (sigs : list (signer * sigc))
    (cs : list ctx) : res (list event) :=
    do lv <- authenticate auths sigs;
    do '(vs, lc) <- validate_all a now cs (map fst sigs);
    do le <- enforce_all [] vs;
    Ok (lv ++ lc ++ le).

  (* ----------------------------------------------------------------------- *)
  (* rule management                                                          *)
  (* ----------------------------------------------------------------------- *)

  Definition subset_s (x y : list signer) : bool := forallb (fun s => mem_s s y) x.
  Definition subset_p (x y : list policy) : bool := forallb (fun p => mem_p p y) x.
  (* equality of two fingerprints: same type, same SET of signers, same SET of policies
     (the code sorts both lists before hashing) *)
  Definition fp_eqb (x y : fp) : bool :=
    let '(t, s, p) := x in let '(t', s', p') := y in
    ctype_eqb t t' && subset_s s s' && subset_s s' s && subset_p p p' && subset_p p' p.

  (* compute_fingerprint traps on duplicates *)
  Definition compute_fingerprint (t : ctype) (s : list signer) (p : list policy) : res fp :=
    do _ <- guard (nodup_s s); do _ <- guard (nodup_p p); Ok (t, s, p).
  Definition validate_and_set_fingerprint (fps : list fp) t s p : res (list fp) :=
    do f <- compute_fingerprint t s p;
    if existsb (fp_eqb f) fps then Fail else Ok (f :: fps).
  Definition remove_fingerprint (fps : list fp) t s p : res (list fp) :=
    do f <- compute_fingerprint t s p;
    Ok (filter (fun g => negb (fp_eqb f g)) fps).

  Definition validate_signers_and_policies (c : cfg) (s : list signer) (p : list policy) : res unit :=
    do _ <- guard (zlen s <=? max_signers c);
    do _ <- guard (zlen p <=? max_policies c);
    guard (negb (isnil s && isnil p)).

  Definition valid_until_ok (now : Z) (v : option Z) : bool :=
    match v with Some u => negb (u <? now) | None => true end.

  Fixpoint install_all (ps : list (policy * N)) (r : rule) : res (list event) :=
    match ps with
    | [] => Ok []
    | (p, n) :: rest =>
        if o_install O p n r then do l <- install_all rest r; Ok (EInstall p n r :: l) else Fail
    end.
  (* try_uninstall: a trapping policy is ignored (its own effects are rolled back) *)
  Definition uninstall_all (ps : list policy) (r : rule) : list event :=
    flat_map (fun p => if o_uninstall O p r then [EUninstall p r] else []) ps.

  (* remove the LAST occurrence (rposition) *)
  Fixpoint remove_first {A} (eqb : A -> A -> bool) (x : A) (l : list A) : option (list A) :=
    match l with
    | [] => None
    | y :: r => if eqb x y then Some r
                else match remove_first eqb x r with Some r' => Some (y :: r') | None => None end
    end.
  Definition remove_last {A} (eqb : A -> A -> bool) (x : A) (l : list A) : option (list A) :=
    match remove_first eqb x (rev l) with Some l' => Some (rev l') | None => None end.

  Definition add_context_rule (c : cfg) (a : acct) (now : Z) (t : ctype) (name : N) (valid : option Z)
    (signers : list signer) (policies : list (policy * N)) : res (acct * rule * list event) :=
    let id := a_next a in
    let count := count_of a in
    do _ <- guard (count <? max_rules c);
    do _ <- guard (nodup_s signers);
    do _ <- guard (valid_until_ok now valid);
    let pv := map fst policies in
    do _ <- validate_signers_and_policies c signers pv;
    do fps <- validate_and_set_fingerprint (a_fps a) t signers pv;
    let r := mkRule id t name valid signers pv in
    do l <- install_all policies r;
    do _ <- guard (in_u32 (id + 1));
    do _ <- guard (in_u32 (count + 1));
    Ok (mkAcct (a_rules a ++ [r]) (set_ids t (ids_of a t ++ [id]) (a_ids a)) (id + 1) (Some (count + 1)) fps,
        r, l).

  Definition with_rules (a : acct) (l : list rule) : acct :=
    mkAcct l (a_ids a) (a_next a) (a_count a) (a_fps a).

  Definition update_context_rule_name (a : acct) (id : Z) (name : N) : res (acct * rule * list event) :=
    do r <- get_context_rule a id;
    let r' := mkRule id (r_type r) name (r_valid r) (r_signers r) (r_policies r) in
    Ok (with_rules a (set_rule r' (a_rules a)), r', []).

  Definition update_context_rule_valid_until (a : acct) (now : Z) (id : Z) (valid : option Z)
    : res (acct * rule * list event) :=
    do r <- get_context_rule a id;
    do _ <- guard (valid_until_ok now valid);
    let r' := mkRule id (r_type r) (r_name r) valid (r_signers r) (r_policies r) in
    Ok (with_rules a (set_rule r' (a_rules a)), r', []).

  Definition remove_context_rule (a : acct) (id : Z) : res (acct * list event) :=
    do r <- get_context_rule a id;
    let l := uninstall_all (r_policies r) r in
    do fps <- remove_fingerprint (a_fps a) (r_type r) (r_signers r) (r_policies r);
    let ids := match remove_last Z.eqb id (ids_of a (r_type r)) with
               | Some l' => set_ids (r_type r) l' (a_ids a)
               | None => a_ids a
               end in
    do count <- of_option (a_count a);
    do _ <- guard (in_u32 (count - 1));
    Ok (mkAcct (del_rule id (a_rules a)) ids (a_next a) (Some (count - 1)) fps, l).

  Definition set_signers (a : acct) (r : rule) (s : list signer) (fps : list fp) : acct :=
    mkAcct (set_rule (mkRule (r_id r) (r_type r) (r_name r) (r_valid r) s (r_policies r)) (a_rules a))
           (a_ids a) (a_next a) (a_count a) fps.
  Definition set_policies (a : acct) (r : rule) (p : list policy) (fps : list fp) : acct :=
    mkAcct (set_rule (mkRule (r_id r) (r_type r) (r_name r) (r_valid r) (r_signers r) p) (a_rules a))
           (a_ids a) (a_next a) (a_count a) fps.

  Definition add_signer (c : cfg) (a : acct) (id : Z) (s : signer) : res (acct * list event) :=
    do r <- get_context_rule a id;
    do _ <- guard (negb (mem_s s (r_signers r)));
    let signers := r_signers r ++ [s] in
    do _ <- validate_signers_and_policies c signers (r_policies r);
    do fps <- validate_and_set_fingerprint (a_fps a) (r_type r) signers (r_policies r);
    do fps <- remove_fingerprint fps (r_type r) (r_signers r) (r_policies r);
    Ok (set_signers a r signers fps, []).

  Definition remove_signer (c : cfg) (a : acct) (id : Z) (s : signer) : res (acct * list event) :=
    do r <- get_context_rule a id;
    do signers <- of_option (remove_last signer_eqb s (r_signers r));
    do _ <- validate_signers_and_policies c signers (r_policies r);
    do fps <- validate_and_set_fingerprint (a_fps a) (r_type r) signers (r_policies r);
    do fps <- remove_fingerprint fps (r_type r) (r_signers r) (r_policies r);
    Ok (set_signers a r signers fps, []).

  Definition add_policy (c : cfg) (a : acct) (id : Z) (p : policy) (param : N) : res (acct * list event) :=
    do r <- get_context_rule a id;
    do _ <- guard (negb (mem_p p (r_policies r)));
    do _ <- guard (o_install O p param r);            (* installed with the OLD rule *)
    let policies := r_policies r ++ [p] in
    do _ <- validate_signers_and_policies c (r_signers r) policies;
    do fps <- validate_and_set_fingerprint (a_fps a) (r_type r) (r_signers r) policies;
    do fps <- remove_fingerprint fps (r_type r) (r_signers r) (r_policies r);
    Ok (set_policies a r policies fps, [EInstall p param r]).

  Definition remove_policy (c : cfg) (a : acct) (id : Z) (p : policy) : res (acct * list event) :=
    do r <- get_context_rule a id;
    do policies <- of_option (remove_last N.eqb p (r_policies r));
    do _ <- validate_signers_and_policies c (r_signers r) policies;
    do fps <- validate_and_set_fingerprint (a_fps a) (r_type r) (r_signers r) policies;
    do fps <- remove_fingerprint fps (r_type r) (r_signers r) (r_policies r);
    Ok (set_policies a r policies fps, if o_uninstall O p r then [EUninstall p r] else []).

End CheckAuth.

(* ------------------------------------------------------------------------- *)
(* Calls, as driven by the harness                                            *)
(* ------------------------------------------------------------------------- *)

Inductive adminop :=
| AddRule (t : ctype) (name : N) (valid : option Z) (signers : list signer) (policies : list (policy * N))
| UpdName (id : Z) (name : N)
| UpdValid (id : Z) (valid : option Z)
| RemoveRule (id : Z)
| AddSigner (id : Z) (s : signer)
| RemoveSigner (id : Z) (s : signer)
| AddPolicy (id : Z) (p : policy) (param : N)
| RemovePolicy (id : Z) (p : policy).

(* index of the entry point's name in the harness's table of function names *)
Definition fn_of (op : adminop) : N :=
  match op with
  | AddRule _ _ _ _ _ => 1 | UpdName _ _ => 2 | UpdValid _ _ => 3 | RemoveRule _ => 4
  | AddSigner _ _ => 5 | RemoveSigner _ _ => 6 | AddPolicy _ _ _ => 7 | RemovePolicy _ _ => 8
  end%N.

(* answer table of a mock policy, per (policy, rule id) *)
Inductive pred :=
| PTrue | PFalse | PTrap
| PMin (n : Z)           (* at least n authenticated signers were handed over *)
| PCall (a : N)          (* the context is a call of contract a *)
| PNotCall (a : N)
| PHas (s : signer).     (* s is among the authenticated signers handed over *)
Record pmode := mkMode { m_install : bool; m_uninstall : bool; m_can : pred; m_enf : pred }.
Definition mode0 : pmode := mkMode true true PTrue PTrue.

Definition eval_pred (q : pred) (c : ctx) (au : list signer) : option bool :=
  match q with
  | PTrue => Some true
  | PFalse => Some false
  | PTrap => None
  | PMin n => Some (n <=? zlen au)
  | PCall a => Some (match c with CCall b _ | CTransfer b _ => N.eqb a b | _ => false end)
  | PNotCall a => Some (match c with CCall b _ | CTransfer b _ => negb (N.eqb a b) | _ => true end)
  | PHas s => Some (mem_s s au)
  end.

(* the collaborator environment of a run: the answer table of the mock policies, and the state of
   the two REAL policies that are wired in: policies/simple_threshold.rs (policy index [real_thr]:
   installed threshold per rule id) and policies/spending_limit.rs through the example policy
   contract (policy index [real_spend]: limit, period, spending history and cached total per rule
   id), plus the ledger those policies see *)
Definition mtable := list (policy * Z * pmode).
Record spend := mkSpend { sp_limit : Z; sp_period : Z; sp_hist : list (Z * Z) (* amount, ledger *); sp_cached : Z }.
Record modes := mkModes { md_table : mtable; md_thr : list (Z * Z); md_spend : list (Z * spend); md_now : Z }.
Definition modes0 : modes := mkModes [] [] [] 0.
Definition real_thr : policy := 7%N.
Definition real_spend : policy := 8%N.
Definition max_history : Z := 1000.                 (* MAX_HISTORY_ENTRIES *)

Fixpoint mtable_get (ms : mtable) (p : policy) (id : Z) : pmode :=
  match ms with
  | [] => mode0
  | (p', id', m) :: r => if N.eqb p p' && (id =? id') then m else mtable_get r p id
  end.
Definition mode_of (ms : modes) (p : policy) (id : Z) : pmode := mtable_get (md_table ms) p id.
Definition set_mode (p : policy) (id : Z) (m : pmode) (ms : modes) : modes :=
  mkModes ((p, id, m) :: md_table ms) (md_thr ms) (md_spend ms) (md_now ms).
Definition adv_modes (n : Z) (ms : modes) : modes :=
  mkModes (md_table ms) (md_thr ms) (md_spend ms) (md_now ms + n).

Fixpoint thr_get (t : list (Z * Z)) (id : Z) : option Z :=
  match t with [] => None | (i, v) :: r => if id =? i then Some v else thr_get r id end.
Definition thr_remove (t : list (Z * Z)) (id : Z) : list (Z * Z) := filter (fun iv => negb (fst iv =? id)) t.
Definition thr_of (ms : modes) (id : Z) : option Z := thr_get (md_thr ms) id.
Definition set_thr (id t : Z) (ms : modes) : modes :=
  mkModes (md_table ms) ((id, t) :: thr_remove (md_thr ms) id) (md_spend ms) (md_now ms).

Fixpoint spend_get (t : list (Z * spend)) (id : Z) : option spend :=
  match t with [] => None | (i, v) :: r => if id =? i then Some v else spend_get r id end.
Definition spend_remove (t : list (Z * spend)) (id : Z) : list (Z * spend) := filter (fun iv => negb (fst iv =? id)) t.

Definition sig_verdict (d : sigc) : option bool :=
  match d with SGood => Some true | SBad => Some false | STrap => None end.

(* simple_threshold::can_enforce / enforce: installed and at least threshold signers handed over *)
Definition thr_met (ms : modes) (au : list signer) (r : rule) : bool :=
  match thr_of ms (r_id r) with Some t => t <=? zlen au | None => false end.

(* ---- spending_limit.rs ---- *)
(* current_ledger.saturating_sub(period_ledgers) *)
Definition cutoff (now period : Z) : Z := Z.max 0 (now - period).
(* can_enforce's scan: total of the leading entries at or before the cutoff, and whether the
   remaining history is at capacity; None = i128 overflow trap of [expired_total += amount] *)
Fixpoint expired_scan (h : list (Z * Z)) (cut : Z) (acc : Z) : option (Z * list (Z * Z)) :=
  match h with
  | [] => Some (acc, [])
  | (amt, led) :: rest =>
      if led <=? cut then (if in_i128 (acc + amt) then expired_scan rest cut (acc + amt) else None)
      else Some (acc, h)
  end.
Definition spend_can (d : spend) (now : Z) (c : ctx) (au : list signer) : option bool :=
  if isnil au then Some false else
  match c with
  | CTransfer _ amt =>
      match expired_scan (sp_hist d) (cutoff now (sp_period d)) 0 with
      | None => None
      | Some (expired, remaining) =>
          if negb (isnil remaining) && (max_history <=? zlen remaining) then Some false
          else if negb (in_i128 (sp_cached d - expired)) then None
          else if negb (in_i128 (sp_cached d - expired + amt)) then None
          else Some (sp_cached d - expired + amt <=? sp_limit d)
      end
  | _ => Some false
  end.
(* enforce: drop the expired leading entries, refuse beyond the limit or at capacity, record *)
Definition spend_enforce (d : spend) (now : Z) (c : ctx) (au : list signer) : option spend :=
  if isnil au then None else
  match c with
  | CTransfer _ amt =>
      match expired_scan (sp_hist d) (cutoff now (sp_period d)) 0 with
      | None => None
      | Some (removed, remaining) =>
          let cached := sp_cached d - removed in
          if negb (in_i128 cached) || negb (in_i128 (cached + amt)) then None
          else if sp_limit d <? cached + amt then None
          else if max_history <=? zlen remaining then None
          else Some (mkSpend (sp_limit d) (sp_period d) (remaining ++ [(amt, now)]) (cached + amt))
      end
  | _ => None
  end.

(* the state a later enforce call of this check sees: the stored one after the enforce calls already
   made for the same rule *)
Fixpoint spend_replay (d : option spend) (now : Z) (id : Z) (pre : list event) : option spend :=
  match pre with
  | [] => d
  | EEnforce p c au r :: rest =>
      if N.eqb p real_spend && (r_id r =? id)
      then spend_replay (match d with Some x => spend_enforce x now c au | None => None end) now id rest
      else spend_replay d now id rest
  | _ :: rest => spend_replay d now id rest
  end.

(* installation parameter of the spending-limit policy, packed in one number: limit = n / 8,
   period = the (n mod 8)-th entry of a fixed table of period lengths *)
Definition spend_limit_of (n : N) : Z := Z.of_N n / 8.
Definition spend_period_of (n : N) : Z :=
  nth (Z.to_nat (Z.of_N n mod 8)) [0; 1; 2; 5; 20; 100; 17281; 1000000] 0.

(* The host forbids contract re-entry.  While the threshold policy's own set_threshold entry point
   is the running top-level call (the DIRECT call, not the one through the account's `execute`),
   the account's __check_auth cannot call back into that policy contract: every can_enforce of it
   traps.  Marked in the environment by a reserved entry of the answer table (rule ids are >= 0). *)
Definition thr_busy (ms : modes) : bool :=
  match m_can (mode_of ms real_thr (-1)) with PTrap => true | _ => false end.
Definition mark_busy (ms : modes) : modes := set_mode real_thr (-1) (mkMode true true PTrap PTrue) ms.

Definition can_answer (ms : modes) (p : policy) (c : ctx) (au : list signer) (r : rule) : option bool :=
  if N.eqb p real_thr then (if thr_busy ms then None else Some (thr_met ms au r))
  else if N.eqb p real_spend then
    match spend_get (md_spend ms) (r_id r) with
    | Some d => spend_can d (md_now ms) c au
    | None => Some false
    end
  else eval_pred (m_can (mode_of ms p (r_id r))) c au.
Definition enf_answer (ms : modes) (pre : list event) (p : policy) (c : ctx) (au : list signer) (r : rule) : bool :=
  if N.eqb p real_thr then thr_met ms au r
  else if N.eqb p real_spend then
    match spend_replay (spend_get (md_spend ms) (r_id r)) (md_now ms) (r_id r) pre with
    | Some d => match spend_enforce d (md_now ms) c au with Some _ => true | None => false end
    | None => false
    end
  else match eval_pred (m_enf (mode_of ms p (r_id r))) c au with Some true => true | _ => false end.
(* simple_threshold::install: not yet installed for this rule, 1 <= threshold <= number of signers;
   spending_limit::install: not yet installed, limit > 0, period > 0 *)
Definition install_answer (ms : modes) (p : policy) (n : N) (r : rule) : bool :=
  if N.eqb p real_thr then
    match thr_of ms (r_id r) with
    | Some _ => false
    | None => (1 <=? Z.of_N n) && (Z.of_N n <=? zlen (r_signers r))
    end
  else if N.eqb p real_spend then
    match spend_get (md_spend ms) (r_id r) with
    | Some _ => false
    | None => (0 <? spend_limit_of n) && (0 <? spend_period_of n)
    end
  else m_install (mode_of ms p (r_id r)).
Definition uninstall_answer (ms : modes) (p : policy) (r : rule) : bool :=
  if N.eqb p real_thr || N.eqb p real_spend then true else m_uninstall (mode_of ms p (r_id r)).

Definition oracles_of (ms : modes) : oracles :=
  mkOracles (fun _ _ d => sig_verdict d) (can_answer ms) (enf_answer ms) (install_answer ms) (uninstall_answer ms).

(* the surviving install / uninstall / enforce calls of the real policies change their state *)
Definition apply_event (ms : modes) (e : event) : modes :=
  match e with
  | EInstall p n r =>
      if N.eqb p real_thr then set_thr (r_id r) (Z.of_N n) ms
      else if N.eqb p real_spend then
        mkModes (md_table ms) (md_thr ms)
                ((r_id r, mkSpend (spend_limit_of n) (spend_period_of n) [] 0) :: spend_remove (md_spend ms) (r_id r)) (md_now ms)
      else ms
  | EUninstall p r =>
      if N.eqb p real_thr then mkModes (md_table ms) (thr_remove (md_thr ms) (r_id r)) (md_spend ms) (md_now ms)
      else if N.eqb p real_spend then mkModes (md_table ms) (md_thr ms) (spend_remove (md_spend ms) (r_id r)) (md_now ms)
      else ms
  | EEnforce p c au r =>
      if N.eqb p real_spend then
        match spend_get (md_spend ms) (r_id r) with
        | Some d => match spend_enforce d (md_now ms) c au with
                    | Some d' => mkModes (md_table ms) (md_thr ms) ((r_id r, d') :: spend_remove (md_spend ms) (r_id r)) (md_now ms)
                    | None => ms
                    end
        | None => ms
        end
      else ms
  | _ => ms
  end.
Definition apply_log (ms : modes) (l : list event) : modes := fold_left apply_event l ms.

Inductive call :=
| Construct (signers : list signer) (policies : list (policy * N))
| Advance (n : Z)
| SetMode (p : policy) (id : Z) (m : pmode)
(* an entry point of the account, authorised by a real authorisation entry for the
   account itself: the host runs __check_auth on [CCall self fn] first *)
| Admin (sigs : list (signer * sigc)) (auths : list addr) (op : adminop)
(* __check_auth invoked directly *)
| CheckAuth (sigs : list (signer * sigc)) (auths : list addr) (cs : list ctx)
(* end to end: a contract call tree in which every node requires the account's
   authorisation; cs = the contexts the host derives from the tree *)
| Invoke (sigs : list (signer * sigc)) (auths : list addr) (cs : list ctx)
(* the threshold policy's own set_threshold(t, rule, account) entry point, which requires the
   account's authorisation: called by the account through its `execute` entry point (the host runs
   __check_auth on the call of the account itself) or directly (on the call of the policy
   contract); nsig = the number of signers of the rule handed over as argument *)
| SetThreshold (via_execute : bool) (sigs : list (signer * sigc)) (auths : list addr) (id t nsig : Z).

Record state := mkState { s_now : Z; s_deployed : bool; s_acct : acct; s_modes : modes }.
Definition init : state := mkState 0 false acct0 modes0.

Definition self : N := 0%N.
(* indices of the harness tables: the threshold policy among the callable contracts; fn names *)
Definition thr_callee : N := 4%N.
Definition fn_execute : N := 11%N.
Definition fn_set_threshold : N := 12%N.

Definition outcome := res (option rule * list event).

Definition run_op (O : oracles) (c : cfg) (a : acct) (now : Z) (op : adminop)
  : res (acct * option rule * list event) :=
  match op with
  | AddRule t name valid signers policies =>
      do '(a', r, l) <- add_context_rule O c a now t name valid signers policies; Ok (a', Some r, l)
  | UpdName id name => do '(a', r, l) <- update_context_rule_name a id name; Ok (a', Some r, l)
  | UpdValid id valid => do '(a', r, l) <- update_context_rule_valid_until a now id valid; Ok (a', Some r, l)
  | RemoveRule id => do '(a', l) <- remove_context_rule O a id; Ok (a', None, l)
  | AddSigner id s => do '(a', l) <- add_signer c a id s; Ok (a', None, l)
  | RemoveSigner id s => do '(a', l) <- remove_signer c a id s; Ok (a', None, l)
  | AddPolicy id p n => do '(a', l) <- add_policy O c a id p n; Ok (a', None, l)
  | RemovePolicy id p => do '(a', l) <- remove_policy O c a id p; Ok (a', None, l)
  end.

Definition step (c : cfg) (st : state) (cl : call) : state * outcome :=
  let O := oracles_of (s_modes st) in
  match cl with
  | Construct signers policies =>
      if s_deployed st then (st, Fail)
      else match add_context_rule O c (s_acct st) (s_now st) TDefault 0%N None signers policies with
           | Ok (a', r, l) => (mkState (s_now st) true a' (apply_log (s_modes st) l), Ok (None, l))
           | Fail => (st, Fail)
           end
  | Advance n =>
      if (0 <=? n) && in_u32 (s_now st + n) then (mkState (s_now st + n) (s_deployed st) (s_acct st) (adv_modes n (s_modes st)), Ok (None, []))
      else (st, Fail)
  | SetMode p id m => (mkState (s_now st) (s_deployed st) (s_acct st) (set_mode p id m (s_modes st)), Ok (None, []))
  | Admin sigs auths op =>
      if negb (s_deployed st) then (st, Fail)
      else match (do l1 <- do_check_auth O (s_acct st) (s_now st) auths sigs [CCall self (fn_of op)];
                  do '(a', ret, l2) <- run_op O c (s_acct st) (s_now st) op;
                  Ok (a', ret, l1 ++ l2)) with
           | Ok (a', ret, l) => (mkState (s_now st) (s_deployed st) a' (apply_log (s_modes st) l), Ok (ret, l))
           | Fail => (st, Fail)
           end
  | CheckAuth sigs auths cs | Invoke sigs auths cs =>
      if negb (s_deployed st) then (st, Fail)
      else match do_check_auth O (s_acct st) (s_now st) auths sigs cs with
           | Ok l => (mkState (s_now st) (s_deployed st) (s_acct st) (apply_log (s_modes st) l), Ok (None, l))
           | Fail => (st, Fail)
           end
  | SetThreshold via sigs auths id t nsig =>
      if negb (s_deployed st) then (st, Fail)
      else match do_check_auth (if via then O else oracles_of (mark_busy (s_modes st))) (s_acct st) (s_now st) auths sigs
                   [if via then CCall self fn_execute else CCall thr_callee fn_set_threshold] with
           | Ok l =>
               if (1 <=? t) && (t <=? nsig)       (* validate_and_set_threshold *)
               then (mkState (s_now st) (s_deployed st) (s_acct st) (set_thr id t (apply_log (s_modes st) l)), Ok (None, l))
               else (st, Fail)
           | Fail => (st, Fail)
           end
  end.

Definition run (c : cfg) (st : state) (cs : list call) : state := fold_left (fun s cl => fst (step c s cl)) cs st.

(* ------------------------------------------------------------------------- *)
(* Observation (public getters after every call)                              *)
(* ------------------------------------------------------------------------- *)

Record obs := mkObs {
  ob_now : Z;
  ob_count : Z;                          (* get_context_rules_count *)
  ob_rules : list rule;                  (* get_context_rule(id) for every id that answers, in id order *)
  ob_ids : list (ctype * option (list Z)) (* ids of get_context_rules(t) for the types of the universe *)
}.

Definition observe (types : list ctype) (st : state) : obs :=
  mkObs (s_now st) (count_of (s_acct st)) (a_rules (s_acct st))
        (map (fun t => (t, match get_context_rules (s_acct st) t with Ok l => Some (map r_id l) | Fail => None end)) types).
