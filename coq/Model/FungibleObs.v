(* Observations, traces and the model-vs-implementation diff shared by Run/C01.v and Run/C02.v.
   An observation is what the harness reads from the real contract after every call (also after
   failing ones): the ledger sequence, total_supply, balance of every address of the universe,
   allowance_data + the temporary entry's storage live_until of every ordered pair, and the
   flavour's extra getters. *)
From SC Require Import Lib.Prelude Lib.Int Lib.Host Model.Math Model.Fungible.

Record obs := {
  o_now : Z;
  o_supply : Z;
  o_bal : list (addr * Z);
  (* (owner, spender) |-> (amount, live_until) of allowance_data, storage live_until of the
     temporary entry (-1 when there is no live entry); sparse: pairs whose triple is the
     default (0, 0, -1) are omitted *)
  o_allow : list (pkey * (Z * Z * Z));
  o_extra : list Z
}.

Definition item := (call * outcome * list event * obs)%type.
Record trace := { t_cfg : cfg; t_univ : list addr; t_start : Z; t_items : list item }.

Definition pairs (univ : list addr) : list pkey := list_prod univ univ.

Definition entry_live_until (now : Z) (e : option (tentry (Z * Z))) : Z :=
  match tlive_at now e with Some en => tlive en | None => -1 end.

Definition b2z (b : bool) : Z := if b then 1 else 0.

Definition extras (c : cfg) (univ : list addr) (s : state) : list Z :=
  match c_flav c with
  | FBase => []
  | FAllow | FBlock => map (fun a => b2z (mem a (listed s))) univ
  | FVotes => tsvotes s :: flat_map (fun a => [getd (units s) a; getd (dvotes s) a;
                                               match get_delegate s a with Some d => Z.of_N d | None => -1 end]) univ
  | FVault => map (fun a => balance (asset s) a) univ
  | FRwa => b2z (paused s) :: flat_map (fun a => [frozen_of s a; b2z (is_frozen s a)]) univ
  end.

Definition allow_default : Z * Z * Z := (0, 0, -1).
Definition z3_eqb (a b : Z * Z * Z) : bool :=
  (fst (fst a) =? fst (fst b)) && (snd (fst a) =? snd (fst b)) && (snd a =? snd b).
Definition allow_obs (s : state) (p : pkey) : Z * Z * Z :=
  (allowance_data (now s) (tk s) (fst p) (snd p), entry_live_until (now s) (aentry (tk s) (fst p) (snd p))).
Definition nondefault (x : pkey * (Z * Z * Z)) : bool := negb (z3_eqb (snd x) allow_default).

Definition observe (c : cfg) (univ : list addr) (s : state) : obs :=
  {| o_now := now s;
     o_supply := supply (tk s);
     o_bal := map (fun a => (a, balance (tk s) a)) univ;
     o_allow := filter nondefault (map (fun p => (p, allow_obs s p)) (pairs univ));
     o_extra := extras c univ s |}.

(* lookups used by the monitors *)
Definition bal_of (o : obs) (a : addr) : Z := getd (o_bal o) a.
Definition allow_of (o : obs) (p : pkey) : Z * Z * Z :=
  match pget p (o_allow o) with Some v => v | None => allow_default end.

(* ---- boolean equalities ---- *)
Fixpoint list_eqb {A} (eqb : A -> A -> bool) (a b : list A) : bool :=
  match a, b with
  | [], [] => true
  | x :: r, y :: r' => eqb x y && list_eqb eqb r r'
  | _, _ => false
  end.
Definition oz_eqb (a b : option Z) : bool :=
  match a, b with Some x, Some y => x =? y | None, None => true | _, _ => false end.
Definition event_eqb (a b : event) : bool :=
  match a, b with
  | EMint t x, EMint t' x' => N.eqb t t' && (x =? x')
  | EBurn f x, EBurn f' x' => N.eqb f f' && (x =? x')
  | ETransfer f t m x, ETransfer f' t' m' x' => N.eqb f f' && N.eqb t t' && oz_eqb m m' && (x =? x')
  | EApprove o s x l, EApprove o' s' x' l' => N.eqb o o' && N.eqb s s' && (x =? x') && (l =? l')
  | EDeposit o f r a s, EDeposit o' f' r' a' s' => N.eqb o o' && N.eqb f f' && N.eqb r r' && (a =? a') && (s =? s')
  | EWithdraw o r w a s, EWithdraw o' r' w' a' s' => N.eqb o o' && N.eqb r r' && N.eqb w w' && (a =? a') && (s =? s')
  | _, _ => false
  end.
Definition outcome_eqb (a b : outcome) : bool :=
  match a, b with Ok x, Ok y => x =? y | Fail, Fail => true | _, _ => false end.
Definition bal_eqb (a b : addr * Z) : bool := N.eqb (fst a) (fst b) && (snd a =? snd b).
Definition allow_eqb (a b : pkey * (Z * Z * Z)) : bool := pkey_eqb (fst a) (fst b) && z3_eqb (snd a) (snd b).
Definition obs_eqb (a b : obs) : bool :=
  (o_now a =? o_now b) && (o_supply a =? o_supply b) && list_eqb bal_eqb (o_bal a) (o_bal b)
  && list_eqb allow_eqb (o_allow a) (o_allow b) && list_eqb Z.eqb (o_extra a) (o_extra b).

Definition item_agrees (c : cfg) (univ : list addr) (s : state) (it : item) : state * bool :=
  let '(cl, out, evs, ob) := it in
  let '(s', out', evs') := step c s cl in
  (s', outcome_eqb out out' && list_eqb event_eqb evs evs' && obs_eqb ob (observe c univ s')).

(* 1-based index of the first call at which outcome, events or observation differ; 0 = none *)
Fixpoint diff_from (c : cfg) (univ : list addr) (s : state) (items : list item) (i : N) : N :=
  match items with
  | [] => 0%N
  | it :: r =>
      let '(s', ok) := item_agrees c univ s it in
      if ok then diff_from c univ s' r (N.succ i) else N.succ i
  end.

Definition diff (t : trace) : N := diff_from (t_cfg t) (t_univ t) (init (t_start t)) (t_items t) 0%N.

(* Persistence: the passage of time alone (an Advance) changes none of the flavour's extra getters
   (list flags, voting units / delegation, vault asset balances, RWA freezes / pause).  Skipped when there
   is no previous observation of them (first call of a trace, or a flavour without extras). *)
Definition is_nilZ (l : list Z) : bool := match l with [] => true | _ => false end.
Definition advance_keeps_extras (prev cur : obs) (cl : call) (out : outcome) : bool :=
  match cl, out with
  | Advance _, Ok _ => is_nilZ (o_extra prev) || list_eqb Z.eqb (o_extra cur) (o_extra prev)
  | _, _ => true
  end.

(* the trace the model itself produces *)
Fixpoint model_items (c : cfg) (univ : list addr) (s : state) (cs : list call) : list item :=
  match cs with
  | [] => []
  | cl :: r =>
      let '(s', out, evs) := step c s cl in
      (cl, out, evs, observe c univ s') :: model_items c univ s' r
  end.
Definition model_trace (c : cfg) (univ : list addr) (start : Z) (cs : list call) : trace :=
  {| t_cfg := c; t_univ := univ; t_start := start; t_items := model_items c univ (init start) cs |}.
