(* Observations, traces and the model-vs-implementation diff shared by Run/C01.v and Run/C02.v.
   An observation is what the harness reads from the real contract after every call (also after
   failing ones): the ledger sequence, total_supply, balance of every address of the universe,
   allowance_data + the temporary entry's storage live_until of every ordered pair, and the
   flavour's extra getters. *)
From SC Require Import Lib.Prelude Lib.Int Lib.Host Model.Math Model.Fungible.

Record obs := {
  o_now : Z;
  o_supply : Z;
  o_bal : list (addr * Z);
  (* (owner, spender) |-> (amount, live_until) of allowance_data, storage live_until of the
     temporary entry (-1 when there is no live entry); sparse: pairs whose triple is the
     default (0, 0, -1) are omitted *)
  o_allow : list (pkey * (Z * Z * Z));
  o_extra : list Z
}.

Definition item := (call * outcome * list event * obs)%type.
(* [t_init] is the observation taken at genesis, before the first call *)
Record trace := { t_cfg : cfg; t_univ : list addr; t_start : Z; t_init : obs; t_items : list item }.

Definition pairs (univ : list addr) : list pkey := list_prod univ univ.

Definition entry_live_until (now : Z) (e : option (tentry (Z * Z))) : Z :=
  match tlive_at now e with Some en => tlive en | None => -1 end.

Definition b2z (b : bool) : Z := if b then 1 else 0.

Definition extras (c : cfg) (univ : list addr) (s : state) : list Z :=
  match c_flav c with
  | FBase => []
  | FAllow | FBlock => map (fun a => b2z (mem a (listed s))) univ
  | FVotes => tsvotes s :: flat_map (fun a => [getd (units s) a; getd (dvotes s) a;
                                               match get_delegate s a with Some d => Z.of_N d | None => -1 end]) univ
  | FVault => map (fun a => balance (asset s) a) univ
  | FRwa => b2z (paused s) :: flat_map (fun a => [frozen_of s a; b2z (is_frozen s a)]) univ
  end.

Definition allow_default : Z * Z * Z := (0, 0, -1).
Definition z3_eqb (a b : Z * Z * Z) : bool :=
  (fst (fst a) =? fst (fst b)) && (snd (fst a) =? snd (fst b)) && (snd a =? snd b).
Definition allow_obs (s : state) (p : pkey) : Z * Z * Z :=
  (allowance_data (now s) (tk s) (fst p) (snd p), entry_live_until (now s) (aentry (tk s) (fst p) (snd p))).
Definition nondefault (x : pkey * (Z * Z * Z)) : bool := negb (z3_eqb (snd x) allow_default).

Definition observe (c : cfg) (univ : list addr) (s : state) : obs :=
  {| o_now := now s;
     o_supply := supply (tk s);
     o_bal := map (fun a => (a, balance (tk s) a)) univ;
     o_allow := filter nondefault (map (fun p => (p, allow_obs s p)) (pairs univ));
     o_extra := extras c univ s |}.

(* lookups used by the monitors *)
Definition bal_of (o : obs) (a : addr) : Z := getd (o_bal o) a.
Definition allow_of (o : obs) (p : pkey) : Z * Z * Z :=
  match pget p (o_allow o) with Some v => v | None => allow_default end.

(* ---- boolean equalities ---- *)
Fixpoint list_eqb {A} (eqb : A -> A -> bool) (a b : list A) : bool :=
  match a, b with
  | [], [] => true
  | x :: r, y :: r' => eqb x y && list_eqb eqb r r'
  | _, _ => false
  end.
Definition oz_eqb (a b : option Z) : bool :=
  match a, b with Some x, Some y => x =? y | None, None => true | _, _ => false end.
Definition event_eqb (a b : event) : bool :=
  match a, b with
  | EMint t x, EMint t' x' => N.eqb t t' && (x =? x')
  | EBurn f x, EBurn f' x' => N.eqb f f' && (x =? x')
  | ETransfer f t m x, ETransfer f' t' m' x' => N.eqb f f' && N.eqb t t' && oz_eqb m m' && (x =? x')
  | EApprove o s x l, EApprove o' s' x' l' => N.eqb o o' && N.eqb s s' && (x =? x') && (l =? l')
  | EDeposit o f r a s, EDeposit o' f' r' a' s' => N.eqb o o' && N.eqb f f' && N.eqb r r' && (a =? a') && (s =? s')
  | EWithdraw o r w a s, EWithdraw o' r' w' a' s' => N.eqb o o' && N.eqb r r' && N.eqb w w' && (a =? a') && (s =? s')
  | _, _ => false
  end.
Definition outcome_eqb (a b : outcome) : bool :=
  match a, b with Ok x, Ok y => x =? y | Fail, Fail => true | _, _ => false end.
Definition bal_eqb (a b : addr * Z) : bool := N.eqb (fst a) (fst b) && (snd a =? snd b).
Definition allow_eqb (a b : pkey * (Z * Z * Z)) : bool := pkey_eqb (fst a) (fst b) && z3_eqb (snd a) (snd b).
Definition obs_eqb (a b : obs) : bool :=
  (o_now a =? o_now b) && (o_supply a =? o_supply b) && list_eqb bal_eqb (o_bal a) (o_bal b)
  && list_eqb allow_eqb (o_allow a) (o_allow b) && list_eqb Z.eqb (o_extra a) (o_extra b).

Definition item_agrees (c : cfg) (univ : list addr) (s : state) (it : item) : state * bool :=
  let '(cl, out, evs, ob) := it in
  let '(s', out', evs') := step c s cl in
  (s', outcome_eqb out out' && list_eqb event_eqb evs evs' && obs_eqb ob (observe c univ s')).

(* 1-based index of the first call at which outcome, events or observation differ; 0 = none *)
Fixpoint diff_from (c : cfg) (univ : list addr) (s : state) (items : list item) (i : N) : N :=
  match items with
  | [] => 0%N
  | it :: r =>
      let '(s', ok) := item_agrees c univ s it in
      if ok then diff_from c univ s' r (N.succ i) else N.succ i
  end.

Definition diff (t : trace) : N :=
  if obs_eqb (t_init t) (observe (t_cfg t) (t_univ t) (init (t_start t)))
  then diff_from (t_cfg t) (t_univ t) (init (t_start t)) (t_items t) 0%N
  else 1%N.

(* ------------------------------------------------------------------------- *)
(* Clauses shared by the C01 and C02 monitors.  They make the monitors stand on their own: the shape
   of every observation is checked (not assumed), every address a call names must be observed, the
   clock moves only by Advance, a failing call and a getter call leave ALL observed state unchanged,
   time passing alone changes nothing but (possibly) allowances, and the values returned by the public
   getters total_supply() / balance() / allowance() are the observed ones. *)

(* every address named in the arguments of a call *)
Definition call_addrs_all (cl : call) : list addr :=
  match cl with
  | Advance _ | QSupply | RPause _ => []
  | Mint a _ | QBalance a | SetListed a _ | AssetMint a _ | RBurn a _ | RFreeze a _ | RUnfreeze a _ | RSetFrozen a _
  | Burn _ a _ => [a]
  | Transfer _ a b _ _ | QAllowance a b | Delegate _ a b | RForcedTransfer a b _ | RRecover a b | RSetRecovery a b
  | Approve _ a b _ _ | AssetApprove _ a b _ _ | BurnFrom _ a b _ => [a; b]
  | TransferFrom _ a b c _ => [a; b; c]
  | VDeposit _ _ _ a b c | VMint _ _ _ a b c | VWithdraw _ _ a b c | VRedeem _ _ a b c => [a; b; c]
  end.

Fixpoint nodupb (l : list addr) : bool :=
  match l with [] => true | a :: r => negb (mem a r) && nodupb r end.

(* shape of one observation: exactly one balance per address of the universe, in order; allowance keys
   within the universe; nothing negative (a trapped getter is reported as a negative sentinel) *)
Definition obs_shape_ok (univ : list addr) (o : obs) : bool :=
  list_eqb N.eqb (map fst (o_bal o)) univ
  && forallb (fun x => existsb (pkey_eqb (fst x)) (pairs univ)) (o_allow o)
  && (0 <=? o_supply o)
  && forallb (fun x => 0 <=? snd x) (o_bal o)
  && forallb (fun x => 0 <=? fst (fst (snd x))) (o_allow o).

(* genesis: nothing exists yet *)
Definition genesis_ok (univ : list addr) (start : Z) (o : obs) : bool :=
  nodupb univ && obs_shape_ok univ o && (o_now o =? start) && (o_supply o =? 0)
  && forallb (fun x => snd x =? 0) (o_bal o)
  && match o_allow o with [] => true | _ => false end.

Definition same_all (univ : list addr) (prev cur : obs) : bool :=
  (o_supply cur =? o_supply prev)
  && forallb (fun a => bal_of cur a =? bal_of prev a) univ
  && forallb (fun p => z3_eqb (allow_of cur p) (allow_of prev p)) (pairs univ)
  && list_eqb Z.eqb (o_extra cur) (o_extra prev).

Definition common_ok (univ : list addr) (prev : obs) (it : item) : bool :=
  let '(cl, out, evs, cur) := it in
  obs_shape_ok univ cur
  && forallb (fun a => mem a univ) (call_addrs_all cl)
  (* the ledger sequence moves by Advance only *)
  && (o_now cur =? match cl, out with Advance n, Ok _ => o_now prev + n | _, _ => o_now prev end)
  && match out with
     | Fail => same_all univ prev cur && match evs with [] => true | _ => false end
     | Ok v =>
         match cl with
         | Advance _ =>
             (* time passing alone: balances, supply and the flavour's other state stay (allowances may
                expire: C02) *)
             (o_supply cur =? o_supply prev)
             && forallb (fun a => bal_of cur a =? bal_of prev a) univ
             && list_eqb Z.eqb (o_extra cur) (o_extra prev)
         | QSupply => (v =? o_supply cur) && same_all univ prev cur
         | QBalance a => (v =? bal_of cur a) && same_all univ prev cur
         | QAllowance o sp => (v =? fst (fst (allow_of cur (o, sp)))) && same_all univ prev cur
         | _ => true
         end
     end.

Definition wf_calls_all (univ : list addr) (cs : list call) : bool :=
  nodupb univ && forallb (fun cl => forallb (fun a => mem a univ) (call_addrs_all cl)) cs.

(* the trace the model itself produces *)
Fixpoint model_items (c : cfg) (univ : list addr) (s : state) (cs : list call) : list item :=
  match cs with
  | [] => []
  | cl :: r =>
      let '(s', out, evs) := step c s cl in
      (cl, out, evs, observe c univ s') :: model_items c univ s' r
  end.
Definition model_trace (c : cfg) (univ : list addr) (start : Z) (cs : list call) : trace :=
  {| t_cfg := c; t_univ := univ; t_start := start; t_init := observe c univ (init start);
     t_items := model_items c univ (init start) cs |}.
