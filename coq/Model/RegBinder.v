(* C20 / registry 1: token binder
   (packages/tokens/src/rwa/utils/token_binder/storage.rs).
   Bound tokens are kept in buckets of BUCKET_SIZE addresses under
   TokenBucket(k), plus TotalCount; removal is swap-and-pop across buckets.
   Transcribed guard by guard; counts / indices are [nat] (Vec lengths, bounded by
   MAX_TOKENS), u32 arguments of callers are [N] and compared before conversion. *)
From SC Require Import Lib.Prelude Model.SwapPop Model.RegCommon.
Local Open Scope nat_scope.

Record tb_cfg := { tb_bs : nat;      (* BUCKET_SIZE *)
                   tb_max : nat }.   (* MAX_TOKENS *)

Record tb_state := { tb_count : nat;                          (* TotalCount (absent = 0) *)
                     tb_buckets : list (nat * list addr) }.   (* TokenBucket(k) entries *)
Definition tb_init : tb_state := {| tb_count := 0; tb_buckets := [] |}.

Section WithCfg.
  Variable c : tb_cfg.
  Local Notation bs := (tb_bs c).

  (* number of buckets scanned by `for bucket_idx in 0..=last_bucket` (count > 0) *)
  Definition tb_nbuckets (count : nat) : nat := S ((count - 1) / bs).

  (* get_token_by_index *)
  Definition tb_by_index_nat (s : tb_state) (i : nat) : res addr :=
    if tb_count s <=? i then Fail
    else do b <- of_option (bk_get (tb_buckets s) (i / bs));      (* .expect("bucket to be present") *)
         of_option (nth_error b (i mod bs)).                       (* .expect("value in bucket ...") *)
  Definition tb_by_index (s : tb_state) (i : N) : res addr :=
    if (N.of_nat (tb_count s) <=? i)%N then Fail else tb_by_index_nat s (N.to_nat i).

  (* the bucket scan of get_token_index: buckets k, k+1, ... (m of them) *)
  Fixpoint tb_scan (bk : list (nat * list addr)) (t : addr) (k m : nat) : option nat :=
    match m with
    | 0 => None
    | S m' => match index_of N.eqb t (bk_get0 bk k) with
              | Some r => Some (k * bs + r)
              | None => tb_scan bk t (S k) m'
              end
    end.
  Definition tb_index_of (s : tb_state) (t : addr) : res nat :=
    if tb_count s =? 0 then Fail
    else of_option (tb_scan (tb_buckets s) t 0 (tb_nbuckets (tb_count s))).

  Definition tb_is_bound (s : tb_state) (t : addr) : bool :=
    if tb_count s =? 0 then false
    else existsb (fun k => memb N.eqb t (bk_get0 (tb_buckets s) k)) (seq 0 (tb_nbuckets (tb_count s))).

  Definition tb_linked (s : tb_state) : list addr :=
    if tb_count s =? 0 then []
    else flat_map (fun k => bk_get0 (tb_buckets s) k) (seq 0 (tb_nbuckets (tb_count s))).

  (* bind_token *)
  Definition tb_bind (s : tb_state) (t : addr) : res tb_state :=
    if tb_is_bound s t then Fail
    else if tb_max c <=? tb_count s then Fail
    else
      let k := tb_count s / bs in
      let b := bk_get0 (tb_buckets s) k in
      Ok {| tb_count := S (tb_count s); tb_buckets := bk_set (tb_buckets s) k (b ++ [t]) |}.

  (* the `while i < tokens.len()` loop of bind_tokens: fills the current bucket, stores it,
     continues with the next one.  [fuel] bounds the number of outer iterations; an
     iteration that cannot take any token would spin forever in the code (= failure). *)
  Fixpoint tb_fill (bound : list addr) (fuel : nat) (ts : list addr) (count : nat)
           (bk : list (nat * list addr)) : res (nat * list (nat * list addr)) :=
    match ts with
    | [] => Ok (count, bk)
    | _ :: _ =>
        match fuel with
        | 0 => Fail
        | S fuel' =>
            let k := count / bs in
            let b := bk_get0 bk k in
            let used := length b in
            if bs <? used then Fail                       (* BUCKET_SIZE - used underflows *)
            else
              let to_take := Nat.min (bs - used) (length ts) in
              let now := firstn to_take ts in
              if existsb (fun t => memb N.eqb t bound) now then Fail   (* TokenAlreadyBound *)
              else tb_fill bound fuel' (skipn to_take ts) (count + to_take) (bk_set bk k (b ++ now))
        end
    end.

  (* bind_tokens *)
  Definition tb_bind_many (s : tb_state) (ts : list addr) : res tb_state :=
    let n := length ts in
    if 2 * bs <? n then Fail                                  (* BindBatchTooLarge *)
    else if tb_max c <? tb_count s + n then Fail              (* MaxTokensReached *)
    else if negb (nodupb N.eqb ts) then Fail                  (* BindBatchDuplicates *)
    else
      do r <- tb_fill (tb_linked s) (S n) ts (tb_count s) (tb_buckets s);
      Ok {| tb_count := fst r; tb_buckets := snd r |}.

  (* unbind_token *)
  Definition tb_unbind (s : tb_state) (t : addr) : res tb_state :=
    do ti <- tb_index_of s t;
    let count := tb_count s in
    if count =? 0 then Fail                                   (* count - 1 underflows *)
    else
      let last := count - 1 in
      do bk1 <- (if ti =? last then Ok (tb_buckets s)
                 else do lt <- tb_by_index_nat s last;
                      do b' <- vec_set (ti mod bs) lt (bk_get0 (tb_buckets s) (ti / bs));
                      Ok (bk_set (tb_buckets s) (ti / bs) b'));
      let lb := bk_get0 bk1 (last / bs) in
      Ok {| tb_count := last; tb_buckets := bk_set bk1 (last / bs) (removelast lb) |}.

  (* test fixture of the harness (not library code): the storage that binding the tokens of
     [pre] one after the other into the empty registry produces (full buckets in order + count).
     Used as the INITIAL state of the capacity-limit trace of the quick tier; [pre = []] gives
     the empty registry. *)
  Definition tb_start (pre : list addr) : tb_state :=
    {| tb_count := length pre;
       tb_buckets := map (fun k => (k, chunk bs k pre)) (seq 0 ((length pre + bs - 1) / bs)) |}.
  (* the fixture is only meaningful for a duplicate-free list within the capacity *)
  Definition tb_pre_ok (pre : list addr) : bool := incrb pre && (length pre <=? tb_max c) && (0 <? bs).
End WithCfg.

(* ---- calls, queries, answers (for the correspondence trace) ---- *)
Inductive tb_call :=
| TbBind (t : addr)
| TbBindMany (ts : list addr)
| TbUnbind (t : addr).

Definition tb_step (c : tb_cfg) (s : tb_state) (k : tb_call) : res (tb_state * unit) :=
  match k with
  | TbBind t => do s' <- tb_bind c s t; Ok (s', tt)
  | TbBindMany ts => do s' <- tb_bind_many c s ts; Ok (s', tt)
  | TbUnbind t => do s' <- tb_unbind c s t; Ok (s', tt)
  end.

Inductive tb_query :=
| TqLinked                 (* linked_tokens *)
| TqCount                  (* linked_tokens().len()  (linked_token_count is not re-exported) *)
| TqIsBound (t : addr)     (* is_token_bound *)
| TqIndexOf (t : addr)     (* get_token_index *)
| TqByIndex (i : N).       (* get_token_by_index *)

Inductive tb_ans :=
| TaList (l : list addr)
| TaNat (n : N)
| TaBool (b : bool)
| TaIdx (r : res N)
| TaAddr (r : res addr)
| TaTrap.   (* the getter trapped although it cannot (sentinel printed by the harness; never produced by the model) *)

Definition tb_answer (c : tb_cfg) (s : tb_state) (q : tb_query) : tb_ans :=
  match q with
  | TqLinked => TaList (tb_linked c s)
  | TqCount => TaNat (N.of_nat (length (tb_linked c s)))
  | TqIsBound t => TaBool (tb_is_bound c s t)
  | TqIndexOf t => TaIdx (do i <- tb_index_of c s t; Ok (N.of_nat i))
  | TqByIndex i => TaAddr (tb_by_index c s i)
  end.

Definition tb_ans_eqb (a b : tb_ans) : bool :=
  match a, b with
  | TaList x, TaList y => list_eqb N.eqb x y
  | TaNat x, TaNat y => N.eqb x y
  | TaBool x, TaBool y => Bool.eqb x y
  | TaIdx x, TaIdx y => res_eqb N.eqb x y
  | TaAddr x, TaAddr y => res_eqb N.eqb x y
  | TaTrap, TaTrap => true
  | _, _ => false
  end.
