(* C17 model: Merkle proof verification (packages/contract-utils/src/crypto/merkle.rs,
   hashable.rs, sha256.rs / keccak.rs) and the Merkle distributor
   (merkle_distributor/storage.rs) as used by examples/fungible-merkle-airdrop.

   Part 1 (Section Merkle) is parametric in the digest type [D], the hash of the
   concatenation of two digests [H a b] = hasher.update(a); hasher.update(b);
   hasher.finalize()  (Sha256 / Keccak256 only differ in the host primitive called by
   finalize), the byte order [gtb a b] = (a > b) on BytesN<32>, and the leaf hash
   [LH index address amount] = H(xdr(leaf)).  Nothing is assumed here; the hypotheses
   (injectivity ...) are stated where the theorems are (Proofs/Merkle*.v).

   Part 2 instantiates the parameters with an executable digest type: [At n] is the
   n-th real digest of a trace in byte order, [Pr a b] the formal hash of a pair the
   harness has not evaluated; [Htab] looks the pair up in the table of the real hash
   evaluations performed by the harness. With the empty table this is the free term
   algebra. *)
From SC Require Import Lib.Prelude Lib.Int Lib.Host.

Section Merkle.
  Variable D : Type.
  Variable deqb : D -> D -> bool.        (* == on BytesN<32> *)
  Variable H : D -> D -> D.              (* hash_pair(a, b, H::new(e)) *)
  Variable gtb : D -> D -> bool.         (* a > b  (PartialOrd of BytesN<32>: byte order) *)

  (* hashable.rs: commutative_hash_pair *)
  Definition cpair (a b : D) : D := if gtb a b then H b a else H a b.

  (* merkle.rs: Verifier::verify
       for hash in proof { leaf = commutative_hash_pair(&leaf, &hash, H::new(e)); }
       leaf == root *)
  Definition climb (leaf : D) (proof : list D) : D := fold_left cpair proof leaf.
  Definition verify (proof : list D) (root leaf : D) : bool := deqb (climb leaf proof) root.

  (* merkle.rs: Verifier::verify_with_index
       let len = proof.len();
       if len >= 32 { panic MerkleProofOutOfBounds }
       if index >= (1 << len) { panic MerkleIndexOutOfBounds }
       for hash in proof {
         leaf = if index.is_multiple_of(2) { hash_pair(&leaf,&hash) } else { hash_pair(&hash,&leaf) };
         index /= 2; }
       leaf == root *)
  Definition istep (st : D * Z) (h : D) : D * Z :=
    ((if Z.even (snd st) then H (fst st) h else H h (fst st)), snd st / 2).
  Definition iclimb (leaf : D) (index : Z) (proof : list D) : D * Z :=
    fold_left istep proof (leaf, index).
  Definition verify_with_index (proof : list D) (root leaf : D) (index : Z) : res bool :=
    let len := Z.of_nat (length proof) in
    if 32 <=? len then Fail
    else if 2 ^ len <=? index then Fail
    else Ok (deqb (fst (iclimb leaf index proof)) root).

  (* ---------------- trees and honest proofs (specification side) ---------------- *)
  Inductive tree := Lf (d : D) | Nd (l r : tree).

  (* root of a tree built with the pair function [hp] (H: positional form, cpair: sorted form) *)
  Fixpoint troot (hp : D -> D -> D) (t : tree) : D :=
    match t with Lf d => d | Nd l r => hp (troot hp l) (troot hp r) end.

  (* path from the root: false = left child, true = right child *)
  Fixpoint lookup (t : tree) (path : list bool) {struct path} : option tree :=
    match path with
    | [] => Some t
    | b :: q => match t with Lf _ => None | Nd l r => lookup (if b then r else l) q end
    end.

  (* the honest proof of the node at [path]: sibling hashes, deepest first *)
  Fixpoint proof_of (hp : D -> D -> D) (t : tree) (path : list bool) {struct path} : list D :=
    match path, t with
    | b :: q, Nd l r => proof_of hp (if b then r else l) q ++ [troot hp (if b then l else r)]
    | _, _ => []
    end.

  (* position of the node at [path] among the nodes of its depth (most significant bit first) *)
  Definition index_of (path : list bool) : Z :=
    fold_left (fun acc (b : bool) => 2 * acc + (if b then 1 else 0)) path 0.

  Fixpoint leaves (t : tree) : list D :=
    match t with Lf d => [d] | Nd l r => leaves l ++ leaves r end.

  (* every (node hash, honest proof, index) of a tree, relative to its root *)
  Fixpoint nodes (hp : D -> D -> D) (t : tree) : list (D * list D * Z) :=
    match t with
    | Lf d => [(d, [], 0)]
    | Nd l r =>
        (troot hp t, [], 0)
        :: map (fun q => (fst (fst q), snd (fst q) ++ [troot hp r], snd q)) (nodes hp l)
        ++ map (fun q => (fst (fst q), snd (fst q) ++ [troot hp l],
                          snd q + 2 ^ Z.of_nat (length (snd (fst q))))) (nodes hp r)
    end.

  (* the same for every subtree: (root of the subtree, node hash, proof, index) *)
  Fixpoint quads (hp : D -> D -> D) (t : tree) : list (D * (D * list D * Z)) :=
    map (fun q => (troot hp t, q)) (nodes hp t)
    ++ match t with Lf _ => [] | Nd l r => quads hp l ++ quads hp r end.

  (* one pass computing (troot, nodes, quads) - what the trace checker runs *)
  Fixpoint quads_go (hp : D -> D -> D) (t : tree)
    : D * list (D * list D * Z) * list (D * (D * list D * Z)) :=
    match t with
    | Lf d => (d, [(d, [], 0)], [(d, (d, [], 0))])
    | Nd l r =>
        let '(rl, nl, ql) := quads_go hp l in
        let '(rr, nr, qr) := quads_go hp r in
        let rt := hp rl rr in
        let ns := (rt, [], 0)
                  :: map (fun q => (fst (fst q), snd (fst q) ++ [rr], snd q)) nl
                  ++ map (fun q => (fst (fst q), snd (fst q) ++ [rl],
                                    snd q + 2 ^ Z.of_nat (length (snd (fst q))))) nr in
        (rt, ns, map (fun q => (rt, q)) ns ++ (ql ++ qr))
    end.

  (* ---------------- the distributor ---------------- *)
  Variable LH : N -> addr -> Z -> D.     (* sha256/keccak256(xdr(Receiver{index,address,amount})) *)

  (* root: instance storage Root; claimed: the indices with a persistent Claimed(index)=true
     entry; bals: balances of the airdrop token; self: address of the distributor contract *)
  Record state := mk_state { root : option D; claimed : list N; bals : list (addr * Z); self : addr }.

  Definition is_claimed (s : state) (i : N) : bool := existsb (N.eqb i) (claimed s).
  Definition balance (s : state) (a : addr) : Z :=
    match alist_get a (bals s) with Some z => z | None => 0 end.
  Definition set_root (s : state) (r : D) : state := mk_state (Some r) (claimed s) (bals s) (self s).
  Definition set_claimed (s : state) (i : N) : state := mk_state (root s) (i :: claimed s) (bals s) (self s).
  Definition set_bal (s : state) (a : addr) (z : Z) : state :=
    mk_state (root s) (claimed s) (alist_set a z (bals s)) (self s).

  (* token transfer out of the contract (token.transfer(current_contract, receiver, amount)):
     negative amounts and amounts above the balance are refused by the token *)
  Definition transfer (s : state) (from to : addr) (m : Z) : res state :=
    do _ <- guard (0 <=? m);
    do _ <- guard (m <=? balance s from);
    let s1 := set_bal s from (balance s from - m) in
    Ok (set_bal s1 to (balance s1 to + m)).

  (* storage.rs: verify_and_set_claimed
       let (root, leaf_hash, index) = get_verification_args(e, leaf);   // get_root panics if unset
       if is_claimed(e, index) { panic IndexAlreadyClaimed }
       match Verifier::<H>::verify(e, proof, root, leaf_hash) { true => set_claimed(e, index), false => panic InvalidProof } *)
  Definition claim_sorted (s : state) (i : N) (a : addr) (m : Z) (p : list D) : res state :=
    do r <- of_option (root s);
    let lh := LH i a m in
    if is_claimed s i then Fail
    else if verify p r lh then Ok (set_claimed s i) else Fail.

  (* storage.rs: verify_with_index_and_set_claimed (the index of the leaf data is the position) *)
  Definition claim_indexed (s : state) (i : N) (a : addr) (m : Z) (p : list D) : res state :=
    do r <- of_option (root s);
    let lh := LH i a m in
    if is_claimed s i then Fail
    else do b <- verify_with_index p r lh (Z.of_N i);
         if b then Ok (set_claimed s i) else Fail.

  (* examples/fungible-merkle-airdrop: claim
       Distributor::verify_and_set_claimed(e, Receiver{index,address,amount}, proof);
       token.transfer(&e.current_contract_address(), &receiver, &amount) *)
  Definition airdrop_claim (s : state) (i : N) (a : addr) (m : Z) (p : list D) : res state :=
    do s1 <- claim_sorted s i a m p;
    transfer s1 (self s1) a m.

  Inductive call :=
  | Verify (p : list D) (r v : D)                    (* Verifier::verify(proof, root, leaf) *)
  | VerifyIdx (p : list D) (r v : D) (i : Z)         (* Verifier::verify_with_index(proof, root, leaf, index) *)
  | SetRoot (r : D)                                  (* MerkleDistributor::set_root *)
  | SetClaimed (i : N)                               (* MerkleDistributor::set_claimed *)
  | ClaimS (i : N) (a : addr) (m : Z) (p : list D)   (* MerkleDistributor::verify_and_set_claimed *)
  | ClaimI (i : N) (a : addr) (m : Z) (p : list D)   (* MerkleDistributor::verify_with_index_and_set_claimed *)
  | Airdrop (i : N) (a : addr) (m : Z) (p : list D)  (* AirdropContract::claim *)
  | Advance (n : Z).                                 (* ledger sequence += n *)

  (* Ok (Some b): a verification returned b; Ok None: a unit entry point returned; Fail: trap *)
  Definition outcome := res (option bool).

  Definition unit_call (s : state) (r : res state) : state * outcome :=
    match r with Ok s' => (s', Ok None) | Fail => (s, Fail) end.

  Definition step (s : state) (c : call) : state * outcome :=
    match c with
    | Verify p r v => (s, Ok (Some (verify p r v)))
    | VerifyIdx p r v i =>
        (s, match verify_with_index p r v i with Ok b => Ok (Some b) | Fail => Fail end)
    | SetRoot r => (set_root s r, Ok None)
    | SetClaimed i => (set_claimed s i, Ok None)
    | ClaimS i a m p => unit_call s (claim_sorted s i a m p)
    | ClaimI i a m p => unit_call s (claim_indexed s i a m p)
    | Airdrop i a m p => unit_call s (airdrop_claim s i a m p)
    | Advance _ => (s, Ok None)
    end.

  Definition run (s : state) (cs : list call) : state := fold_left (fun s c => fst (step s c)) cs s.
End Merkle.

Arguments Lf {D} d.
Arguments Nd {D} l r.
Arguments troot {D} hp t.
Arguments lookup {D} t path.
Arguments proof_of {D} hp t path.
Arguments leaves {D} t.
Arguments nodes {D} hp t.
Arguments quads {D} hp t.
Arguments quads_go {D} hp t.
Arguments cpair {D} H gtb a b.
Arguments climb {D} H gtb leaf proof.
Arguments verify {D} deqb H gtb proof root leaf.
Arguments istep {D} H st h.
Arguments iclimb {D} H leaf index proof.
Arguments verify_with_index {D} deqb H proof root leaf index.
Arguments mk_state {D} root claimed bals self.
Arguments root {D} s.
Arguments claimed {D} s.
Arguments bals {D} s.
Arguments self {D} s.
Arguments is_claimed {D} s i.
Arguments balance {D} s a.
Arguments set_root {D} s r.
Arguments set_claimed {D} s i.
Arguments set_bal {D} s a z.
Arguments transfer {D} s from to m.
Arguments claim_sorted {D} deqb H gtb LH s i a m p.
Arguments claim_indexed {D} deqb H LH s i a m p.
Arguments airdrop_claim {D} deqb H gtb LH s i a m p.
Arguments Verify {D} p r v.
Arguments VerifyIdx {D} p r v i.
Arguments SetRoot {D} r.
Arguments SetClaimed {D} i.
Arguments ClaimS {D} i a m p.
Arguments ClaimI {D} i a m p.
Arguments Airdrop {D} i a m p.
Arguments Advance {D} n.
Arguments unit_call {D} s r.
Arguments step {D} deqb H gtb LH s c.
Arguments run {D} deqb H gtb LH s cs.

(* ======================= Part 1b: the Hasher level =======================
   crypto/sha256.rs, crypto/keccak.rs (identical up to the host primitive called by finalize),
   crypto/hashable.rs and the way merkle.rs / merkle_distributor/storage.rs use them, transcribed
   with the hasher state explicit.  Proofs/MerkleHasher.v shows that this level never traps on
   the paths used (HasherEmptyState is unreachable) and computes exactly the functions of Part 1
   with  H a b := hashfn (bytes a ++ bytes b). *)
Section Hasher.
  Variable B : Type.               (* Bytes *)
  Variable D : Type.               (* BytesN<32> *)
  Variable bapp : B -> B -> B.     (* Bytes::append *)
  Variable hashfn : B -> D.        (* env.crypto().sha256(&data).to_bytes() / keccak256 *)
  Variable bytes_of : D -> B.      (* BytesN<32> -> Bytes (self.into()) *)
  Variable deqb : D -> D -> bool.
  Variable gtb : D -> D -> bool.

  (* struct Sha256 / Keccak256 { state: Option<Bytes>, env } *)
  Definition hstate := option B.
  Definition h_new : hstate := None.
  (* fn update: None => state = Some(input); Some(state) => state.append(&input) *)
  Definition h_update (st : hstate) (input : B) : hstate :=
    match st with None => Some input | Some s => Some (bapp s input) end.
  (* fn finalize: state.unwrap_or_else(panic HasherEmptyState); crypto().<hash>(&data).to_bytes() *)
  Definition h_finalize (st : hstate) : res D :=
    match st with None => Fail | Some data => Ok (hashfn data) end.

  (* hashable.rs: hash_pair: a.hash(&mut hasher); b.hash(&mut hasher); hasher.finalize() *)
  Definition hash_pair_h (a b : D) : res D :=
    h_finalize (h_update (h_update h_new (bytes_of a)) (bytes_of b)).
  (* hashable.rs: commutative_hash_pair *)
  Definition commutative_hash_pair_h (a b : D) : res D :=
    if gtb a b then hash_pair_h b a else hash_pair_h a b.
  (* storage.rs get_verification_args: hasher.update(leaf.to_xdr(e)); hasher.finalize() *)
  Definition leaf_hash_h (encoded : B) : res D := h_finalize (h_update h_new encoded).

  (* merkle.rs verify / verify_with_index with the hasher calls explicit *)
  Fixpoint climb_h (leaf : D) (proof : list D) : res D :=
    match proof with
    | [] => Ok leaf
    | h :: p => do l <- commutative_hash_pair_h leaf h; climb_h l p
    end.
  Definition verify_h (proof : list D) (root leaf : D) : res bool :=
    do l <- climb_h leaf proof; Ok (deqb l root).

  Fixpoint iclimb_h (leaf : D) (index : Z) (proof : list D) : res (D * Z) :=
    match proof with
    | [] => Ok (leaf, index)
    | h :: p =>
        do l <- (if Z.even index then hash_pair_h leaf h else hash_pair_h h leaf);
        iclimb_h l (index / 2) p
    end.
  Definition verify_with_index_h (proof : list D) (root leaf : D) (index : Z) : res bool :=
    let len := Z.of_nat (length proof) in
    if 32 <=? len then Fail
    else if 2 ^ len <=? index then Fail
    else do r <- iclimb_h leaf index proof; Ok (deqb (fst r) root).

  (* the pair hash of Part 1 *)
  Definition H_of (a b : D) : D := hashfn (bapp (bytes_of a) (bytes_of b)).
End Hasher.

Arguments h_update {B} bapp st input.
Arguments h_finalize {B D} hashfn st.
Arguments hash_pair_h {B D} bapp hashfn bytes_of a b.
Arguments commutative_hash_pair_h {B D} bapp hashfn bytes_of gtb a b.
Arguments leaf_hash_h {B D} bapp hashfn encoded.
Arguments climb_h {B D} bapp hashfn bytes_of gtb leaf proof.
Arguments verify_h {B D} bapp hashfn bytes_of deqb gtb proof root leaf.
Arguments iclimb_h {B D} bapp hashfn bytes_of leaf index proof.
Arguments verify_with_index_h {B D} bapp hashfn bytes_of deqb proof root leaf index.
Arguments H_of {B D} bapp hashfn bytes_of a b.

(* ======================= Part 2: executable digests ======================= *)

Inductive dg := At (n : N) | Pr (a b : dg).

Fixpoint dg_cmp (x y : dg) : comparison :=
  match x, y with
  | At a, At b => N.compare a b
  | At _, Pr _ _ => Lt
  | Pr _ _, At _ => Gt
  | Pr a b, Pr c d => match dg_cmp a c with Eq => dg_cmp b d | o => o end
  end.
Definition dg_eqb (x y : dg) : bool := match dg_cmp x y with Eq => true | _ => false end.
Definition dg_gtb (x y : dg) : bool := match dg_cmp x y with Gt => true | _ => false end.

(* table of the real pair-hash evaluations: ((a, b), c) means hash(a ‖ b) = c *)
Definition htab := list (N * N * N).
Fixpoint tab_get (t : htab) (a b : N) : option N :=
  match t with
  | [] => None
  | (a', b', c) :: r => if N.eqb a a' && N.eqb b b' then Some c else tab_get r a b
  end.
Definition Htab (t : htab) (x y : dg) : dg :=
  match x, y with
  | At a, At b => match tab_get t a b with Some c => At c | None => Pr x y end
  | _, _ => Pr x y
  end.

(* table of the real leaf-hash evaluations: (index, address, amount, digest) *)
Definition ltab := list (N * addr * Z * N).
Fixpoint ltab_get (t : ltab) (i : N) (a : addr) (m : Z) : option N :=
  match t with
  | [] => None
  | (i', a', m', c) :: r => if N.eqb i i' && N.eqb a a' && Z.eqb m m' then Some c else ltab_get r i a m
  end.
(* a leaf hash the harness has not evaluated is a formal term (never equal to an [At]) *)
Definition LHtab (t : ltab) (i : N) (a : addr) (m : Z) : dg :=
  match ltab_get t i a m with
  | Some c => At c
  | None => Pr (At i) (Pr (At a) (At (Z.abs_N m)))
  end.

Definition is_at (d : dg) : bool := match d with At _ => true | Pr _ _ => false end.

(* byte strings of the executable instance: sequences of 32-byte blocks; the table-driven hash of a
   two-block string is [Htab] *)
Definition hashfn_tab (t : htab) (l : list dg) : dg :=
  match l with
  | [x; y] => Htab t x y
  | [x] => Pr x x
  | _ => Pr (At 0%N) (At 0%N)
  end.
