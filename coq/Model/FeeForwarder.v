(* C19 - fee forwarding.  Executable model of

     packages/fee-abstraction/src/storage.rs   (collect_fee_and_invoke, collect_fee,
                                                set_allowed_fee_token, is_allowed_fee_token,
                                                sweep_token, validate_fee_bounds, validate_expiration_ledger)
     examples/fee-forwarder-permissioned/src/contract.rs   (Lazy approval, roles, allow-list)
     examples/fee-forwarder-permissionless/src/contract.rs (Eager approval)

   together with the pieces of the world those functions talk to:
     - a minimal fee token: the balance / allowance core of
       packages/tokens/src/fungible/storage.rs (Base::{approve,set_allowance,
       spend_allowance,transfer,transfer_from,update,mint,allowance_data}); allowances are
       temporary-storage entries (Lib/Host.v rules);
     - the Soroban authorisation manager restricted to call trees of depth <= 2
       (soroban-env-host 25.0.1 src/auth.rs: account trackers, root / sub-invocation matching,
       "one match per frame", "no new root while a tracker of the address is active",
       direct-invoker-contract rule);
     - the harness target contract (a logging / failing / auth-requiring callee, and a malicious
       one that, from inside the forwarded call, calls back into a fee token - transfer_from through
       somebody's allowance, approve for somebody - or into forward(); those inner calls are leaf
       frames at depth 3 of the call tree, [require_auth2]).

   Error codes are never modelled: a call is [Ok] or [Fail]; a failing call leaves the state
   unchanged (host rollback). *)
From SC Require Import Lib.Prelude Lib.Int Lib.Host.

(* ------------------------------------------------------------------------- *)
(* Values, authorised functions, authorisation entries                       *)
(* ------------------------------------------------------------------------- *)

(* an element of the forwarded call's argument vector *)
Inductive atom := AA (a : addr) | AI (z : Z).
(* a host value as it appears in an authorised-function argument list; integers carry no
   width: the position in the argument list fixes it (the harness never changes types) *)
Inductive val := VA (a : addr) | VI (z : Z) | VS (s : N) | VL (l : list atom).

Definition atom_eqb (x y : atom) : bool :=
  match x, y with
  | AA a, AA b => N.eqb a b
  | AI a, AI b => Z.eqb a b
  | _, _ => false
  end.

Fixpoint list_eqb {A} (eqb : A -> A -> bool) (l m : list A) : bool :=
  match l, m with
  | [], [] => true
  | x :: l', y :: m' => eqb x y && list_eqb eqb l' m'
  | _, _ => false
  end.

Definition val_eqb (x y : val) : bool :=
  match x, y with
  | VA a, VA b => N.eqb a b
  | VI a, VI b => Z.eqb a b
  | VS a, VS b => N.eqb a b
  | VL a, VL b => list_eqb atom_eqb a b
  | _, _ => false
  end.

(* AuthorizedFunction::ContractFn: contract, function name (a symbol, numbered), arguments *)
Record func := { f_contract : addr; f_name : N; f_args : list val }.
Definition func_eqb (f g : func) : bool :=
  N.eqb (f_contract f) (f_contract g) && N.eqb (f_name f) (f_name g)
  && list_eqb val_eqb (f_args f) (f_args g).

(* one SorobanAuthorizationEntry: who signs, the root invocation, its direct
   sub-invocations (the harness builds trees of depth <= 2 only) *)
Record entry := { en_who : addr; en_root : func; en_subs : list func }.

(* function names *)
Definition F_HIT : N := 1.        (* target: hit(v)            *)
Definition F_BOOM : N := 2.       (* target: boom(v)  (panics) *)
Definition F_AUTH : N := 3.       (* target: auth_hit(who, v)  *)
Definition F_FORWARD : N := 10.
Definition F_APPROVE : N := 11.
Definition F_ENABLE : N := 12.
Definition F_DISABLE : N := 13.
Definition F_SWEEP : N := 14.
Definition F_TRANSFER_FROM : N := 15.
Definition F_TRANSFER : N := 16.
(* re-entering target functions (a malicious target calling back into the fee token / the forwarder) *)
Definition F_PULL : N := 5.         (* target: pull(token, spender, from, to, amount, swallow)            *)
Definition F_APPROVE_FOR : N := 6.  (* target: approve_for(token, owner, spender, amount, exp, swallow)   *)
Definition F_REENTER : N := 7.      (* target: reenter(forwarder, swallow)                               *)
Definition is_script (fn : N) : bool := N.eqb fn F_PULL || N.eqb fn F_APPROVE_FOR || N.eqb fn F_REENTER.

Definition memb (a : addr) (l : list addr) : bool := existsb (N.eqb a) l.

(* ------------------------------------------------------------------------- *)
(* Authorisation manager (enforcing mode), call trees of depth <= 2           *)
(* ------------------------------------------------------------------------- *)
(* AccountAuthorizationTracker.  [tk_m0]/[tk_m1] = the tracker's match_stack entries for the
   outer frame (the top-level contract call) and the current inner frame;
   [tk_done] = is_fully_processed. *)
Record tracker := {
  tk_entry : entry;
  tk_root_ex : bool;          (* root_authorized_invocation.is_exhausted *)
  tk_sub_ex : list bool;      (* is_exhausted of each sub-invocation *)
  tk_m0 : bool;
  tk_m1 : bool;
  tk_done : bool
}.

Definition init_tracker (e : entry) : tracker :=
  {| tk_entry := e; tk_root_ex := false; tk_sub_ex := map (fun _ => false) (en_subs e);
     tk_m0 := false; tk_m1 := false; tk_done := false |}.

Definition cur_matched (inner : bool) (t : tracker) : bool := if inner then tk_m1 t else tk_m0 t.
Definition tk_active (t : tracker) : bool := tk_root_ex t && negb (tk_done t).
Definition tk_who (t : tracker) : addr := en_who (tk_entry t).

(* "there is already an active tracker for this address that has not been matched for the
   current frame": then a new root may not be matched *)
Definition has_active (inner : bool) (who : addr) (ts : list tracker) : bool :=
  existsb (fun t => N.eqb (tk_who t) who && tk_active t && negb (cur_matched inner t)) ts.

(* first non-exhausted sub-invocation equal to f becomes exhausted *)
Fixpoint match_sub (f : func) (subs : list func) (ex : list bool) : option (list bool) :=
  match subs, ex with
  | s :: subs', x :: ex' =>
      if negb x && func_eqb s f then Some (true :: ex')
      else match match_sub f subs' ex' with Some r => Some (x :: r) | None => None end
  | _, _ => None
  end.

(* InvocationTracker::maybe_extend_invocation_match *)
Definition try_tracker (inner allow_root : bool) (f : func) (t : tracker) : option tracker :=
  if cur_matched inner t then None
  else if inner && tk_m0 t then
    (* an authorised invocation (the root) is on the stack: extend below it *)
    match match_sub f (en_subs (tk_entry t)) (tk_sub_ex t) with
    | Some ex' => Some {| tk_entry := tk_entry t; tk_root_ex := tk_root_ex t; tk_sub_ex := ex';
                          tk_m0 := tk_m0 t; tk_m1 := true; tk_done := tk_done t |}
    | None => None
    end
  else if negb (tk_root_ex t) && allow_root && func_eqb (en_root (tk_entry t)) f then
    Some {| tk_entry := tk_entry t; tk_root_ex := true; tk_sub_ex := tk_sub_ex t;
            tk_m0 := if inner then tk_m0 t else true;
            tk_m1 := if inner then true else tk_m1 t; tk_done := tk_done t |}
  else None.

Fixpoint req_loop (inner allow_root : bool) (who : addr) (f : func) (ts : list tracker)
  : option (list tracker) :=
  match ts with
  | [] => None
  | t :: r =>
      if N.eqb (tk_who t) who then
        match try_tracker inner allow_root f t with
        | Some t' => Some (t' :: r)
        | None => match req_loop inner allow_root who f r with Some r' => Some (t :: r') | None => None end
        end
      else match req_loop inner allow_root who f r with Some r' => Some (t :: r') | None => None end
  end.

(* Address::require_auth / require_auth_for_args in the frame running function [f]
   ([f]'s argument list = the frame's arguments, or the explicit ones for _for_args).
   [invoker] = the contract that called the current (inner) frame. *)
Definition require_auth (inner : bool) (invoker : option addr) (who : addr) (f : func)
  (ts : list tracker) : res (list tracker) :=
  if inner && (match invoker with Some i => N.eqb i who | None => false end) then Ok ts
  else of_option (req_loop inner (negb (has_active inner who ts)) who f ts).

Definition push_frame (ts : list tracker) : list tracker :=
  map (fun t => {| tk_entry := tk_entry t; tk_root_ex := tk_root_ex t; tk_sub_ex := tk_sub_ex t;
                   tk_m0 := tk_m0 t; tk_m1 := false; tk_done := tk_done t |}) ts.
(* a tracker whose root was matched by the popped inner frame is fully processed *)
Definition pop_frame (ts : list tracker) : list tracker :=
  map (fun t => {| tk_entry := tk_entry t; tk_root_ex := tk_root_ex t; tk_sub_ex := tk_sub_ex t;
                   tk_m0 := tk_m0 t; tk_m1 := false;
                   tk_done := tk_done t || (tk_root_ex t && negb (tk_m0 t)) |}) ts.

(* A require_auth in a LEAF frame at depth 2 (a token function called by the target, which was
   called by the forwarder), followed by the pop of that frame.  [tk_m0]/[tk_m1] are the tracker's
   matches for the forwarder frame and the target frame; the leaf frame itself is fresh. *)
Definition has_active2 (who : addr) (ts : list tracker) : bool :=
  existsb (fun t => N.eqb (tk_who t) who && tk_active t) ts.
Definition try_tracker2 (allow_root : bool) (f : func) (t : tracker) : option tracker :=
  if tk_m0 t && tk_m1 t then None        (* current node = a sub-invocation: it has no children (trees of depth 2) *)
  else if tk_m0 t || tk_m1 t then        (* current node = the root: extend below it *)
    match match_sub f (en_subs (tk_entry t)) (tk_sub_ex t) with
    | Some ex' => Some {| tk_entry := tk_entry t; tk_root_ex := tk_root_ex t; tk_sub_ex := ex';
                          tk_m0 := tk_m0 t; tk_m1 := tk_m1 t; tk_done := tk_done t |}
    | None => None
    end
  else if negb (tk_root_ex t) && allow_root && func_eqb (en_root (tk_entry t)) f then
    (* the root is matched by the leaf frame and fully processed when that frame is popped *)
    Some {| tk_entry := tk_entry t; tk_root_ex := true; tk_sub_ex := tk_sub_ex t;
            tk_m0 := tk_m0 t; tk_m1 := tk_m1 t; tk_done := true |}
  else None.
Fixpoint req_loop2 (allow_root : bool) (who : addr) (f : func) (ts : list tracker) : option (list tracker) :=
  match ts with
  | [] => None
  | t :: r =>
      if N.eqb (tk_who t) who then
        match try_tracker2 allow_root f t with
        | Some t' => Some (t' :: r)
        | None => match req_loop2 allow_root who f r with Some r' => Some (t :: r') | None => None end
        end
      else match req_loop2 allow_root who f r with Some r' => Some (t :: r') | None => None end
  end.
Definition require_auth2 (invoker who : addr) (f : func) (ts : list tracker) : res (list tracker) :=
  if N.eqb invoker who then Ok ts
  else of_option (req_loop2 (negb (has_active2 who ts)) who f ts).

(* ------------------------------------------------------------------------- *)
(* Fee token: balance / allowance core of fungible Base                      *)
(* ------------------------------------------------------------------------- *)
Definition alw_entry := tentry (Z * Z).     (* AllowanceData {amount, live_until_ledger} *)
Record tokst := {
  t_total : Z;
  t_bal : list (addr * Z);
  t_alw : list (addr * list (addr * alw_entry))    (* owner -> spender -> temporary entry *)
}.
Definition tok0 : tokst := {| t_total := 0; t_bal := []; t_alw := [] |}.

Definition balance (t : tokst) (a : addr) : Z :=
  match alist_get a (t_bal t) with Some b => b | None => 0 end.
Definition set_bal (t : tokst) (a : addr) (b : Z) : tokst :=
  {| t_total := t_total t; t_bal := alist_set a b (t_bal t); t_alw := t_alw t |}.

Definition alw_get (t : tokst) (o s : addr) : option alw_entry :=
  match alist_get o (t_alw t) with Some m => alist_get s m | None => None end.
Definition alw_put (t : tokst) (o s : addr) (e : option alw_entry) : tokst :=
  let m := match alist_get o (t_alw t) with Some m => m | None => [] end in
  let m' := match e with Some en => alist_set s en m | None => alist_remove s m end in
  {| t_total := t_total t; t_bal := t_bal t; t_alw := alist_set o m' (t_alw t) |}.

(* Base::allowance_data *)
Definition allowance_data (now : Z) (t : tokst) (o s : addr) : Z * Z :=
  match tget now (alw_get t o s) with
  | Some (a, l) => if l <? now then (0, 0) else (a, l)
  | None => (0, 0)
  end.
Definition allowance (now : Z) (t : tokst) (o s : addr) : Z := fst (allowance_data now t o s).

(* Base::set_allowance *)
Definition set_allowance (hc : hostcfg) (now : Z) (t : tokst) (o s : addr) (amt l : Z) : res tokst :=
  if amt <? 0 then Fail
  else if (max_live_until hc now <? l) || ((0 <? amt) && (l <? now)) then Fail
  else
    let e1 := tset hc now (alw_get t o s) (amt, l) in
    if 0 <? amt then
      do e2 <- textend hc now e1 (l - now) (l - now);
      Ok (alw_put t o s e2)
    else Ok (alw_put t o s e1).

(* Base::spend_allowance *)
Definition spend_allowance (hc : hostcfg) (now : Z) (t : tokst) (o s : addr) (amt : Z) : res tokst :=
  if amt <? 0 then Fail
  else
    let '(a, l) := allowance_data now t o s in
    if a <? amt then Fail
    else if 0 <? amt then set_allowance hc now t o s (a - amt) l
    else Ok t.

(* Base::update(Some from, Some to, amount) *)
Definition update_transfer (t : tokst) (from to : addr) (amt : Z) : res tokst :=
  if amt <? 0 then Fail
  else
    let fb := balance t from in
    if fb <? amt then Fail
    else
      let t1 := set_bal t from (fb - amt) in
      let tb := balance t1 to + amt in
      if in_i128 tb then Ok (set_bal t1 to tb) else Fail.

(* Base::mint = update(None, Some to, amount) *)
Definition mint (t : tokst) (to : addr) (amt : Z) : res tokst :=
  if amt <? 0 then Fail
  else
    do total <- of_option (checked_add (t_total t) amt);
    let tb := balance t to + amt in
    if in_i128 tb
    then Ok {| t_total := total; t_bal := alist_set to tb (t_bal t); t_alw := t_alw t |}
    else Fail.

(* ------------------------------------------------------------------------- *)
(* Fee-token allow-list (swap-and-pop registry)                              *)
(* ------------------------------------------------------------------------- *)
Record alst := {
  al_count : N;                       (* FeeAbstractionStorageKey::Count        *)
  al_tok : list (N * addr);           (* Token(index) -> token                  *)
  al_idx : list (addr * N)            (* TokenIndex(token) -> index             *)
}.
Definition al0 : alst := {| al_count := 0; al_tok := []; al_idx := [] |}.
Definition MAXU32N : N := 4294967295.

(* is_allowed_fee_token *)
Definition is_allowed (a : alst) (tok : addr) : bool :=
  if N.eqb (al_count a) 0 then true
  else match alist_get tok (al_idx a) with Some _ => true | None => false end.

(* set_allowed_fee_token *)
Definition set_allowed (a : alst) (tok : addr) (allowed : bool) : res alst :=
  let count := al_count a in
  let existing := alist_get tok (al_idx a) in
  if allowed then
    match existing with
    | Some _ => Fail
    | None =>
        let tokm := alist_set count tok (al_tok a) in
        let idxm := alist_set tok count (al_idx a) in
        if N.leb (count + 1) MAXU32N
        then Ok {| al_count := count + 1; al_tok := tokm; al_idx := idxm |}
        else Fail
    end
  else
    match existing with
    | None => Fail
    | Some remove_index =>
        if N.eqb count 0 then Fail          (* count - 1 would underflow *)
        else
          let last := N.pred count in
          do '(tokm, idxm) <-
            (if N.eqb remove_index last then Ok (al_tok a, al_idx a)
             else match alist_get last (al_tok a) with
                  | None => Fail            (* expect("last token to be present") *)
                  | Some last_token =>
                      Ok (alist_set remove_index last_token (al_tok a),
                          alist_set last_token remove_index (al_idx a))
                  end);
          Ok {| al_count := last; al_tok := alist_remove last tokm; al_idx := alist_remove tok idxm |}
    end.

(* the enumeration Token(0) .. Token(count-1) *)
Fixpoint enum_from (m : list (N * addr)) (i : N) (n : nat) : list (option addr) :=
  match n with
  | O => []
  | S n' => alist_get i m :: enum_from m (N.succ i) n'
  end.
Definition enumeration (a : alst) : list (option addr) := enum_from (al_tok a) 0 (N.to_nat (al_count a)).

(* ------------------------------------------------------------------------- *)
(* World                                                                      *)
(* ------------------------------------------------------------------------- *)
Inductive kind := Permissioned | Permissionless.
Inductive approval := Lazy | Eager.
Definition approval_of (k : kind) : approval :=
  match k with Permissioned => Lazy | Permissionless => Eager end.

Definition logent := (N * list atom)%type.    (* (function, arguments) as received by a target *)

Record cfg := {
  c_host : hostcfg;
  c_start : Z;                 (* ledger sequence at the start *)
  c_fp : addr;                 (* the permissioned forwarder   *)
  c_fl : addr;                 (* the permissionless forwarder *)
  c_executors : list addr;     (* role "executor" of the permissioned forwarder (fixed at construction) *)
  c_managers : list addr;      (* role "manager" *)
  c_tokens : list addr;        (* deployed fee-token contracts *)
  c_targets : list addr;       (* deployed target contracts *)
  (* what the observation enumerates *)
  c_holders : list addr;
  c_owners : list addr;
  c_spenders : list addr;
  c_cands : list addr
}.

Record state := {
  now : Z;
  toks : list (addr * tokst);
  al : alst;                              (* allow-list of the permissioned forwarder *)
  logs : list (addr * list logent)
}.
Definition init (c : cfg) : state := {| now := c_start c; toks := []; al := al0; logs := [] |}.

Definition get_tok (st : state) (tok : addr) : tokst :=
  match alist_get tok (toks st) with Some t => t | None => tok0 end.
Definition get_log (l : list (addr * list logent)) (g : addr) : list logent :=
  match alist_get g l with Some x => x | None => [] end.
Definition with_tok (st : state) (tok : addr) (t : tokst) : state :=
  {| now := now st; toks := alist_set tok t (toks st); al := al st; logs := logs st |}.

Definition fwd_addr (c : cfg) (k : kind) : addr :=
  match k with Permissioned => c_fp c | Permissionless => c_fl c end.
(* the allow-list a forwarder reads: the permissionless example never writes one *)
Definition al_of (st : state) (k : kind) : alst :=
  match k with Permissioned => al st | Permissionless => al0 end.

Inductive call :=
| Advance (n : Z)
| Mint (tok to : addr) (amt : Z)                                   (* fixture, no auth *)
| Approve (tok owner spender : addr) (amt exp : Z) (au : list entry)   (* direct token.approve *)
| Forward (k : kind) (tok : addr) (fee max exp : Z) (target : addr) (fn : N) (args : list atom)
          (user relayer : addr) (au : list entry)
| SetTok (allowed : bool) (tok operator : addr) (au : list entry)      (* enable_/disable_fee_token *)
| Sweep (tok recipient operator : addr) (au : list entry).

Definition atom_val (x : atom) : val := match x with AA a => VA a | AI z => VI z end.

(* what user.require_auth_for_args receives in collect_fee_and_invoke *)
Definition user_args (tok : addr) (max exp : Z) (target : addr) (fn : N) (args : list atom) : list val :=
  [VA tok; VI max; VI exp; VA target; VS fn; VL args].
(* the arguments of the `forward` frame (relayer.require_auth()) *)
Definition forward_args (tok : addr) (fee max exp : Z) (target : addr) (fn : N) (args : list atom)
  (user relayer : addr) : list val :=
  [VA tok; VI fee; VI max; VI exp; VA target; VS fn; VL args; VA user; VA relayer].
Definition approve_args (owner spender : addr) (amt exp : Z) : list val :=
  [VA owner; VA spender; VI amt; VI exp].

Definition mkf (c : addr) (n : N) (a : list val) : func := {| f_contract := c; f_name := n; f_args := a |}.

(* token.approve(owner, spender, amt, exp) called by contract [F] (an inner frame) *)
Definition approve_frame (hc : hostcfg) (now : Z) (F tok : addr) (t : tokst) (owner spender : addr)
  (amt exp : Z) (ts : list tracker) : res (tokst * list tracker) :=
  let ts1 := push_frame ts in
  do ts2 <- require_auth true (Some F) owner (mkf tok F_APPROVE (approve_args owner spender amt exp)) ts1;
  do t' <- set_allowance hc now t owner spender amt exp;
  Ok (t', pop_frame ts2).

Definition get_tokm (tks : list (addr * tokst)) (tok : addr) : tokst :=
  match alist_get tok tks with Some t => t | None => tok0 end.

(* calls a re-entering target makes into a fee token (leaf frames at depth 2, invoker = the target) *)
Definition inner_pull (c : cfg) (nw : Z) (tks : list (addr * tokst)) (target tk spender from to : addr)
  (amt : Z) (ts : list tracker) : res (list (addr * tokst)) :=
  (* tk.transfer_from(spender, from, to, amt) *)
  do _ <- guard (memb tk (c_tokens c));
  do _ <- require_auth2 target spender (mkf tk F_TRANSFER_FROM [VA spender; VA from; VA to; VI amt]) ts;
  do t1 <- spend_allowance (c_host c) nw (get_tokm tks tk) from spender amt;
  do t2 <- update_transfer t1 from to amt;
  Ok (alist_set tk t2 tks).
Definition inner_approve (c : cfg) (nw : Z) (tks : list (addr * tokst)) (target tk owner spender : addr)
  (amt exp : Z) (ts : list tracker) : res (list (addr * tokst)) :=
  (* tk.approve(owner, spender, amt, exp) *)
  do _ <- guard (memb tk (c_tokens c));
  do _ <- require_auth2 target owner (mkf tk F_APPROVE (approve_args owner spender amt exp)) ts;
  do t1 <- set_allowance (c_host c) nw (get_tokm tks tk) owner spender amt exp;
  Ok (alist_set tk t1 tks).

(* a scripted step: the inner call's result is logged (1 = it went through, 0 = it failed and was
   rolled back); a failure is swallowed (try_invoke) or propagated according to [sw] *)
Definition scripted (fn : N) (args : list atom) (sw : Z) (tks : list (addr * tokst))
  (r : res (list (addr * tokst))) : res (logent * list (addr * tokst)) :=
  match r with
  | Ok tks' => Ok ((fn, args ++ [AI 1]), tks')
  | Fail => if sw =? 0 then Fail else Ok ((fn, args ++ [AI 0]), tks)
  end.

(* the body of the harness target's functions: what it logs and the token states it leaves *)
Definition target_body (c : cfg) (nw : Z) (tks : list (addr * tokst)) (F target : addr) (fn : N)
  (args : list atom) (ts1 : list tracker) : res (logent * list (addr * tokst)) :=
  match args with
  | [AI v] =>
      if N.eqb fn F_HIT then Ok ((fn, args), tks)
      else Fail                                       (* boom panics; anything else: no such function *)
  | [AA who; AI v] =>
      if N.eqb fn F_AUTH then
        do _ <- require_auth true (Some F) who (mkf target F_AUTH [VA who; VI v]) ts1;
        Ok ((fn, args), tks)
      else if N.eqb fn F_REENTER then
        (* who.forward(.., fee = 0, ..): contract re-entry is refused by the host when [who] is the
           calling forwarder; any other forwarder refuses the zero fee (or the missing role / auth) *)
        scripted fn args v tks Fail
      else Fail
  | [AA tk; AA spender; AA from; AA to; AI amt; AI sw] =>
      if N.eqb fn F_PULL
      then scripted fn args sw tks (inner_pull c nw tks target tk spender from to amt ts1)
      else Fail
  | [AA tk; AA owner; AA spender; AI amt; AI exp; AI sw] =>
      if N.eqb fn F_APPROVE_FOR
      then scripted fn args sw tks (inner_approve c nw tks target tk owner spender amt exp ts1)
      else Fail
  | _ => Fail
  end.

(* the target is one of the fee tokens: the forwarder - the direct invoker of the token call - is
   made to call a token function.  With spender / from = the forwarder itself the authorisation is
   automatic: forward(.., target = token, fn = transfer_from, args = (forwarder, user, x, a)) spends
   the allowance the user has given the forwarder (e.g. the residual max - fee), and
   (.., fn = transfer, args = (forwarder, x, a)) spends the forwarder's own balance - both are "the
   exact target call" the user signed.  Other token functions are not modelled (the harness does
   not forward them). *)
Definition token_target (c : cfg) (nw : Z) (tks : list (addr * tokst)) (F target : addr) (fn : N)
  (args : list atom) (ts1 : list tracker) : res (list (addr * tokst)) :=
  match args with
  | [AA spender; AA from; AA to; AI amt] =>
      if N.eqb fn F_TRANSFER_FROM then
        do _ <- require_auth true (Some F) spender
                  (mkf target F_TRANSFER_FROM [VA spender; VA from; VA to; VI amt]) ts1;
        do t1 <- spend_allowance (c_host c) nw (get_tokm tks target) from spender amt;
        do t2 <- update_transfer t1 from to amt;
        Ok (alist_set target t2 tks)
      else Fail
  | [AA from; AA to; AI amt] =>
      if N.eqb fn F_TRANSFER then
        do _ <- require_auth true (Some F) from (mkf target F_TRANSFER [VA from; VA to; VI amt]) ts1;
        do t2 <- update_transfer (get_tokm tks target) from to amt;
        Ok (alist_set target t2 tks)
      else Fail
  | _ => Fail
  end.

(* the target call: a fee token (returns void = 0, no log), or the harness target contract *)
Definition target_call (c : cfg) (nw : Z) (tks : list (addr * tokst)) (l : list (addr * list logent))
  (F target : addr) (fn : N) (args : list atom) (ts : list tracker)
  : res (list (addr * tokst) * list (addr * list logent) * Z) :=
  if memb target (c_tokens c) then
    do tks' <- token_target c nw tks F target fn args (push_frame ts);
    Ok (tks', l, 0)
  else
  do _ <- guard (memb target (c_targets c));
  do _ <- guard (negb (N.eqb target F));              (* contract re-entry is not allowed *)
  do '(ent, tks') <- target_body c nw tks F target fn args (push_frame ts);
  let log' := get_log l target ++ [ent] in
  Ok (tks', alist_set target log' l, Z.of_nat (length log')).

(* collect_fee *)
Definition collect_fee (c : cfg) (nw : Z) (a : alst) (F : addr) (t : tokst) (tok : addr)
  (fee max exp : Z) (user recipient : addr) (ap : approval) (ts : list tracker)
  : res (tokst * list tracker) :=
  do _ <- guard (is_allowed a tok);
  do _ <- guard (negb (N.eqb F user));
  do _ <- guard (negb ((fee <=? 0) || (max <? fee)));                 (* validate_fee_bounds *)
  do _ <- guard (memb tok (c_tokens c));                              (* TokenClient needs a token contract *)
  do '(t1, ts1) <-
    (match ap with
     | Eager => approve_frame (c_host c) nw F tok t user F max exp ts
     | Lazy =>
         if allowance nw t user F <? max
         then approve_frame (c_host c) nw F tok t user F max exp ts
         else (do _ <- guard (negb (exp <? nw)); Ok (t, ts))           (* validate_expiration_ledger *)
     end);
  (* token.transfer_from(F, user, recipient, fee): spender F is the direct invoker *)
  do t2 <- spend_allowance (c_host c) nw t1 user F fee;
  do t3 <- update_transfer t2 user recipient fee;
  Ok (t3, ts1).

(* forward (both examples) *)
Definition forward (c : cfg) (st : state) (k : kind) (tok : addr) (fee max exp : Z) (target : addr)
  (fn : N) (args : list atom) (user relayer : addr) (au : list entry) : res (state * Z) :=
  let F := fwd_addr c k in
  let ts0 := map init_tracker au in
  (* permissioned: #[only_role(relayer, "executor")] = ensure_role + require_auth;
     permissionless: relayer.require_auth() *)
  do _ <- guard (match k with Permissioned => memb relayer (c_executors c) | Permissionless => true end);
  do ts1 <- require_auth false None relayer
              (mkf F F_FORWARD (forward_args tok fee max exp target fn args user relayer)) ts0;
  (* collect_fee_and_invoke *)
  do ts2 <- require_auth false None user
              (mkf F F_FORWARD (user_args tok max exp target fn args)) ts1;
  let recipient := match k with Permissioned => F | Permissionless => relayer end in
  do '(t', ts3) <- collect_fee c (now st) (al_of st k) F (get_tok st tok) tok fee max exp user recipient
                     (approval_of k) ts2;
  do '(tks', l', ret) <- target_call c (now st) (alist_set tok t' (toks st)) (logs st) F target fn args ts3;
  Ok ({| now := now st; toks := tks'; al := al st; logs := l' |}, ret).

Definition step_ok (c : cfg) (st : state) (cl : call) : res (state * Z) :=
  match cl with
  | Advance n =>
      if n <? 0 then Fail
      else Ok ({| now := now st + n; toks := toks st; al := al st; logs := logs st |}, 0)
  | Mint tok to amt =>
      do _ <- guard (memb tok (c_tokens c));
      do t' <- mint (get_tok st tok) to amt;
      Ok (with_tok st tok t', 0)
  | Approve tok owner spender amt exp au =>
      do _ <- guard (memb tok (c_tokens c));
      do _ <- require_auth false None owner (mkf tok F_APPROVE (approve_args owner spender amt exp))
                (map init_tracker au);
      do t' <- set_allowance (c_host c) (now st) (get_tok st tok) owner spender amt exp;
      Ok (with_tok st tok t', 0)
  | Forward k tok fee max exp target fn args user relayer au =>
      forward c st k tok fee max exp target fn args user relayer au
  | SetTok allowed tok operator au =>
      do _ <- guard (memb operator (c_managers c));
      do _ <- require_auth false None operator
                (mkf (c_fp c) (if allowed then F_ENABLE else F_DISABLE) [VA tok; VA operator])
                (map init_tracker au);
      do a' <- set_allowed (al st) tok allowed;
      Ok ({| now := now st; toks := toks st; al := a'; logs := logs st |}, 0)
  | Sweep tok recipient operator au =>
      do _ <- guard (memb operator (c_managers c));
      do _ <- require_auth false None operator
                (mkf (c_fp c) F_SWEEP [VA tok; VA recipient; VA operator]) (map init_tracker au);
      do _ <- guard (memb tok (c_tokens c));
      let t := get_tok st tok in
      let b := balance t (c_fp c) in
      if b =? 0 then Fail
      else
        (* token.transfer(fp, recipient, b): from = fp is the direct invoker *)
        do t' <- update_transfer t (c_fp c) recipient b;
        Ok (with_tok st tok t', b)
  end.

(* a failing call leaves the state unchanged *)
Definition step (c : cfg) (st : state) (cl : call) : state * res Z :=
  match step_ok c st cl with
  | Ok (st', r) => (st', Ok r)
  | Fail => (st, Fail)
  end.

(* ------------------------------------------------------------------------- *)
(* Observation: what the harness reads back after every call                  *)
(* ------------------------------------------------------------------------- *)
Record tokobs := {
  ob_total : Z;
  ob_bal : list Z;                    (* over c_holders *)
  ob_alw : list (list (Z * Z))        (* allowance_data over c_owners x c_spenders *)
}.
Record obs := {
  o_now : Z;
  o_toks : list tokobs;               (* over c_tokens *)
  o_count : N;                        (* permissioned forwarder: Count *)
  o_enum : list (option addr);        (* Token(0) .. Token(count-1) *)
  o_past : option addr;               (* Token(count): must be empty *)
  o_idx : list (option N);            (* TokenIndex(t) over c_cands *)
  o_allowed : list bool;              (* is_allowed_fee_token(t) over c_cands *)
  o_flcount : N;                      (* permissionless forwarder: Count (never written) *)
  o_logs : list (list logent);        (* over c_targets *)
  o_exec : list bool;                 (* has_role(h, "executor") of the permissioned forwarder, over c_holders *)
  o_mgr : list bool                   (* has_role(h, "manager"), over c_holders *)
}.

Definition observe_tok (c : cfg) (nw : Z) (t : tokst) : tokobs :=
  {| ob_total := t_total t;
     ob_bal := map (balance t) (c_holders c);
     ob_alw := map (fun o => map (fun s => allowance_data nw t o s) (c_spenders c)) (c_owners c) |}.

Definition observe (c : cfg) (st : state) : obs :=
  {| o_now := now st;
     o_toks := map (fun tok => observe_tok c (now st) (get_tok st tok)) (c_tokens c);
     o_count := al_count (al st);
     o_enum := enumeration (al st);
     o_past := alist_get (al_count (al st)) (al_tok (al st));
     o_idx := map (fun t => alist_get t (al_idx (al st))) (c_cands c);
     o_allowed := map (is_allowed (al st)) (c_cands c);
     o_flcount := 0;
     o_logs := map (get_log (logs st)) (c_targets c);
     (* roles are granted in the constructor and never change (no role management in the call alphabet) *)
     o_exec := map (fun h => memb h (c_executors c)) (c_holders c);
     o_mgr := map (fun h => memb h (c_managers c)) (c_holders c) |}.
