(* C15 - model of packages/tokens/src/rwa/claim_issuer/storage.rs:
   byte-level helpers (signature-data layouts, expiration encoding, claim message and claim
   identifier construction), the key registry (Topics / Pairs branches), nonces, revocation
   flags, and the REFERENCE ISSUER: the composition of these helpers that the module
   documentation of claim_issuer prescribes for `is_claim_valid`.
   Signature schemes are an oracle ([c_sigok], a field of the configuration). *)
From SC Require Import Lib.Prelude Lib.Int Lib.Host.

(* ------------------------------------------------------------------------- *)
(* association lists with an explicit boolean equality                        *)
(* ------------------------------------------------------------------------- *)
Section AList.
  Context {K V : Type} (eqb : K -> K -> bool).
  Fixpoint aget (k : K) (l : list (K * V)) : option V :=
    match l with
    | [] => None
    | (k', v) :: r => if eqb k k' then Some v else aget k r
    end.
  Fixpoint aremove (k : K) (l : list (K * V)) : list (K * V) :=
    match l with
    | [] => []
    | (k', v) :: r => if eqb k k' then aremove k r else (k', v) :: aremove k r
    end.
  Definition aset (k : K) (v : V) (l : list (K * V)) : list (K * V) := (k, v) :: aremove k l.
End AList.

(* remove the first element satisfying [f]; None if there is none
   (Vec::first_index_of / iter().position followed by remove) *)
Fixpoint remove_first {A} (f : A -> bool) (l : list A) : option (list A) :=
  match l with
  | [] => None
  | x :: r => if f x then Some r else match remove_first f r with Some r' => Some (x :: r') | None => None end
  end.
(* remove the first match if any, otherwise unchanged *)
Definition remove_first_or_same {A} (f : A -> bool) (l : list A) : list A :=
  match remove_first f l with Some l' => l' | None => l end.

Fixpoint list_eqb {A} (eqb : A -> A -> bool) (a b : list A) : bool :=
  match a, b with
  | [], [] => true
  | x :: a', y :: b' => eqb x y && list_eqb eqb a' b'
  | _, _ => false
  end.

Definition is_nil {A} (l : list A) : bool := match l with [] => true | _ => false end.
Definition zlen {A} (l : list A) : Z := Z.of_nat (length l).

(* ------------------------------------------------------------------------- *)
(* bytes                                                                      *)
(* ------------------------------------------------------------------------- *)
Definition bytes := list Z.
Definition bytes_eqb : bytes -> bytes -> bool := list_eqb Z.eqb.

Fixpoint le_bytes (n : nat) (v : Z) : bytes :=
  match n with O => [] | S k => (v mod 256) :: le_bytes k (v / 256) end.
(* the n-byte big-endian representation of v *)
Definition B (n : Z) (v : Z) : bytes := rev (le_bytes (Z.to_nat n) v).
Definition be32 (v : Z) : bytes := B 4 v.
Definition be64 (v : Z) : bytes := B 8 v.
(* big-endian value of a byte string *)
Fixpoint be_val (acc : Z) (l : bytes) : Z :=
  match l with [] => acc | x :: r => be_val (acc * 256 + x) r end.
(* Bytes::slice(a..b) for a <= b <= len *)
Definition slice (l : bytes) (a b : nat) : bytes := firstn (b - a) (skipn a l).
(* lookup in the table of byte strings a trace is printed with *)
Definition bx (tab : list bytes) (k : Z) : bytes := nth (Z.to_nat k) tab [].

(* ------------------------------------------------------------------------- *)
(* configuration: constants of the code, environment, oracle                  *)
(* ------------------------------------------------------------------------- *)
Record cfg := {
  c_net : bytes;                                      (* e.ledger().network_id() *)
  c_xdr : addr -> bytes;                              (* Address::to_xdr *)
  c_sigok : Z -> bytes -> bytes -> bytes -> Z -> bool;  (* scheme, public key, message, signature, recovery id *)
  c_other : addr -> addr -> Z -> Z -> bytes -> bytes -> bool;
    (* the answer of `is_claim_valid(identity, topic, scheme, sig_data, claim_data)` at an address that is
       NOT a reference issuer (issuer, identity, topic, scheme, signature data, claim data): true iff the
       cross-contract call returns normally WITH THE UNIT VALUE.  A trap, a missing function, a
       non-contract address and a normal return of any other value (a bool, an error code, ...) are
       all `false`: only the unit answer is a confirmation (ClaimIssuer::is_claim_valid has no result) *)
  c_max_topics : Z;                                   (* MAX_CLAIM_TOPICS *)
  c_max_issuers : Z;                                  (* MAX_ISSUERS *)
  c_max_keys : Z;                                     (* MAX_KEYS_PER_TOPIC *)
  c_max_regs : Z;                                     (* MAX_REGISTRIES_PER_KEY *)
  c_max_countries : Z                                 (* MAX_COUNTRY_ENTRIES *)
}.

(* ------------------------------------------------------------------------- *)
(* signature data layouts (extract_signature_data of the three verifiers)     *)
(* ------------------------------------------------------------------------- *)
Definition ED25519 : Z := 101.
Definition SECP256K1 : Z := 102.
Definition SECP256R1 : Z := 103.

Record sigdata := { sd_pk : bytes; sd_sig : bytes; sd_rid : Z }.

(* public_key (32) || signature (64) *)
Definition extract_ed25519 (s : bytes) : res sigdata :=
  if zlen s =? 96 then Ok {| sd_pk := slice s 0 32; sd_sig := slice s 32 96; sd_rid := 0 |} else Fail.
(* public_key (65) || signature (64) *)
Definition extract_secp256r1 (s : bytes) : res sigdata :=
  if zlen s =? 129 then Ok {| sd_pk := slice s 0 65; sd_sig := slice s 65 129; sd_rid := 0 |} else Fail.
(* public_key (65) || signature (64) || recovery_id (4, big endian) *)
Definition extract_secp256k1 (s : bytes) : res sigdata :=
  if zlen s =? 133 then
    Ok {| sd_pk := slice s 0 65; sd_sig := slice s 65 129; sd_rid := be_val 0 (slice s 129 133) |}
  else Fail.

(* the reference issuer's dispatch on its scheme numbers *)
Definition extract_sig (scheme : Z) (s : bytes) : res sigdata :=
  if scheme =? ED25519 then extract_ed25519 s
  else if scheme =? SECP256K1 then extract_secp256k1 s
  else if scheme =? SECP256R1 then extract_secp256r1 s
  else Fail.

(* ------------------------------------------------------------------------- *)
(* expiration metadata inside the claim data                                  *)
(* ------------------------------------------------------------------------- *)
Definition encode_expiration (created_at valid_until : Z) (payload : bytes) : res bytes :=
  if valid_until <=? created_at then Fail
  else Ok (be64 created_at ++ be64 valid_until ++ payload).
Definition decode_expiration (d : bytes) : res (Z * Z * bytes) :=
  if zlen d <? 16 then Fail
  else Ok (be_val 0 (slice d 0 8), be_val 0 (slice d 8 16), skipn 16 d).
(* true iff current timestamp >= valid_until *)
Definition is_claim_expired (now : Z) (d : bytes) : res bool :=
  do x <- decode_expiration d; let '(_, valid_until, _) := x in Ok (valid_until <=? now).

(* ------------------------------------------------------------------------- *)
(* message and identifier                                                     *)
(* ------------------------------------------------------------------------- *)
(* network_id || claim_issuer || identity || claim_topic || nonce || claim_data *)
Definition build_claim_message (net xissuer xidentity : bytes) (topic nonce : Z) (data : bytes) : bytes :=
  net ++ xissuer ++ xidentity ++ be32 topic ++ be32 nonce ++ data.
(* network_id || claim_issuer || identity || claim_topic || claim_data *)
Definition build_claim_identifier (net xissuer xidentity : bytes) (topic : Z) (data : bytes) : bytes :=
  net ++ xissuer ++ xidentity ++ be32 topic ++ data.

(* ------------------------------------------------------------------------- *)
(* issuer state                                                               *)
(* ------------------------------------------------------------------------- *)
Definition skey := (bytes * Z)%type.                 (* SigningKey { public_key, scheme } *)
Definition skey_eqb (a b : skey) : bool := bytes_eqb (fst a) (fst b) && (snd a =? snd b).
Definition treg := (Z * addr)%type.                  (* (topic, registry) *)
Definition treg_eqb (a b : treg) : bool := (fst a =? fst b) && N.eqb (snd a) (snd b).
(* RevokedClaim(keccak256(identifier)): the identifier determines (identity, topic, data)
   for the fixed network and issuer (claim_identifier_injective in Proofs); the digest is
   represented by that triple *)
Definition rkey := (addr * Z * bytes)%type.
Definition rkey_eqb (a b : rkey) : bool :=
  N.eqb (fst (fst a)) (fst (fst b)) && (snd (fst a) =? snd (fst b)) && bytes_eqb (snd a) (snd b).
Definition nkey := (addr * Z)%type.                  (* ClaimNonce(identity, topic) *)
Definition nkey_eqb (a b : nkey) : bool := N.eqb (fst a) (fst b) && (snd a =? snd b).

Record issuer := {
  is_topics : list (Z * list skey);                  (* Topics(topic) -> Vec<SigningKey> *)
  is_pairs : list (skey * list treg);                (* Pairs(key) -> Vec<(topic, registry)> *)
  is_revoked : list (rkey * bool);
  is_nonce : list (nkey * Z)
}.
Definition issuer0 : issuer := {| is_topics := []; is_pairs := []; is_revoked := []; is_nonce := [] |}.

Definition get_keys_for_topic (s : issuer) (topic : Z) : res (list skey) :=
  of_option (aget Z.eqb topic (is_topics s)).
Definition get_registries (s : issuer) (k : skey) : res (list addr) :=
  do ps <- of_option (aget skey_eqb k (is_pairs s)); Ok (map snd ps).
Definition is_key_allowed_for_topic (s : issuer) (pk : bytes) (scheme topic : Z) : bool :=
  match aget Z.eqb topic (is_topics s) with
  | Some ks => existsb (skey_eqb (pk, scheme)) ks
  | None => false
  end.
Definition is_key_allowed_for_registry (s : issuer) (pk : bytes) (scheme : Z) (registry : addr) : bool :=
  match aget skey_eqb (pk, scheme) (is_pairs s) with
  | Some ps => existsb (fun p => N.eqb (snd p) registry) ps
  | None => false
  end.

(* [has] is the answer of registry.has_claim_topic(current_contract, topic) (cross-contract
   call; Fail when the registry is not such a contract or the issuer is not registered) *)
Definition allow_key (c : cfg) (s : issuer) (pk : bytes) (registry : addr) (scheme topic : Z)
    (has : res bool) : res issuer :=
  if is_nil pk then Fail else
  do h <- has;
  if negb h then Fail else
  let k := (pk, scheme) in
  do topics' <-
    (if is_key_allowed_for_topic s pk scheme topic then Ok (is_topics s)
     else
       let ks := match aget Z.eqb topic (is_topics s) with Some ks => ks | None => [] end in
       if c_max_keys c <=? zlen ks then Fail
       else Ok (aset Z.eqb topic (ks ++ [k]) (is_topics s)));
  let pairs := match aget skey_eqb k (is_pairs s) with Some p => p | None => [] end in
  if existsb (treg_eqb (topic, registry)) pairs then Fail else
  if c_max_regs c <=? zlen pairs then Fail else
  Ok {| is_topics := topics';
        is_pairs := aset skey_eqb k (pairs ++ [(topic, registry)]) (is_pairs s);
        is_revoked := is_revoked s; is_nonce := is_nonce s |}.

Definition remove_key (s : issuer) (pk : bytes) (registry : addr) (scheme topic : Z) : res issuer :=
  let k := (pk, scheme) in
  do pairs <- of_option (aget skey_eqb k (is_pairs s));
  do pairs' <- of_option (remove_first (treg_eqb (topic, registry)) pairs);
  let ps' := if is_nil pairs' then aremove skey_eqb k (is_pairs s) else aset skey_eqb k pairs' (is_pairs s) in
  if existsb (fun p => fst p =? topic) pairs' then
    Ok {| is_topics := is_topics s; is_pairs := ps'; is_revoked := is_revoked s; is_nonce := is_nonce s |}
  else
    do ks <- of_option (aget Z.eqb topic (is_topics s));          (* .expect(..) *)
    do ks' <- of_option (remove_first (skey_eqb k) ks);            (* .expect(..) *)
    let ts' := if is_nil ks' then aremove Z.eqb topic (is_topics s) else aset Z.eqb topic ks' (is_topics s) in
    Ok {| is_topics := ts'; is_pairs := ps'; is_revoked := is_revoked s; is_nonce := is_nonce s |}.

Definition get_current_nonce_for (s : issuer) (identity : addr) (topic : Z) : Z :=
  match aget nkey_eqb (identity, topic) (is_nonce s) with Some n => n | None => 0 end.

Definition invalidate_claim_signatures (s : issuer) (identity : addr) (topic : Z) : res issuer :=
  do n <- of_option (checked_add_u32 (get_current_nonce_for s identity topic) 1);
  Ok {| is_topics := is_topics s; is_pairs := is_pairs s; is_revoked := is_revoked s;
        is_nonce := aset nkey_eqb (identity, topic) n (is_nonce s) |}.

Definition set_claim_revoked (s : issuer) (identity : addr) (topic : Z) (data : bytes) (revoked : bool) : issuer :=
  {| is_topics := is_topics s; is_pairs := is_pairs s;
     is_revoked := aset rkey_eqb (identity, topic, data) revoked (is_revoked s); is_nonce := is_nonce s |}.

Definition is_claim_revoked (s : issuer) (identity : addr) (topic : Z) (data : bytes) : bool :=
  match aget rkey_eqb (identity, topic, data) (is_revoked s) with Some r => r | None => false end.

(* message the issuer [self] expects for a claim, with its CURRENT nonce *)
Definition claim_message (c : cfg) (self : addr) (s : issuer) (identity : addr) (topic : Z) (data : bytes) : bytes :=
  build_claim_message (c_net c) (c_xdr c self) (c_xdr c identity) topic
    (get_current_nonce_for s identity topic) data.
Definition claim_identifier (c : cfg) (self identity : addr) (topic : Z) (data : bytes) : bytes :=
  build_claim_identifier (c_net c) (c_xdr c self) (c_xdr c identity) topic data.

(* ------------------------------------------------------------------------- *)
(* the reference issuer: is_claim_valid as prescribed by the module doc       *)
(*   extract signature data -> key allowed for the topic -> not expired ->    *)
(*   build message -> not revoked -> verify signature                         *)
(* ------------------------------------------------------------------------- *)
Definition is_claim_valid (c : cfg) (now : Z) (self : addr) (s : issuer)
    (identity : addr) (topic scheme : Z) (sig data : bytes) : res unit :=
  do sd <- extract_sig scheme sig;
  do _ <- guard (is_key_allowed_for_topic s (sd_pk sd) scheme topic);
  do ex <- is_claim_expired now data;
  do _ <- guard (negb ex);
  let msg := claim_message c self s identity topic data in
  do _ <- guard (negb (is_claim_revoked s identity topic data));
  guard (c_sigok c scheme (sd_pk sd) msg (sd_sig sd) (sd_rid sd)).
