(* C08 model: packages/governance/src/timelock/storage.rs, transcribed guard by guard.

   Storage: instance  MinDelay              -> u32        (absent until set_min_delay)
            persistent OperationLedger(id)  -> u32        (absent = UNSET_LEDGER = 0;
                                                           DONE_LEDGER = 1; otherwise the
                                                           ledger at which the operation is ready)
   Operation ids are [hash op] for a Section variable [hash] (keccak256 of the XDR of
   target, function, args ++ predecessor ++ salt in the code).  Nothing in this file
   assumes anything about [hash]; theorems that need injectivity say so.

   The ledger sequence is part of the state and moves only by [Advance].
   A failing call returns the old state (host rollback). *)
From SC Require Import Lib.Prelude Lib.Int Lib.Host.

Definition id := N.

(* Operation { target, function, args, predecessor, salt }.  Function symbols and
   argument vectors are abstract small integers (the harness keeps the table);
   predecessor is an operation id, 0 = the all-zero BytesN<32> = "no predecessor". *)
Record op := Op { target : N; fn : N; args : N; pred : id; salt : N }.
Arguments Op (_ _ _ _ _)%N_scope.

Definition op_eqb (a b : op) : bool :=
  N.eqb (target a) (target b) && N.eqb (fn a) (fn b) && N.eqb (args a) (args b)
  && N.eqb (pred a) (pred b) && N.eqb (salt a) (salt b).

Lemma op_eqb_eq a b : op_eqb a b = true <-> a = b.
Proof.
  destruct a, b; unfold op_eqb; cbn [target fn args pred salt].
  rewrite !andb_true_iff, !N.eqb_eq. split.
  - intros [[[[-> ->] ->] ->] ->]. reflexivity.
  - intros H. inversion H. auto.
Qed.

(* UNSET_LEDGER / DONE_LEDGER (timelock/mod.rs) *)
Definition UNSET_LEDGER : Z := 0.
Definition DONE_LEDGER : Z := 1.

(* OperationState *)
Inductive opstate := Unset | Waiting | Ready | Done.
Definition opstate_eqb (a b : opstate) : bool :=
  match a, b with
  | Unset, Unset | Waiting, Waiting | Ready, Ready | Done, Done => true
  | _, _ => false
  end.
Lemma opstate_eqb_eq a b : opstate_eqb a b = true <-> a = b.
Proof. destruct a, b; cbn; split; congruence. Qed.

(* the timelock's own storage + the ledger *)
Record tl := { now : Z; min_delay : option Z; marks : list (id * Z) }.

(* get_operation_ledger: stored value, UNSET_LEDGER when the key is absent *)
Definition mark (s : tl) (i : id) : Z :=
  match alist_get i (marks s) with Some v => v | None => UNSET_LEDGER end.

Definition set_mark (s : tl) (i : id) (v : Z) : tl :=
  {| now := now s; min_delay := min_delay s; marks := alist_set i v (marks s) |}.
(* persistent().remove *)
Definition del_mark (s : tl) (i : id) : tl :=
  {| now := now s; min_delay := min_delay s; marks := alist_remove i (marks s) |}.

(* get_operation_state:
     match ready_ledger { UNSET => Unset, DONE => Done,
                          ready if ready > current => Waiting, _ => Ready } *)
Definition state_of_mark (now r : Z) : opstate :=
  if r =? UNSET_LEDGER then Unset
  else if r =? DONE_LEDGER then Done
  else if now <? r then Waiting
  else Ready.
Definition state_of (s : tl) (i : id) : opstate := state_of_mark (now s) (mark s i).

Definition operation_exists (s : tl) (i : id) : bool := negb (opstate_eqb (state_of s i) Unset).
Definition is_operation_pending (s : tl) (i : id) : bool :=
  opstate_eqb (state_of s i) Waiting || opstate_eqb (state_of s i) Ready.
Definition is_operation_ready (s : tl) (i : id) : bool := opstate_eqb (state_of s i) Ready.
Definition is_operation_done (s : tl) (i : id) : bool := opstate_eqb (state_of s i) Done.

(* set_min_delay (no authorisation inside) *)
Definition set_min_delay (s : tl) (d : Z) : res tl :=
  do _ <- guard (in_u32 d);                                   (* u32 argument *)
  Ok {| now := now s; min_delay := Some d; marks := marks s |}.

(* cancel_operation *)
Definition cancel_operation (s : tl) (i : id) : res tl :=
  if negb (is_operation_pending s i) then Fail                 (* InvalidOperationState *)
  else Ok (del_mark s i).

Section WithHash.
  Variable hash : op -> id.

  (* schedule_operation *)
  Definition schedule_operation (s : tl) (o : op) (delay : Z) : res (tl * id) :=
    do _ <- guard (in_u32 delay);                              (* u32 argument *)
    let i := hash o in
    if operation_exists s i then Fail                          (* OperationAlreadyScheduled *)
    else match min_delay s with
         | None => Fail                                        (* MinDelayNotSet *)
         | Some m =>
             if delay <? m then Fail                           (* InsufficientDelay *)
             else
               let ready := sat_add_u32 (now s) delay in       (* saturating_add *)
               Ok (set_mark s i ready, i)
         end.

  (* set_execute_operation *)
  Definition set_execute_operation (s : tl) (o : op) : res tl :=
    let i := hash o in
    if negb (is_operation_ready s i) then Fail                 (* InvalidOperationState *)
    else if negb (N.eqb (pred o) 0) && negb (is_operation_done s (pred o))
         then Fail                                             (* UnexecutedPredecessor *)
         else Ok (set_mark s i DONE_LEDGER).

  (* ---------------- the state machine driven by the C08 harness ----------------
     the wrapper contract exposes the storage functions one to one; the target of
     execute_operation is a counting mock: [tgt_ok] = whether the invocation
     (target, function, args) succeeds (input of the call, supplied by the harness),
     [runs] = number of successful invocations per argument tag (logged by the mock). *)
  Record state := { tls : tl; runs : list (N * Z) }.

  Definition run_count (s : state) (a : N) : Z :=
    match alist_get a (runs s) with Some v => v | None => 0 end.

  Inductive call :=
  | Schedule (o : op) (delay : Z)
  | Execute (o : op) (tgt_ok : bool)       (* execute_operation = set_execute_operation + invoke *)
  | SetExecute (o : op)                    (* set_execute_operation alone *)
  | Cancel (i : id)
  | SetMinDelay (d : Z)
  | Advance (n : Z).                       (* ledger sequence += n *)

  (* outcome: Ok (Some id) for schedule, Ok None for the others, Fail *)
  Definition outcome := res (option id).

  Definition with_tl (s : state) (t : tl) : state := {| tls := t; runs := runs s |}.

  Definition step (s : state) (c : call) : state * outcome :=
    match c with
    | Schedule o d =>
        match schedule_operation (tls s) o d with
        | Ok (t, i) => (with_tl s t, Ok (Some i))
        | Fail => (s, Fail)
        end
    | Execute o tgt_ok =>
        match set_execute_operation (tls s) o with
        | Ok t =>
            if tgt_ok
            then ({| tls := t; runs := alist_set (args o) (run_count s (args o) + 1) (runs s) |}, Ok None)
            else (s, Fail)                                      (* target trapped: everything rolls back *)
        | Fail => (s, Fail)
        end
    | SetExecute o =>
        match set_execute_operation (tls s) o with
        | Ok t => (with_tl s t, Ok None)
        | Fail => (s, Fail)
        end
    | Cancel i =>
        match cancel_operation (tls s) i with
        | Ok t => (with_tl s t, Ok None)
        | Fail => (s, Fail)
        end
    | SetMinDelay d =>
        match set_min_delay (tls s) d with
        | Ok t => (with_tl s t, Ok None)
        | Fail => (s, Fail)
        end
    | Advance n =>
        if (0 <=? n) && in_u32 (now (tls s) + n)
        then (with_tl s {| now := now (tls s) + n; min_delay := min_delay (tls s); marks := marks (tls s) |}, Ok None)
        else (s, Fail)
    end.

  Definition run (s : state) (cs : list call) : state := fold_left (fun s c => fst (step s c)) cs s.
End WithHash.
Arguments Cancel _%N_scope.

(* a fresh contract at ledger [n0] *)
Definition init_tl (n0 : Z) : tl := {| now := n0; min_delay := None; marks := [] |}.
Definition init (n0 : Z) : state := {| tls := init_tl n0; runs := [] |}.

(* An explicit injective pairing for execution / for closing Sections that assume
   injectivity: Cantor pairing nested over the five fields. *)
Definition cantor (a b : N) : N := ((a + b) * (a + b + 1) / 2 + b)%N.
Definition hash_pair (o : op) : id :=
  cantor (target o) (cantor (fn o) (cantor (args o) (cantor (pred o) (salt o)))).
