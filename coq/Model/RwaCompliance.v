(* C04, second layer - executable model of the modular compliance contract
   (packages/tokens/src/rwa/compliance/storage.rs) that the RWA token consults (can_transfer /
   can_create) and notifies (transferred / created / destroyed), over an abstract set of bound
   tokens (utils/token_binder: bind_token / unbind_token / is_token_bound; its bucket layout is
   C20's subject and is not modelled).

   Compliance modules are external contracts: which of them refuse ([cc_deny]: the module answers
   `false`) and which of them FAIL ([cc_fail]: the module cannot be invoked or traps instead of
   answering - it panics, raises a contract error, is not a deployed contract, lacks the function,
   returns something that is not a bool) is an INPUT of every call; every call a module receives
   is logged (an observation).  A failing module makes the whole hook call fail: the library calls
   `client.can_transfer(..)` / `client.on_transfer(..)` (not the `try_` forms), so the trap
   propagates - a module that does not answer is never counted as an approval.
   The wrappers of the harness contract add [operator.require_auth()] in front of
   add_module_to / remove_module_from / bind_token / unbind_token (Compliance / TokenBinder trait
   signatures carry `operator`); the hook functions are the library's, unwrapped. *)
From SC Require Import Lib.Prelude Lib.Int Lib.Host.

Inductive hook := HTransferred | HCreated | HDestroyed | HCanTransfer | HCanCreate.
Definition hook_eqb (a b : hook) : bool :=
  match a, b with
  | HTransferred, HTransferred | HCreated, HCreated | HDestroyed, HDestroyed
  | HCanTransfer, HCanTransfer | HCanCreate, HCanCreate => true
  | _, _ => false
  end.

(* what a compliance module receives *)
Inductive mev :=
| MOnTransfer (from to : addr) (amt : Z) (tok : addr)
| MOnCreated (to : addr) (amt : Z) (tok : addr)
| MOnDestroyed (from : addr) (amt : Z) (tok : addr)
| MCanTransfer (from to : addr) (amt : Z) (tok : addr)
| MCanCreate (to : addr) (amt : Z) (tok : addr).

Record ccfg := { max_modules : Z }.        (* MAX_MODULES *)

Record cstate := mkC {
  mods : hook -> list addr;                (* ComplianceDataKey::HookModules(hook), in registration order *)
  bound : list addr;                       (* tokens bound to this compliance contract *)
  mlog : list (addr * mev)                 (* (module, call it received) during the current call, in order *)
}.
Definition cinit : cstate := mkC (fun _ => []) [] [].

Definition mem (a : addr) (l : list addr) : bool := existsb (N.eqb a) l.
Fixpoint remove_first (a : addr) (l : list addr) : list addr :=
  match l with
  | [] => []
  | x :: r => if N.eqb a x then r else x :: remove_first a r
  end.

Definition set_mods (s : cstate) (h : hook) (l : list addr) : cstate :=
  mkC (fun h' => if hook_eqb h' h then l else mods s h') (bound s) (mlog s).
Definition set_bound (s : cstate) (l : list addr) : cstate := mkC (mods s) l (mlog s).
Definition clog (m : addr) (e : mev) (s : cstate) : cstate := mkC (mods s) (bound s) (mlog s ++ [(m, e)]).
Definition cclear (s : cstate) : cstate := mkC (mods s) (bound s) [].

(* add_module_to *)
Definition add_module_to (cf : ccfg) (h : hook) (m : addr) (s : cstate) : res cstate :=
  do _ <- guard (negb (mem m (mods s h)));                       (* ModuleAlreadyRegistered *)
  do _ <- guard (Z.of_nat (length (mods s h)) <? max_modules cf); (* len >= MAX_MODULES -> ModuleBoundExceeded *)
  Ok (set_mods s h (mods s h ++ [m])).

(* remove_module_from: position of the module, Vec::remove (order of the others kept) *)
Definition remove_module_from (h : hook) (m : addr) (s : cstate) : res cstate :=
  do _ <- guard (mem m (mods s h));                              (* ModuleNotRegistered *)
  Ok (set_mods s h (remove_first m (mods s h))).

(* token_binder::bind_token / unbind_token, as a set *)
Definition bind_token (t : addr) (s : cstate) : res cstate :=
  do _ <- guard (negb (mem t (bound s)));                        (* TokenAlreadyBound *)
  Ok (set_bound s (bound s ++ [t])).
Definition unbind_token (t : addr) (s : cstate) : res cstate :=
  do _ <- guard (mem t (bound s));                               (* TokenNotFound *)
  Ok (set_bound s (remove_first t (bound s))).

(* require_auth_from_bound_token *)
Definition require_auth_from_bound_token (auths : list addr) (tok : addr) (s : cstate) : res unit :=
  do _ <- guard (has_auth auths tok);                            (* token.require_auth() *)
  guard (mem tok (bound s)).                                     (* TokenNotBound *)

(* the notification hooks: every module registered for the hook is called, in order *)
Fixpoint notify_all (ms : list addr) (e : mev) (s : cstate) : cstate :=
  match ms with
  | [] => s
  | m :: r => notify_all r e (clog m e s)
  end.
(* ... as the code runs it: `client.on_xxx(..)` on a module that fails traps the whole call *)
Fixpoint notify_all_f (fail : list addr) (ms : list addr) (e : mev) (s : cstate) : res cstate :=
  match ms with
  | [] => Ok s
  | m :: r => if mem m fail then Fail else notify_all_f fail r e (clog m e s)
  end.
Definition hook_notify (fail : list addr) (auths : list addr) (h : hook) (e : mev) (tok : addr) (s : cstate) : res cstate :=
  do _ <- require_auth_from_bound_token auths tok s;
  notify_all_f fail (mods s h) e s.

(* the check hooks: modules are asked in order; the first refusal ends the loop with false *)
Fixpoint ask_all (deny : list addr) (ms : list addr) (e : mev) (s : cstate) : bool * cstate :=
  match ms with
  | [] => (true, s)
  | m :: r => let s1 := clog m e s in if mem m deny then (false, s1) else ask_all deny r e s1
  end.
(* ... as the code runs it: `client.can_xxx(..)` on a module that fails traps the whole call (the
   loop never gets to see a verdict it could count as an approval) *)
Fixpoint ask_all_f (fail deny : list addr) (ms : list addr) (e : mev) (s : cstate) : res (bool * cstate) :=
  match ms with
  | [] => Ok (true, s)
  | m :: r =>
      if mem m fail then Fail
      else let s1 := clog m e s in if mem m deny then Ok (false, s1) else ask_all_f fail deny r e s1
  end.

(* the modules that get asked by a check hook: up to and including the first one that refuses *)
Fixpoint asked (deny : list addr) (ms : list addr) : list addr :=
  match ms with
  | [] => []
  | m :: r => if mem m deny then [m] else m :: asked deny r
  end.
(* is one of the modules [ms] a failing one *)
Definition any_fail (fail : list addr) (ms : list addr) : bool := existsb (fun m => mem m fail) ms.

Inductive cop :=
| CAddModule (h : hook) (m : addr) (operator : addr)
| CRemoveModule (h : hook) (m : addr) (operator : addr)
| CBind (t : addr) (operator : addr)
| CUnbind (t : addr) (operator : addr)
| CTransferred (from to : addr) (amt : Z) (tok : addr)
| CCreated (to : addr) (amt : Z) (tok : addr)
| CDestroyed (from : addr) (amt : Z) (tok : addr)
| CCanTransfer (from to : addr) (amt : Z) (tok : addr)
| CCanCreate (to : addr) (amt : Z) (tok : addr)
| CAdvance (n : Z).                                (* the ledger advances by n; the contract stores nothing time-dependent *)

(* [cc_auths]: the addresses whose authorisation is attached to the call, including the calling
   contract itself when the call is made by a contract; [cc_deny]: the modules that refuse (answer
   false); [cc_fail]: the modules that fail (trap / cannot be invoked) when called *)
Record ccall := mkCCF { cc_op : cop; cc_auths : list addr; cc_deny : list addr; cc_fail : list addr }.
(* a call during which no module fails *)
Definition mkCC (o : cop) (auths deny : list addr) : ccall := mkCCF o auths deny [].

Definition cret := option bool.
Definition cunit (r : res cstate) : res (cret * cstate) := do s <- r; Ok (None, s).

Definition cexec (cf : ccfg) (c : ccall) (s : cstate) : res (cret * cstate) :=
  let au := cc_auths c in
  match cc_op c with
  | CAddModule h m opr => cunit (do _ <- guard (has_auth au opr); add_module_to cf h m s)
  | CRemoveModule h m opr => cunit (do _ <- guard (has_auth au opr); remove_module_from h m s)
  | CBind t opr => cunit (do _ <- guard (has_auth au opr); bind_token t s)
  | CUnbind t opr => cunit (do _ <- guard (has_auth au opr); unbind_token t s)
  | CTransferred f t a tok => cunit (hook_notify (cc_fail c) au HTransferred (MOnTransfer f t a tok) tok s)
  | CCreated t a tok => cunit (hook_notify (cc_fail c) au HCreated (MOnCreated t a tok) tok s)
  | CDestroyed f a tok => cunit (hook_notify (cc_fail c) au HDestroyed (MOnDestroyed f a tok) tok s)
  | CCanTransfer f t a tok =>
      do bs <- ask_all_f (cc_fail c) (cc_deny c) (mods s HCanTransfer) (MCanTransfer f t a tok) s;
      Ok (Some (fst bs), snd bs)
  | CCanCreate t a tok =>
      do bs <- ask_all_f (cc_fail c) (cc_deny c) (mods s HCanCreate) (MCanCreate t a tok) s;
      Ok (Some (fst bs), snd bs)
  | CAdvance _ => Ok (None, s)
  end.

Definition cstep (cf : ccfg) (s : cstate) (c : ccall) : cstate * res cret :=
  let s0 := cclear s in
  match cexec cf c s0 with
  | Ok (r, s') => (s', Ok r)
  | Fail => (s0, Fail)
  end.
Definition crun (cf : ccfg) (s : cstate) (cs : list ccall) : cstate :=
  fold_left (fun s c => fst (cstep cf s c)) cs s.
