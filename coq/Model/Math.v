(* Model of packages/contract-utils/src/math/{i128_fixed_point,i256_fixed_point,wad}.rs
   Transcribed branch by branch.  Three-valued results for the checked variants:
   [Ok (Some v)] = Some v, [Ok None] = returned None, [Fail] = panic/host trap. *)
From SC Require Import Lib.Prelude Lib.Int.

Inductive rounding := Floor | Ceil | Truncate.

(* lift an Option-producing Rust expression that is `?`-propagated or unwrapped *)
Definition unwrap_or_panic {A} (o : option A) : res A := of_option o.

(* ---- i128 helpers (fn div_floor / div_ceil of i128_fixed_point.rs) ---- *)
(* `r / z` inside the helpers is a native division: traps (Fail) on MIN / -1;
   z = 0 cannot reach it in the first branch (sign test), in the second branch
   checked_rem_euclid has returned None before. *)
Definition div_floor128 (r z : Z) : res (option Z) :=
  if ((r <? 0) && (0 <? z)) || ((0 <? r) && (z <? 0)) then
    match checked_rem_euclid r z with
    | None => Ok None
    | Some rem =>
        do q <- of_option (native_div r z);
        Ok (checked_sub q (if 0 <? rem then 1 else 0))
    end
  else Ok (checked_div r z).

Definition div_ceil128 (r z : Z) : res (option Z) :=
  if ((r <=? 0) && (0 <? z)) || ((0 <=? r) && (z <? 0)) then Ok (checked_div r z)
  else
    match checked_rem_euclid r z with
    | None => Ok None
    | Some rem =>
        do q <- of_option (native_div r z);
        Ok (checked_add q (if 0 <? rem then 1 else 0))
    end.

(* ---- I256 helpers (i256_fixed_point.rs); every host op may trap ---- *)
Definition div_floor256 (r z : Z) : res (option Z) :=
  if ((r <? 0) && (0 <? z)) || ((0 <? r) && (z <? 0)) then
    do rem <- of_option (rem_euclid256 r z);
    do q <- of_option (div256 r z);
    do v <- of_option (sub256 q (if 0 <? rem then 1 else 0));
    Ok (Some v)
  else
    do q <- of_option (div256 r z); Ok (Some q).

Definition div_ceil256 (r z : Z) : res (option Z) :=
  if ((r <=? 0) && (0 <? z)) || ((0 <=? r) && (z <? 0)) then
    do q <- of_option (div256 r z); Ok (Some q)
  else
    do rem <- of_option (rem_euclid256 r z);
    do q <- of_option (div256 r z);
    do v <- of_option (add256 q (if 0 <? rem then 1 else 0));
    Ok (Some v).

(* I256 trait methods. *)
Definition checked_mul_div256 (rd : rounding) (x y d : Z) : res (option Z) :=
  if d =? 0 then Ok None
  else
    do r <- of_option (mul256 x y);
    match rd with
    | Floor => div_floor256 r d
    | Ceil => div_ceil256 r d
    | Truncate => do q <- of_option (div256 r d); Ok (Some q)
    end.

Definition flatten {A} (r : res (option A)) : res A :=
  match r with Ok (Some a) => Ok a | _ => Fail end.

Definition mul_div256 (rd : rounding) (x y d : Z) : res Z :=
  if d =? 0 then Fail
  else
    do r <- of_option (mul256 x y);
    match rd with
    | Floor => flatten (div_floor256 r d)
    | Ceil => flatten (div_ceil256 r d)
    | Truncate => of_option (div256 r d)
    end.

(* i128 trait methods. *)
Definition checked_mul_div128 (rd : rounding) (x y d : Z) : res (option Z) :=
  match checked_mul x y with
  | Some r =>
      match rd with
      | Floor => div_floor128 r d
      | Ceil => div_ceil128 r d
      | Truncate => Ok (checked_div r d)
      end
  | None =>
      do res <- checked_mul_div256 rd x y d;
      Ok (match res with Some v => fit128 v | None => None end)
  end.

Definition mul_div128 (rd : rounding) (x y d : Z) : res Z :=
  if d =? 0 then Fail
  else
    match checked_mul x y with
    | Some r =>
        match rd with
        | Floor => flatten (div_floor128 r d)
        | Ceil => flatten (div_ceil128 r d)
        | Truncate => of_option (native_div r d)
        end
    | None =>
        do v <- mul_div256 rd x y d;
        of_option (fit128 v)
    end.

(* ---- Wad ---- *)
Definition WAD : Z := 10 ^ 18.

Definition wad_checked_mul (a b : Z) : res (option Z) := checked_mul_div128 Truncate a b WAD.
Definition wad_checked_div (a b : Z) : res (option Z) :=
  if b =? 0 then Ok None else checked_mul_div128 Truncate a WAD b.
Definition wad_from_ratio (n d : Z) : res Z :=
  if d =? 0 then Fail else flatten (checked_mul_div128 Truncate n WAD d).
Definition wad_from_integer (n : Z) : res Z := of_option (checked_mul n WAD).

(* checked_pow: the while loop runs at most 32 times (u32 exponent); fuel 33 *)
Fixpoint pow_loop (fuel : nat) (exponent base result : Z) : res (option Z) :=
  if 0 <? exponent then
    match fuel with
    | O => Fail (* unreachable for exponent < 2^fuel, see Proofs/Math.v *)
    | S f =>
        do r1 <- (if Z.odd exponent then checked_mul_div128 Truncate result base WAD
                  else Ok (Some result));
        match r1 with
        | None => Ok None
        | Some result' =>
            let exponent' := exponent / 2 in
            if 0 <? exponent' then
              do b1 <- checked_mul_div128 Truncate base base WAD;
              match b1 with
              | None => Ok None
              | Some base' => pow_loop f exponent' base' result'
              end
            else pow_loop f exponent' base result'
        end
    end
  else Ok (Some result).

Definition wad_checked_pow (x exponent : Z) : res (option Z) :=
  if exponent =? 0 then Ok (Some WAD)
  else if exponent =? 1 then Ok (Some x)
  else if x =? 0 then Ok (Some 0)
  else if x =? WAD then Ok (Some x)
  else pow_loop 33 exponent x WAD.

Definition wad_pow (x exponent : Z) : res Z := flatten (wad_checked_pow x exponent).

(* ---- observable calls (what the harness drives) ---- *)
Inductive call :=
| MulDiv128 (rd : rounding) (x y d : Z)
| CMulDiv128 (rd : rounding) (x y d : Z)
| MulDiv256 (rd : rounding) (x y d : Z)
| CMulDiv256 (rd : rounding) (x y d : Z)
| WadCMul (a b : Z)
| WadCDiv (a b : Z)
| WadFromRatio (n d : Z)
| WadFromInteger (n : Z)
| WadCPow (x e : Z)
| WadPow (x e : Z).

(* Canonical outcome: Ok (Some v) value; Ok None = "None" returned; Fail = trap *)
Definition run_call (c : call) : res (option Z) :=
  match c with
  | MulDiv128 rd x y d => do v <- mul_div128 rd x y d; Ok (Some v)
  | CMulDiv128 rd x y d => checked_mul_div128 rd x y d
  | MulDiv256 rd x y d => do v <- mul_div256 rd x y d; Ok (Some v)
  | CMulDiv256 rd x y d => checked_mul_div256 rd x y d
  | WadCMul a b => wad_checked_mul a b
  | WadCDiv a b => wad_checked_div a b
  | WadFromRatio n d => do v <- wad_from_ratio n d; Ok (Some v)
  | WadFromInteger n => do v <- wad_from_integer n; Ok (Some v)
  | WadCPow x e => wad_checked_pow x e
  | WadPow x e => do v <- wad_pow x e; Ok (Some v)
  end.
