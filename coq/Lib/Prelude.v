(* Common imports and small utilities shared by every model. Stdlib only. *)
From Coq Require Export ZArith NArith List Bool Lia.
Export ListNotations.
Open Scope Z_scope.

(* Keep binary arithmetic opaque to [simpl]. *)
Global Arguments Z.add _ _ : simpl never.
Global Arguments Z.sub _ _ : simpl never.
Global Arguments Z.mul _ _ : simpl never.
Global Arguments Z.div _ _ : simpl never.
Global Arguments Z.modulo _ _ : simpl never.
Global Arguments Z.quot _ _ : simpl never.
Global Arguments Z.rem _ _ : simpl never.
Global Arguments Z.pow _ _ : simpl never.
Global Arguments Z.leb _ _ : simpl never.
Global Arguments Z.ltb _ _ : simpl never.
Global Arguments Z.eqb _ _ : simpl never.
Global Arguments N.add _ _ : simpl never.
Global Arguments N.sub _ _ : simpl never.
Global Arguments N.mul _ _ : simpl never.
Global Arguments N.eqb _ _ : simpl never.
Global Arguments N.ltb _ _ : simpl never.
Global Arguments N.leb _ _ : simpl never.

(* Outcome of a contract call: [Ok v] or a failure (panic / contract error /
   host error).  Error codes are never compared. *)
Inductive res (A : Type) : Type :=
| Ok (a : A)
| Fail.
Arguments Ok {A} a.
Arguments Fail {A}.

Definition bind {A B} (r : res A) (f : A -> res B) : res B :=
  match r with Ok a => f a | Fail => Fail end.
Notation "'do' x <- r ; k" := (bind r (fun x => k))
  (at level 200, x name, r at level 100, k at level 200).
Notation "'do' ' p <- r ; k" := (bind r (fun x => let p := x in k))
  (at level 200, p pattern, r at level 100, k at level 200).

Definition of_option {A} (o : option A) : res A :=
  match o with Some a => Ok a | None => Fail end.
Definition guard (b : bool) : res unit := if b then Ok tt else Fail.
Definition is_ok {A} (r : res A) : bool := match r with Ok _ => true | Fail => false end.

(* Result of evaluating an implementation trace:
   (index+1 of first disagreement with the model or 0,
    index+1 of first monitor (property) failure or 0,
    class of that monitor failure: 0 = unclassified, k>0 = known class k of known_findings.json) *)
Definition verdict := (N * N * N)%type.

(* first index (1-based) at which [f] is false, 0 if none *)
Fixpoint first_false {A} (f : A -> bool) (l : list A) (i : N) : N :=
  match l with
  | [] => 0%N
  | x :: r => if f x then first_false f r (N.succ i) else N.succ i
  end.
