(* Rust / Soroban machine integers over Z with the range checks written out. *)
From SC Require Import Lib.Prelude.

Definition MIN128 : Z := - 2 ^ 127.
Definition MAX128 : Z := 2 ^ 127 - 1.
Definition MIN256 : Z := - 2 ^ 255.
Definition MAX256 : Z := 2 ^ 255 - 1.
Definition MAXU32 : Z := 2 ^ 32 - 1.
Definition MAXU128 : Z := 2 ^ 128 - 1.

Definition in_i128 (z : Z) : bool := (MIN128 <=? z) && (z <=? MAX128).
Definition in_i256 (z : Z) : bool := (MIN256 <=? z) && (z <=? MAX256).
Definition in_u32 (z : Z) : bool := (0 <=? z) && (z <=? MAXU32).
Definition in_u128 (z : Z) : bool := (0 <=? z) && (z <=? MAXU128).

(* value of a 256-bit signed integer given as (hi : i128, lo : u128) *)
Definition I256 (hi lo : Z) : Z := hi * 2 ^ 128 + lo.

Definition fit128 (z : Z) : option Z := if in_i128 z then Some z else None.
Definition fit256 (z : Z) : option Z := if in_i256 z then Some z else None.

(* i128::checked_* *)
Definition checked_add (a b : Z) : option Z := fit128 (a + b).
Definition checked_sub (a b : Z) : option Z := fit128 (a - b).
Definition checked_mul (a b : Z) : option Z := fit128 (a * b).
(* Rust integer division truncates toward zero = Z.quot *)
Definition checked_div (a b : Z) : option Z :=
  if b =? 0 then None else fit128 (Z.quot a b).
(* rem_euclid: the non-negative remainder; None on rhs = 0 or MIN % -1 *)
Definition checked_rem_euclid (a b : Z) : option Z :=
  if b =? 0 then None
  else if (a =? MIN128) && (b =? -1) then None
  else Some (a mod Z.abs b).
(* native `/` under overflow checks: traps exactly where checked_div is None *)
Definition native_div := checked_div.

(* host I256 primitives (soroban-env-host: checked, trap on overflow / zero) *)
Definition mul256 (a b : Z) : option Z := fit256 (a * b).
Definition add256 (a b : Z) : option Z := fit256 (a + b).
Definition sub256 (a b : Z) : option Z := fit256 (a - b).
Definition div256 (a b : Z) : option Z :=
  if b =? 0 then None else fit256 (Z.quot a b).
Definition rem_euclid256 (a b : Z) : option Z :=
  if b =? 0 then None
  else if (a =? MIN256) && (b =? -1) then None
  else Some (a mod Z.abs b).

(* u32 / u128 *)
Definition checked_add_u32 (a b : Z) : option Z := if in_u32 (a + b) then Some (a + b) else None.
Definition checked_add_u128 (a b : Z) : option Z := if in_u128 (a + b) then Some (a + b) else None.
Definition checked_sub_u128 (a b : Z) : option Z := if in_u128 (a - b) then Some (a - b) else None.
Definition sat_add_u32 (a b : Z) : Z := if in_u32 (a + b) then a + b else MAXU32.

(* exact rational roundings *)
Definition floor_div (n d : Z) : Z := n / d.                (* Coq's / floors for any sign of d *)
Definition ceil_div (n d : Z) : Z := - ((- n) / d).
Definition trunc_div (n d : Z) : Z := Z.quot n d.
