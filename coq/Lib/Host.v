(* The parts of the Soroban host the properties depend on (DESIGN.md section 3).
   Temporary storage entries: value + live_until ledger, semantics read from
   soroban-env-host 25.0.1 (storage.rs, host/data_helper.rs) and validated by the
   correspondence runs of C02/C07/C11. *)
From SC Require Import Lib.Prelude Lib.Int.

Record hostcfg := { min_temp_ttl : Z; max_ttl : Z }.
(* the harness sets min_temp_entry_ttl = 1 unless stated otherwise *)
Definition default_cfg (max : Z) : hostcfg := {| min_temp_ttl := 1; max_ttl := max |}.

(* a temporary entry *)
Record tentry (V : Type) := { tval : V; tlive : Z }.
Arguments tval {V} _. Arguments tlive {V} _. Arguments Build_tentry {V} _ _.

Definition tlive_at {V} (now : Z) (e : option (tentry V)) : option (tentry V) :=
  match e with
  | Some en => if tlive en <? now then None else Some en
  | None => None
  end.

(* storage().temporary().get *)
Definition tget {V} (now : Z) (e : option (tentry V)) : option V :=
  match tlive_at now e with Some en => Some (tval en) | None => None end.

(* storage().temporary().set : a live entry keeps its live_until; a new (absent
   or expired) one lives until now + min_temp_ttl - 1 *)
Definition tset {V} (c : hostcfg) (now : Z) (e : option (tentry V)) (v : V) : option (tentry V) :=
  match tlive_at now e with
  | Some en => Some {| tval := v; tlive := tlive en |}
  | None => Some {| tval := v; tlive := now + min_temp_ttl c - 1 |}
  end.

(* storage().temporary().extend_ttl(threshold, extend_to):
   traps if threshold > extend_to, if the entry is absent/expired, or if
   extend_to exceeds max_ttl - 1 ... ; otherwise live_until := now + extend_to when
   that is larger than the current value and the remaining ttl is <= threshold. *)
Definition textend {V} (c : hostcfg) (now : Z) (e : option (tentry V)) (threshold extend_to : Z)
  : res (option (tentry V)) :=
  if extend_to <? threshold then Fail
  else match tlive_at now e with
       | None => Fail
       | Some en =>
           if max_ttl c - 1 <? extend_to then Fail
           else
             let new_live := now + extend_to in
             if (tlive en - now <=? threshold) && (tlive en <? new_live)
             then Ok (Some {| tval := tval en; tlive := new_live |})
             else Ok (Some en)
       end.

Definition tremove {V} (e : option (tentry V)) : option (tentry V) := None.

(* max_live_until_ledger as e.ledger().max_live_until_ledger(): now + max_ttl - 1 *)
Definition max_live_until (c : hostcfg) (now : Z) : Z := now + max_ttl c - 1.

(* ---- authorisation: the set of addresses whose auth is attached to the call ---- *)
Definition addr := N.
Definition has_auth (auths : list addr) (a : addr) : bool := existsb (N.eqb a) auths.

(* ---- finite maps as association lists over N keys (total lookup with default) ---- *)
Fixpoint alist_get {V} (k : N) (l : list (N * V)) : option V :=
  match l with
  | [] => None
  | (k', v) :: r => if N.eqb k k' then Some v else alist_get k r
  end.
Fixpoint alist_remove {V} (k : N) (l : list (N * V)) : list (N * V) :=
  match l with
  | [] => []
  | (k', v) :: r => if N.eqb k k' then alist_remove k r else (k', v) :: alist_remove k r
  end.
Definition alist_set {V} (k : N) (v : V) (l : list (N * V)) : list (N * V) :=
  (k, v) :: alist_remove k l.

Lemma alist_get_remove_eq {V} k (l : list (N * V)) : alist_get k (alist_remove k l) = None.
Proof.
  induction l as [|[k' v] r IH]; cbn [alist_remove alist_get]; auto.
  destruct (N.eqb k k') eqn:E; auto. cbn [alist_get]. rewrite E. exact IH.
Qed.
Lemma alist_get_remove_neq {V} k k' (l : list (N * V)) : k <> k' ->
  alist_get k (alist_remove k' l) = alist_get k l.
Proof.
  intros Hn. induction l as [|[k2 v] r IH]; cbn [alist_remove alist_get]; auto.
  destruct (N.eqb k' k2) eqn:E.
  - apply N.eqb_eq in E. subst k2. destruct (N.eqb k k') eqn:E2; [apply N.eqb_eq in E2; contradiction|]. exact IH.
  - cbn [alist_get]. destruct (N.eqb k k2); auto.
Qed.
Lemma alist_get_set_eq {V} k v (l : list (N * V)) : alist_get k (alist_set k v l) = Some v.
Proof. unfold alist_set. cbn [alist_get]. rewrite N.eqb_refl. reflexivity. Qed.
Lemma alist_get_set_neq {V} k k' v (l : list (N * V)) : k <> k' ->
  alist_get k (alist_set k' v l) = alist_get k l.
Proof.
  intros Hn. unfold alist_set. cbn [alist_get].
  destruct (N.eqb k k') eqn:E; [apply N.eqb_eq in E; contradiction|].
  apply alist_get_remove_neq; exact Hn.
Qed.
