(* C14: trace checker (model vs implementation) and monitor (property vs implementation). *)
From SC Require Import Lib.Prelude Lib.Int Lib.Host Model.Policies Model.PoliciesSpec.

(* ---------- boolean equalities on observations ---------- *)
Fixpoint list_eqb {A} (eqb : A -> A -> bool) (a b : list A) : bool :=
  match a, b with
  | [], [] => true
  | x :: a', y :: b' => eqb x y && list_eqb eqb a' b'
  | _, _ => false
  end.
Definition opt_eqb {A} (eqb : A -> A -> bool) (a b : option A) : bool :=
  match a, b with
  | Some x, Some y => eqb x y
  | None, None => true
  | _, _ => false
  end.
Definition entry_eqb (a b : entry) : bool := (fst a =? fst b) && (snd a =? snd b).
Definition wobs1_eqb (a b : Z * list (option Z)) : bool :=
  (fst a =? fst b) && list_eqb (opt_eqb Z.eqb) (snd a) (snd b).
Definition lobs1_eqb (a b : Z * Z * list entry * Z) : bool :=
  let '(l1, p1, h1, c1) := a in let '(l2, p2, h2, c2) := b in
  (l1 =? l2) && (p1 =? p2) && list_eqb entry_eqb h1 h2 && (c1 =? c2).
Definition event_eqb (a b : event) : bool :=
  match a, b with
  | EvEnforced p1 a1 r1 n1 x1 t1, EvEnforced p2 a2 r2 n2 x2 t2 =>
      pol_eqb p1 p2 && N.eqb a1 a2 && N.eqb r1 r2 && (n1 =? n2) && (x1 =? x2) && (t1 =? t2)
  end.
Definition obs_eqb (a b : obs) : bool :=
  list_eqb (opt_eqb Z.eqb) (o_s a) (o_s b)
  && list_eqb (opt_eqb wobs1_eqb) (o_w a) (o_w b)
  && list_eqb (opt_eqb lobs1_eqb) (o_l a) (o_l b)
  && list_eqb event_eqb (o_ev a) (o_ev b).
Definition ret_eqb (a b : ret) : bool :=
  match a, b with
  | RUnit, RUnit => true
  | RBool x, RBool y => Bool.eqb x y
  | _, _ => false
  end.
Definition outcome_eqb (a b : outcome) : bool :=
  match a, b with
  | Ok x, Ok y => ret_eqb x y
  | Fail, Fail => true
  | _, _ => false
  end.

(* ---------- traces as printed by the harness ---------- *)
Record hdr := mkhdr {
  h_max_history : Z;           (* spending_limit::MAX_HISTORY_ENTRIES of the code under test *)
  h_start : Z;                 (* ledger sequence at the start of the trace *)
  h_keys : list key;           (* universe of (smart account, rule id) observed after every call *)
  h_sgs : list signer }.       (* universe of signers (weights observed for each) *)
Definition hdr_cfg (h : hdr) : cfg := {| max_history := h_max_history h |}.
Definition hdr_u (h : hdr) : universe := {| u_keys := h_keys h; u_sgs := h_sgs h |}.

(* The spending history of an observation is printed relative to the previous observation of
   the same key: (number of entries dropped from the front, entries appended).  This is a
   lossless encoding chosen by the harness from the real getter value; it keeps traces that
   fill the 1000-entry history small. *)
Definition lenc := option (Z * Z * (N * list entry) * Z).
(* [ESame evs]: every getter returned what it returned after the previous call (initially:
   nothing installed); [EFull ...]: the getter values, the spending histories as deltas. *)
Inductive eobs :=
| ESame (evs : list event)
| EFull (e_s : list (option Z)) (e_w : list wobs) (e_l : list lenc) (evs : list event).

Definition dec_one (prev : lobs) (e : lenc) : lobs :=
  match e with
  | None => None
  | Some (lim, per, (drop, push), cached) =>
      let ph := match prev with Some (_, _, h, _) => h | None => [] end in
      Some (lim, per, skipn (N.to_nat drop) ph ++ push, cached)
  end.
Fixpoint dec_l (prev : list lobs) (enc : list lenc) : list lobs :=
  match enc with
  | [] => []
  | e :: er =>
      match prev with
      | p :: pr => dec_one p e :: dec_l pr er
      | [] => dec_one None e :: dec_l [] er
      end
  end.
Definition dec_obs (prev : obs) (e : eobs) : obs :=
  match e with
  | ESame evs => {| o_s := o_s prev; o_w := o_w prev; o_l := o_l prev; o_ev := evs |}
  | EFull es ew el evs => {| o_s := es; o_w := ew; o_l := dec_l (o_l prev) el; o_ev := evs |}
  end.

Definition eitem := (call * outcome * eobs)%type.
Definition item := (call * outcome * obs)%type.
Definition trace := (hdr * list eitem)%type.

Fixpoint decode (prev : obs) (t : list eitem) : list item :=
  match t with
  | [] => []
  | (c, o, e) :: r => let ob := dec_obs prev e in (c, o, ob) :: decode ob r
  end.

(* ---------- diff: replay through the model ---------- *)
Fixpoint diff_from (c : cfg) (u : universe) (s : state) (t : list item) (i : N) : N :=
  match t with
  | [] => 0%N
  | (cl, o, ob) :: r =>
      let '(s', o', evs) := step c s cl in
      if outcome_eqb o' o && obs_eqb (observe u s' evs) ob
      then diff_from c u s' r (N.succ i)
      else N.succ i
  end.

(* ---------- monitor: the property over implementation observations only ----------
   The monitor never looks at the model's state.  From the observed calls and outcomes it keeps
   the specification-level bookkeeping of Model/PoliciesSpec.v: the configured thresholds /
   weight maps, and per spending-limit installation the limit in force and the log of every
   enforced transfer.  After every call it checks
   (1) the outcome against what the property prescribes (plain sums, explicit window sums),
   (2) that the getters and events show exactly what the bookkeeping predicts - so a failed or
       read-only call, or a call on another (account, rule), leaves no trace, a configuration
       call takes effect exactly, and the stored spending history is the part of the log that
       is still inside the window with the cached total equal to its sum. *)
Record mstate := mkm {
  m_now : Z;
  m_s : list (key * Z);
  m_w : list (key * wdata);
  m_l : ghost_l;
  m_last : option (call * outcome);
  (* spending installations with an enforcement logged at ledger 0: the property is stated for
     ledgers >= 1 (at ledger 0 the code's saturating cut-off evicts the entries of the current
     ledger), so ONLY the window clauses of these installations are suspended, until the
     installation ends *)
  m_taint : list key }.

Definition m_init (n0 : Z) : mstate :=
  {| m_now := n0; m_s := []; m_w := []; m_l := []; m_last := None; m_taint := [] |}.
Definition mem_key (k : key) (l : list key) : bool := existsb (key_eqb k) l.
Definition pl_gate (m : mstate) (k : key) : bool := (m_now m <? 1) || mem_key k (m_taint m).

Definition is_okb (o : outcome) : bool := match o with Ok _ => true | Fail => false end.
Definition is_true (o : outcome) : bool := match o with Ok (RBool true) => true | _ => false end.
Definition nonempty {A} (l : list A) : bool := match l with [] => false | _ => true end.

Definition arg_eqb (a b : arg) : bool :=
  match a, b with AI128 x, AI128 y => x =? y | AOther, AOther => true | _, _ => false end.
Definition context_eqb (a b : context) : bool :=
  match a, b with
  | CContract t f x, CContract t' g y => N.eqb t t' && N.eqb f g && list_eqb arg_eqb x y
  | CCreate, CCreate | CCreateCtor, CCreateCtor => true
  | _, _ => false
  end.

(* simple threshold: accept exactly when the number of authenticated signers reaches the threshold *)
Definition spec_s_can (g : list (key * Z)) (k : key) (sgs : list signer) : bool :=
  match kget k g with Some t => t <=? len sgs | None => false end.
(* weighted threshold: exactly when the sum of the configured weights does; a sum that does not
   fit u32 can only trap *)
Definition spec_w_can (g : list (key * wdata)) (k : key) (sgs : list signer) : outcome :=
  match kget k g with
  | None => Ok (RBool false)
  | Some d => let w := wsum (wd_weights d) sgs in
              if w <=? MAXU32 then Ok (RBool (wd_thr d <=? w)) else Fail
  end.

Definition paired (last : option (call * outcome)) (p : pol) (acct : addr) (rid : N)
           (ctxs : list context) (sgs : list signer) : option outcome :=
  match last, ctxs with
  | Some (CanEnforce p' a' r' ctx' sgs', o1), [ctx] =>
      if pol_eqb p p' && N.eqb acct a' && N.eqb rid r' && context_eqb ctx ctx' && list_eqb N.eqb sgs sgs'
      then Some o1 else None
  | _, _ => None
  end.

Definition implb' (a b : bool) : bool := negb a || b.

Definition spec_outcome_ok (c : cfg) (m : mstate) (cl : call) (o : outcome) : bool :=
  let nw := m_now m in
  match cl with
  | Advance n => implb' (is_okb o) (0 <=? n)             (* the ledger only advances *)
  | CanEnforce PS a r _ sgs => outcome_eqb o (Ok (RBool (spec_s_can (m_s m) (a, r) sgs)))
  | CanEnforce PW a r _ sgs => outcome_eqb o (spec_w_can (m_w m) (a, r) sgs)
  | CanEnforce PL a r ctx sgs =>
      match transfer_amount ctx, sgs, kget (a, r) (m_l m) with
      | Some amt, _ :: _, Some i =>
          pl_gate m (a, r) ||
          match o with
          (* an answer is the exact one: the transfer fits in the window under the limit in force
             and the stored window has room for one more entry - whatever the signs of the amounts *)
          | Ok (RBool b) => Bool.eqb b (l_fits (max_history c) nw (gi_limit i) (gi_period i) (gi_log i) amt)
          | Ok RUnit => false
          (* and with non-negative amounts in everything still stored there must be an answer *)
          | Fail => negb (nonneg_log (stored i) && (0 <=? amt)
                          && (window_sum nw (gi_period i) (gi_log i) + amt <=? MAX128))
          end
      | _, _, _ => outcome_eqb o (Ok (RBool false))      (* non-transfer, no signer, not installed *)
      end
  | Enforce p au a r ctxs sgs =>
      match ctxs with
      | [] => true
      | _ =>
        implb' (negb (has_auth au a)) (negb (is_okb o))    (* only with the account's authorisation *)
        && match p with
           | PS => Bool.eqb (is_okb o) (has_auth au a && spec_s_can (m_s m) (a, r) sgs)
           | PW => Bool.eqb (is_okb o) (has_auth au a && is_true (spec_w_can (m_w m) (a, r) sgs))
           | PL =>
               match kget (a, r) (m_l m) with
               | Some i =>
                   pl_gate m (a, r) ||
                   (implb' (is_okb o)
                      (nonempty sgs && l_batch_ok nw (gi_limit i) (gi_period i) ctxs (gi_log i)
                       && l_batch_exact (max_history c) nw (gi_limit i) (gi_period i) ctxs (gi_log i))
                    && (if nonneg_log (stored i) && nonneg_ctxs ctxs then
                          Bool.eqb (is_okb o)
                            (has_auth au a && nonempty sgs &&
                             l_batch_exact (max_history c) nw (gi_limit i) (gi_period i) ctxs (gi_log i))
                        else true))
               | None => negb (is_okb o)
               end
           end
        (* can_enforce just before, same arguments, same state: the two answers agree *)
        && match paired (m_last m) p a r ctxs sgs with
           | Some o1 => Bool.eqb (is_okb o) (has_auth au a && is_true o1)
           | None => true
           end
      end
  | Uninstall _ au a _ => implb' (negb (has_auth au a)) (negb (is_okb o))
  | SInstall au a _ rs t | SSetThreshold au a _ rs t =>
      implb' (negb (has_auth au a) || (t =? 0) || (len rs <? t)) (negb (is_okb o))
  | WInstall au a _ ws t =>
      let tot := wtotal (wnorm ws) in
      implb' (negb (has_auth au a) || (t =? 0) || (tot <? t) || (MAXU32 <? tot)) (negb (is_okb o))
  | WSetThreshold au a r t =>
      implb' (negb (has_auth au a) || (t =? 0) ||
              match kget (a, r) (m_w m) with Some d => wtotal (wd_weights d) <? t | None => false end)
             (negb (is_okb o))
  | WSetWeight au a r sg w =>
      implb' (negb (has_auth au a) ||
              match kget (a, r) (m_w m) with
              | Some d => let tot := wtotal (alist_set sg w (wd_weights d)) in (tot <? wd_thr d) || (MAXU32 <? tot)
              | None => false
              end)
             (negb (is_okb o))
  | LInstall au a r _ _ =>
      (* also refused over a live installation: a re-install would silently restart the window *)
      implb' (negb (has_auth au a) || match kget (a, r) (m_l m) with Some _ => true | None => false end)
             (negb (is_okb o))
  | LSetLimit au a _ _ => implb' (negb (has_auth au a)) (negb (is_okb o))
  end.

Definition spec_events (m : mstate) (cl : call) (o : outcome) : list event :=
  match o, cl with
  | Ok _, Enforce PL _ a r ctxs _ =>
      match kget (a, r) (m_l m) with
      | Some i => l_events (m_now m) (gi_period i) a r ctxs (gi_log i)
      | None => []
      end
  | Ok _, Enforce p _ a r ctxs sgs => map (fun _ => EvEnforced p a r (len sgs) 0 0) ctxs
  | _, _ => []
  end.

Definition m_next (m : mstate) (cl : call) (o : outcome) : mstate :=
  {| m_now := match cl, o with Advance n, Ok _ => m_now m + n | _, _ => m_now m end;
     m_s := ghost_s_step (m_s m) cl o;
     m_w := ghost_w_step (m_w m) cl o;
     m_l := ghost_l_step (m_now m) (m_l m) cl o;
     m_last := Some (cl, o);
     m_taint := match o, cl with
                | Ok _, Enforce PL _ a r (_ :: _) _ => if m_now m <? 1 then (a, r) :: m_taint m else m_taint m
                | Ok _, LInstall _ a r _ _ | Ok _, Uninstall PL _ a r =>
                    filter (fun k => negb (key_eqb k (a, r))) (m_taint m)
                | _, _ => m_taint m
                end |}.

Definition exp_obs (u : universe) (m : mstate) (evs : list event) : obs :=
  {| o_s := map (fun k => kget k (m_s m)) (u_keys u);
     o_w := map (fun k => option_map (obs_w u) (kget k (m_w m))) (u_keys u);
     o_l := map (fun k => option_map linst_obs (kget k (m_l m))) (u_keys u);
     o_ev := evs |}.

(* configured thresholds are never zero nor unreachable *)
Definition config_inv (m : mstate) (cl : call) : bool :=
  match call_key cl with
  | None => true
  | Some k =>
      match kget k (m_s m) with Some t => 0 <? t | None => true end
      && match kget k (m_w m) with
         | Some d => let tot := wtotal (wd_weights d) in (0 <? wd_thr d) && (wd_thr d <=? tot) && (tot <=? MAXU32)
         | None => true
         end
  end.

(* observations compared with the prediction; the spending entry of a suspended installation and
   the events of a suspended call are not compared *)
Fixpoint lobs_eqb_masked (keys taint : list key) (a b : list lobs) : bool :=
  match keys, a, b with
  | k :: kr, x :: ar, y :: br => (mem_key k taint || opt_eqb lobs1_eqb x y) && lobs_eqb_masked kr taint ar br
  | [], [], [] => true
  | _, _, _ => false
  end.
Definition obs_eqb_m (keys taint : list key) (skip_ev : bool) (a b : obs) : bool :=
  list_eqb (opt_eqb Z.eqb) (o_s a) (o_s b)
  && list_eqb (opt_eqb wobs1_eqb) (o_w a) (o_w b)
  && lobs_eqb_masked keys taint (o_l a) (o_l b)
  && (skip_ev || list_eqb event_eqb (o_ev a) (o_ev b)).

(* the call stays inside the universe that is observed after every call (otherwise "no trace",
   "read-only" and "only its own entry" could not be checked for it) *)
Definition wf_call (u : universe) (cl : call) : bool :=
  match call_key cl with None => true | Some k => mem_key k (u_keys u) end
  && match cl with
     | WInstall _ _ _ ws _ => forallb (fun kv => existsb (N.eqb (fst kv)) (u_sgs u)) ws
     | WSetWeight _ _ _ sg _ => existsb (N.eqb sg) (u_sgs u)
     | _ => true
     end.

Definition call_gate (m : mstate) (cl : call) : bool :=
  match cl with
  | CanEnforce PL a r _ _ | Enforce PL _ a r _ _ => pl_gate m (a, r)
  | _ => false
  end.

Definition mon_step (c : cfg) (u : universe) (m : mstate) (it : item) : bool * mstate :=
  let '(cl, o, ob) := it in
  let m' := m_next m cl o in
  (wf_call u cl && spec_outcome_ok c m cl o
   && obs_eqb_m (u_keys u) (m_taint m') (call_gate m cl) (exp_obs u m' (spec_events m cl o)) ob
   && config_inv m' cl, m').

Fixpoint mon_from (c : cfg) (u : universe) (m : mstate) (t : list item) (i : N) : N :=
  match t with
  | [] => 0%N
  | it :: r => let '(b, m') := mon_step c u m it in if b then mon_from c u m' r (N.succ i) else N.succ i
  end.

(* a header that makes no sense is a failure at the first call *)
Definition hdr_ok (h : hdr) : bool := (0 <=? h_start h) && (h_start h <=? MAXU32) && (0 <? h_max_history h).
Definition mon_all (h : hdr) (t : list item) : N :=
  if hdr_ok h then mon_from (hdr_cfg h) (hdr_u h) (m_init (h_start h)) t 0%N else 1%N.

Definition check (t : trace) : verdict :=
  let h := fst t in
  let items := decode (observe (hdr_u h) (init (h_start h)) []) (snd t) in
  (diff_from (hdr_cfg h) (hdr_u h) (init (h_start h)) items 0%N, mon_all h items, 0%N).
Definition check_all (ts : list trace) : list verdict := map check ts.

(* ---------- the monitor rejects hand-made bad traces (model-independent) ---------- *)
Module Examples.
  Definition h1 : hdr := mkhdr 1000 5 [(1%N, 1%N)] [0%N; 1%N; 2%N].
  Definition tr (amt : Z) : context := CContract 0%N 0%N [AOther; AOther; AI128 amt].
  Definition none3 := EFull [None] [None] [None] [].
  Definition mon (t : trace) : N := snd (fst (check t)).

  (* a good run: 60 then 40 inside one window of 10 ledgers, limit 100 *)
  Definition good : trace := (h1,
    [ (LInstall [1%N] 1%N 1%N 100 10, Ok RUnit, EFull [None] [None] [Some (100, 10, (0%N, []), 0)] []);
      (Enforce PL [1%N] 1%N 1%N [tr 60] [0%N], Ok RUnit,
         EFull [None] [None] [Some (100, 10, (0%N, [(60, 5)]), 60)] [EvEnforced PL 1%N 1%N 0 60 60]);
      (Advance 9, Ok RUnit, ESame []);
      (Enforce PL [1%N] 1%N 1%N [tr 40] [0%N], Ok RUnit,
         EFull [None] [None] [Some (100, 10, (0%N, [(40, 14)]), 100)] [EvEnforced PL 1%N 1%N 0 40 100]) ]).
  Example good_accepted : check good = (0%N, 0%N, 0%N).
  Proof. vm_compute. reflexivity. Qed.

  (* the rolling window is exceeded: 60 at ledger 5 and 50 at ledger 14 (5 > 14 - 10), limit 100;
     the implementation is imagined to have evicted the first entry one ledger too early *)
  Definition over_window : trace := (h1,
    [ (LInstall [1%N] 1%N 1%N 100 10, Ok RUnit, EFull [None] [None] [Some (100, 10, (0%N, []), 0)] []);
      (Enforce PL [1%N] 1%N 1%N [tr 60] [0%N], Ok RUnit,
         EFull [None] [None] [Some (100, 10, (0%N, [(60, 5)]), 60)] [EvEnforced PL 1%N 1%N 0 60 60]);
      (Advance 9, Ok RUnit, ESame []);
      (Enforce PL [1%N] 1%N 1%N [tr 50] [0%N], Ok RUnit,
         EFull [None] [None] [Some (100, 10, (1%N, [(50, 14)]), 50)] [EvEnforced PL 1%N 1%N 0 50 50]) ]).
  Example over_window_rejected : mon over_window = 4%N.
  Proof. vm_compute. reflexivity. Qed.

  (* two transfers of one batch, each fitting alone, together above the limit *)
  Definition over_batch : trace := (h1,
    [ (LInstall [1%N] 1%N 1%N 100 10, Ok RUnit, EFull [None] [None] [Some (100, 10, (0%N, []), 0)] []);
      (Enforce PL [0%N; 1%N] 1%N 1%N [tr 70; tr 51] [0%N], Ok RUnit,
         EFull [None] [None] [Some (100, 10, (0%N, [(70, 5); (51, 5)]), 121)]
               [EvEnforced PL 1%N 1%N 0 70 70; EvEnforced PL 1%N 1%N 0 51 121]) ]).
  Example over_batch_rejected : mon over_batch = 2%N.
  Proof. vm_compute. reflexivity. Qed.

  (* the limit in force counts: lowered to 50 after 60 were spent, a further transfer of 1 passes *)
  Definition after_lowering : trace := (h1,
    [ (LInstall [1%N] 1%N 1%N 100 10, Ok RUnit, EFull [None] [None] [Some (100, 10, (0%N, []), 0)] []);
      (Enforce PL [1%N] 1%N 1%N [tr 60] [0%N], Ok RUnit,
         EFull [None] [None] [Some (100, 10, (0%N, [(60, 5)]), 60)] [EvEnforced PL 1%N 1%N 0 60 60]);
      (LSetLimit [1%N] 1%N 1%N 50, Ok RUnit, EFull [None] [None] [Some (50, 10, (0%N, []), 60)] []);
      (Enforce PL [1%N] 1%N 1%N [tr 1] [0%N], Ok RUnit,
         EFull [None] [None] [Some (50, 10, (0%N, [(1, 5)]), 61)] [EvEnforced PL 1%N 1%N 0 1 61]) ]).
  Example after_lowering_rejected : mon after_lowering = 4%N.
  Proof. vm_compute. reflexivity. Qed.

  (* 2-of-3 accepted with a single signer *)
  Definition simple_under : trace := (h1,
    [ (SInstall [1%N] 1%N 1%N [0%N; 1%N; 2%N] 2, Ok RUnit, EFull [Some 2] [None] [None] []);
      (CanEnforce PS 1%N 1%N (tr 1) [0%N], Ok (RBool true), ESame []) ]).
  Example simple_under_rejected : mon simple_under = 2%N.
  Proof. vm_compute. reflexivity. Qed.

  (* a threshold above the number of rule signers is accepted *)
  Definition simple_unreachable : trace := (h1,
    [ (SInstall [1%N] 1%N 1%N [0%N; 1%N] 3, Ok RUnit, EFull [Some 3] [None] [None] []) ]).
  Example simple_unreachable_rejected : mon simple_unreachable = 1%N.
  Proof. vm_compute. reflexivity. Qed.

  (* weighted: threshold above the total weight accepted; and weights summing past u32::MAX *)
  Definition weighted_unreachable : trace := (h1,
    [ (WInstall [1%N] 1%N 1%N [(0%N, 5); (1%N, 6)] 12, Ok RUnit, EFull [None] [Some (12, [Some 5; Some 6; None])] [None] []) ]).
  Example weighted_unreachable_rejected : mon weighted_unreachable = 1%N.
  Proof. vm_compute. reflexivity. Qed.
  Definition weighted_overflow : trace := (h1,
    [ (WInstall [1%N] 1%N 1%N [(0%N, 4294967295); (1%N, 1)] 1, Ok RUnit,
         EFull [None] [Some (1, [Some 4294967295; Some 1; None])] [None] []) ]).
  Example weighted_overflow_rejected : mon weighted_overflow = 1%N.
  Proof. vm_compute. reflexivity. Qed.
  (* weighted: 5 + 6 < 12 accepted by can_enforce *)
  Definition weighted_under : trace := (h1,
    [ (WInstall [1%N] 1%N 1%N [(0%N, 5); (1%N, 6); (2%N, 7)] 12, Ok RUnit,
         EFull [None] [Some (12, [Some 5; Some 6; Some 7])] [None] []);
      (CanEnforce PW 1%N 1%N (tr 1) [0%N; 1%N], Ok (RBool true), ESame []) ]).
  Example weighted_under_rejected : mon weighted_under = 2%N.
  Proof. vm_compute. reflexivity. Qed.

  (* enforce succeeds (and records a transfer) without the account's authorisation *)
  Definition no_auth : trace := (h1,
    [ (LInstall [1%N] 1%N 1%N 100 10, Ok RUnit, EFull [None] [None] [Some (100, 10, (0%N, []), 0)] []);
      (Enforce PL [2%N; 3%N] 1%N 1%N [tr 60] [0%N], Ok RUnit,
         EFull [None] [None] [Some (100, 10, (0%N, [(60, 5)]), 60)] [EvEnforced PL 1%N 1%N 0 60 60]) ]).
  Example no_auth_rejected : mon no_auth = 2%N.
  Proof. vm_compute. reflexivity. Qed.

  (* a rejected attempt leaves a trace: the failing enforce has recorded its amount *)
  Definition trace_left : trace := (h1,
    [ (LInstall [1%N] 1%N 1%N 100 10, Ok RUnit, EFull [None] [None] [Some (100, 10, (0%N, []), 0)] []);
      (Enforce PL [1%N] 1%N 1%N [tr 101] [0%N], Fail,
         EFull [None] [None] [Some (100, 10, (0%N, [(101, 5)]), 101)] []) ]).
  Example trace_left_rejected : mon trace_left = 2%N.
  Proof. vm_compute. reflexivity. Qed.

  (* can_enforce says yes, enforce (authorised, same state) refuses *)
  Definition disagree : trace := (h1,
    [ (LInstall [1%N] 1%N 1%N 100 10, Ok RUnit, EFull [None] [None] [Some (100, 10, (0%N, []), 0)] []);
      (CanEnforce PL 1%N 1%N (tr 60) [0%N], Ok (RBool true), ESame []);
      (Enforce PL [1%N] 1%N 1%N [tr 60] [0%N], Fail, ESame []) ]).
  Example disagree_rejected : mon disagree = 3%N.
  Proof. vm_compute. reflexivity. Qed.

  (* a non-transfer context is let through by the spending policy *)
  Definition non_transfer : trace := (h1,
    [ (LInstall [1%N] 1%N 1%N 100 10, Ok RUnit, EFull [None] [None] [Some (100, 10, (0%N, []), 0)] []);
      (CanEnforce PL 1%N 1%N (CContract 0%N 1%N [AOther; AOther; AI128 5]) [0%N], Ok (RBool true), ESame []) ]).
  Example non_transfer_rejected : mon non_transfer = 2%N.
  Proof. vm_compute. reflexivity. Qed.

  (* can_enforce modifies state *)
  Definition not_readonly : trace := (h1,
    [ (LInstall [1%N] 1%N 1%N 100 10, Ok RUnit, EFull [None] [None] [Some (100, 10, (0%N, []), 0)] []);
      (CanEnforce PL 1%N 1%N (tr 60) [0%N], Ok (RBool true),
         EFull [None] [None] [Some (100, 10, (0%N, [(60, 5)]), 60)] []) ]).
  Example not_readonly_rejected : mon not_readonly = 2%N.
  Proof. vm_compute. reflexivity. Qed.
  (* over-restrictive: a non-negative transfer that exactly fits (0 + 100 <= 100) is refused *)
  Definition too_strict : trace := (h1,
    [ (LInstall [1%N] 1%N 1%N 100 10, Ok RUnit, EFull [None] [None] [Some (100, 10, (0%N, []), 0)] []);
      (CanEnforce PL 1%N 1%N (tr 100) [0%N], Ok (RBool false), ESame []);
      (Enforce PL [1%N] 1%N 1%N [tr 100] [0%N], Fail, ESame []) ]).
  Example too_strict_rejected : mon too_strict = 2%N.
  Proof. vm_compute. reflexivity. Qed.
  (* ---- traces of the adversarial review (/verif/.cache/review/C14.md) ---- *)
  Definition h0 : hdr := mkhdr 1000 0 [(1%N, 1%N)] [0%N; 1%N; 2%N].
  Definition L0 : eitem := (LInstall [1%N] 1%N 1%N 100 10, Ok RUnit, EFull [None] [None] [Some (100, 10, (0%N, []), 0)] []).
  (* a header starting at ledger 0 does not switch the monitor off: 2-of-3 accepted with one signer *)
  Definition A1 : trace := (h0,
    [ (SInstall [1%N] 1%N 1%N [0%N; 1%N; 2%N] 2, Ok RUnit, EFull [Some 2] [None] [None] []);
      (CanEnforce PS 1%N 1%N (tr 1) [0%N], Ok (RBool true), ESame []) ]).
  Example A1_rejected : mon A1 = 2%N.
  Proof. vm_compute. reflexivity. Qed.
  (* ... nor for enforcements made after the trace has advanced to ledgers >= 1 *)
  Definition A2 : trace := (h0,
    [ (Advance 100, Ok RUnit, ESame []); L0;
      (Enforce PL [1%N] 1%N 1%N [tr 60] [0%N], Ok RUnit, EFull [None] [None] [Some (100, 10, (0%N, [(60, 100)]), 60)] [EvEnforced PL 1%N 1%N 0 60 60]);
      (Enforce PL [1%N] 1%N 1%N [tr 60] [0%N], Ok RUnit, EFull [None] [None] [Some (100, 10, (0%N, [(60, 100)]), 120)] [EvEnforced PL 1%N 1%N 0 60 120]) ]).
  Example A2_rejected : mon A2 = 4%N.
  Proof. vm_compute. reflexivity. Qed.
  Definition A3 : trace := (h0,
    [ (SInstall [2%N] 1%N 1%N [0%N] 0, Ok RUnit, EFull [Some 0] [None] [None] []) ]).
  Example A3_rejected : mon A3 = 1%N.
  Proof. vm_compute. reflexivity. Qed.
  (* what the code does AT ledger 0 (60 + 60 under a limit of 100: the first entry is evicted at
     once) is outside the quantifier and only suspends the window clauses of that installation;
     every other clause stays on (here: a zero threshold accepted later in the same trace) *)
  Definition Z0 : trace := (h0,
    [ L0;
      (Enforce PL [1%N] 1%N 1%N [tr 60] [0%N], Ok RUnit, EFull [None] [None] [Some (100, 10, (0%N, [(60, 0)]), 60)] [EvEnforced PL 1%N 1%N 0 60 60]);
      (Enforce PL [1%N] 1%N 1%N [tr 60] [0%N], Ok RUnit, EFull [None] [None] [Some (100, 10, (1%N, [(60, 0)]), 60)] [EvEnforced PL 1%N 1%N 0 60 60]);
      (Advance 5, Ok RUnit, ESame []);
      (Enforce PL [2%N] 1%N 1%N [tr 1] [0%N], Fail, ESame []);
      (SSetThreshold [1%N] 1%N 1%N [0%N] 0, Ok RUnit, EFull [Some 0] [None] [Some (100, 10, (0%N, []), 60)] []) ]).
  Example Z0_only_window_suspended : mon Z0 = 6%N.
  Proof. vm_compute. reflexivity. Qed.
  (* the ledger goes backwards *)
  Definition T9 : trace := (h1, [ (Advance 10, Ok RUnit, ESame []); (Advance (-10), Ok RUnit, ESame []) ]).
  Example T9_rejected : mon T9 = 2%N.
  Proof. vm_compute. reflexivity. Qed.
  (* install accepted over a live installation: 100 + 100 in one ledger under a constant limit 100 *)
  Definition H1 : trace := (h1,
    [ L0;
      (Enforce PL [1%N] 1%N 1%N [tr 100] [0%N], Ok RUnit, EFull [None] [None] [Some (100, 10, (0%N, [(100, 5)]), 100)] [EvEnforced PL 1%N 1%N 0 100 100]);
      (LInstall [1%N] 1%N 1%N 100 10, Ok RUnit, EFull [None] [None] [Some (100, 10, (1%N, []), 0)] []);
      (Enforce PL [1%N] 1%N 1%N [tr 100] [0%N], Ok RUnit, EFull [None] [None] [Some (100, 10, (0%N, [(100, 5)]), 100)] [EvEnforced PL 1%N 1%N 0 100 100]) ]).
  Example H1_rejected : mon H1 = 3%N.
  Proof. vm_compute. reflexivity. Qed.
  (* one accepted negative amount does not switch exactness off: with an empty window 10 <= 100
     must be answered true *)
  Definition N1b : trace := (h1,
    [ L0;
      (Enforce PL [1%N] 1%N 1%N [tr (-5)] [0%N], Ok RUnit, EFull [None] [None] [Some (100, 10, (0%N, [(-5, 5)]), -5)] [EvEnforced PL 1%N 1%N 0 (-5) (-5)]);
      (Advance 1000, Ok RUnit, ESame []);
      (CanEnforce PL 1%N 1%N (tr 10) [0%N], Ok (RBool false), ESame []) ]).
  Example N1b_rejected : mon N1b = 4%N.
  Proof. vm_compute. reflexivity. Qed.
  (* calls outside the observed universe / an empty universe *)
  Definition B1 : trace := (h1, [ (LInstall [2%N] 2%N 1%N 100 10, Ok RUnit, ESame []) ]).
  Example B1_rejected : mon B1 = 1%N.
  Proof. vm_compute. reflexivity. Qed.
  Definition B2 : trace := (mkhdr 1000 5 [] [],
    [ (LInstall [1%N] 1%N 1%N 100 10, Ok RUnit, ESame []);
      (Enforce PL [1%N] 1%N 1%N [tr 101] [0%N], Fail, EFull [] [] [] []) ]).
  Example B2_rejected : mon B2 = 1%N.
  Proof. vm_compute. reflexivity. Qed.
  (* a budget per token contract: 60 of token 0 and 60 of token 1 in one window, limit 100 *)
  Definition per_token : trace := (h1,
    [ L0;
      (Enforce PL [1%N] 1%N 1%N [CContract 0%N 0%N [AOther; AOther; AI128 60]] [0%N], Ok RUnit,
         EFull [None] [None] [Some (100, 10, (0%N, [(60, 5)]), 60)] [EvEnforced PL 1%N 1%N 0 60 60]);
      (Enforce PL [1%N] 1%N 1%N [CContract 1%N 0%N [AOther; AOther; AI128 60]] [0%N], Ok RUnit,
         EFull [None] [None] [Some (100, 10, (0%N, [(60, 5)]), 120)] [EvEnforced PL 1%N 1%N 0 60 60]) ]).
  Example per_token_rejected : mon per_token = 3%N.
  Proof. vm_compute. reflexivity. Qed.
  (* ---- hardening round (situation classes K1, K2, K5) ---- *)
  (* K1: an entry is created for the policy contract's own address (account 6) with no authorisation at all *)
  Definition hk : hdr := mkhdr 1000 5 [(6%N, 0%N); (1%N, 0%N); (1%N, 1%N)] [0%N; 1%N; 2%N].
  Definition K1a : trace := (hk,
    [ (SSetThreshold [] 6%N 0%N [0%N] 1, Ok RUnit, EFull [Some 1; None; None] [None; None; None] [None; None; None] []) ]).
  Example K1a_rejected : mon K1a = 1%N.
  Proof. vm_compute. reflexivity. Qed.
  (* K1 / K5: a transfer whose token contract is the account itself (token 4 = account 1 in the harness) is let
     through although it does not fit: the monitor does not look at the parties of the context *)
  Definition K1b : trace := (h1,
    [ L0;
      (CanEnforce PL 1%N 1%N (CContract 4%N 0%N [AOther; AOther; AI128 101]) [0%N], Ok (RBool true), ESame []) ]).
  Example K1b_rejected : mon K1b = 2%N.
  Proof. vm_compute. reflexivity. Qed.
  (* ... nor does it accept that such a transfer is enforced without being counted *)
  Definition K1c : trace := (h1,
    [ L0;
      (Enforce PL [1%N] 1%N 1%N [CContract 3%N 0%N [AOther; AOther; AI128 60]] [0%N], Ok RUnit, ESame []) ]).
  Example K1c_rejected : mon K1c = 2%N.
  Proof. vm_compute. reflexivity. Qed.
  (* K2: rule ids 0 and 1 share one entry: an installation for rule 0 shows up under rule 1 as well *)
  Definition K2a : trace := (hk,
    [ (LInstall [1%N] 1%N 0%N 100 10, Ok RUnit,
         EFull [None; None; None] [None; None; None] [None; Some (100, 10, (0%N, []), 0); Some (100, 10, (0%N, []), 0)] []) ]).
  Example K2a_rejected : mon K2a = 1%N.
  Proof. vm_compute. reflexivity. Qed.
  (* K2: a signer with a degenerate key is not counted (signer 2 here): 3-of-3 refused with all three present *)
  Definition K2b : trace := (h1,
    [ (SInstall [1%N] 1%N 1%N [0%N; 1%N; 2%N] 3, Ok RUnit, EFull [Some 3] [None] [None] []);
      (CanEnforce PS 1%N 1%N (tr 1) [0%N; 1%N; 2%N], Ok (RBool false), ESame []) ]).
  Example K2b_rejected : mon K2b = 2%N.
  Proof. vm_compute. reflexivity. Qed.
End Examples.
