(* C13: trace checker (model vs implementation) and monitor (property vs implementation).

   A trace is a header (which contract, how many accounts / ids are observed, start ledger,
   host max ttl) and, per executed call: the authorisation set, the call, the outcome and a
   full observation of the public getters (Model/Votes.v [obs]), including the answers of
   get_votes_at_checkpoint / get_total_supply_at_checkpoint for a list of query ledgers. *)
From SC Require Import Lib.Prelude Lib.Int Lib.Host Model.Votes.
Open Scope Z_scope.

Definition item := (list addr * call * outcome * obs)%type.
Definition trace := (header * list item)%type.

(* ---------- boolean equalities ---------- *)
Fixpoint eqb_list {A} (f : A -> A -> bool) (l1 l2 : list A) : bool :=
  match l1, l2 with
  | [], [] => true
  | x :: r1, y :: r2 => f x y && eqb_list f r1 r2
  | _, _ => false
  end.
Definition eqb_oz (a b : option Z) : bool :=
  match a, b with Some x, Some y => x =? y | None, None => true | _, _ => false end.
Definition eqb_zz (a b : Z * Z) : bool := (fst a =? fst b) && (snd a =? snd b).
Definition eqb_out (a b : outcome) : bool :=
  match a, b with Ok x, Ok y => x =? y | Fail, Fail => true | _, _ => false end.
Definition eqb_acct (a b : acct_obs) : bool :=
  (ao_bal a =? ao_bal b) && (ao_units a =? ao_units b) && oaddr_eqb (ao_dlg a) (ao_dlg b)
  && (ao_votes a =? ao_votes b) && eqb_list eqb_zz (ao_cps a) (ao_cps b).
Definition eqb_past (a b : Z * list (option Z)) : bool :=
  (fst a =? fst b) && eqb_list eqb_oz (snd a) (snd b).
Definition eqb_obs (a b : obs) : bool :=
  (o_now a =? o_now b) && eqb_list eqb_acct (o_accts a) (o_accts b)
  && (o_supply a =? o_supply b) && (o_ts a =? o_ts b)
  && eqb_list eqb_zz (o_ts_cps a) (o_ts_cps b)
  && eqb_list oaddr_eqb (o_owners a) (o_owners b)
  && eqb_list eqb_past (o_past a) (o_past b).

(* ---------- diff: replay the calls through the model ---------- *)
Definition queries (o : obs) : list Z := map fst (o_past o).

(* traces of a token with the default (un-hooked) FungibleBurnable wiring are replayed through [step_db] *)
Definition step_any (h : header) := if h_db h then step_db h else step h.

Fixpoint diff_from (h : header) (s : state) (t : list item) (i : N) : N :=
  match t with
  | [] => 0%N
  | (auths, c, out, o) :: r =>
      let s' := fst (step_any h s auths c) in
      if eqb_out out (snd (step_any h s auths c)) && eqb_obs o (observe h s' (queries o))
      then diff_from h s' r (N.succ i)
      else N.succ i
  end.

(* ---------- the monitor: the property over implementation observations only ---------- *)
(* ghost history: (ledger, [get_votes a | a] ++ [get_total_supply]) as last observed while the
   ledger sequence had that value; newest first, one entry per ledger. *)
Definition history := list (Z * list Z).

Definition cur_vector (o : obs) : list Z := map ao_votes (o_accts o) ++ [o_ts o].

Definition hist_push (now : Z) (v : list Z) (hist : history) : history :=
  match hist with
  | (l, _) :: r => if l =? now then (now, v) :: r else (now, v) :: hist
  | [] => [(now, v)]
  end.

(* the values that held at the end of ledger q: the newest entry with ledger <= q *)
Fixpoint hist_lookup (q : Z) (hist : history) : option (list Z) :=
  match hist with
  | [] => None
  | (l, v) :: r => if l <=? q then Some v else hist_lookup q r
  end.

Definition expected_past (q : Z) (hist : history) (width : nat) : list Z :=
  match hist_lookup q hist with Some v => v | None => repeat 0 width end.

(* voting power of account d = sum of the units of the accounts whose delegate is d *)
Definition delegated_to (accts : list acct_obs) (d : addr) : Z :=
  sum_list (map (fun a => if oaddr_eqb (ao_dlg a) (Some d) then ao_units a else 0) accts).

Fixpoint votes_ok_from (accts rest : list acct_obs) (d : nat) : bool :=
  match rest with
  | [] => true
  | a :: r => (ao_votes a =? delegated_to accts (N.of_nat d)) && votes_ok_from accts r (S d)
  end.

(* checkpoint list as read through get_checkpoint: ledgers strictly increase, none is in the
   future, and the last one carries the current value *)
Fixpoint cps_sorted (prev : Z) (cps : list (Z * Z)) : bool :=
  match cps with
  | [] => true
  | (l, _) :: r => (prev <? l) && cps_sorted l r
  end.
Definition cps_ok (now cur : Z) (cps : list (Z * Z)) : bool :=
  cps_sorted (-1) cps &&
  match rev cps with
  | [] => cur =? 0
  | (l, v) :: _ => (l <=? now) && (v =? cur)
  end.

Definition is_none {A} (o : option A) : bool := match o with None => true | Some _ => false end.

(* the answer a checkpoint list (as read through get_checkpoint, oldest first) determines for ledger q:
   the value of the last entry with ledger <= q, 0 if none *)
Fixpoint lookup_list (q : Z) (cps : list (Z * Z)) (acc : Z) : Z :=
  match cps with
  | [] => acc
  | (l, v) :: r => if l <=? q then lookup_list q r v else lookup_list q r acc
  end.
Definition list_answers (q : Z) (o : obs) : list Z :=
  map (fun a => lookup_list q (ao_cps a) 0) (o_accts o) ++ [lookup_list q (o_ts_cps o) 0].

Definition past_ok (now : Z) (hist : history) (width : nat) (o : obs) (p : Z * list (option Z)) : bool :=
  let (q, ans) := p in
  if q <? now
  then eqb_list eqb_oz ans (map Some (expected_past q hist width))     (* exactly the value at the end of ledger q *)
       && eqb_list eqb_oz ans (map Some (list_answers q o))             (* ... and what the checkpoint lists shown say *)
  else (Nat.eqb (length ans) width) && forallb is_none ans.             (* current / future: refused *)

Definition mon_obs (prev_now : Z) (hist : history) (o : obs) : bool :=
  let accts := o_accts o in
  let width := S (length accts) in
  (prev_now <=? o_now o)
  && forallb (fun a => ao_units a =? ao_bal a) accts                      (* units = token balance *)
  && votes_ok_from accts accts 0                                          (* votes = delegated units *)
  && (o_ts o =? sum_list (map ao_units accts))                            (* vote supply = sum of units *)
  && forallb (fun a => cps_ok (o_now o) (ao_votes a) (ao_cps a)) accts
  && cps_ok (o_now o) (o_ts o) (o_ts_cps o)
  && forallb (past_ok (o_now o) hist width o) (o_past o).

(* state persists until a call changes it: after an [Advance] (however long) or a failing call every
   current-state getter - balances, units, delegates, votes, all checkpoints, supplies, owners -
   answers exactly as in the previous observation (nothing lapses with the passage of ledgers).
   The first call is compared with the empty observation of a freshly deployed contract. *)
Definition empty_obs (h : header) : obs :=
  mkO (h_start h) (repeat (mkA 0 0 None 0 []) (h_n h)) 0 0 [] (repeat None (h_ids h)) [].
Definition core_eqb (a b : obs) : bool :=
  eqb_list eqb_acct (o_accts a) (o_accts b) && (o_supply a =? o_supply b) && (o_ts a =? o_ts b)
  && eqb_list eqb_zz (o_ts_cps a) (o_ts_cps b) && eqb_list oaddr_eqb (o_owners a) (o_owners b).
Definition is_advance (c : call) : bool := match c with Advance _ => true | _ => false end.
Definition stable_ok (prev : obs) (c : call) (out : outcome) (o : obs) : bool :=
  if is_advance c || negb (is_ok out) then core_eqb prev o else true.

(* a delegatee changes only by a successful delegate call of that very account *)
Definition prev_dlg (prev : obs) (k : nat) : option addr :=
  match nth_error (o_accts prev) k with Some a => ao_dlg a | None => None end.
Definition dlg_expected (prev : obs) (c : call) (out : outcome) (k : nat) : option addr :=
  match c with
  | Delegate a d => if is_ok out && N.eqb (N.of_nat k) a then Some d else prev_dlg prev k
  | _ => prev_dlg prev k
  end.
Fixpoint dlg_ok_from (prev : obs) (c : call) (out : outcome) (rest : list acct_obs) (k : nat) : bool :=
  match rest with
  | [] => true
  | a :: r => oaddr_eqb (ao_dlg a) (dlg_expected prev c out k) && dlg_ok_from prev c out r (S k)
  end.

(* no call rewrites the past of a checkpoint list: for every ledger q < now the list of the previous
   observation and the list shown now determine the same answer (it is enough to ask at the ledgers
   of the entries of either list and at now-1).  Independent of which past ledgers are queried:
   dropping, rewriting or back-dating an old checkpoint is caught here. *)
Definition frame_cands (now : Z) (prev cur : list (Z * Z)) : list Z :=
  filter (fun l => l <? now) (map fst prev ++ map fst cur) ++ [now - 1].
Definition cps_frame_ok (now : Z) (prev cur : list (Z * Z)) : bool :=
  forallb (fun q => lookup_list q prev 0 =? lookup_list q cur 0) (frame_cands now prev cur).
Fixpoint accts_frame_ok (now : Z) (prev cur : list acct_obs) : bool :=
  match prev, cur with
  | [], [] => true
  | p :: pr, c :: cr => cps_frame_ok now (ao_cps p) (ao_cps c) && accts_frame_ok now pr cr
  | _, _ => false
  end.

(* the observation has the shape the header announces, its clock moves exactly as the call says, and
   it contains the rows the property needs: ledger now (refused) and, when there is one, ledger now-1 *)
Definition clock_step (c : call) (out : outcome) : Z :=
  match c with Advance n => if is_ok out then n else 0 | _ => 0 end.
Definition has_row (q : Z) (o : obs) : bool := existsb (fun p => fst p =? q) (o_past o).
Definition shape_ok (h : header) (prev : obs) (c : call) (out : outcome) (o : obs) : bool :=
  Nat.eqb (length (o_accts o)) (h_n h) && Nat.eqb (length (o_owners o)) (h_ids h)
  && (o_now o =? o_now prev + clock_step c out)
  && has_row (o_now o) o && ((o_now o =? 0) || has_row (o_now o - 1) o).

Definition mon_item (h : header) (prev : obs) (hist : history) (c : call) (out : outcome) (o : obs) : bool :=
  mon_obs (o_now prev) hist o && stable_ok prev c out o && dlg_ok_from prev c out (o_accts o) 0
  && accts_frame_ok (o_now o) (o_accts prev) (o_accts o) && cps_frame_ok (o_now o) (o_ts_cps prev) (o_ts_cps o)
  && shape_ok h prev c out o.

Fixpoint mon_from (h : header) (prev : obs) (hist : history) (t : list item) (i : N) : N :=
  match t with
  | [] => 0%N
  | (_, c, out, o) :: r =>
      if mon_item h prev hist c out o
      then mon_from h o (hist_push (o_now o) (cur_vector o) hist) r (N.succ i)
      else N.succ i
  end.

(* A trace with h_db = true comes from the deliberately mis-wired token (default FungibleBurnable): it is
   replayed against [step_db] only (diff); the property is not claimed for that wiring (Properties/C13.v
   shows units <> balance there), so the monitor is not applied. *)
Definition check (t : trace) : verdict :=
  let (h, items) := t in
  (diff_from h (init h) items 0%N,
   if h_db h then 0%N else mon_from h (empty_obs h) [] items 0%N,
   0%N).
Definition check_all (ts : list trace) : list verdict := map check ts.

(* ---------- the observations the model itself produces ---------- *)
Definition input := (list addr * call * list Z)%type.    (* auths, call, extra query ledgers *)

(* every observation asks at least for now-1 (when there is one) and now *)
Definition std_queries (now : Z) : list Z := (if 0 <? now then [now - 1] else []) ++ [now].

Fixpoint run_model (h : header) (s : state) (ins : list input) : list item :=
  match ins with
  | [] => []
  | (auths, c, qs) :: r =>
      let s' := fst (step h s auths c) in
      (auths, c, snd (step h s auths c), observe h s' (qs ++ std_queries (s_now s'))) :: run_model h s' r
  end.
Definition observe_model (h : header) (ins : list input) : trace := (h, run_model h (init h) ins).
