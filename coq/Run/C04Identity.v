(* C04, identity-verifier layer: trace checker (model vs implementation) and monitor. *)
From SC Require Import Lib.Prelude Lib.Int Lib.Host Model.RwaIdentity.

Record iitem := II { ii_call : icall; ii_out : res iret; ii_log : ilog }.
Record itrace := mkIT { it_items : list iitem }.

Definition eqb_oaddr (x y : option addr) : bool :=
  match x, y with
  | Some a, Some b => N.eqb a b
  | None, None => true
  | _, _ => false
  end.
Definition eqb_iret (x y : iret) : bool :=
  match x, y with
  | IUnit, IUnit => true
  | ITarget a, ITarget b => eqb_oaddr a b
  | ILinked a b, ILinked a' b' => Bool.eqb a a' && Bool.eqb b b'
  | _, _ => false
  end.
Definition eqb_iout (x y : res iret) : bool :=
  match x, y with
  | Ok a, Ok b => eqb_iret a b
  | Fail, Fail => true
  | _, _ => false
  end.
Definition eqb_ientry (x y : addr * addr * Z) : bool :=
  let '(a, b, t) := x in let '(a', b', t') := y in N.eqb a a' && N.eqb b b' && (t =? t').
Fixpoint eqb_ilog (l1 l2 : ilog) : bool :=
  match l1, l2 with
  | [], [] => true
  | x :: r1, y :: r2 => eqb_ientry x y && eqb_ilog r1 r2
  | _, _ => false
  end.

(* the calls are independent (the verifier keeps no state of its own) *)
Definition istep_ok (it : iitem) : bool :=
  let '(o, lg) := istep (ii_call it) in eqb_iout o (ii_out it) && eqb_ilog lg (ii_log it).

(* THE MONITOR of the identity layer, over observations only:
   - verify_identity returns (instead of panicking) only for a verified account: registered
     identity and, for every required topic, a matching claim of a trusted issuer that this
     issuer accepts;
   - it only ever asks issuers that are trusted for the topic, about the account's identity;
   - a failing call asks nobody (rollback); recovery_target is the registry's answer. *)
Definition trusted_for (w : iworld) (issuer : addr) (topic : Z) : bool :=
  existsb (fun t => (fst t =? topic) && existsb (N.eqb issuer) (snd t)) (w_topics w).
Definition imon_step (it : iitem) : bool :=
  let w := ic_world (ii_call it) in
  match ic_op (ii_call it), ii_out it with
  | IVerify a, Ok IUnit =>
      verified w a
      && forallb (fun e => let '(i, idn, t) := e in
                           trusted_for w i t
                           && match alist_get a (w_ident w) with Some x => N.eqb x idn | None => false end)
                 (ii_log it)
  | IVerify _, Ok _ => false
  | IVerify _, Fail => match ii_log it with [] => true | _ => false end
  | IRecoveryTarget old, Ok (ITarget t) => eqb_oaddr t (irecovery_target w old) && match ii_log it with [] => true | _ => false end
  | IRecoveryTarget _, _ => false
  (* the links to the registries are never lost, whatever time has passed *)
  | ILinks, Ok (ILinked true true) => match ii_log it with [] => true | _ => false end
  | ILinks, _ => false
  | IAdvance _, Ok IUnit => match ii_log it with [] => true | _ => false end
  | IAdvance _, _ => false
  end.

Definition check_identity (t : itrace) : verdict :=
  (first_false istep_ok (it_items t) 0%N, first_false imon_step (it_items t) 0%N, 0%N).

Definition imodel_item (c : icall) : iitem := let '(o, lg) := istep c in II c o lg.
Definition iobserve_model (cs : list icall) : itrace := mkIT (map imodel_item cs).
