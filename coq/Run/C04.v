(* C04: the four trace families and the driver's entry points [check] / [check_all]. *)
From SC Require Import Lib.Prelude Lib.Int Lib.Host Model.Rwa Model.RwaCompliance Model.RwaIdentity.
From SC Require Export Run.C04Token.
From SC Require Import Run.C04Compliance Run.C04Identity Run.C04Stack.

(* a trace is a trace of the token (with mock collaborators, Run/C04Token.v), of the compliance
   contract (with mock compliance modules, Run/C04Compliance.v), of the identity verifier (with mock
   registries, identities and claim issuers, Run/C04Identity.v) or of the whole stack made of the
   real contracts (Run/C04Stack.v) *)
Inductive trace :=
| TokenTrace (t : ttrace) | ComplianceTrace (t : ctrace) | IdentityTrace (t : itrace) | StackTrace (t : strace).
Definition mkTrace (hc : hostcfg) (univ : list addr) (items : list item) : trace :=
  TokenTrace (mkTT hc univ items).
Definition mkCTrace (cf : ccfg) (toks : list addr) (items : list citem) : trace :=
  ComplianceTrace (mkCT cf toks items).
Definition mkITrace (items : list iitem) : trace := IdentityTrace (mkIT items).

Definition mkSTrace (hc : hostcfg) (cf : ccfg) (univ : list addr) (tok : addr) (items : list sitem) : trace :=
  StackTrace (mkST hc cf univ tok items).

Definition check (t : trace) : verdict :=
  match t with
  | TokenTrace t => check_token t
  | ComplianceTrace t => check_compliance t
  | IdentityTrace t => check_identity t
  | StackTrace t => check_stack t
  end.
Definition check_all (ts : list trace) : list verdict := map check ts.

Definition observe_model (hc : hostcfg) (univ : list addr) (cs : list call) : trace :=
  mkTrace hc univ (model_items hc univ init cs).
Definition observe_compliance_model (cf : ccfg) (toks : list addr) (cs : list ccall) : trace :=
  ComplianceTrace (cobserve_model cf toks cs).
Definition observe_identity_model (cs : list icall) : trace := IdentityTrace (iobserve_model cs).
Definition observe_stack_model (hc : hostcfg) (cf : ccfg) (univ : list addr) (tok : addr) (cs : list scall) : trace :=
  StackTrace (sobserve_model hc cf univ tok cs).
