(* C05: trace checker (model vs implementation) and monitor (property vs implementation). *)
From SC Require Import Lib.Prelude Lib.Int Lib.Host Model.Math Proofs.Math Model.Vault Proofs.VaultSpec
  Proofs.VaultToken Proofs.VaultOps.

(* ---------- what the harness observes after every call ----------
   universe = addresses 0 .. n-1 (0 = the vault);
   o_ab / o_sb  : asset / share balance() of every address of the universe
   o_sup, o_ta  : total_supply(), total_assets() of the vault
   o_aal / o_sal: allowance(owner, spender) of the asset / share token, one row per owner
   o_dec        : decimals() of the vault (= asset decimals + the STORED decimals offset)
   o_asset      : 1 if query_asset() returns the asset token's address, 0 if another address
   A getter that traps is recorded as -1 (no balance, allowance, total or decimals is ever negative). *)
Record obs := { o_ab : list Z; o_sb : list Z; o_sup : Z; o_ta : Z; o_aal : list (list Z); o_sal : list (list Z);
                o_dec : Z; o_asset : Z;
                o_now : Z (* the host's ledger sequence number when the observation was taken *) }.

Record header := {
  h_cfg : cfg;          (* constructor arguments and constants *)
  h_n : N;              (* size of the address universe *)
  h_now : Z;            (* ledger sequence at the start *)
  h_ctor : res Z;       (* constructor outcome: Ok (vault decimals()) or Fail *)
  h_obs0 : obs          (* observation right after construction *)
}.

(* (call, (preview, max_x) queried immediately before the call, outcome, observation after the call) *)
Definition item := (call * (res Z * res Z) * outcome * obs)%type.
Definition trace := (header * list item)%type.

(* ---------- boolean equalities ---------- *)
Fixpoint eqb_lz (a b : list Z) : bool :=
  match a, b with
  | [], [] => true
  | x :: a', y :: b' => (x =? y) && eqb_lz a' b'
  | _, _ => false
  end.
Fixpoint eqb_llz (a b : list (list Z)) : bool :=
  match a, b with
  | [], [] => true
  | x :: a', y :: b' => eqb_lz x y && eqb_llz a' b'
  | _, _ => false
  end.
Definition eqb_rz (a b : res Z) : bool :=
  match a, b with Ok x, Ok y => x =? y | Fail, Fail => true | _, _ => false end.
Definition eqb_event (a b : event) : bool :=
  let '(k, a1, a2, a3, x, y) := a in
  let '(k', b1, b2, b3, x', y') := b in
  N.eqb k k' && N.eqb a1 b1 && N.eqb a2 b2 && N.eqb a3 b3 && (x =? x') && (y =? y').
Fixpoint eqb_events (a b : list event) : bool :=
  match a, b with
  | [], [] => true
  | x :: a', y :: b' => eqb_event x y && eqb_events a' b'
  | _, _ => false
  end.
Definition eqb_out (a b : outcome) : bool :=
  match a, b with
  | Ok (v, ev), Ok (v', ev') => (v =? v') && eqb_events ev ev'
  | Fail, Fail => true
  | _, _ => false
  end.
Definition eqb_obs (a b : obs) : bool :=
  eqb_lz (o_ab a) (o_ab b) && eqb_lz (o_sb a) (o_sb b) && (o_sup a =? o_sup b) && (o_ta a =? o_ta b)
  && eqb_llz (o_aal a) (o_aal b) && eqb_llz (o_sal a) (o_sal b)
  && (o_dec a =? o_dec b) && (o_asset a =? o_asset b) && (o_now a =? o_now b).
Definition eqb_pre (a b : res Z * res Z) : bool := eqb_rz (fst a) (fst b) && eqb_rz (snd a) (snd b).

(* ---------- observation of a model state ---------- *)
Definition univ (n : N) : list addr := map N.of_nat (seq 0 (N.to_nat n)).
Definition observe (c : cfg) (n : N) (s : state) : obs :=
  {| o_ab := map (bal (asset s)) (univ n);
     o_sb := map (bal (share s)) (univ n);
     o_sup := total_supply s;
     o_ta := total_assets s;
     o_aal := map (fun o => map (allowance (now s) (asset s) o) (univ n)) (univ n);
     o_sal := map (fun o => map (allowance (now s) (share s) o) (univ n)) (univ n);
     o_dec := match vault_decimals c s with Ok d => d | Fail => -1 end;
     o_asset := match query_asset s with Ok a => if N.eqb a ASSET_ADDR then 1 else 0 | Fail => -1 end;
     o_now := now s |}.

(* ---------- diff: replay through the model ---------- *)
Fixpoint replay (c : cfg) (n : N) (s : state) (its : list item) (i : N) : N :=
  match its with
  | [] => 0%N
  | (cl, pre, out, ob) :: r =>
      let pm := pre_values c s cl in
      let so := step c s cl in
      if eqb_pre pm pre && eqb_out (snd so) out && eqb_obs (observe c n (fst so)) ob
      then replay c n (fst so) r (N.succ i)
      else N.succ i
  end.

Definition ctor_dec (r : res (state * Z)) : res Z := match r with Ok (_, d) => Ok d | Fail => Fail end.

Definition diff (t : trace) : N :=
  let h := fst t in
  let r := construct (h_cfg h) (h_now h) in
  if negb (eqb_rz (ctor_dec r) (h_ctor h)) then 1%N
  else match r with
       | Fail => match snd t with [] => 0%N | _ => 1%N end
       | Ok (s0, _) =>
           if eqb_obs (observe (h_cfg h) (h_n h) s0) (h_obs0 h)
           then replay (h_cfg h) (h_n h) s0 (snd t) 0%N
           else 1%N
       end.

(* ---------- well-formedness of a trace: CHECKED by the monitor, not assumed ---------- *)
(* shape of an observation: one entry per address of the universe, square allowance tables *)
Definition len_is {A} (n : N) (l : list A) : bool := N.eqb (N.of_nat (length l)) n.
Definition obs_shape (n : N) (ob : obs) : bool :=
  len_is n (o_ab ob) && len_is n (o_sb ob) && len_is n (o_aal ob) && len_is n (o_sal ob)
  && forallb (len_is n) (o_aal ob) && forallb (len_is n) (o_sal ob).

(* no balance, supply or total is negative (a trapping getter is recorded as -1) *)
Definition obs_nonneg (ob : obs) : bool :=
  forallb (Z.leb 0) (o_ab ob) && forallb (Z.leb 0) (o_sb ob) && (0 <=? o_sup ob) && (0 <=? o_ta ob).

(* the owner whose balance a getter reads lies in the observed universe *)
Definition call_owner_ok (n : N) (cl : call) : bool :=
  match cl with
  | Withdraw _ _ ow _ _ | Redeem _ _ ow _ _ => (ow <? n)%N
  | Query (QMaxWithdraw o) | Query (QMaxRedeem o) => (o <? n)%N
  | _ => true
  end.
(* every address a call names (parties and signers) belongs to the observed universe *)
Definition call_parties (cl : call) : list addr :=
  match cl with
  | Deposit _ r f o _ | MintS _ r f o _ | Withdraw _ r f o _ | Redeem _ r f o _ => [r; f; o]
  | ATransfer f t _ _ | STransfer f t _ _ => [f; t]
  | AMint t _ => [t]
  | AApprove o sp _ _ _ | SApprove o sp _ _ _ => [o; sp]
  | STransferFrom sp f t _ _ => [sp; f; t]
  | Query (QMaxDeposit a) | Query (QMaxMint a) | Query (QMaxWithdraw a) | Query (QMaxRedeem a) => [a]
  | _ => []
  end.
Definition call_univ (n : N) (cl : call) : bool :=
  forallb (fun a => (a <? n)%N) (call_parties cl) && forallb (fun p => (fst p <? n)%N) (call_auths cl).
(* amounts are i128, the vault is not a signer (wf_call), all addresses are in the universe *)
Definition wf_call_obs (n : N) (cl : call) : bool := wf_call cl && call_owner_ok n cl && call_univ n cl.
(* offset and asset decimals are u32 values, the universe contains the vault, the ledger is a u32 *)
Definition wf_hdr (c : cfg) (n : N) : bool := (0 <=? c_off c) && (0 <=? c_adec c) && (0 <? n)%N.

(* ---------- the monitor: the property over implementation observations only ---------- *)

(* an observed list / table read back as a total map (0 outside the universe) *)
Definition fn1 (l : list Z) : bmap := fun k => nth (N.to_nat k) l 0.
Definition fn2 (ll : list (list Z)) : addr -> addr -> Z := fun o s => nth (N.to_nat s) (nth (N.to_nat o) ll []) 0.
Definition tab1 (n : N) (g : bmap) : list Z := map g (univ n).
Definition tab2 (n : N) (g : addr -> addr -> Z) : list (list Z) := map (fun o => map (g o) (univ n)) (univ n).
(* [move g f t x] (Proofs/VaultToken.v): x moved from f to t, sequentially (f = t is a no-op);
   [upd g k v]: g with k set to v; [spent o f x al] (Proofs/VaultOps.v): al with the allowance (f -> o)
   decreased by x when o <> f, unchanged when o = f *)

(* spec_conv (the exact rational formula, rounded) and rate_le (the cross-multiplied rate comparison) are
   defined in Proofs/VaultSpec.v *)

Definition is_fail {A} (r : res A) : bool := match r with Fail => true | _ => false end.

(* what each vault operation must look like from outside.  [assets]/[shares] are the moved amounts:
   the argument and the returned value. *)
Definition deposit_like (n : N) (prev ob : obs) (au : auths) (evs : list event)
  (assets shares : Z) (r f o : addr) : bool :=
  auth_full au o
  (* nothing is created: the amounts are non-negative, [f] holds the assets, an operator other than [f] has the
     allowance *)
  && (0 <=? assets) && (0 <=? shares) && (assets <=? fn1 (o_ab prev) f)
  && (N.eqb o f || (assets <=? fn2 (o_aal prev) f o))
  && eqb_lz (o_ab ob) (tab1 n (move (fn1 (o_ab prev)) f V assets))
  && eqb_lz (o_sb ob) (tab1 n (upd (fn1 (o_sb prev)) r (fn1 (o_sb prev) r + shares)))
  && (o_sup ob =? o_sup prev + shares)
  && eqb_llz (o_aal ob) (tab2 n (spent o f assets (fn2 (o_aal prev))))
  && eqb_llz (o_sal ob) (o_sal prev)
  && eqb_events evs [(0%N, o, f, r, assets, shares)].

Definition withdraw_like (n : N) (prev ob : obs) (au : auths) (evs : list event)
  (assets shares : Z) (r ow o : addr) : bool :=
  auth_root au o
  && (0 <=? assets) && (0 <=? shares)
  && (shares <=? fn1 (o_sb prev) ow)             (* within the owner's means *)
  && (assets <=? o_ta prev)                      (* and the vault's *)
  && (N.eqb o ow || (shares <=? fn2 (o_sal prev) ow o))   (* an operator other than the owner has the allowance *)
  && eqb_lz (o_ab ob) (tab1 n (move (fn1 (o_ab prev)) V r assets))
  && eqb_lz (o_sb ob) (tab1 n (upd (fn1 (o_sb prev)) ow (fn1 (o_sb prev) ow - shares)))
  && (o_sup ob =? o_sup prev - shares)
  && eqb_llz (o_sal ob) (tab2 n (spent o ow shares (fn2 (o_sal prev))))
  && eqb_llz (o_aal ob) (o_aal prev)
  && eqb_events evs [(1%N, o, r, ow, assets, shares)].

Definition mon_call (c : cfg) (n : N) (prev : obs) (it : item) : bool :=
  let '(cl, pre, out, ob) := it in
  let A := o_ta prev in let S := o_sup prev in let P := 10 ^ c_off c in
  match cl with
  | Deposit a r f o au =>
      eqb_rz (fst pre) (spec_conv P a (S + P) (A + 1) Floor)
      && eqb_rz (snd pre) (Ok MAX128)
      && match out with
         | Fail => true
         | Ok (sh, evs) =>
             eqb_rz (fst pre) (Ok sh)                       (* preview = operation *)
             && (sh * (A + 1) <=? a * (S + P))              (* what the user receives is rounded down *)
             && deposit_like n prev ob au evs a sh r f o
         end
  | MintS x r f o au =>
      eqb_rz (fst pre) (spec_conv P x (A + 1) (S + P) Ceil)
      && eqb_rz (snd pre) (Ok MAX128)
      && match out with
         | Fail => true
         | Ok (a, evs) =>
             eqb_rz (fst pre) (Ok a)
             && (x * (A + 1) <=? a * (S + P))               (* what the user pays is rounded up *)
             && deposit_like n prev ob au evs a x r f o
         end
  | Withdraw a r ow o au =>
      eqb_rz (fst pre) (spec_conv P a (S + P) (A + 1) Ceil)
      && eqb_rz (snd pre) (spec_conv P (fn1 (o_sb prev) ow) (A + 1) (S + P) Floor)
      && match out with
         | Fail =>
             (* the owner, signing himself, can always withdraw up to max_withdraw *)
             negb (auth_root au o && N.eqb o ow
                   && match snd pre with Ok m => (0 <=? a) && (a <=? m) | Fail => false end)
         | Ok (sh, evs) =>
             eqb_rz (fst pre) (Ok sh)
             && (a * (S + P) <=? sh * (A + 1))              (* what the user pays is rounded up *)
             && match snd pre with Ok m => a <=? m | Fail => false end
             && withdraw_like n prev ob au evs a sh r ow o
         end
  | Redeem x r ow o au =>
      eqb_rz (fst pre) (spec_conv P x (A + 1) (S + P) Floor)
      && eqb_rz (snd pre) (Ok (fn1 (o_sb prev) ow))
      && match out with
         | Fail =>
             (* the owner, signing himself, can always redeem up to his balance once the preview succeeds *)
             negb (auth_root au o && N.eqb o ow && (0 <=? x) && (x <=? fn1 (o_sb prev) ow)
                   && negb (is_fail (fst pre)))
         | Ok (a, evs) =>
             eqb_rz (fst pre) (Ok a)
             && (a * (S + P) <=? x * (A + 1))               (* what the user receives is rounded down *)
             && match snd pre with Ok m => x <=? m | Fail => false end
             && withdraw_like n prev ob au evs a x r ow o
         end
  | ATransfer f t a au =>
      match out with
      | Fail => true
      | Ok _ =>
          auth_root au f && (0 <=? a) && (a <=? fn1 (o_ab prev) f)
          && eqb_lz (o_ab ob) (tab1 n (move (fn1 (o_ab prev)) f t a))
          && eqb_lz (o_sb ob) (o_sb prev) && (o_sup ob =? S) && eqb_llz (o_sal ob) (o_sal prev)
      end
  | AMint t a =>
      match out with
      | Fail => true
      | Ok _ =>
          (0 <=? a)
          && eqb_lz (o_ab ob) (tab1 n (upd (fn1 (o_ab prev)) t (fn1 (o_ab prev) t + a)))
          && eqb_lz (o_sb ob) (o_sb prev) && (o_sup ob =? S) && eqb_llz (o_sal ob) (o_sal prev)
      end
  | AApprove _ _ _ _ _ =>
      eqb_lz (o_ab ob) (o_ab prev) && eqb_lz (o_sb ob) (o_sb prev) && (o_sup ob =? S)
      && eqb_llz (o_sal ob) (o_sal prev)
  | STransfer f t a au =>
      match out with
      | Fail => true
      | Ok _ =>
          auth_root au f && (0 <=? a) && (a <=? fn1 (o_sb prev) f)
          && eqb_lz (o_sb ob) (tab1 n (move (fn1 (o_sb prev)) f t a))
          && eqb_lz (o_ab ob) (o_ab prev) && (o_sup ob =? S) && eqb_llz (o_aal ob) (o_aal prev)
      end
  | STransferFrom sp f t a au =>
      match out with
      | Fail => true
      | Ok _ =>
          auth_root au sp && (0 <=? a) && (a <=? fn1 (o_sb prev) f) && (a <=? fn2 (o_sal prev) f sp)
          && eqb_lz (o_sb ob) (tab1 n (move (fn1 (o_sb prev)) f t a))
          && eqb_lz (o_ab ob) (o_ab prev) && (o_sup ob =? S) && eqb_llz (o_aal ob) (o_aal prev)
      end
  | SApprove _ _ _ _ _ =>
      eqb_lz (o_ab ob) (o_ab prev) && eqb_lz (o_sb ob) (o_sb prev) && (o_sup ob =? S)
      && eqb_llz (o_aal ob) (o_aal prev)
  | Advance _ =>
      (* time alone changes nothing (allowances: see mon_allow) *)
      eqb_lz (o_ab ob) (o_ab prev) && eqb_lz (o_sb ob) (o_sb prev) && (o_sup ob =? S) && (o_ta ob =? A)
  | Query q =>
      eqb_obs ob prev
      && eqb_rz (match out with Ok (v, _) => Ok v | Fail => Fail end)
           (match q with
            | QConvShares a | QPrevDeposit a => spec_conv P a (S + P) (A + 1) Floor
            | QPrevWithdraw a => spec_conv P a (S + P) (A + 1) Ceil
            | QConvAssets x | QPrevRedeem x => spec_conv P x (A + 1) (S + P) Floor
            | QPrevMint x => spec_conv P x (A + 1) (S + P) Ceil
            | QMaxDeposit _ | QMaxMint _ => Ok MAX128
            | QMaxWithdraw o => spec_conv P (fn1 (o_sb prev) o) (A + 1) (S + P) Floor
            | QMaxRedeem o => Ok (fn1 (o_sb prev) o)
            end)
  (* the asset address and the decimals offset are set once, by the constructor: any later set_* fails *)
  | SetAsset _ | SetOffset _ => is_fail out
  end.

(* clauses common to every call *)
Definition mon_step (c : cfg) (n : N) (prev : obs) (it : item) : bool :=
  let '(cl, pre, out, ob) := it in
  (* the trace is well formed: the call names only addresses of the universe, amounts are i128, the vault does not
     sign; the observation has one entry per address *)
  wf_call_obs n cl && obs_shape n ob && obs_nonneg ob
  (* the vault still knows its asset and its decimals offset (stored once, by the constructor) *)
  && (o_dec ob =? c_adec c + c_off c) && (o_asset ob =? 1)
  (* total_assets() is the asset token's balance of the vault *)
  && (o_ta ob =? fn1 (o_ab ob) V)
  (* a failing call leaves no trace; a failing preview means a failing operation *)
  && (if is_fail out then eqb_obs ob prev else true)
  && (match cl with
      | Deposit _ _ _ _ _ | MintS _ _ _ _ _ | Withdraw _ _ _ _ _ | Redeem _ _ _ _ _ =>
          if is_fail (fst pre) then is_fail out else true
      | _ => true
      end)
  (* the assets-per-share rate never decreases *)
  && rate_le (10 ^ c_off c) (o_ta prev) (o_sup prev) (o_ta ob) (o_sup ob)
  && mon_call c n prev it.

(* ---------- allowances survive until their live_until, whatever time passes ----------
   The monitor keeps, from the call inputs only, the current ledger (start + the successful Advance calls) and
   the live_until_ledger passed to the last successful approve of every (owner, spender) pair. *)
Record mstate := { m_obs : obs; m_now : Z; m_alu : addr -> addr -> Z; m_slu : addr -> addr -> Z }.
Definition upd2z (g : addr -> addr -> Z) (o s : addr) (v : Z) : addr -> addr -> Z :=
  fun a b => if N.eqb a o && N.eqb b s then v else g a b.
(* allowances after [k] more ledgers: those whose live_until has passed read 0, all others are untouched *)
Definition aged (lu : addr -> addr -> Z) (now' : Z) (al : addr -> addr -> Z) : addr -> addr -> Z :=
  fun o s => if lu o s <? now' then 0 else al o s.

(* the assets can be pulled: the operator signed root and nested call, [f] holds them, and an operator other
   than [f] has the allowance (whose live_until lies within the host's maximal TTL) *)
Definition can_pull_obs (c : cfg) (n : N) (st : mstate) (au : auths) (assets : Z) (f o : addr) : bool :=
  let prev := m_obs st in
  auth_full au o && (0 <=? assets) && (assets <=? fn1 (o_ab prev) f)
  && (N.eqb o f
      || ((assets <=? fn2 (o_aal prev) f o)
          && ((assets <=? 0) || (m_alu st f o <=? m_now st + c_max_ttl c - 1))))
  && (f <? n)%N && (o <? n)%N.

Definition mon_ghost (c : cfg) (n : N) (st : mstate) (it : item) : bool :=
  let '(cl, pre, out, ob) := it in
  let prev := m_obs st in
  match out with
  | Fail =>
      (* deposit and mint fail only when they must: not when the preview succeeded, the new share supply fits
         and the assets can be pulled (nothing changed: checked by mon_step) *)
      match cl with
      | Deposit a _ f o au =>
          negb (match fst pre with Ok sh => (o_sup prev + sh <=? MAX128) && can_pull_obs c n st au a f o | Fail => false end)
      | MintS x _ f o au =>
          negb (match fst pre with
                | Ok a => in_i128 x && (o_sup prev + x <=? MAX128) && can_pull_obs c n st au a f o
                | Fail => false
                end)
      | _ => true
      end
  | Ok _ =>
      match cl with
      | Advance k =>
          (0 <=? k)
          && eqb_llz (o_aal ob) (tab2 n (aged (m_alu st) (m_now st + k) (fn2 (o_aal prev))))
          && eqb_llz (o_sal ob) (tab2 n (aged (m_slu st) (m_now st + k) (fn2 (o_sal prev))))
      | AApprove o sp a _ au =>
          auth_root au o && (0 <=? a) && eqb_llz (o_aal ob) (tab2 n (upd2z (fn2 (o_aal prev)) o sp a))
      | SApprove o sp a _ au =>
          auth_root au o && (0 <=? a) && eqb_llz (o_sal ob) (tab2 n (upd2z (fn2 (o_sal prev)) o sp a))
      | ATransfer _ _ _ _ | AMint _ _ => eqb_llz (o_aal ob) (o_aal prev)
      | STransfer _ _ _ _ => eqb_llz (o_sal ob) (o_sal prev)
      | STransferFrom sp f _ a _ =>
          eqb_llz (o_sal ob) (tab2 n (upd2z (fn2 (o_sal prev)) f sp (fn2 (o_sal prev) f sp - a)))
      | _ => true
      end
  end.

(* the ledger of the next state: only a successful Advance moves it *)
Definition next_now (st : mstate) (it : item) : Z :=
  let '(cl, pre, out, ob) := it in
  match out, cl with
  | Ok _, Advance k => m_now st + k
  | _, _ => m_now st
  end.
(* the observed clock is the start ledger plus the successful Advance calls *)
Definition mon_allow (c : cfg) (n : N) (st : mstate) (it : item) : bool :=
  (o_now (snd it) =? next_now st it) && mon_ghost c n st it.

Definition mnext (st : mstate) (it : item) : mstate :=
  let '(cl, pre, out, ob) := it in
  match out with
  | Fail => {| m_obs := ob; m_now := m_now st; m_alu := m_alu st; m_slu := m_slu st |}
  | Ok _ =>
      match cl with
      | Advance k => {| m_obs := ob; m_now := m_now st + k; m_alu := m_alu st; m_slu := m_slu st |}
      | AApprove o sp _ l _ => {| m_obs := ob; m_now := m_now st; m_alu := upd2z (m_alu st) o sp l; m_slu := m_slu st |}
      | SApprove o sp _ l _ => {| m_obs := ob; m_now := m_now st; m_alu := m_alu st; m_slu := upd2z (m_slu st) o sp l |}
      | _ => {| m_obs := ob; m_now := m_now st; m_alu := m_alu st; m_slu := m_slu st |}
      end
  end.

Fixpoint mon_from (c : cfg) (n : N) (st : mstate) (its : list item) (i : N) : N :=
  match its with
  | [] => 0%N
  | it :: r =>
      if mon_step c n (m_obs st) it && mon_allow c n st it then mon_from c n (mnext st it) r (N.succ i) else N.succ i
  end.

Definition minit (h : header) : mstate :=
  {| m_obs := h_obs0 h; m_now := h_now h; m_alu := fun _ _ => 0; m_slu := fun _ _ => 0 |}.

(* the constructor accepts exactly the offsets 0..=MAX_DECIMALS_OFFSET (when decimals do not overflow),
   and a fresh vault is empty *)
(* the observation of a freshly constructed vault: nobody holds anything *)
Definition empty_obs (c : cfg) (n : N) (now0 : Z) : obs :=
  {| o_ab := tab1 n (fun _ => 0); o_sb := tab1 n (fun _ => 0); o_sup := 0; o_ta := 0;
     o_aal := tab2 n (fun _ _ => 0); o_sal := tab2 n (fun _ _ => 0);
     o_dec := c_adec c + c_off c; o_asset := 1; o_now := now0 |}.
Definition mon_header (h : header) : bool :=
  let c := h_cfg h in
  wf_hdr c (h_n h) && in_u32 (h_now h)
  && match h_ctor h with
     | Fail => (c_max_off c <? c_off c) || (MAXU32 <? c_adec c + c_off c)
     | Ok d => (c_off c <=? c_max_off c) && (d =? c_adec c + c_off c)
               && eqb_obs (h_obs0 h) (empty_obs c (h_n h) (h_now h))
     end.

Definition monitor (t : trace) : N :=
  let h := fst t in
  if mon_header h then
    match h_ctor h, snd t with
    | Fail, _ :: _ => 1%N              (* no vault, no calls *)
    | _, _ => mon_from (h_cfg h) (h_n h) (minit h) (snd t) 0%N
    end
  else 1%N.

Definition check (t : trace) : verdict := (diff t, monitor t, 0%N).
Definition check_all (ts : list trace) : list verdict := map check ts.

(* ---------- the trace the model itself produces ---------- *)
Fixpoint model_items (c : cfg) (n : N) (s : state) (cs : list call) : list item :=
  match cs with
  | [] => []
  | cl :: r =>
      let so := step c s cl in
      (cl, pre_values c s cl, snd so, observe c n (fst so)) :: model_items c n (fst so) r
  end.
Definition observe_model (c : cfg) (n : N) (now0 : Z) (cs : list call) : trace :=
  match construct c now0 with
  | Fail => ({| h_cfg := c; h_n := n; h_now := now0; h_ctor := Fail; h_obs0 := observe c n (blank now0) |}, [])
  | Ok (s0, d) => ({| h_cfg := c; h_n := n; h_now := now0; h_ctor := Ok d; h_obs0 := observe c n s0 |},
                   model_items c n s0 cs)
  end.
