(* Shared by Run/C10.v and Run/C11.v: the trace type printed by the NFT harness
   (harness/src/common/nft.rs), the model-vs-implementation diff, and the *reference*
   ("ghost") bookkeeping both monitors use: a plain ownership map, plain balances and plain
   approval tables replayed from the observed calls and their observed outcomes only. *)
From SC Require Import Lib.Prelude Lib.Int Lib.Host Model.Nft.
Local Open Scope N_scope.

(* ---------- what the harness observes after every call ---------- *)
Record obs := mkObs {
  o_next : N;                                  (* sequential::next_token_id *)
  o_owner : list (N * option addr);            (* (id, owner_of id): Some = Ok, None = the call failed *)
  o_bal : list (addr * N);                     (* (a, balance a) for the whole address universe *)
  o_appr : list (N * option addr);             (* (id, get_approved id) *)
  o_oper : list ((addr * addr) * bool);        (* ((owner, operator), is_approved_for_all) for all pairs *)
  o_total : N;                                 (* Enumerable: total_supply (0 otherwise) *)
  o_glob : list (option N);                    (* Enumerable: get_token_id k for k = 0 .. total+1 *)
  o_otok : list (addr * list (option N))       (* Enumerable: get_owner_token_id a k for k = 0 .. balance a + 1 *)
}.

Record trace := mkTrace {
  t_fl : flavour;
  t_cfg : cfg;
  t_now0 : Z;
  t_full : bool;       (* the queried ids cover every id 0 .. next_id+2 and every explicitly minted id *)
  t_steps : list (call * outcome * obs)
}.

(* ---------- boolean equalities ---------- *)
Definition on_eqb (a b : option N) : bool :=
  match a, b with Some x, Some y => x =? y | None, None => true | _, _ => false end.
Fixpoint list_eqb {A} (f : A -> A -> bool) (l1 l2 : list A) : bool :=
  match l1, l2 with
  | [], [] => true
  | x :: r1, y :: r2 => f x y && list_eqb f r1 r2
  | _, _ => false
  end.
Definition out_eqb (a b : outcome) : bool :=
  match a, b with Ok x, Ok y => on_eqb x y | Fail, Fail => true | _, _ => false end.
Definition obs_eqb (a b : obs) : bool :=
  (o_next a =? o_next b)
  && list_eqb (fun p q => (fst p =? fst q) && on_eqb (snd p) (snd q)) (o_owner a) (o_owner b)
  && list_eqb (fun p q => (fst p =? fst q) && (snd p =? snd q)) (o_bal a) (o_bal b)
  && list_eqb (fun p q => (fst p =? fst q) && on_eqb (snd p) (snd q)) (o_appr a) (o_appr b)
  && list_eqb (fun p q => peqb (fst p) (fst q) && Bool.eqb (snd p) (snd q)) (o_oper a) (o_oper b)
  && (o_total a =? o_total b)
  && list_eqb on_eqb (o_glob a) (o_glob b)
  && list_eqb (fun p q => (fst p =? fst q) && list_eqb on_eqb (snd p) (snd q)) (o_otok a) (o_otok b).

(* ---------- the model's answers to the same queries ---------- *)
Fixpoint mapi_from {A B} (f : N -> A -> B) (k : N) (l : list A) : list B :=
  match l with [] => [] | x :: r => f k x :: mapi_from f (N.succ k) r end.

Definition model_obs (fl : flavour) (c : cfg) (s : state) (shape : obs) : obs :=
  mkObs (next_id s)
    (map (fun p => (fst p, owner_of fl c s (fst p))) (o_owner shape))
    (map (fun p => (fst p, balance s (fst p))) (o_bal shape))
    (map (fun p => (fst p, get_approved s (fst p))) (o_appr shape))
    (map (fun p => (fst p, is_approved_for_all s (fst (fst p)) (snd (fst p)))) (o_oper shape))
    (total s)
    (mapi_from (fun k _ => get_token_id s k) 0 (o_glob shape))
    (map (fun p => (fst p, mapi_from (fun k _ => get_owner_token_id s (fst p) k) 0 (snd p))) (o_otok shape)).

(* first (1-based) step at which outcome or observation differ; 0 = none *)
Fixpoint diff_from (fl : flavour) (c : cfg) (s : state) (l : list (call * outcome * obs)) (i : N) : N :=
  match l with
  | [] => 0
  | (cl, o, ob) :: r =>
      let '(s', o') := step fl c s cl in
      if out_eqb o o' && obs_eqb ob (model_obs fl c s' ob) then diff_from fl c s' r (N.succ i)
      else N.succ i
  end.
Definition diff (t : trace) : N := diff_from (t_fl t) (t_cfg t) (init (t_now0 t)) (t_steps t) 0.

(* the trace the model itself produces for a list of calls and observation shapes *)
Fixpoint model_steps (fl : flavour) (c : cfg) (s : state) (l : list (call * obs)) : list (call * outcome * obs) :=
  match l with
  | [] => []
  | (cl, sh) :: r =>
      let '(s', o') := step fl c s cl in
      (cl, o', model_obs fl c s' sh) :: model_steps fl c s' r
  end.
Definition model_trace (fl : flavour) (c : cfg) (now0 : Z) (full : bool) (l : list (call * obs)) : trace :=
  mkTrace fl c now0 full (model_steps fl c (init now0) l).

(* ================= the reference bookkeeping ================= *)

(* plain ownership map: a stack of assignments, newest first *)
Inductive layer :=
| LPoint (id : N) (o : option addr)       (* id now belongs to o (None: burned) *)
| LRange (lo hi : N) (a : addr).          (* the ids lo..hi now belong to a *)
Definition rmap := list layer.
Fixpoint rget (r : rmap) (id : N) : option addr :=
  match r with
  | [] => None
  | LPoint i o :: r' => if id =? i then o else rget r' id
  | LRange lo hi a :: r' => if (lo <=? id) && (id <=? hi) then Some a else rget r' id
  end.

Record ghost := mkGhost {
  g_now : Z;
  g_own : rmap;                          (* who owns what, replayed from successful mint/transfer/burn *)
  g_cnt : list (addr * N);               (* how many tokens each address should hold *)
  g_next : N;                            (* every id issued by sequential / batch minting is < g_next *)
  g_supply : N;                          (* number of existing tokens *)
  g_appr : list (N * (addr * Z));        (* approval of a token: (approved, live_until), set after its last move *)
  g_oper : list ((addr * addr) * Z)      (* (owner, operator) -> live_until *)
}.
Definition ghost0 (now0 : Z) : ghost := mkGhost now0 [] [] 0 0 [] [].

Definition cnt (g : list (addr * N)) (a : addr) : N :=
  match aget N.eqb a g with Some v => v | None => 0 end.
Definition cnt_add (g : list (addr * N)) (a : addr) (k : N) := aset N.eqb a (cnt g a + k) g.
Definition cnt_sub (g : list (addr * N)) (a : addr) (k : N) := aset N.eqb a (cnt g a - k) g.

(* update of the reference by one observed call; only the call and its observed outcome are used *)
Definition ghost_step (g : ghost) (cl : call) (o : outcome) : ghost :=
  match o with
  | Fail => g
  | Ok r =>
      match cl with
      | Advance n => mkGhost (g_now g + Z.of_N n)%Z (g_own g) (g_cnt g) (g_next g) (g_supply g) (g_appr g) (g_oper g)
      | MintSeq to =>
          match r with
          | Some id => mkGhost (g_now g) (LPoint id (Some to) :: g_own g) (cnt_add (g_cnt g) to 1) (id + 1)
                         (g_supply g + 1) (g_appr g) (g_oper g)
          | None => g
          end
      | MintId to id =>
          mkGhost (g_now g) (LPoint id (Some to) :: g_own g) (cnt_add (g_cnt g) to 1) (g_next g)
            (g_supply g + 1) (g_appr g) (g_oper g)
      | BatchMint to amount =>
          match r with
          | Some last => mkGhost (g_now g) (LRange (last + 1 - amount) last to :: g_own g) (cnt_add (g_cnt g) to amount)
                           (last + 1) (g_supply g + amount) (g_appr g) (g_oper g)
          | None => g
          end
      | Transfer _ from to id | TransferFrom _ _ from to id =>
          mkGhost (g_now g) (LPoint id (Some to) :: g_own g) (cnt_add (cnt_sub (g_cnt g) from 1) to 1) (g_next g)
            (g_supply g) (arem N.eqb id (g_appr g)) (g_oper g)
      | Burn _ from id | BurnFrom _ _ from id =>
          mkGhost (g_now g) (LPoint id None :: g_own g) (cnt_sub (g_cnt g) from 1) (g_next g)
            (g_supply g - 1) (arem N.eqb id (g_appr g)) (g_oper g)
      | Approve _ _ approved id lu =>
          mkGhost (g_now g) (g_own g) (g_cnt g) (g_next g) (g_supply g)
            (if (lu =? 0)%Z then arem N.eqb id (g_appr g) else aset N.eqb id (approved, lu) (g_appr g)) (g_oper g)
      | ApproveForAll _ ow op lu =>
          mkGhost (g_now g) (g_own g) (g_cnt g) (g_next g) (g_supply g) (g_appr g)
            (if (lu =? 0)%Z then arem peqb (ow, op) (g_oper g) else aset peqb (ow, op) lu (g_oper g))
      end
  end.

(* the approval / operator that is in force at the reference's current ledger *)
Definition live_appr (g : ghost) (id : N) : option addr :=
  match aget N.eqb id (g_appr g) with
  | Some (x, lu) => if (g_now g <=? lu)%Z then Some x else None
  | None => None
  end.
Definition live_oper (g : ghost) (ow op : addr) : bool :=
  match aget peqb (ow, op) (g_oper g) with
  | Some lu => (g_now g <=? lu)%Z
  | None => false
  end.

(* ================= the boundary of the properties' quantifier, and trace well-formedness ================= *)
Definition is_none {A} (o : option A) : bool := match o with None => true | Some _ => false end.
Definition is_some {A} (o : option A) : bool := match o with None => false | Some _ => true end.

(* ids that were ever assigned individually (explicit mints, sequential mints, moves) *)
Fixpoint point_ids (r : rmap) : list N :=
  match r with
  | [] => []
  | LPoint i _ :: r' => i :: point_ids r'
  | LRange _ _ _ :: r' => point_ids r'
  end.
(* no individually assigned id inside lo..hi exists *)
Definition point_fresh (r : rmap) (lo hi : N) : bool :=
  forallb (fun i => if (lo <=? i) && (i <=? hi) then is_none (rget r i) else true) (point_ids r).

(* How a successful mint stands to the properties' quantifier ("sequential ids, explicit FRESH ids,
   batches"), judged against the reference BEFORE the call:
   - Illegal: the contract itself broke the rule - a sequential or batch mint returned an id below an id
     issued before, a malformed return value, a mint entry point the flavour does not have;
   - OutOfScope: the CALLER left the quantifier - an explicit mint onto an existing id, or the sequential
     counter / a batch range meeting a live explicitly minted id (the library documents uniqueness of
     explicit ids as the integrator's responsibility); from there on the properties say nothing;
   - InScope otherwise. *)
Inductive scope := InScope | OutOfScope | Illegal.
Definition mint_scope (fl : flavour) (g : ghost) (cl : call) (o : outcome) : scope :=
  match o with
  | Fail => InScope
  | Ok r =>
      match cl with
      | MintSeq _ =>
          match fl, r with
          | FCons, _ | _, None => Illegal
          | _, Some id =>
              if id <? g_next g then Illegal
              else if is_none (rget (g_own g) id) then InScope else OutOfScope
          end
      | MintId _ id =>
          match fl with
          | FCons => Illegal
          | _ => if is_none (rget (g_own g) id) then InScope else OutOfScope
          end
      | BatchMint _ amount =>
          match fl, r with
          | FCons, Some last =>
              if (1 <=? amount) && (amount <=? last + 1) && (g_next g <=? last + 1 - amount)
              then (if point_fresh (g_own g) (last + 1 - amount) last then InScope else OutOfScope)
              else Illegal
          | _, _ => Illegal
          end
      | _ => InScope
      end
  end.

(* strictly increasing (hence duplicate-free) *)
Fixpoint incr_from (lo : N) (l : list N) : bool :=
  match l with [] => true | x :: r => (lo <? x) && incr_from x r end.
Definition strictly_incr (l : list N) : bool :=
  match l with [] => true | x :: r => incr_from x r end.
(* every id lo, lo+1, ..., lo+n-1 occurs in the strictly increasing list l *)
Fixpoint covers_from (l : list N) (lo : N) (n : nat) : bool :=
  match n with
  | O => true
  | S k =>
      match l with
      | [] => false
      | x :: r => if x <? lo then covers_from r lo n
                  else if x =? lo then covers_from r (lo + 1) k else false
      end
  end.

(* the ids a call names / returns: they must be among the queried ids *)
Definition call_ids (cl : call) (o : outcome) : list N :=
  match cl with
  | MintId _ id | Transfer _ _ _ id | TransferFrom _ _ _ _ id | Burn _ _ id | BurnFrom _ _ _ id | Approve _ _ _ id _ => [id]
  | MintSeq _ => match o with Ok (Some id) => [id] | _ => [] end
  | BatchMint _ amt => match o with Ok (Some last) => [last + 1 - amt; last] | _ => [] end
  | _ => []
  end.
