(* C02: trace checker (model vs implementation) and the monitor: "tokens move only with the
   holder's authorisation or a live allowance", as a boolean over the implementation's
   observations only (calls with their authorisation sets, outcomes, getter values). *)
From SC Require Import Lib.Prelude Lib.Int Lib.Host Model.Math Model.Fungible Model.FungibleObs.

(* what the checks read: ledger sequence, supply, balances, and per (owner, spender) the triple
   (allowance_data amount, allowance_data live_until, storage live_until of the entry or -1) *)
Record view := { v_now : Z; v_sup : Z; v_bal : addr -> Z; v_allow : pkey -> Z * Z * Z }.
Definition obs_view (o : obs) : view :=
  {| v_now := o_now o; v_sup := o_supply o; v_bal := bal_of o; v_allow := allow_of o |}.

Definition amt_of (w : view) (p : pkey) : Z := fst (fst (v_allow w p)).
Definition lu_of (w : view) (p : pkey) : Z := snd (fst (v_allow w p)).
Definition ttl_of (w : view) (p : pkey) : Z := snd (v_allow w p).

(* the authorisation set attached to a call *)
Definition call_auths (cl : call) : list addr :=
  match cl with
  | Transfer au _ _ _ _ | TransferFrom au _ _ _ _ | Approve au _ _ _ _ | Burn au _ _ | BurnFrom au _ _ _
  | Delegate au _ _ | VDeposit au _ _ _ _ _ | VMint au _ _ _ _ _ | VWithdraw au _ _ _ _ | VRedeem au _ _ _ _
  | AssetApprove au _ _ _ _ => au
  | _ => []
  end.

(* (owner, spender, amount) when the call spends an allowance of the token under test *)
Definition spend_of (cl : call) (v : Z) : option (addr * addr * Z) :=
  match cl with
  | TransferFrom _ sp f _ amt | BurnFrom _ sp f amt => Some (f, sp, amt)
  | VWithdraw _ _ _ o op => if N.eqb op o then None else Some (o, op, v)     (* v = shares burned *)
  | VRedeem _ sh _ o op => if N.eqb op o then None else Some (o, op, sh)
  | _ => None
  end.

(* the allowance of [p] was at least [amt] (as the getter reported it, i.e. unexpired), and it
   dropped by exactly [amt] keeping its live_until *)
Definition spent_ok (prev cur : view) (p : pkey) (amt : Z) : bool :=
  (0 <=? amt) && (amt <=? amt_of prev p) && (amt_of cur p =? amt_of prev p - amt)
  && ((amt =? 0) || (lu_of cur p =? lu_of prev p)).

(* the balance of [a] went down by at most [amt] *)
Definition debit_le (prev cur : view) (a : addr) (amt : Z) : bool := v_bal prev a - v_bal cur a <=? amt.

(* why may the balance of [a] have decreased in this successful call?  Only the account the call
   names is debited, by at most the amount the call names (which is what the allowance is charged);
   [rwa] = the token is the RWA flavour (trace header): only there do the supervisory operations exist. *)
Definition debit_ok (rwa : bool) (prev cur : view) (cl : call) (v : Z) (a : addr) : bool :=
  match cl with
  | Transfer au f _ _ amt | Burn au f amt => N.eqb a f && has_auth au f && debit_le prev cur a amt
  | TransferFrom au sp f _ amt | BurnFrom au sp f amt =>
      N.eqb a f && has_auth au sp && spent_ok prev cur (f, sp) amt && debit_le prev cur a amt
  | VWithdraw au _ _ o op =>
      N.eqb a o && has_auth au op && (N.eqb op o || spent_ok prev cur (o, op) v) && debit_le prev cur a v
  | VRedeem au sh _ o op =>
      N.eqb a o && has_auth au op && (N.eqb op o || spent_ok prev cur (o, op) sh) && debit_le prev cur a sh
  (* the RWA token's documented supervisory operations: the named account, the named amount *)
  | RForcedTransfer f _ amt | RBurn f amt => rwa && N.eqb a f && debit_le prev cur a amt
  | RRecover old _ => rwa && N.eqb a old
  | _ => false
  end.

(* why may the allowance (amount, live_until) of [p] have changed in this successful call? *)
Definition allow_change_ok (prev cur : view) (cl : call) (v : Z) (p : pkey) : bool :=
  match cl with
  | Approve au o sp amt lu =>
      pkey_eqb p (o, sp) && has_auth au o
      && (if lu <? v_now cur then (amt_of cur p =? 0) && (lu_of cur p =? 0)
          else (amt_of cur p =? amt) && (lu_of cur p =? lu))
  | Advance _ =>
      (* expiry: it drops to zero, and only if it was zero already or its live_until has passed *)
      (amt_of cur p =? 0) && (lu_of cur p =? 0) && ((amt_of prev p =? 0) || (lu_of prev p <? v_now cur))
  | _ =>
      match spend_of cl v with
      | Some (o, sp, amt) =>
          pkey_eqb p (o, sp) && has_auth (call_auths cl) sp && (0 <? amt) && spent_ok prev cur p amt
      | None => false
      end
  end.

(* ghost bookkeeping of the monitor: what was last approved minus what was spent since, and the
   live_until of the last approval *)
Record ghost := { g_cap : list (pkey * Z); g_lu : list (pkey * Z) }.
Definition capd (g : ghost) (p : pkey) : Z := match pget p (g_cap g) with Some v => v | None => 0 end.
Definition lud (g : ghost) (p : pkey) : Z := match pget p (g_lu g) with Some v => v | None => -1 end.
Definition ghost0 : ghost := {| g_cap := []; g_lu := [] |}.
Definition ghost_step (g : ghost) (cl : call) (out : outcome) : ghost :=
  match out with
  | Fail => g
  | Ok v =>
      match cl with
      | Approve _ o sp amt lu => {| g_cap := pset (o, sp) amt (g_cap g); g_lu := pset (o, sp) lu (g_lu g) |}
      | _ =>
          match spend_of cl v with
          | Some (o, sp, amt) => {| g_cap := pset (o, sp) (capd g (o, sp) - amt) (g_cap g); g_lu := g_lu g |}
          | None => g
          end
      end
  end.

Definition needs_signer (cl : call) : bool :=
  match cl with
  | Transfer _ _ _ _ _ | TransferFrom _ _ _ _ _ | Approve _ _ _ _ _ | Burn _ _ _ | BurnFrom _ _ _ _
  | VDeposit _ _ _ _ _ _ | VMint _ _ _ _ _ _ | VWithdraw _ _ _ _ _ | VRedeem _ _ _ _ _ => true
  | _ => false
  end.
Definition is_nil_addr (l : list addr) : bool := match l with [] => true | _ => false end.

Definition same_al (prev cur : view) (p : pkey) : bool :=
  (amt_of cur p =? amt_of prev p) && (lu_of cur p =? lu_of prev p).
Definition same_bal_allow (univ : list addr) (prev cur : view) : bool :=
  (v_sup cur =? v_sup prev)
  && forallb (fun a => v_bal cur a =? v_bal prev a) univ
  && forallb (same_al prev cur) (pairs univ).

(* the five checks of one call *)
Definition chk_debit (rwa : bool) (prev cur : view) (cl : call) (out : outcome) (a : addr) : bool :=
  if v_bal cur a <? v_bal prev a
  then match out with Ok v => debit_ok rwa prev cur cl v a | Fail => false end
  else true.
Definition chk_change (prev cur : view) (cl : call) (out : outcome) (p : pkey) : bool :=
  if same_al prev cur p then true
  else match out with Ok v => allow_change_ok prev cur cl v p | Fail => false end.
Definition chk_cap (g : ghost) (cur : view) (p : pkey) : bool :=
  (0 <=? amt_of cur p) && (amt_of cur p <=? capd g p)
  && (if lud g p <? v_now cur then amt_of cur p =? 0 else true).
Definition chk_live (cur : view) (p : pkey) : bool :=
  if 0 <? amt_of cur p then (v_now cur <=? lu_of cur p) && (lu_of cur p <=? ttl_of cur p) else true.

Definition c02_checks (rwa : bool) (univ : list addr) (g : ghost) (prev cur : view) (cl : call) (out : outcome) : bool :=
  (* a balance decreases only in a call authorised by the holder, or by a spender with a live,
     sufficient allowance that drops by exactly the amount (RWA supervisory calls excepted) *)
  forallb (chk_debit rwa prev cur cl out) univ
  (* an allowance is created or changed only by its owner's approve, by a spend of its spender,
     or by expiry *)
  && forallb (chk_change prev cur cl out) (pairs univ)
  (* it never exceeds what was last approved minus what was spent, and is worth zero once the
     approved live_until_ledger has passed *)
  && forallb (chk_cap g cur) (pairs univ)
  (* a positive allowance is unexpired and its storage entry outlives it (never dies early) *)
  && forallb (chk_live cur) (pairs univ)
  (* a call that needs a signer and carries no authorisation at all has no effect *)
  && (if needs_signer cl && is_nil_addr (call_auths cl) then same_bal_allow univ prev cur else true).

Record m02 := { n_prev : obs; n_ghost : ghost }.
Definition m02_init (genesis : obs) : m02 := {| n_prev := genesis; n_ghost := ghost0 |}.

Definition c02_item (rwa : bool) (univ : list addr) (m : m02) (it : item) : bool * m02 :=
  let '(cl, out, evs, cur) := it in
  let g := ghost_step (n_ghost m) cl out in
  ((* shape of the observation, clock, getters' answers (allowance(), balance(), total_supply()), failing
      and getter calls leave everything unchanged, time passing alone changes no balance, not the supply
      and no flavour state (Model/FungibleObs.v) *)
   common_ok univ (n_prev m) it
   && c02_checks rwa univ g (obs_view (n_prev m)) (obs_view cur) cl out,
   {| n_prev := cur; n_ghost := g |}).

Fixpoint c02_from (rwa : bool) (univ : list addr) (m : m02) (items : list item) (i : N) : N :=
  match items with
  | [] => 0%N
  | it :: r =>
      let '(ok, m') := c02_item rwa univ m it in
      if ok then c02_from rwa univ m' r (N.succ i) else N.succ i
  end.

Definition is_rwa (c : cfg) : bool := match c_flav c with FRwa => true | _ => false end.

(* 1-based index of the first call at which the property is false on the trace; 0 = none
   (1 also for a malformed header / genesis observation) *)
Definition c02_monitor (t : trace) : N :=
  if genesis_ok (t_univ t) (t_start t) (t_init t)
  then c02_from (is_rwa (t_cfg t)) (t_univ t) (m02_init (t_init t)) (t_items t) 0%N
  else 1%N.

(* triage helper (not used by the driver): at the first failing call, which clause is false
   1 = unjustified debit, 2 = unjustified allowance change, 3 = allowance above approved-minus-spent or
   alive after the approved live_until, 4 = positive allowance expired / entry dies early,
   5 = effect without any authorisation, 6 = shared clause (observation shape / unobserved address / clock /
   failing or getter call or Advance changed something / getter answer differs from the observation),
   9 = malformed header or genesis observation *)
Definition c02_why_checks (rwa : bool) (univ : list addr) (g : ghost) (prev cur : view) (cl : call) (out : outcome) : N :=
  if negb (forallb (chk_debit rwa prev cur cl out) univ) then 1%N
  else if negb (forallb (chk_change prev cur cl out) (pairs univ)) then 2%N
  else if negb (forallb (chk_cap g cur) (pairs univ)) then 3%N
  else if negb (forallb (chk_live cur) (pairs univ)) then 4%N
  else if negb (if needs_signer cl && is_nil_addr (call_auths cl) then same_bal_allow univ prev cur else true) then 5%N
  else 0%N.
Fixpoint c02_why_from (rwa : bool) (univ : list addr) (m : m02) (items : list item) (i : N) : N * N :=
  match items with
  | [] => (0%N, 0%N)
  | it :: r =>
      let '(ok, m') := c02_item rwa univ m it in
      if ok then c02_why_from rwa univ m' r (N.succ i)
      else let '(cl, out, evs, cur) := it in
           (N.succ i,
            if negb (common_ok univ (n_prev m) it) then 6%N
            else c02_why_checks rwa univ (ghost_step (n_ghost m) cl out) (obs_view (n_prev m)) (obs_view cur) cl out)
  end.
Definition c02_why (t : trace) : N * N :=
  if genesis_ok (t_univ t) (t_start t) (t_init t)
  then c02_why_from (is_rwa (t_cfg t)) (t_univ t) (m02_init (t_init t)) (t_items t) 0%N
  else (1%N, 9%N).

Definition check (t : trace) : verdict := (diff t, c02_monitor t, 0%N).
Definition check_all (ts : list trace) : list verdict := map check ts.

(* well-formedness of generated call lists: the universe is duplicate-free and contains every
   address named by a call (the monitor only looks at addresses and pairs of the universe) *)
Definition call_addrs2 (cl : call) : list addr :=
  match cl with
  | Transfer _ f t _ _ => [f; t]
  | TransferFrom _ sp f t _ => [sp; f; t]
  | Approve _ o sp _ _ => [o; sp]
  | Burn _ f _ => [f]
  | BurnFrom _ sp f _ => [sp; f]
  | VDeposit _ _ _ r f o | VMint _ _ _ r f o | VWithdraw _ _ r f o | VRedeem _ _ r f o => [r; f; o]
  | _ => []
  end.
Definition wf_calls (univ : list addr) (cs : list call) : bool := wf_calls_all univ cs.
