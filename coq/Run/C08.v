(* C08: trace checker (model vs implementation) and monitor (property vs implementation). *)
From SC Require Import Lib.Prelude Lib.Int Lib.Host Model.Timelock Model.TimelockGhost.

(* ---------------- observations ---------------- *)
(* every getter of the timelock for one operation id *)
(* [v_trap]: some getter of this id trapped (then the other fields are placeholders) *)
Record opview := OV { v_ledger : Z; v_state : opstate; v_exists : bool; v_pending : bool; v_ready : bool; v_done : bool; v_trap : bool }.
(* after every call: the ledger, get_min_delay (None = it fails), all getters for all ids
   of the universe, the target mock's counter per argument tag *)
Record obs := Obs { o_now : Z; o_min : option Z; o_ops : list (id * opview); o_runs : list (N * Z) }.
(* start ledger, universe of ids and tags, the measured table op -> id (hash_operation),
   the constants UNSET_LEDGER / DONE_LEDGER of the code, the observation before the first call *)
Record header := Hdr { h_now : Z; h_ids : list id; h_tags : list N; h_tbl : list (op * id);
                       h_unset : Z; h_done : Z; h_obs0 : obs }.
Definition event := (call * outcome * obs)%type.
(* outcomes as printed by the harness (monomorphic, so that every trace term type-checks) *)
Definition OkN : outcome := Ok None.
Definition OkI (i : id) : outcome := Ok (Some i).
Definition Bad : outcome := Fail.
Arguments OkI _%N_scope.
Definition trace := (header * list event)%type.

(* ---------------- boolean equalities ---------------- *)
Definition oz_eqb (a b : option Z) : bool :=
  match a, b with Some x, Some y => x =? y | None, None => true | _, _ => false end.
Definition on_eqb (a b : option N) : bool :=
  match a, b with Some x, Some y => N.eqb x y | None, None => true | _, _ => false end.
Definition outcome_eqb (a b : outcome) : bool :=
  match a, b with Ok x, Ok y => on_eqb x y | Fail, Fail => true | _, _ => false end.
Definition opview_eqb (a b : opview) : bool :=
  (v_ledger a =? v_ledger b) && opstate_eqb (v_state a) (v_state b) && Bool.eqb (v_exists a) (v_exists b)
  && Bool.eqb (v_pending a) (v_pending b) && Bool.eqb (v_ready a) (v_ready b) && Bool.eqb (v_done a) (v_done b)
  && Bool.eqb (v_trap a) (v_trap b).
Fixpoint list_eqb {A} (f : A -> A -> bool) (a b : list A) : bool :=
  match a, b with
  | [], [] => true
  | x :: a', y :: b' => f x y && list_eqb f a' b'
  | _, _ => false
  end.
Definition obs_eqb (a b : obs) : bool :=
  (o_now a =? o_now b) && oz_eqb (o_min a) (o_min b)
  && list_eqb (fun x y => N.eqb (fst x) (fst y) && opview_eqb (snd x) (snd y)) (o_ops a) (o_ops b)
  && list_eqb (fun x y => N.eqb (fst x) (fst y) && (snd x =? snd y)) (o_runs a) (o_runs b).

(* ---------------- ids: the measured table ---------------- *)
Fixpoint tbl_get (tbl : list (op * id)) (o : op) : option id :=
  match tbl with
  | [] => None
  | (o', i) :: r => if op_eqb o o' then Some i else tbl_get r o
  end.
(* operations outside the table (never produced by the harness) get ids far away *)
Definition hash_of (tbl : list (op * id)) (o : op) : id :=
  match tbl_get tbl o with Some i => i | None => (1000000 + hash_pair o)%N end.

(* the table is a function and it is injective: equal descriptors <-> equal ids *)
Definition tbl_ok (tbl : list (op * id)) : bool :=
  forallb (fun p => forallb (fun q => Bool.eqb (op_eqb (fst p) (fst q)) (N.eqb (snd p) (snd q))) tbl) tbl.

(* ---------------- what the model shows ---------------- *)
Definition view (t : tl) (i : id) : opview :=
  OV (mark t i) (state_of t i) (operation_exists t i) (is_operation_pending t i)
     (is_operation_ready t i) (is_operation_done t i) false.
Definition observe (ids : list id) (tags : list N) (s : state) : obs :=
  Obs (now (tls s)) (min_delay (tls s)) (map (fun i => (i, view (tls s) i)) ids)
      (map (fun a => (a, run_count s a)) tags).

(* ---------------- diff: replay through the model ---------------- *)
Fixpoint diff_from (hash : op -> id) (ids : list id) (tags : list N) (s : state) (evs : list event) (k : N) : N :=
  match evs with
  | [] => 0%N
  | (c, out, ob) :: r =>
      let '(s', out') := step hash s c in
      if outcome_eqb out out' && obs_eqb ob (observe ids tags s')
      then diff_from hash ids tags s' r (N.succ k) else N.succ k
  end.

Definition header_ok (h : header) : bool :=
  (h_unset h =? UNSET_LEDGER) && (h_done h =? DONE_LEDGER)
  && obs_eqb (h_obs0 h) (observe (h_ids h) (h_tags h) (init (h_now h))).

Definition diff (t : trace) : N :=
  let '(h, evs) := t in
  if header_ok h then diff_from (hash_of (h_tbl h)) (h_ids h) (h_tags h) (init (h_now h)) evs 0%N else 1%N.

(* ---------------- the monitor: the property over observations only ---------------- *)
(* the reported state and the four boolean getters of one id agree with the reported
   ready ledger and the current ledger *)
Definition view_coherent (now : Z) (v : opview) : bool :=
  negb (v_trap v) && in_u32 (v_ledger v)
  && opstate_eqb (v_state v)
       (if v_ledger v =? 0 then Unset else if v_ledger v =? 1 then Done
        else if now <? v_ledger v then Waiting else Ready)
  && Bool.eqb (v_exists v) (negb (opstate_eqb (v_state v) Unset))
  && Bool.eqb (v_pending v) (opstate_eqb (v_state v) Waiting || opstate_eqb (v_state v) Ready)
  && Bool.eqb (v_ready v) (opstate_eqb (v_state v) Ready)
  && Bool.eqb (v_done v) (opstate_eqb (v_state v) Done).
Definition obs_coherent (o : obs) : bool :=
  (2 <=? o_now o) && in_u32 (o_now o) && forallb (fun p => view_coherent (o_now o) (snd p)) (o_ops o).

(* Unset -> Waiting -> Ready -> Done, or back to Unset by cancelling a pending operation;
   each arrow only by the call that is entitled to it, and only for the id it names.
   (Unset -> Ready directly is a schedule whose ready ledger min(now + delay, u32::MAX) is
   already reached, i.e. delay 0 - or any delay at the very last ledger; the exact stored
   ledger is checked in [op_step_ok].) *)
Definition trans_ok (c : call) (is_subject : bool) (a b : opstate) : bool :=
  match a, b with
  | Unset, Unset | Waiting, Waiting | Ready, Ready | Done, Done => true
  | Unset, Waiting | Unset, Ready => is_subject && match c with Schedule _ _ => true | _ => false end
  | Waiting, Ready => match c with Advance _ => true | _ => false end
  | Waiting, Unset | Ready, Unset => is_subject && match c with Cancel _ => true | _ => false end
  | Ready, Done => is_subject && match c with Execute _ _ | SetExecute _ => true | _ => false end
  | _, _ => false
  end.

Definition ops_get (l : list (id * opview)) (i : id) : option opview := alist_get i l.

(* per-id comparison of the observation before and after a successful call *)
Definition op_step_ok (hash : op -> id) (c : call) (before : obs) (p : id * opview) : bool :=
  let '(i, va) := p in
  match ops_get (o_ops before) i with
  | None => false
  | Some vb =>
      let subj := match subject hash c with Some j => N.eqb i j | None => false end in
      trans_ok c subj (v_state vb) (v_state va)
      && (if subj then
            match c with
            | Schedule o d =>
                opstate_eqb (v_state vb) Unset && (v_ledger va =? sat_add_u32 (o_now before) d)
            | Execute _ _ | SetExecute _ => opstate_eqb (v_state vb) Ready && opstate_eqb (v_state va) Done
            | Cancel _ => v_pending vb && opstate_eqb (v_state va) Unset
            | _ => true
            end
          else v_ledger va =? v_ledger vb)
  end.

Definition runs_step_ok (c : call) (before : obs) (p : N * Z) : bool :=
  let '(a, n) := p in
  match alist_get a (o_runs before) with
  | None => false
  | Some n0 =>
      match c with
      | Execute o true => if N.eqb a (args o) then n =? n0 + 1 else n =? n0
      | _ => n =? n0
      end
  end.

Definition same_keys {A B} (l1 : list (N * A)) (l2 : list (N * B)) : bool :=
  list_eqb N.eqb (map fst l1) (map fst l2).

(* observation-level check of one event *)
Definition obs_step_ok (hash : op -> id) (before : obs) (e : event) : bool :=
  let '(c, out, after) := e in
  obs_coherent after
  && match out with
     | Fail => obs_eqb after before                                   (* a failing call leaves no trace *)
     | Ok r =>
         same_keys (o_ops before) (o_ops after) && same_keys (o_runs before) (o_runs after)
         && forallb (op_step_ok hash c before) (o_ops after)
         && forallb (runs_step_ok c before) (o_runs after)
         && (match c with
             | Advance n => (0 <=? n) && (o_now after =? o_now before + n)
             | _ => o_now after =? o_now before
             end)
         && (match c with
             | SetMinDelay d => oz_eqb (o_min after) (Some d)
             | _ => oz_eqb (o_min after) (o_min before)
             end)
         && (match c with
             | Schedule o d =>
                 on_eqb r (Some (hash o))                              (* the id is the id of the descriptor *)
                 && match o_min before with Some m => m <=? d | None => false end
             | Execute o _ | SetExecute o =>
                 on_eqb r None
                 && (N.eqb (pred o) 0
                     || match ops_get (o_ops before) (pred o) with
                        | Some vp => opstate_eqb (v_state vp) Done
                        | None => true                                 (* predecessor outside the observed universe *)
                        end)
             | _ => on_eqb r None
             end)
     end.

Record mst := MS { m_prev : obs; m_ghost : ghost }.

Definition mon_step (hash : op -> id) (m : mst) (e : event) : option mst :=
  let '(c, out, after) := e in
  if obs_step_ok hash (m_prev m) e then
    match gstep hash (m_ghost m) (o_now (m_prev m)) (o_min (m_prev m)) c (is_ok out) with
    | Some g => Some (MS after g)
    | None => None
    end
  else None.

Fixpoint mon_from (hash : op -> id) (m : mst) (evs : list event) (k : N) : N :=
  match evs with
  | [] => 0%N
  | e :: r => match mon_step hash m e with
              | Some m' => mon_from hash m' r (N.succ k)
              | None => N.succ k
              end
  end.

(* the first observation: nothing scheduled, no minimum delay, no target run *)
Definition obs0_ok (h : header) : bool :=
  obs_coherent (h_obs0 h) && (o_now (h_obs0 h) =? h_now h)
  && oz_eqb (o_min (h_obs0 h)) None
  && forallb (fun p => v_ledger (snd p) =? 0) (o_ops (h_obs0 h))
  && forallb (fun p => snd p =? 0) (o_runs (h_obs0 h)).

(* the header is well-formed: every id of the measured table, every predecessor and every argument
   tag of its operations is observed; the first observation lists exactly the declared ids / tags
   (every later observation must list the same keys: [same_keys] in [obs_step_ok]) *)
Definition mem_n (x : N) (l : list N) : bool := existsb (N.eqb x) l.
Definition tbl_in (ids : list id) (tags : list N) (tbl : list (op * id)) : bool :=
  forallb (fun p => mem_n (snd p) ids && (N.eqb (pred (fst p)) 0 || mem_n (pred (fst p)) ids) && mem_n (args (fst p)) tags) tbl.
Definition hdr_ok (h : header) : bool :=
  tbl_in (h_ids h) (h_tags h) (h_tbl h)
  && list_eqb N.eqb (map fst (o_ops (h_obs0 h))) (h_ids h)
  && list_eqb N.eqb (map fst (o_runs (h_obs0 h))) (h_tags h).

Definition monitor (t : trace) : N :=
  let '(h, evs) := t in
  if tbl_ok (h_tbl h) && hdr_ok h && obs0_ok h
  then mon_from (hash_of (h_tbl h)) (MS (h_obs0 h) []) evs 0%N
  else 1%N.

Definition check (t : trace) : verdict := (diff t, monitor t, 0%N).
Definition check_all (ts : list trace) : list verdict := map check ts.

(* ---------------- the trace the model itself produces ---------------- *)
Fixpoint model_events (hash : op -> id) (ids : list id) (tags : list N) (s : state) (cs : list call) : list event :=
  match cs with
  | [] => []
  | c :: r => let '(s', out) := step hash s c in (c, out, observe ids tags s') :: model_events hash ids tags s' r
  end.
Definition model_trace (n0 : Z) (ids : list id) (tags : list N) (tbl : list (op * id)) (cs : list call) : trace :=
  (Hdr n0 ids tags tbl UNSET_LEDGER DONE_LEDGER (observe ids tags (init n0)),
   model_events (hash_of tbl) ids tags (init n0) cs).

(* ---------------- the monitor rejects behaviours that violate the property ---------------- *)
Definition ex_op := Op 1 0 1 0 0.
Definition ex_op2 := Op 1 0 2 1 0.          (* predecessor = id of ex_op *)
Definition ex_view (now r : Z) : opview :=
  let st := state_of_mark now r in
  OV r st (negb (opstate_eqb st Unset)) (opstate_eqb st Waiting || opstate_eqb st Ready)
     (opstate_eqb st Ready) (opstate_eqb st Done) false.
(* coherent observation: ledger, min delay, stored ledgers of ids 1 and 2, runs of tags 1 and 2 *)
Definition ex_obs (now : Z) (mn : option Z) (r1 r2 n1 n2 : Z) : obs :=
  Obs now mn [(1%N, ex_view now r1); (2%N, ex_view now r2)] [(1%N, n1); (2%N, n2)].
Definition ex_hdr := Hdr 10 [1%N; 2%N] [1%N; 2%N] [(ex_op, 1%N); (ex_op2, 2%N)] 0 1 (ex_obs 10 None 0 0 0 0).
Definition ex_prefix : list event :=
  [(SetMinDelay 5, OkN, ex_obs 10 (Some 5) 0 0 0 0);
   (Schedule ex_op 5, OkI 1, ex_obs 10 (Some 5) 15 0 0 0);
   (Schedule ex_op2 5, OkI 2, ex_obs 10 (Some 5) 15 15 0 0)].

(* a correct history: accepted, and equal to the model *)
Example ex_good :
  check (ex_hdr, ex_prefix ++ [(Advance 5, OkN, ex_obs 15 (Some 5) 15 15 0 0);
                               (Execute ex_op true, OkN, ex_obs 15 (Some 5) 1 15 1 0);
                               (Execute ex_op2 true, OkN, ex_obs 15 (Some 5) 1 1 1 1)]) = (0, 0, 0)%N.
Proof. vm_compute. reflexivity. Qed.
(* executed one ledger before the delay has elapsed *)
Example ex_bad_early :
  monitor (ex_hdr, ex_prefix ++ [(Advance 4, OkN, ex_obs 14 (Some 5) 15 15 0 0);
                                 (Execute ex_op true, OkN, ex_obs 14 (Some 5) 1 15 1 0)]) = 5%N.
Proof. vm_compute. reflexivity. Qed.
(* executed twice *)
Example ex_bad_twice :
  monitor (ex_hdr, ex_prefix ++ [(Advance 5, OkN, ex_obs 15 (Some 5) 15 15 0 0);
                                 (Execute ex_op true, OkN, ex_obs 15 (Some 5) 1 15 1 0);
                                 (Execute ex_op true, OkN, ex_obs 15 (Some 5) 1 15 2 0)]) = 6%N.
Proof. vm_compute. reflexivity. Qed.
(* executed although the predecessor is only pending *)
Example ex_bad_predecessor :
  monitor (ex_hdr, ex_prefix ++ [(Advance 5, OkN, ex_obs 15 (Some 5) 15 15 0 0);
                                 (Execute ex_op2 true, OkN, ex_obs 15 (Some 5) 15 1 0 1)]) = 5%N.
Proof. vm_compute. reflexivity. Qed.
(* scheduled with a delay below the minimum in force *)
Example ex_bad_short_delay :
  monitor (ex_hdr, [(SetMinDelay 5, OkN, ex_obs 10 (Some 5) 0 0 0 0);
                    (Schedule ex_op 4, OkI 1, ex_obs 10 (Some 5) 14 0 0 0)]) = 2%N.
Proof. vm_compute. reflexivity. Qed.
(* a done operation cancelled (back to Unset) and scheduled again *)
Example ex_bad_cancel_done :
  monitor (ex_hdr, ex_prefix ++ [(Advance 5, OkN, ex_obs 15 (Some 5) 15 15 0 0);
                                 (Execute ex_op true, OkN, ex_obs 15 (Some 5) 1 15 1 0);
                                 (Cancel 1, OkN, ex_obs 15 (Some 5) 0 15 1 0)]) = 6%N.
Proof. vm_compute. reflexivity. Qed.
Example ex_bad_reschedule_done :
  monitor (ex_hdr, ex_prefix ++ [(Advance 5, OkN, ex_obs 15 (Some 5) 15 15 0 0);
                                 (Execute ex_op true, OkN, ex_obs 15 (Some 5) 1 15 1 0);
                                 (Schedule ex_op 5, OkI 1, ex_obs 15 (Some 5) 20 15 1 0)]) = 6%N.
Proof. vm_compute. reflexivity. Qed.
(* the stored ready ledger is not now + delay *)
Example ex_bad_ready_ledger :
  monitor (ex_hdr, [(SetMinDelay 5, OkN, ex_obs 10 (Some 5) 0 0 0 0);
                    (Schedule ex_op 5, OkI 1, ex_obs 10 (Some 5) 14 0 0 0)]) = 2%N.
Proof. vm_compute. reflexivity. Qed.
(* a failing call leaves a trace *)
Example ex_bad_failing_call_writes :
  monitor (ex_hdr, [(SetMinDelay 5, OkN, ex_obs 10 (Some 5) 0 0 0 0);
                    (Schedule ex_op 4, Bad, ex_obs 10 (Some 5) 14 0 0 0)]) = 2%N.
Proof. vm_compute. reflexivity. Qed.
(* a call about one id changes another id *)
Example ex_bad_other_id :
  monitor (ex_hdr, ex_prefix ++ [(Cancel 1, OkN, ex_obs 10 (Some 5) 0 0 0 0)]) = 4%N.
Proof. vm_compute. reflexivity. Qed.
(* the id returned is not the id of the descriptor; two descriptors with one id *)
Example ex_bad_id :
  monitor (ex_hdr, [(SetMinDelay 5, OkN, ex_obs 10 (Some 5) 0 0 0 0);
                    (Schedule ex_op 5, OkI 2, ex_obs 10 (Some 5) 0 15 0 0)]) = 2%N.
Proof. vm_compute. reflexivity. Qed.
Example ex_bad_collision :
  monitor (Hdr 10 [1%N; 2%N] [1%N; 2%N] [(ex_op, 1%N); (ex_op2, 1%N)] 0 1 (ex_obs 10 None 0 0 0 0), []) = 1%N.
Proof. vm_compute. reflexivity. Qed.
(* the target ran although the call failed / did not run although it succeeded *)
Example ex_bad_runs :
  monitor (ex_hdr, ex_prefix ++ [(Advance 5, OkN, ex_obs 15 (Some 5) 15 15 0 0);
                                 (Execute ex_op true, OkN, ex_obs 15 (Some 5) 1 15 0 0)]) = 5%N.
Proof. vm_compute. reflexivity. Qed.
(* reported state incoherent with the stored ledger (Ready one ledger early) *)
Example ex_bad_reported_state :
  monitor (ex_hdr, ex_prefix ++ [(Advance 4, OkN,
      Obs 14 (Some 5) [(1%N, OV 15 Ready true true true false false); (2%N, ex_view 14 15)] [(1%N, 0); (2%N, 0)])]) = 4%N.
Proof. vm_compute. reflexivity. Qed.

(* a getter trapped (reported through the trap flag although the placeholder values look legitimate) *)
Example ex_bad_trapping_getter :
  monitor (ex_hdr, [(SetMinDelay 5, OkN,
      Obs 10 (Some 5) [(1%N, OV 0 Unset false false false false true); (2%N, ex_view 10 0)] [(1%N, 0); (2%N, 0)])]) = 1%N.
Proof. vm_compute. reflexivity. Qed.
(* reviewer's K6: the executed operation's argument tag / a table id is not among the observed keys *)
Example ex_bad_unobserved_tag :
  monitor (Hdr 10 [1%N; 2%N] [1%N; 2%N] [(Op 1 0 9 0 0, 1%N); (ex_op2, 2%N)] 0 1 (ex_obs 10 None 0 0 0 0),
    [(SetMinDelay 0, OkN, ex_obs 10 (Some 0) 0 0 0 0);
     (Schedule (Op 1 0 9 0 0) 0, OkI 1, ex_obs 10 (Some 0) 10 0 0 0);
     (Execute (Op 1 0 9 0 0) true, OkN, ex_obs 10 (Some 0) 1 0 0 0)]) = 1%N.
Proof. vm_compute. reflexivity. Qed.
Example ex_bad_unobserved_id :
  monitor (Hdr 10 [1%N] [1%N; 2%N] [(ex_op, 1%N); (ex_op2, 2%N)] 0 1
             (Obs 10 None [(1%N, ex_view 10 0)] [(1%N, 0); (2%N, 0)]), []) = 1%N.
Proof. vm_compute. reflexivity. Qed.

(* follow-up: set_execute_operation (the self-administration path) on an operation that is already
   Done reported as a success - "executed before" by the sibling entry path *)
Example ex_bad_set_execute_again :
  monitor (ex_hdr, ex_prefix ++ [(Advance 5, OkN, ex_obs 15 (Some 5) 15 15 0 0);
                                 (SetExecute ex_op, OkN, ex_obs 15 (Some 5) 1 15 0 0);
                                 (SetExecute ex_op, OkN, ex_obs 15 (Some 5) 1 15 0 0)]) = 6%N.
Proof. vm_compute. reflexivity. Qed.
(* a successful set_execute_operation that leaves the operation un-marked (still Ready) *)
Example ex_bad_set_execute_unmarked :
  monitor (ex_hdr, ex_prefix ++ [(Advance 5, OkN, ex_obs 15 (Some 5) 15 15 0 0);
                                 (SetExecute ex_op, OkN, ex_obs 15 (Some 5) 15 15 0 0)]) = 5%N.
Proof. vm_compute. reflexivity. Qed.
(* execute reported as a success although the target invocation cannot have succeeded (the target is
   the timelock itself / an account / refuses): tgt_ok = false *)
Example ex_bad_execute_without_target :
  monitor (ex_hdr, ex_prefix ++ [(Advance 5, OkN, ex_obs 15 (Some 5) 15 15 0 0);
                                 (Execute ex_op false, OkN, ex_obs 15 (Some 5) 1 15 0 0)]) = 5%N.
Proof. vm_compute. reflexivity. Qed.
(* a re-scheduled operation that keeps the ready ledger of its cancelled first scheduling *)
Example ex_bad_stale_ready_ledger :
  monitor (ex_hdr, ex_prefix ++ [(Cancel 1, OkN, ex_obs 10 (Some 5) 0 15 0 0);
                                 (Advance 2, OkN, ex_obs 12 (Some 5) 0 15 0 0);
                                 (Schedule ex_op 5, OkI 1, ex_obs 12 (Some 5) 15 15 0 0)]) = 6%N.
Proof. vm_compute. reflexivity. Qed.
