(* C18: unpacking of the byte strings printed by the harness.  Byte strings are printed
   packed, 7 bytes (big-endian) per primitive 63-bit integer - Coq parses number literals
   slowly - and unpacked here into [list Z].  Only the printed traces use this file; it is
   not in the closure of Properties/C18.v and no theorem depends on it. *)
From SC Require Import Lib.Prelude.
From Coq Require Import Uint63.
Open Scope Z_scope.

Definition w7 (w : int) (acc : list Z) : list Z :=
  let b (k : int) := Uint63.to_Z (Uint63.land (Uint63.lsr w k) 255%uint63) in
  b 48%uint63 :: b 40%uint63 :: b 32%uint63 :: b 24%uint63 :: b 16%uint63
    :: b 8%uint63 :: b 0%uint63 :: acc.
Definition B (n : nat) (ws : list int) : list Z := firstn n (fold_right w7 [] ws).

Example B_unpacks :
  B 9 [20304979319958377%uint63; 18228803276898304%uint63]
  = [72; 35; 69; 103; 137; 171; 105; 64; 195] /\ B 0 [] = [].
Proof. vm_compute. split; reflexivity. Qed.

