(* C04, compliance-contract layer: trace checker (model vs implementation) and monitor. *)
From SC Require Import Lib.Prelude Lib.Int Lib.Host Model.RwaCompliance.

Definition all_hooks : list hook := [HTransferred; HCreated; HDestroyed; HCanTransfer; HCanCreate].

(* what the harness reads back after every call *)
Record cobs := mkCObs {
  co_mods : list (list addr);          (* get_modules_for_hook, for each hook of [all_hooks] *)
  co_bound : list bool;                (* is the token bound, for each token of the trace's token universe *)
  co_log : list (addr * mev)           (* every call received by a compliance module during this call, in order *)
}.
Record citem := CI { ci_call : ccall; ci_out : res cret; ci_obs : cobs }.
Record ctrace := mkCT { ct_cfg : ccfg; ct_toks : list addr; ct_items : list citem }.

(* ------------------------------------------------------------------ *)
Fixpoint eqb_list {A} (eqb : A -> A -> bool) (l1 l2 : list A) : bool :=
  match l1, l2 with
  | [], [] => true
  | x :: r1, y :: r2 => eqb x y && eqb_list eqb r1 r2
  | _, _ => false
  end.
Definition eqb_mev (x y : mev) : bool :=
  match x, y with
  | MOnTransfer a b m t, MOnTransfer a' b' m' t' => N.eqb a a' && N.eqb b b' && (m =? m') && N.eqb t t'
  | MOnCreated a m t, MOnCreated a' m' t' => N.eqb a a' && (m =? m') && N.eqb t t'
  | MOnDestroyed a m t, MOnDestroyed a' m' t' => N.eqb a a' && (m =? m') && N.eqb t t'
  | MCanTransfer a b m t, MCanTransfer a' b' m' t' => N.eqb a a' && N.eqb b b' && (m =? m') && N.eqb t t'
  | MCanCreate a m t, MCanCreate a' m' t' => N.eqb a a' && (m =? m') && N.eqb t t'
  | _, _ => false
  end.
Definition eqb_entry (x y : addr * mev) : bool := N.eqb (fst x) (fst y) && eqb_mev (snd x) (snd y).
Definition eqb_cret (x y : cret) : bool :=
  match x, y with
  | None, None => true
  | Some a, Some b => Bool.eqb a b
  | _, _ => false
  end.
Definition eqb_cout (x y : res cret) : bool :=
  match x, y with
  | Ok a, Ok b => eqb_cret a b
  | Fail, Fail => true
  | _, _ => false
  end.
Definition eqb_cobs (x y : cobs) : bool :=
  eqb_list (eqb_list N.eqb) (co_mods x) (co_mods y)
  && eqb_list Bool.eqb (co_bound x) (co_bound y)
  && eqb_list eqb_entry (co_log x) (co_log y).

(* the model's observation *)
Definition cobserve (toks : list addr) (s : cstate) : cobs :=
  mkCObs (map (mods s) all_hooks) (map (fun t => mem t (bound s)) toks) (mlog s).

Fixpoint cdiff_from (cf : ccfg) (toks : list addr) (s : cstate) (items : list citem) (i : N) : N :=
  match items with
  | [] => 0%N
  | it :: r =>
      let '(s', o) := cstep cf s (ci_call it) in
      if eqb_cout o (ci_out it) && eqb_cobs (cobserve toks s') (ci_obs it)
      then cdiff_from cf toks s' r (N.succ i) else N.succ i
  end.

(* ------------------------------------------------------------------ *)
(* THE MONITOR of the compliance layer: over observations only.
   - can_transfer / can_create answer true iff every module registered for the hook approves;
     the modules are asked in registration order up to the first refusal, each once, with the
     exact arguments; they ANSWER AT ALL only if none of the modules asked fails (a module that
     traps, cannot be invoked or does not return a bool is not an approval: the query itself fails);
   - a notification is accepted only if none of the modules registered for the hook fails;
   - transferred / created / destroyed are accepted only with the authorisation of the token
     they name and only if that token is bound; then every module registered for the hook receives
     the notification exactly once, in registration order, with the exact arguments;
   - a module list never contains a module twice and never exceeds MAX_MODULES; add / remove /
     bind / unbind do exactly what they say; nothing else changes anything; a failing call
     leaves no trace. *)
Definition hook_index (h : hook) : nat :=
  match h with HTransferred => 0 | HCreated => 1 | HDestroyed => 2 | HCanTransfer => 3 | HCanCreate => 4 end%nat.
Definition mods_of (o : cobs) (h : hook) : list addr := nth (hook_index h) (co_mods o) [].
Definition bound_look (toks : list addr) (o : cobs) (t : addr) : option bool :=
  alist_get t (combine toks (co_bound o)).

Fixpoint nodupb (l : list addr) : bool :=
  match l with
  | [] => true
  | x :: r => negb (mem x r) && nodupb r
  end.

(* ([asked deny ms], the modules that get asked - up to and including the first one that refuses -
   and [any_fail fail ms] are defined with the model) *)
Definition all_approve (deny : list addr) (ms : list addr) : bool :=
  forallb (fun m => negb (mem m deny)) ms.

Definition cinv_ok (cf : ccfg) (o : cobs) : bool :=
  (length (co_mods o) =? 5)%nat
  && forallb (fun l => nodupb l && (Z.of_nat (length l) <=? max_modules cf)) (co_mods o).

(* the module lists after a successful call *)
Definition mods_after (prev : cobs) (c : ccall) (h : hook) : list addr :=
  match cc_op c with
  | CAddModule h' m _ => if hook_eqb h h' then mods_of prev h ++ [m] else mods_of prev h
  | CRemoveModule h' m _ => if hook_eqb h h' then remove_first m (mods_of prev h) else mods_of prev h
  | _ => mods_of prev h
  end.
(* the bound flag of token [t] after a successful call *)
Definition bound_after (c : ccall) (t : addr) (b : bool) : bool :=
  match cc_op c with
  | CBind t' _ => if N.eqb t t' then true else b
  | CUnbind t' _ => if N.eqb t t' then false else b
  | _ => b
  end.
Fixpoint bounds_ok (c : ccall) (p q : list (addr * bool)) : bool :=
  match p, q with
  | [], [] => true
  | (t, b) :: p', (t', b') :: q' => N.eqb t t' && Bool.eqb (bound_after c t b) b' && bounds_ok c p' q'
  | _, _ => false
  end.

Definition notif_ok (toks : list addr) (prev cur : cobs) (c : ccall) (h : hook) (e : mev) (tok : addr) : bool :=
  has_auth (cc_auths c) tok
  && match bound_look toks prev tok with Some b => b | None => true end
  && negb (any_fail (cc_fail c) (mods_of prev h))
  && eqb_list eqb_entry (co_log cur) (map (fun m => (m, e)) (mods_of prev h)).

Definition query_ok (prev cur : cobs) (c : ccall) (r : cret) (h : hook) (e : mev) : bool :=
  eqb_cret r (Some (all_approve (cc_deny c) (mods_of prev h)))
  && negb (any_fail (cc_fail c) (asked (cc_deny c) (mods_of prev h)))
  && eqb_list eqb_entry (co_log cur) (map (fun m => (m, e)) (asked (cc_deny c) (mods_of prev h))).

Definition cgates_ok (cf : ccfg) (toks : list addr) (prev cur : cobs) (c : ccall) (r : cret) : bool :=
  match cc_op c with
  | CAddModule h m opr =>
      has_auth (cc_auths c) opr && negb (mem m (mods_of prev h))
      && (Z.of_nat (length (mods_of prev h)) <? max_modules cf)
      && match co_log cur with [] => true | _ => false end
  | CRemoveModule h m opr =>
      has_auth (cc_auths c) opr && mem m (mods_of prev h)
      && match co_log cur with [] => true | _ => false end
  | CBind t opr =>
      has_auth (cc_auths c) opr
      && match bound_look toks prev t with Some b => negb b | None => true end
      && match co_log cur with [] => true | _ => false end
  | CUnbind t opr =>
      has_auth (cc_auths c) opr
      && match bound_look toks prev t with Some b => b | None => true end
      && match co_log cur with [] => true | _ => false end
  | CTransferred f t a tok => notif_ok toks prev cur c HTransferred (MOnTransfer f t a tok) tok
  | CCreated t a tok => notif_ok toks prev cur c HCreated (MOnCreated t a tok) tok
  | CDestroyed f a tok => notif_ok toks prev cur c HDestroyed (MOnDestroyed f a tok) tok
  | CCanTransfer f t a tok => query_ok prev cur c r HCanTransfer (MCanTransfer f t a tok)
  | CCanCreate t a tok => query_ok prev cur c r HCanCreate (MCanCreate t a tok)
  | CAdvance _ => match co_log cur with [] => true | _ => false end   (* time alone changes nothing: see mods_after / bound_after *)
  end.

(* the token a call names belongs to the observed token universe (otherwise nothing could be said
   about its binding: such a trace is malformed) *)
Definition cwf_call (toks : list addr) (c : ccall) : bool :=
  match cc_op c with
  | CBind t _ | CUnbind t _ | CTransferred _ _ _ t | CCreated _ _ t | CDestroyed _ _ t => mem t toks
  | _ => true
  end.

Definition cmon_step (cf : ccfg) (toks : list addr) (prev : cobs) (it : citem) : bool :=
  let cur := ci_obs it in
  cwf_call toks (ci_call it)
  && cinv_ok cf cur
  && (length (co_bound cur) =? length toks)%nat
  && match ci_out it with
     | Fail =>
         eqb_list (eqb_list N.eqb) (co_mods prev) (co_mods cur)
         && eqb_list Bool.eqb (co_bound prev) (co_bound cur)
         && match co_log cur with [] => true | _ => false end
     | Ok r =>
         cgates_ok cf toks prev cur (ci_call it) r
         && eqb_list (eqb_list N.eqb) (co_mods cur) (map (mods_after prev (ci_call it)) all_hooks)
         && bounds_ok (ci_call it) (combine toks (co_bound prev)) (combine toks (co_bound cur))
     end.

Fixpoint cmon_from (cf : ccfg) (toks : list addr) (prev : cobs) (items : list citem) (i : N) : N :=
  match items with
  | [] => 0%N
  | it :: r => if cmon_step cf toks prev it then cmon_from cf toks (ci_obs it) r (N.succ i) else N.succ i
  end.

Definition cobs0 (toks : list addr) : cobs := mkCObs (map (fun _ => []) all_hooks) (map (fun _ => false) toks) [].

Definition check_compliance (t : ctrace) : verdict :=
  (cdiff_from (ct_cfg t) (ct_toks t) cinit (ct_items t) 0%N,
   cmon_from (ct_cfg t) (ct_toks t) (cobs0 (ct_toks t)) (ct_items t) 0%N,
   0%N).

Fixpoint cmodel_items (cf : ccfg) (toks : list addr) (s : cstate) (cs : list ccall) : list citem :=
  match cs with
  | [] => []
  | c :: r => let '(s', o) := cstep cf s c in CI c o (cobserve toks s') :: cmodel_items cf toks s' r
  end.
Definition cobserve_model (cf : ccfg) (toks : list addr) (cs : list ccall) : ctrace :=
  mkCT cf toks (cmodel_items cf toks cinit cs).
