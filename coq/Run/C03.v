(* C03: trace checker (model vs implementation) and monitor (property vs implementation). *)
From SC Require Import Lib.Prelude Lib.Int Lib.Host Model.SmartAccount.

Definition item := (call * outcome * obs)%type.
Definition trace := (cfg * list item)%type.

(* ---------- boolean equality of outcomes and observations ---------- *)
Definition outcome_eqb (x y : outcome) : bool :=
  match x, y with
  | Ok (r, l), Ok (r', l') => option_eqb rule_eqb r r' && list_eqb event_eqb l l'
  | Fail, Fail => true
  | _, _ => false
  end.
Definition ids_eqb (x y : ctype * option (list Z)) : bool :=
  ctype_eqb (fst x) (fst y) && option_eqb (list_eqb Z.eqb) (snd x) (snd y).
Definition obs_eqb (x y : obs) : bool :=
  (ob_now x =? ob_now y) && (ob_count x =? ob_count y)
  && list_eqb rule_eqb (ob_rules x) (ob_rules y) && list_eqb ids_eqb (ob_ids x) (ob_ids y).

(* ---------- diff: replay the calls through the model ---------- *)
Fixpoint diff_from (c : cfg) (st : state) (t : list item) (i : N) : N :=
  match t with
  | [] => 0%N
  | (cl, out, ob) :: r =>
      let '(st', out') := step c st cl in
      if outcome_eqb out out' && obs_eqb ob (observe (map fst (ob_ids ob)) st')
      then diff_from c st' r (N.succ i) else N.succ i
  end.

(* ------------------------------------------------------------------------- *)
(* The monitor: property C03 as a boolean over what the implementation shows. *)
(* It never looks at a model state: the rule table is the one the account's   *)
(* own getters reported after the previous call, the answers of the verifier  *)
(* and policy mocks are the inputs the harness configured (SetMode calls,     *)
(* signature classes), and the installed thresholds of the one real policy    *)
(* are followed through the install / uninstall calls it was seen to receive. *)
(* ------------------------------------------------------------------------- *)

(* "every supplied signature verifies" *)
Definition sig_good (auths : list addr) (x : signer * sigc) : bool :=
  match x with
  | (Delegated a, _) => has_auth auths a
  | (External _ _, d) => sigc_eqb d SGood
  end.

(* "a context rule of the matching type (or a Default rule)" *)
Definition is_default (r : rule) : bool := ctype_eqb (r_type r) TDefault.
Definition type_matches (c : ctx) (r : rule) : bool :=
  ctype_eqb (r_type r) (ctx_type c) || is_default r.
(* "unexpired" *)
Definition unexpired (now : Z) (r : rule) : bool :=
  match r_valid r with Some u => now <=? u | None => true end.

(* "signers not named by the rule never count": only the rule's own signers that were supplied *)
Definition counted (r : rule) (supplied : list signer) : list signer :=
  filter (fun s => mem_s s supplied) (r_signers r).

(* "whose requirement is met by the supplied signers: all of the rule's signers when it has
   no policies, otherwise acceptance by every one of its policies" *)
Fixpoint pol_status (M : modes) (ps : list policy) (c : ctx) (au : list signer) (r : rule) : rstat :=
  match ps with
  | [] => RSat
  | p :: rest =>
      match can_answer M p c au r with
      | None => RTrap
      | Some false => RUnsat
      | Some true => pol_status M rest c au r
      end
  end.
Definition rule_status (M : modes) (c : ctx) (supplied : list signer) (r : rule) : rstat :=
  match r_policies r with
  | [] => if forallb (fun s => mem_s s supplied) (r_signers r) then RSat else RUnsat
  | ps => pol_status M ps c (counted r supplied) r
  end.
Definition is_unsat (s : rstat) : bool := match s with RUnsat => true | _ => false end.

(* "rules are tried newest-first with type-specific rules before Default ones":
   r1 is tried before r2.  Newest = largest id (ids are handed out in increasing order). *)
Definition before (r1 r2 : rule) : bool :=
  match is_default r1, is_default r2 with
  | false, true => true
  | true, false => false
  | _, _ => r_id r2 <? r_id r1
  end.
Fixpoint best (l : list rule) : option rule :=
  match l with
  | [] => None
  | r :: rest => match best rest with
                 | None => Some r
                 | Some b => Some (if before b r then b else r)
                 end
  end.

(* the rule that decides context c: the first, in trial order, that is not passed over *)
Definition deciding (T : list rule) (M : modes) (now : Z) (supplied : list signer) (c : ctx) : option rule :=
  best (filter (fun r => type_matches c r && unexpired now r && negb (is_unsat (rule_status M c supplied r))) T).

Inductive expect := XFail | XSilent | XOk (enf : list event).

Definition enforce_events (supplied : list signer) (cr : ctx * rule) : list event :=
  let '(c, r) := cr in map (fun p => EEnforce p c (counted r supplied) r) (r_policies r).
(* the enforce hooks accept, one after the other: each call sees the effects of the calls before it
   (the spending-limit policy records what the earlier contexts of the batch spent) *)
Fixpoint enforce_seq_ok (M : modes) (pre : list event) (evs : list event) : bool :=
  match evs with
  | [] => true
  | EEnforce p c au r :: rest =>
      enf_answer M pre p c au r && enforce_seq_ok M (pre ++ [EEnforce p c au r]) rest
  | _ :: _ => false
  end.

Fixpoint all_some {A} (l : list (option A)) : option (list A) :=
  match l with
  | [] => Some []
  | Some x :: r => match all_some r with Some xs => Some (x :: xs) | None => None end
  | None :: _ => None
  end.

Definition expectation (T : list rule) (M : modes) (now : Z) (auths : list addr)
  (sigs : list (signer * sigc)) (cs : list ctx) : expect :=
  if negb (forallb (sig_good auths) sigs) then XFail            (* a signature does not verify *)
  else
    let supplied := map fst sigs in
    match all_some (map (deciding T M now supplied) cs) with
    | None => XFail                                             (* a context no rule covers *)
    | Some rs =>
        if existsb (fun cr => match rule_status M (fst cr) supplied (snd cr) with RTrap => true | _ => false end)
                   (combine cs rs)
        then XSilent                                            (* a consulted can_enforce hook traps *)
        else
          let enf := flat_map (enforce_events supplied) (combine cs rs) in
          if enforce_seq_ok M [] enf then XOk enf               (* must succeed, enforcing exactly enf *)
          else XFail                                            (* an enforcement hook refuses *)
    end.

Definition is_enforce (e : event) : bool := match e with EEnforce _ _ _ _ => true | _ => false end.

(* two enforce calls are the same call: same policy, context and rule, and the same SET of
   signers handed over (the property does not fix the order of that list) *)
Definition same_signers (x y : list signer) : bool :=
  forallb (fun s => mem_s s y) x && forallb (fun s => mem_s s x) y && (zlen x =? zlen y).
Definition same_enforce (x y : event) : bool :=
  match x, y with
  | EEnforce p c au r, EEnforce p' c' au' r' => N.eqb p p' && ctx_eqb c c' && same_signers au au' && rule_eqb r r'
  | _, _ => false
  end.

(* "acceptance by every one of its policies": every policy of every deciding rule WAS ASKED - for each
   enforce call the property demands, the same log shows the can_enforce call of that policy with the
   same context, the same set of signers and the same rule (the answer itself is judged by
   [rule_status] above).  No exception for any context: in particular not when the contract the
   context calls is that very policy contract, a verifier, a signer or the account itself. *)
Definition same_can (p : policy) (c : ctx) (au : list signer) (r : rule) (e : event) : bool :=
  match e with
  | ECan p' c' au' r' => N.eqb p p' && ctx_eqb c c' && same_signers au au' && rule_eqb r r'
  | _ => false
  end.
Definition asked (l enf : list event) : bool :=
  forallb (fun e => match e with EEnforce p c au r => existsb (same_can p c au r) l | _ => true end) enf.

(* both directions: success only if ..., and conversely *)
Definition agrees (x : expect) (out : outcome) : bool :=
  match x, out with
  | XSilent, Fail => true          (* a trapping hook aborts the whole invocation ... *)
  | XSilent, Ok _ => false         (* ... so it can never end in a success *)
  | XFail, Fail => true
  | XFail, Ok _ => false
  | XOk enf, Ok (_, l) => list_eqb same_enforce (filter is_enforce l) enf && asked l enf
  | XOk _, Fail => false
  end.
(* an entry point behind the check: a success needs the check to pass; a refusal is legitimate when
   the check does not pass or when the entry point's own preconditions [pre] fail - but when the
   property determines that the check passes and [pre] holds, a refusal is a violation too *)
Definition agrees_entry (x : expect) (pre : bool) (out : outcome) : bool :=
  match out with
  | Ok _ => agrees x out
  | Fail => match x with XOk _ => negb pre | _ => true end
  end.

(* ------------------------------------------------------------------------- *)
(* The rule table itself: rule sets (up to the documented limits) built by    *)
(* any history of add / remove / update rule, signer and policy operations.   *)
(* What the getters show must (a) be a well-formed table within the limits,   *)
(* (b) change ONLY through a successful entry point, by exactly the requested *)
(* edit - in particular it must not change while ledgers merely pass (only    *)
(* valid_until makes a rule lapse, and that is not a change of the table),    *)
(* and (c) never reuse a rule id.                                              *)
(* ------------------------------------------------------------------------- *)
Definition same_fp (r1 r2 : rule) : bool :=
  fp_eqb (r_type r1, r_signers r1, r_policies r1) (r_type r2, r_signers r2, r_policies r2).
Fixpoint fp_unique (T : list rule) : bool :=
  match T with [] => true | r :: rest => negb (existsb (same_fp r) rest) && fp_unique rest end.
Fixpoint ids_increasing (lo : Z) (T : list rule) : bool :=
  match T with [] => true | r :: rest => (lo <? r_id r) && ids_increasing (r_id r) rest end.
Definition rule_within (c : cfg) (r : rule) : bool :=
  nodup_s (r_signers r) && nodup_p (r_policies r)
  && (zlen (r_signers r) <=? max_signers c) && (zlen (r_policies r) <=? max_policies c)
  && negb (isnil (r_signers r) && isnil (r_policies r)).
Definition ids_consistent (T : list rule) (tl : ctype * option (list Z)) : bool :=
  option_eqb (list_eqb Z.eqb) (snd tl) (Some (map r_id (filter (fun r => ctype_eqb (r_type r) (fst tl)) T))).

Definition table_ok (c : cfg) (ob : obs) : bool :=
  let T := ob_rules ob in
  (ob_count ob =? zlen T) && (zlen T <=? Z.max 0 (max_rules c))
  && ids_increasing (-1) T && forallb (rule_within c) T && fp_unique T
  && forallb (ids_consistent T) (ob_ids ob).

Definition same_table (o1 o2 : obs) : bool :=
  (ob_count o1 =? ob_count o2) && list_eqb rule_eqb (ob_rules o1) (ob_rules o2) && list_eqb ids_eqb (ob_ids o1) (ob_ids o2).

(* the requested edit *)
Definition find_id (id : Z) (T : list rule) : option rule := find (fun r => r_id r =? id) T.
Definition upd (id : Z) (f : rule -> rule) (T : list rule) : list rule :=
  map (fun r => if r_id r =? id then f r else r) T.
Definition with_name (n : N) (r : rule) := mkRule (r_id r) (r_type r) n (r_valid r) (r_signers r) (r_policies r).
Definition with_valid (v : option Z) (r : rule) := mkRule (r_id r) (r_type r) (r_name r) v (r_signers r) (r_policies r).
Definition with_signers (f : list signer -> list signer) (r : rule) :=
  mkRule (r_id r) (r_type r) (r_name r) (r_valid r) (f (r_signers r)) (r_policies r).
Definition with_policies (f : list policy -> list policy) (r : rule) :=
  mkRule (r_id r) (r_type r) (r_name r) (r_valid r) (r_signers r) (f (r_policies r)).

(* the table after a successful entry point, from the table before it; None = cannot have succeeded *)
Definition expected_table (maxid : Z) (T : list rule) (op : adminop) (ret : option rule) : option (list rule) :=
  match op with
  | AddRule t name valid signers policies =>
      match ret with
      | Some r => if (maxid <? r_id r) && rule_eqb r (mkRule (r_id r) t name valid signers (map fst policies))
                  then Some (T ++ [r]) else None                      (* a NEW id, the rule as requested, appended *)
      | None => None
      end
  | UpdName id name =>
      match find_id id T with
      | Some _ => let T' := upd id (with_name name) T in
                  if option_eqb rule_eqb ret (find_id id T') then Some T' else None
      | None => None
      end
  | UpdValid id valid =>
      match find_id id T with
      | Some _ => let T' := upd id (with_valid valid) T in
                  if option_eqb rule_eqb ret (find_id id T') then Some T' else None
      | None => None
      end
  | RemoveRule id =>
      match find_id id T with
      | Some _ => Some (filter (fun r => negb (r_id r =? id)) T)
      | None => None
      end
  | AddSigner id s =>
      match find_id id T with
      | Some r => if mem_s s (r_signers r) then None else Some (upd id (with_signers (fun l => l ++ [s])) T)
      | None => None
      end
  | RemoveSigner id s =>
      match find_id id T with
      | Some r => if mem_s s (r_signers r)
                  then Some (upd id (with_signers (filter (fun x => negb (signer_eqb s x)))) T) else None
      | None => None
      end
  | AddPolicy id p _ =>
      match find_id id T with
      | Some r => if mem_p p (r_policies r) then None else Some (upd id (with_policies (fun l => l ++ [p])) T)
      | None => None
      end
  | RemovePolicy id p =>
      match find_id id T with
      | Some r => if mem_p p (r_policies r)
                  then Some (upd id (with_policies (filter (fun x => negb (N.eqb p x)))) T) else None
      | None => None
      end
  end.

(* the preconditions of the entry points themselves (documented limits, duplicates, fingerprints,
   policy installation), from the table before the call: if they hold and the check passes, the
   entry point must succeed *)
Definition within (c : cfg) (s : list signer) (p : list policy) : bool :=
  (zlen s <=? max_signers c) && (zlen p <=? max_policies c) && negb (isnil s && isnil p)
  && nodup_s s && nodup_p p.
Definition fp_free (T : list rule) (r : rule) : bool := negb (existsb (same_fp r) T).
Definition op_ok (c : cfg) (T : list rule) (M : modes) (now maxid : Z) (op : adminop) : bool :=
  match op with
  | AddRule t name valid signers policies =>
      let r := mkRule (maxid + 1) t name valid signers (map fst policies) in
      (zlen T <? max_rules c) && valid_until_ok now valid && within c signers (map fst policies)
      && fp_free T r && forallb (fun pn => install_answer M (fst pn) (snd pn) r) policies
      && in_u32 (maxid + 2) && in_u32 (zlen T + 1)
  | UpdName id _ => match find_id id T with Some _ => true | None => false end
  | UpdValid id valid => match find_id id T with Some _ => valid_until_ok now valid | None => false end
  | RemoveRule id =>
      match find_id id T with Some _ => in_u32 (zlen T - 1) | None => false end
  | AddSigner id s =>
      match find_id id T with
      | Some r => negb (mem_s s (r_signers r)) && within c (r_signers r ++ [s]) (r_policies r)
                  && fp_free T (with_signers (fun l => l ++ [s]) r)
      | None => false
      end
  | RemoveSigner id s =>
      match find_id id T with
      | Some r => let f := filter (fun x => negb (signer_eqb s x)) in
                  mem_s s (r_signers r) && within c (f (r_signers r)) (r_policies r) && fp_free T (with_signers f r)
      | None => false
      end
  | AddPolicy id p n =>
      match find_id id T with
      | Some r => negb (mem_p p (r_policies r)) && install_answer M p n r
                  && within c (r_signers r) (r_policies r ++ [p]) && fp_free T (with_policies (fun l => l ++ [p]) r)
      | None => false
      end
  | RemovePolicy id p =>
      match find_id id T with
      | Some r => let f := filter (fun x => negb (N.eqb p x)) in
                  mem_p p (r_policies r) && within c (r_signers r) (f (r_policies r)) && fp_free T (with_policies f r)
      | None => false
      end
  end.

Record mstate := mkM { ms_modes : modes; ms_deployed : bool; ms_prev : obs; ms_maxid : Z }.
Definition mstate0 : mstate := mkM modes0 false (mkObs 0 0 [] []) (-1).

(* the authorisation clauses (above) *)
Definition auth_step (c : cfg) (m : mstate) (it : item) : bool :=
  let '(cl, out, _) := it in
  let T := ob_rules (ms_prev m) in
  let now := ob_now (ms_prev m) in
  if negb (ms_deployed m) then
    (* no account yet: nothing can be authorised *)
    match cl, out with
    | Admin _ _ _, Ok _ | CheckAuth _ _ _, Ok _ | Invoke _ _ _, Ok _ | SetThreshold _ _ _ _ _ _, Ok _ => false
    | _, _ => true
    end
  else
  match cl with
  | Admin sigs auths op =>
      agrees_entry (expectation T (ms_modes m) now auths sigs [CCall self (fn_of op)])
                   (op_ok c T (ms_modes m) now (ms_maxid m) op) out
  | CheckAuth sigs auths cs | Invoke sigs auths cs =>
      agrees (expectation T (ms_modes m) now auths sigs cs) out
  | SetThreshold via sigs auths _ t nsig =>
      (* called directly, the policy contract is on the call stack and cannot be re-entered *)
      agrees_entry (expectation T (if via then ms_modes m else mark_busy (ms_modes m)) now auths sigs
                      [if via then CCall self fn_execute else CCall thr_callee fn_set_threshold])
                   ((1 <=? t) && (t <=? nsig)) out
  | Construct _ _ => match out with Ok _ => false | Fail => true end     (* an account is constructed once *)
  | _ => true
  end.

(* shape of an observation: it names the types it lists ids for, always the same ones, and every
   stored rule's type is among them (so that every rule is cross-checked against its id list) *)
Definition shape_ok (prev ob : obs) : bool :=
  negb (isnil (ob_ids ob))
  && (isnil (ob_ids prev) || list_eqb ctype_eqb (map fst (ob_ids prev)) (map fst (ob_ids ob)))
  && forallb (fun r => existsb (fun tl => ctype_eqb (fst tl) (r_type r)) (ob_ids ob)) (ob_rules ob).
Definition empty_obs (ob : obs) : bool :=
  (ob_count ob =? 0) && isnil (ob_rules ob)
  && forallb (fun tl => option_eqb (list_eqb Z.eqb) (snd tl) (Some [])) (ob_ids ob).

(* the table clauses *)
Definition table_step (c : cfg) (m : mstate) (it : item) : bool :=
  let '(cl, out, ob) := it in
  let prev := ms_prev m in
  shape_ok prev ob &&
  (* the ledger moves only by Advance *)
  (ob_now ob =? ob_now prev + match cl, out with Advance n, Ok _ => n | _, _ => 0 end) &&
  if negb (ms_deployed m) then
    match cl, out with
    | Construct signers policies, Ok _ =>
        table_ok c ob &&
        match ob_rules ob with
        | [r] => (ms_maxid m <? r_id r) && rule_eqb r (mkRule (r_id r) TDefault 0%N None signers (map fst policies))
        | _ => false
        end
    | _, _ => empty_obs ob                       (* before construction there is nothing to show *)
    end
  else
    table_ok c ob &&
    match cl, out with
    | Admin _ _ op, Ok (ret, _) =>
        match expected_table (ms_maxid m) (ob_rules prev) op ret with
        | Some T' => list_eqb rule_eqb (ob_rules ob) T'
        | None => false
        end
    | _, _ => same_table prev ob      (* refused, read-only, or ledgers passing: nothing changes, nothing lapses *)
    end.

Definition mon_step (c : cfg) (m : mstate) (it : item) : bool := auth_step c m it && table_step c m it.

Definition mon_next (m : mstate) (it : item) : mstate :=
  let '(cl, out, ob) := it in
  mkM (match cl, out with
       | SetMode p id md, _ => set_mode p id md (ms_modes m)
       | Advance n, Ok _ => adv_modes n (ms_modes m)
       (* the install / uninstall / enforce calls the real policies were seen to receive *)
       | Construct _ _, Ok (_, l) | Admin _ _ _, Ok (_, l)
       | CheckAuth _ _ _, Ok (_, l) | Invoke _ _ _, Ok (_, l) => apply_log (ms_modes m) l
       | SetThreshold _ _ _ id t _, Ok (_, l) => set_thr id t (apply_log (ms_modes m) l)
       | _, _ => ms_modes m
       end)
      (match cl, out with Construct _ _, Ok _ => true | _, _ => ms_deployed m end)
      ob
      (fold_left Z.max (map r_id (ob_rules ob)) (ms_maxid m)).

Fixpoint mon_from (c : cfg) (m : mstate) (t : list item) (i : N) : N :=
  match t with
  | [] => 0%N
  | it :: r => if mon_step c m it then mon_from c (mon_next m it) r (N.succ i) else N.succ i
  end.

Definition check (t : trace) : verdict :=
  (diff_from (fst t) init (snd t) 0%N, mon_from (fst t) mstate0 (snd t) 0%N, 0%N).
Definition check_all (ts : list trace) : list verdict := map check ts.

(* ---------- the observations the model itself produces ---------- *)
Fixpoint model_items (c : cfg) (types : list ctype) (st : state) (cs : list call) : list item :=
  match cs with
  | [] => []
  | cl :: r => let '(st', out) := step c st cl in (cl, out, observe types st') :: model_items c types st' r
  end.
Definition observe_model (c : cfg) (types : list ctype) (cs : list call) : trace :=
  (c, model_items c types init cs).
