(* C12: trace checker (model vs implementation) and monitor (property vs implementation). *)
From SC Require Import Lib.Prelude Lib.Int Model.Math Proofs.Math.

Definition outcome := res (option Z).
Definition obs := (call * outcome)%type.

Definition eqb_oz (a b : option Z) : bool :=
  match a, b with Some x, Some y => x =? y | None, None => true | _, _ => false end.
Definition eqb_out (a b : outcome) : bool :=
  match a, b with Ok x, Ok y => eqb_oz x y | Fail, Fail => true | _, _ => false end.

Definition r128 (z : Z) := in_i128 z.
Definition in_range_call (c : call) : bool :=
  match c with
  | MulDiv128 _ x y d | CMulDiv128 _ x y d => r128 x && r128 y && r128 d
  | MulDiv256 _ x y d | CMulDiv256 _ x y d => in_i256 x && in_i256 y && in_i256 d
  | WadCMul a b | WadCDiv a b | WadFromRatio a b => r128 a && r128 b
  | WadFromInteger n => r128 n
  | WadCPow x e | WadPow x e => r128 x && in_u32 e
  end.

(* The property, as a predicate on (inputs, observed outcome).  It is written from the property
   text, independently of the model: exact rational arithmetic over unbounded Z. *)
Definition is_some_out (o : outcome) : bool :=
  match o with Ok (Some _) => true | _ => false end.
Definition is_fail (o : outcome) : bool := match o with Fail => true | _ => false end.

Definition spec_ok (c : call) (o : outcome) : bool :=
  match c with
  | MulDiv128 rd x y d => eqb_out (do v <- spec_plain128 rd x y d; Ok (Some v)) o
  | CMulDiv128 rd x y d => eqb_out (spec_checked128 rd x y d) o
  | MulDiv256 rd x y d =>
      (* d = 0 is an error whatever the product; exact whenever the product fits in 256 bits *)
      if d =? 0 then is_fail o
      else if in_i256 (x * y) then eqb_out (do v <- spec_plain256 rd x y d; Ok (Some v)) o
      else true
  | CMulDiv256 rd x y d =>
      if d =? 0 then eqb_out (Ok None) o
      else if in_i256 (x * y) then
        match fit256 (exact rd (x * y) d) with
        | Some v => eqb_out (Ok (Some v)) o
        | None => negb (is_some_out o)      (* the quotient does not fit: no value may come back *)
        end
      else true
  | WadCMul a b => eqb_out (Ok (fit128 (trunc_div (a * b) WAD))) o
  | WadCDiv a b => eqb_out (Ok (if b =? 0 then None else fit128 (trunc_div (a * WAD) b))) o
  | WadFromRatio n d =>
      eqb_out (if d =? 0 then Fail else do v <- of_option (fit128 (trunc_div (n * WAD) d)); Ok (Some v)) o
  | WadFromInteger n => eqb_out (do v <- of_option (fit128 (n * WAD)); Ok (Some v)) o
  | WadCPow _ _ => negb (is_fail o)         (* a checked variant reports failure as None, never by trapping *)
  | WadPow _ _ => true                      (* constrained by the pairing clause below *)
  end.

(* pow fails exactly when checked_pow returns None (and agrees otherwise).  The trace format
   requires every WadPow x e to be IMMEDIATELY preceded by WadCPow x e; a WadPow that is not
   is a malformed trace and counts as a monitor failure. *)
Definition pow_pair_ok (prev : option obs) (cur : obs) : bool :=
  match cur with
  | (WadPow x e, o) =>
      match prev with
      | Some (WadCPow x' e', o') =>
          (x =? x') && (e =? e') &&
          match o', o with
          | Ok None, Fail => true
          | Ok (Some v'), Ok (Some v) => v =? v'
          | _, _ => false
          end
      | _ => false
      end
  | _ => true
  end.

Definition mon_step (prev : option obs) (cur : obs) : bool :=
  in_range_call (fst cur) && spec_ok (fst cur) (snd cur) && pow_pair_ok prev cur.

Fixpoint mon_from (prev : option obs) (t : list obs) (i : N) : N :=
  match t with
  | [] => 0%N
  | c :: r => if mon_step prev c then mon_from (Some c) r (N.succ i) else N.succ i
  end.

Definition step_ok (o : obs) : bool := eqb_out (run_call (fst o)) (snd o).

Definition check (t : list obs) : verdict := (first_false step_ok t 0%N, mon_from None t 0%N, 0%N).
Definition check_all (ts : list (list obs)) : list verdict := map check ts.

(* the observations the model itself produces *)
Definition model_obs (c : call) : obs := (c, run_call c).

(* call lists in the trace format: in range, and every WadPow x e directly after WadCPow x e *)
Fixpoint paired (prev : option call) (cs : list call) : bool :=
  match cs with
  | [] => true
  | c :: r =>
      (match c with
       | WadPow x e => match prev with Some (WadCPow x' e') => (x =? x') && (e =? e') | _ => false end
       | _ => true
       end) && paired (Some c) r
  end.
Definition wf_calls (cs : list call) : bool := forallb in_range_call cs && paired None cs.
