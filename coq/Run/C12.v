(* C12: trace checker (model vs implementation) and monitor (property vs implementation). *)
From SC Require Import Lib.Prelude Lib.Int Model.Math Proofs.Math.

Definition outcome := res (option Z).
Definition obs := (call * outcome)%type.

Definition eqb_oz (a b : option Z) : bool :=
  match a, b with Some x, Some y => x =? y | None, None => true | _, _ => false end.
Definition eqb_out (a b : outcome) : bool :=
  match a, b with Ok x, Ok y => eqb_oz x y | Fail, Fail => true | _, _ => false end.

Definition r128 (z : Z) := in_i128 z.
Definition in_range_call (c : call) : bool :=
  match c with
  | MulDiv128 _ x y d | CMulDiv128 _ x y d => r128 x && r128 y && r128 d
  | MulDiv256 _ x y d | CMulDiv256 _ x y d => in_i256 x && in_i256 y && in_i256 d
  | WadCMul a b | WadCDiv a b | WadFromRatio a b => r128 a && r128 b
  | WadFromInteger n => r128 n
  | WadCPow x e | WadPow x e => r128 x && in_u32 e
  end.

(* The property, as a function of the inputs only (None = the property says nothing). *)
Definition spec_call (c : call) : option outcome :=
  match c with
  | MulDiv128 rd x y d => Some (do v <- spec_plain128 rd x y d; Ok (Some v))
  | CMulDiv128 rd x y d => Some (spec_checked128 rd x y d)
  | MulDiv256 rd x y d =>
      if in_i256 (x * y) then Some (do v <- spec_plain256 rd x y d; Ok (Some v)) else None
  | CMulDiv256 rd x y d =>
      if in_i256 (x * y) then
        if d =? 0 then Some (Ok None)
        else match fit256 (exact rd (x * y) d) with Some v => Some (Ok (Some v)) | None => None end
      else None
  | WadCMul a b => Some (Ok (fit128 (trunc_div (a * b) WAD)))
  | WadCDiv a b => Some (Ok (if b =? 0 then None else fit128 (trunc_div (a * WAD) b)))
  | WadFromRatio n d =>
      Some (if d =? 0 then Fail else do v <- of_option (fit128 (trunc_div (n * WAD) d)); Ok (Some v))
  | WadFromInteger _ | WadCPow _ _ | WadPow _ _ => None
  end.

(* pow fails exactly when checked_pow returns None (and agrees otherwise):
   the harness emits WadCPow x e immediately followed by WadPow x e. *)
Definition pow_pair_ok (prev : option obs) (cur : obs) : bool :=
  match cur with
  | (WadPow x e, o) =>
      match prev with
      | Some (WadCPow x' e', o') =>
          if (x =? x') && (e =? e') then
            match o', o with
            | Ok None, Fail => true
            | Ok (Some v'), Ok (Some v) => v =? v'
            | _, _ => false
            end
          else true
      | _ => true
      end
  | _ => true
  end.

Definition mon_step (prev : option obs) (cur : obs) : bool :=
  (match spec_call (fst cur) with Some s => eqb_out s (snd cur) | None => true end)
  && pow_pair_ok prev cur.

Fixpoint mon_from (prev : option obs) (t : list obs) (i : N) : N :=
  match t with
  | [] => 0%N
  | c :: r => if mon_step prev c then mon_from (Some c) r (N.succ i) else N.succ i
  end.

Definition step_ok (o : obs) : bool := eqb_out (run_call (fst o)) (snd o).

Definition check (t : list obs) : verdict := (first_false step_ok t 0%N, mon_from None t 0%N, 0%N).
Definition check_all (ts : list (list obs)) : list verdict := map check ts.

(* the observations the model itself produces *)
Definition model_obs (c : call) : obs := (c, run_call c).
