(* C10: trace checker (model vs implementation) and monitor (property vs implementation).
   The monitor replays the observed calls and outcomes into a *plain ownership map*
   (Run/NftCommon.v [ghost]) and compares every observed getter with it. *)
From SC Require Import Lib.Prelude Lib.Int Lib.Host Model.Nft Model.NftBits Model.NftBitsRun Run.NftCommon.
Local Open Scope N_scope.

Fixpoint nodupb (l : list N) : bool :=
  match l with [] => true | x :: r => negb (memN x r) && nodupb r end.

(* number of queried ids that owner_of reports for a *)
Definition count_owned (a : addr) (l : list (N * option addr)) : N :=
  N.of_nat (length (filter (fun p => oaddr_eqb (snd p) (Some a)) l)).
Definition count_existing (l : list (N * option addr)) : N :=
  N.of_nat (length (filter (fun p => is_some (snd p)) l)).

(* What a call may do, judged against the reference BEFORE the call (mints are judged by
   [mint_scope], Run/NftCommon.v):
   - a transfer or burn names the current owner of exactly that token;
   - calls other than sequential / batch mints return nothing;
   - the ledger cannot refuse to move ([Advance] never fails: a trace saying so is malformed). *)
Definition c10_legal (g : ghost) (cl : call) (o : outcome) : bool :=
  match o with
  | Fail => match cl with Advance _ => false | _ => true end
  | Ok r =>
      match cl with
      | MintSeq _ | BatchMint _ _ => true
      | Transfer _ from _ id | TransferFrom _ _ from _ id | Burn _ from id | BurnFrom _ _ from id =>
          is_none r && oaddr_eqb (rget (g_own g) id) (Some from)
      | _ => is_none r
      end
  end.

(* What must succeed: a transfer or burn of an existing token that names its current owner and carries
   that owner's authorisation goes through (the receiver's balance not being at the u32 limit) - tokens
   do not get stuck because an index entry, a marker or a counter went missing. *)
Definition c10_live (fl : flavour) (c : cfg) (g : ghost) (cl : call) (o : outcome) : bool :=
  match cl with
  | Transfer auths from to id =>
      if has_auth auths from && oaddr_eqb (rget (g_own g) id) (Some from) && (cnt (g_cnt g) to + 1 <=? MAXU32N)
      then is_ok o else true
  | Burn auths from id =>
      if has_auth auths from && oaddr_eqb (rget (g_own g) id) (Some from) then is_ok o else true
  | TransferFrom auths sp from to id =>
      (* ... and so does the owner's approved account or operator, while that approval is in force *)
      if has_auth auths sp && oaddr_eqb (rget (g_own g) id) (Some from)
         && ((sp =? from) || oaddr_eqb (live_appr g id) (Some sp) || live_oper g from sp)
         && (cnt (g_cnt g) to + 1 <=? MAXU32N)
      then is_ok o else true
  | BurnFrom auths sp from id =>
      if has_auth auths sp && oaddr_eqb (rget (g_own g) id) (Some from)
         && ((sp =? from) || oaddr_eqb (live_appr g id) (Some sp) || live_oper g from sp)
      then is_ok o else true
  | BatchMint to amt =>
      (* every batch size 1 ..= MAX_TOKENS_IN_BATCH is accepted (ids and balance not at the u32 limit) *)
      match fl with
      | FCons =>
          if (1 <=? amt) && (amt <=? max_batch c) && (g_next g + amt <=? MAXU32N) && (cnt (g_cnt g) to + amt <=? MAXU32N)
          then is_ok o else true
      | _ => true
      end
  | _ => true
  end.

(* a list of answers to index queries 0,1,2,...: exactly the first k are Some, pairwise
   distinct, all satisfy p, and the two queries beyond the end fail *)
Fixpoint split_somes (l : list (option N)) : list N * list (option N) :=
  match l with
  | Some x :: r => let '(a, b) := split_somes r in (x :: a, b)
  | _ => ([], l)
  end.
Definition enum_list_ok (l : list (option N)) (k : N) (p : N -> bool) : bool :=
  let '(ids, rest) := split_somes l in
  (N.of_nat (length ids) =? k) && nodupb ids && forallb p ids && list_eqb on_eqb rest [None; None].

Definition enum_ok (full : bool) (g : ghost) (ob : obs) : bool :=
  (o_total ob =? g_supply g)
  && (if full then o_total ob =? count_existing (o_owner ob) else true)
  && enum_list_ok (o_glob ob) (o_total ob) (fun id => is_some (rget (g_own g) id))
  && list_eqb N.eqb (map fst (o_otok ob)) (map fst (o_bal ob))
  && forallb (fun p => enum_list_ok (snd p) (cnt (g_cnt g) (fst p))
                         (fun id => oaddr_eqb (rget (g_own g) id) (Some (fst p)))) (o_otok ob).

Definition is_nil {A} (l : list A) : bool := match l with [] => true | _ => false end.

(* Well-formedness of an observation, CHECKED (a trace that hides state is rejected): the queried ids are
   strictly increasing, contain the ids the call names, and in `full` mode contain every id 0 .. next_id+2
   and every id that was ever assigned individually; every address that ever held a token is listed with
   its balance; non-enumerable flavours carry no enumeration answers. [g] = the reference AFTER the call. *)
Definition c10_shape_ok (fl : flavour) (full : bool) (g : ghost) (cl : call) (o : outcome) (ob : obs) : bool :=
  let ids := map fst (o_owner ob) in
  strictly_incr ids
  && forallb (fun a => memN a (map fst (o_bal ob))) (map fst (g_cnt g))
  && forallb (fun i => memN i ids) (call_ids cl o)
  && (if full then covers_from ids 0 (N.to_nat (g_next g + 3)) && forallb (fun i => memN i ids) (point_ids (g_own g))
      else true)
  && match fl with FEnum => true | _ => (o_total ob =? 0) && is_nil (o_glob ob) && is_nil (o_otok ob) end.

(* every observed getter against the reference AFTER the call *)
Definition c10_obs_ok (fl : flavour) (full : bool) (g : ghost) (ob : obs) : bool :=
  (o_next ob =? g_next g)
  && forallb (fun p => oaddr_eqb (snd p) (rget (g_own g) (fst p))) (o_owner ob)
  && forallb (fun p => snd p =? cnt (g_cnt g) (fst p)) (o_bal ob)
  && (if full then forallb (fun p => snd p =? count_owned (fst p) (o_owner ob)) (o_bal ob) else true)
  && match fl with FEnum => enum_ok full g ob | _ => true end.

Definition c10_step_ok (fl : flavour) (c : cfg) (full : bool) (g : ghost) (x : call * outcome * obs) : bool :=
  let '(cl, o, ob) := x in
  let g' := ghost_step g cl o in
  c10_legal g cl o && c10_live fl c g cl o && c10_shape_ok fl full g' cl o ob && c10_obs_ok fl full g' ob.

(* [strict] = false: a trace that leaves the property's quantifier (OutOfScope mint) is not judged from
   that call on (verdict 0 = no violation inside the quantifier); [strict] = true: it is flagged there. *)
Fixpoint mon_from (strict : bool) (fl : flavour) (c : cfg) (full : bool) (g : ghost) (l : list (call * outcome * obs)) (i : N) : N :=
  match l with
  | [] => 0
  | x :: r =>
      match mint_scope fl g (fst (fst x)) (snd (fst x)) with
      | Illegal => N.succ i
      | OutOfScope => if strict then N.succ i else 0
      | InScope =>
          if c10_step_ok fl c full g x
          then mon_from strict fl c full (ghost_step g (fst (fst x)) (snd (fst x))) r (N.succ i)
          else N.succ i
      end
  end.
Definition monitor (t : trace) : N := mon_from false (t_fl t) (t_cfg t) (t_full t) (ghost0 (t_now0 t)) (t_steps t) 0.
Definition monitor_strict (t : trace) : N := mon_from true (t_fl t) (t_cfg t) (t_full t) (ghost0 (t_now0 t)) (t_steps t) 0.

(* ================= bit-level correspondence (consecutive flavour) =================
   The same calls are replayed through the bit-level transcription (Model/NftBitsRun.v) and compared
   with the implementation: outcomes, owner_of for every queried id, and the RAW ownership buckets read
   from the contract's storage after every call. *)

(* a raw bucket as observed: None = no storage entry; Some (number of words, the non-zero words with
   their item index) *)
Definition bdump := list (N * option (N * list (N * N))).
Fixpoint nonzero_from (l : bucket) (i : N) : list (N * N) :=
  match l with
  | [] => []
  | x :: r => if x =? 0 then nonzero_from r (i + 1) else (i, x) :: nonzero_from r (i + 1)
  end.
Definition dump_model (bs : buckets) (shape : bdump) : bdump :=
  map (fun p => (fst p, match aget N.eqb (fst p) bs with
                        | Some bk => Some (N.of_nat (length bk), nonzero_from bk 0)
                        | None => None
                        end)) shape.
Definition words_eqb (a b : N * list (N * N)) : bool :=
  (fst a =? fst b) && list_eqb (fun p q => (fst p =? fst q) && (snd p =? snd q)) (snd a) (snd b).
Definition bdump_eqb (a b : bdump) : bool :=
  list_eqb (fun p q => (fst p =? fst q)
                       && match snd p, snd q with
                          | Some x, Some y => words_eqb x y
                          | None, None => true
                          | _, _ => false
                          end) a b.

Record btrace := mkBTrace {
  bt_trace : trace;
  bt_bcfg : bcfg;              (* u32::BITS (= IDS_IN_ITEM) and ITEMS_IN_BUCKET as printed by the harness *)
  bt_dumps : list bdump        (* raw buckets after every call (consecutive traces; [] otherwise) *)
}.

Definition bcfg_okb (b : bcfg) (c : cfg) : bool := (0 <? W b) && (0 <? I b) && (ids_in_bucket c =? I b * W b).

Fixpoint nseq (lo : N) (n : nat) : list N := match n with O => [] | S k => lo :: nseq (lo + 1) k end.
(* a dump must list the buckets 0 .. next_id / IDS_IN_BUCKET + 1 (a missing dump is a disagreement) *)
Definition dump_shape_ok (b : bcfg) (sb : bstate) (ds : list bdump) : bool :=
  match ds with
  | d :: _ => list_eqb N.eqb (map fst d) (nseq 0 (N.to_nat (next_id (fst sb) / ids_per_bucket b + 2)))
  | [] => false
  end.

Fixpoint diffb_from (b : bcfg) (c : cfg) (sb : bstate) (l : list (call * outcome * obs)) (ds : list bdump) (i : N) : N :=
  match l with
  | [] => 0
  | (cl, o, ob) :: r =>
      let '(sb', o') := step_b b c sb cl in
      let d := match ds with d :: _ => d | [] => [] end in
      if out_eqb o o'
         && forallb (fun p : N * option addr => oaddr_eqb (snd p) (cons_owner_of_b b sb' (fst p))) (o_owner ob)
         && dump_shape_ok b sb' ds
         && bdump_eqb d (dump_model (snd sb') d)
      then diffb_from b c sb' r (tl ds) (N.succ i)
      else N.succ i
  end.
Definition diff_bits (t : btrace) : N :=
  match t_fl (bt_trace t) with
  | FCons =>
      if bcfg_okb (bt_bcfg t) (t_cfg (bt_trace t))
      then diffb_from (bt_bcfg t) (t_cfg (bt_trace t)) (init_b (t_now0 (bt_trace t))) (t_steps (bt_trace t)) (bt_dumps t) 0
      else 1
  | _ => 0
  end.

(* first disagreement with either model *)
Definition first_diff (a b : N) : N := if a =? 0 then b else if b =? 0 then a else N.min a b.

Definition check (t : btrace) : verdict := (first_diff (diff (bt_trace t)) (diff_bits t), monitor (bt_trace t), 0).
Definition check_all (ts : list btrace) : list verdict := map check ts.

(* the bit-level dumps the model itself produces for given calls and dump shapes *)
Fixpoint model_dumps (b : bcfg) (c : cfg) (sb : bstate) (l : list (call * obs)) (shapes : list bdump) : list bdump :=
  match l with
  | [] => []
  | (cl, _) :: r =>
      let sb' := fst (step_b b c sb cl) in
      dump_model (snd sb') (match shapes with d :: _ => d | [] => [] end) :: model_dumps b c sb' r (tl shapes)
  end.
Definition model_btrace (fl : flavour) (c : cfg) (b : bcfg) (now0 : Z) (full : bool) (l : list (call * obs)) (shapes : list bdump) : btrace :=
  mkBTrace (model_trace fl c now0 full l) b (model_dumps b c (init_b now0) l shapes).
