(* C09: trace checker (model vs implementation) and monitor (property vs implementation). *)
From SC Require Import Lib.Prelude Lib.Int Lib.Host Model.Timelock Model.TimelockGhost Model.TimelockController.

(* ---------------- observations ---------------- *)
(* [v_trap]: some getter of this id trapped (then the other fields are placeholders) *)
Record opview := OV9 { v_ledger : Z; v_state : opstate; v_exists : bool; v_pending : bool; v_ready : bool; v_done : bool; v_trap : bool }.
(* after every call: ledger, get_min_delay, the timelock getters for every id, get_admin,
   has_role for every (account, role), get_role_member_count / get_role_member / get_role_admin
   for every role, get_existing_roles, the target mock's counters *)
Record obs := Obs9 { o_now : Z; o_min : option Z; o_ops : list (id * opview); o_admin : option addr;
                     o_has : list (addr * role * option Z); o_cnt : list (role * Z);
                     o_mem : list (role * list addr); o_radmin : list (role * option role);
                     o_existing : list role; o_runs : list (N * Z) }.
(* configuration, constructor arguments, universes, measured id table and argument table,
   constants of the code, observation before the first call *)
Record header := Hdr9 { h_cfg : cfg; h_now : Z; h_min : Z; h_props : list addr; h_execs : list addr;
                        h_admin : option addr; h_ids : list id; h_naddr : N; h_nroles : N; h_tags : list N;
                        h_tbl : list (op * id); h_avs : list (argv * N); h_unset : Z; h_done : Z; h_obs0 : obs }.
Definition event := (call * outcome * obs)%type.
Definition trace := (header * list event)%type.
Definition OkN : outcome := Ok None.
Definition OkI (i : id) : outcome := Ok (Some i).
Definition Bad : outcome := Fail.
Arguments OkI _%N_scope.

(* ---------------- boolean equalities ---------------- *)
Definition oz_eqb (a b : option Z) : bool :=
  match a, b with Some x, Some y => x =? y | None, None => true | _, _ => false end.
Definition on_eqb (a b : option N) : bool :=
  match a, b with Some x, Some y => N.eqb x y | None, None => true | _, _ => false end.
Definition outcome_eqb (a b : outcome) : bool :=
  match a, b with Ok x, Ok y => on_eqb x y | Fail, Fail => true | _, _ => false end.
Definition opview_eqb (a b : opview) : bool :=
  (v_ledger a =? v_ledger b) && opstate_eqb (v_state a) (v_state b) && Bool.eqb (v_exists a) (v_exists b)
  && Bool.eqb (v_pending a) (v_pending b) && Bool.eqb (v_ready a) (v_ready b) && Bool.eqb (v_done a) (v_done b)
  && Bool.eqb (v_trap a) (v_trap b).
Fixpoint list_eqb {A} (f : A -> A -> bool) (a b : list A) : bool :=
  match a, b with
  | [], [] => true
  | x :: a', y :: b' => f x y && list_eqb f a' b'
  | _, _ => false
  end.
Definition obs_eqb (a b : obs) : bool :=
  (o_now a =? o_now b) && oz_eqb (o_min a) (o_min b)
  && list_eqb (fun x y => N.eqb (fst x) (fst y) && opview_eqb (snd x) (snd y)) (o_ops a) (o_ops b)
  && on_eqb (o_admin a) (o_admin b)
  && list_eqb (fun x y => N.eqb (fst (fst x)) (fst (fst y)) && N.eqb (snd (fst x)) (snd (fst y)) && oz_eqb (snd x) (snd y)) (o_has a) (o_has b)
  && list_eqb (fun x y => N.eqb (fst x) (fst y) && (snd x =? snd y)) (o_cnt a) (o_cnt b)
  && list_eqb (fun x y => N.eqb (fst x) (fst y) && list_eqb N.eqb (snd x) (snd y)) (o_mem a) (o_mem b)
  && list_eqb (fun x y => N.eqb (fst x) (fst y) && on_eqb (snd x) (snd y)) (o_radmin a) (o_radmin b)
  && list_eqb N.eqb (o_existing a) (o_existing b)
  && list_eqb (fun x y => N.eqb (fst x) (fst y) && (snd x =? snd y)) (o_runs a) (o_runs b).

(* ---------------- ids and argument ids: the measured tables ---------------- *)
Fixpoint tbl_get (tbl : list (op * id)) (o : op) : option id :=
  match tbl with
  | [] => None
  | (o', i) :: r => if op_eqb o o' then Some i else tbl_get r o
  end.
Definition hash_of (tbl : list (op * id)) (o : op) : id :=
  match tbl_get tbl o with Some i => i | None => (1000000 + hash_pair o)%N end.
Definition tbl_ok (tbl : list (op * id)) : bool :=
  forallb (fun p => forallb (fun q => Bool.eqb (op_eqb (fst p) (fst q)) (N.eqb (snd p) (snd q))) tbl) tbl.

Definition oa_eqb (a b : option addr) : bool := on_eqb a b.
Definition argv_eqb (a b : argv) : bool :=
  match a, b with
  | AV_u32 x, AV_u32 y => x =? y
  | AV_role a1 r1 c1, AV_role a2 r2 c2 => N.eqb a1 a2 && N.eqb r1 r2 && N.eqb c1 c2
  | AV_role_admin r1 s1, AV_role_admin r2 s2 => N.eqb r1 r2 && N.eqb s1 s2
  | AV_transfer a1 l1, AV_transfer a2 l2 => N.eqb a1 a2 && (l1 =? l2)
  | AV_nil, AV_nil => true
  | AV_renounce r1 c1, AV_renounce r2 c2 => N.eqb r1 r2 && N.eqb c1 c2
  | AV_sched o1 d1 p1, AV_sched o2 d2 p2 => op_eqb o1 o2 && (d1 =? d2) && N.eqb p1 p2
  | AV_exec o1 x1, AV_exec o2 x2 => op_eqb o1 o2 && oa_eqb x1 x2
  | AV_cancel i1 c1, AV_cancel i2 c2 => N.eqb i1 i2 && N.eqb c1 c2
  | _, _ => false
  end.
Fixpoint avs_get (t : list (argv * N)) (v : argv) : option N :=
  match t with
  | [] => None
  | (v', k) :: r => if argv_eqb v v' then Some k else avs_get r v
  end.
(* argument vectors the harness never put into an operation or a context get ids of their own *)
Definition aid_of (t : list (argv * N)) (v : argv) : N :=
  match avs_get t v with Some k => k | None => 1000000%N end.
Definition avs_ok (t : list (argv * N)) : bool :=
  forallb (fun p => forallb (fun q => Bool.eqb (argv_eqb (fst p) (fst q)) (N.eqb (snd p) (snd q))) t
                    && N.ltb (snd p) 1000000) t.

(* ---------------- what the model shows ---------------- *)
Definition view (t : tl) (i : id) : opview :=
  OV9 (mark t i) (state_of t i) (operation_exists t i) (is_operation_pending t i)
      (is_operation_ready t i) (is_operation_done t i) false.
Fixpoint nseq (k : nat) (from : N) : list N :=
  match k with O => [] | S k' => from :: nseq k' (N.succ from) end.
Definition upto (n : N) : list N := nseq (N.to_nat n) 1%N.

Definition observe_u (ids : list id) (naddr nroles : N) (tags : list N) (s : state) : obs :=
  let accounts := upto naddr in
  let roles := upto nroles in
  Obs9 (now (ctl s)) (min_delay (ctl s))
       (map (fun i => (i, view (ctl s) i)) ids)
       (admin (acs s))
       (flat_map (fun r => map (fun a => (a, r, has_role (acs s) a r)) accounts) roles)
       (map (fun r => (r, role_count (acs s) r)) roles)
       (map (fun r => (r, mem_list (acs s) r)) roles)
       (map (fun r => (r, role_admin (acs s) r)) roles)
       (existing (acs s))
       (map (fun a => (a, crun_count s a)) tags).
Definition observe (h : header) (s : state) : obs :=
  observe_u (h_ids h) (h_naddr h) (h_nroles h) (h_tags h) s.

(* ---------------- diff: replay through the model ---------------- *)
Section Replay.
  Variable h : header.
  Let hash := hash_of (h_tbl h).
  Let aid := aid_of (h_avs h).
  Let cf := h_cfg h.

  Fixpoint diff_from (s : state) (evs : list event) (k : N) : N :=
    match evs with
    | [] => 0%N
    | (c, out, ob) :: r =>
        let '(s', out') := step hash aid cf s c in
        if outcome_eqb out out' && obs_eqb ob (observe h s')
        then diff_from s' r (N.succ k) else N.succ k
    end.

  Definition init_state : res state :=
    construct cf (h_now h) (h_min h) (h_props h) (h_execs h) (h_admin h).

  Definition diff_events (evs : list event) : N :=
    match init_state with
    | Fail => 1%N
    | Ok s0 =>
        if (h_unset h =? UNSET_LEDGER) && (h_done h =? DONE_LEDGER) && obs_eqb (h_obs0 h) (observe h s0)
        then diff_from s0 evs 0%N else 1%N
    end.
End Replay.

Definition diff (t : trace) : N := diff_events (fst t) (snd t).

(* ---------------- the monitor: the property over observations only ---------------- *)

Definition view_coherent (now : Z) (v : opview) : bool :=
  negb (v_trap v) && in_u32 (v_ledger v)
  && opstate_eqb (v_state v)
       (if v_ledger v =? 0 then Unset else if v_ledger v =? 1 then Done
        else if now <? v_ledger v then Waiting else Ready)
  && Bool.eqb (v_exists v) (negb (opstate_eqb (v_state v) Unset))
  && Bool.eqb (v_pending v) (opstate_eqb (v_state v) Waiting || opstate_eqb (v_state v) Ready)
  && Bool.eqb (v_ready v) (opstate_eqb (v_state v) Ready)
  && Bool.eqb (v_done v) (opstate_eqb (v_state v) Done).
Definition obs_coherent (o : obs) : bool :=
  (2 <=? o_now o) && in_u32 (o_now o) && forallb (fun p => view_coherent (o_now o) (snd p)) (o_ops o).

(* getters read off an observation *)
Fixpoint has_get (l : list (addr * role * option Z)) (a : addr) (r : role) : option (option Z) :=
  match l with
  | [] => None
  | t :: rest => if N.eqb a (fst (fst t)) && N.eqb r (snd (fst t)) then Some (snd t) else has_get rest a r
  end.
(* has_role as observed; [dflt] when the (account, role) pair is outside the observed universe *)
Definition ob_has_or (dflt : bool) (o : obs) (a : addr) (r : role) : bool :=
  match has_get (o_has o) a r with
  | Some (Some _) => true
  | Some None => false
  | None => dflt
  end.
(* "holds the role" as a requirement: a pair outside the observed universe does NOT count as holding it
   (calls naming accounts / roles outside the universe are rejected as malformed: [call_wf]) *)
Definition ob_has (o : obs) (a : addr) (r : role) : bool := ob_has_or false o a r.

(* ---------------- well-formedness of header, observations and calls (checked, not assumed) ---------------- *)
Definition mem_n (x : N) (l : list N) : bool := existsb (N.eqb x) l.
Definition in_upto (n x : N) : bool := N.leb 1 x && N.leb x n.
Definition pair_eqb (x y : N * N) : bool := N.eqb (fst x) (fst y) && N.eqb (snd x) (snd y).
(* an observation lists exactly the declared ids, (account, role) pairs, roles and tags, in order *)
Definition obs_shape (ids : list id) (naddr nroles : N) (tags : list N) (o : obs) : bool :=
  list_eqb N.eqb (map fst (o_ops o)) ids
  && list_eqb pair_eqb (map fst (o_has o)) (flat_map (fun r => map (fun a => (a, r)) (upto naddr)) (upto nroles))
  && list_eqb N.eqb (map fst (o_cnt o)) (upto nroles)
  && list_eqb N.eqb (map fst (o_mem o)) (upto nroles)
  && list_eqb N.eqb (map fst (o_radmin o)) (upto nroles)
  && list_eqb N.eqb (map fst (o_runs o)) tags.
(* every id of the measured table is observed *)
Definition tbl_in (ids : list id) (tbl : list (op * id)) : bool := forallb (fun p => mem_n (snd p) ids) tbl.
(* accounts, roles and executors named by a call lie inside the observed universe; a call that attaches an
   authorisation of the controller has its own argument vector in the measured table *)
Definition metas_wf (naddr : N) (ms : list meta) : bool :=
  forallb (fun m => match m_exec m with Some x => in_upto naddr x | None => true end) ms.
Definition authz_wf (naddr : N) (avs : list (argv * N)) (c : call) : bool :=
  match a_self (authz_of c) with
  | Some se => metas_wf naddr (se_metas se) && match avs_get avs (argv_of c) with Some _ => true | None => false end
  | None => true
  end.
Definition call_wf (naddr nroles : N) (avs : list (argv * N)) (c : call) : bool :=
  authz_wf naddr avs c &&
  match c with
  | ScheduleOp _ _ p _ => in_upto naddr p
  | ExecuteOp _ x _ _ => match x with Some e => in_upto naddr e | None => true end
  | CancelOp _ k _ => in_upto naddr k
  | GrantRole a r k _ | RevokeRole a r k _ => in_upto naddr a && in_upto nroles r && in_upto naddr k
  | RenounceRole r k _ => in_upto nroles r && in_upto naddr k
  | SetRoleAdmin r ar _ => in_upto nroles r && in_upto nroles ar
  | TransferAdmin new _ _ => in_upto naddr new
  | CheckAuth metas _ _ => metas_wf naddr metas
  | UpdateDelay _ _ | AcceptAdmin _ | RenounceAdmin _ | Advance _ => true
  end.
Definition ob_count (o : obs) (r : role) : Z :=
  match alist_get r (o_cnt o) with Some n => n | None => 0 end.

(* ---------------- the role enumeration as the getters show it ---------------- *)
(* get_role_member(0 .. count-1) lists accounts of the observed universe, none twice; get_role_member_count is
   its length; has_role(account) is the position of the account in it (None when it is not enumerated).  So the
   accounts that pass ensure_role / only_role / the executor checks are exactly the enumerated ones, and every
   enumerated account is shown by has_role at the index at which get_role_member returns it. *)
Fixpoint nodupb (l : list N) : bool :=
  match l with [] => true | x :: r => negb (mem_n x r) && nodupb r end.
Definition enum_ok (naddr : N) (o : obs) : bool :=
  forallb (fun p => nodupb (snd p) && forallb (in_upto naddr) (snd p) && (ob_count o (fst p) =? Z.of_nat (length (snd p))))
          (o_mem o)
  && forallb (fun t => match alist_get (snd (fst t)) (o_mem o) with
                       | Some l => oz_eqb (snd t) (index_of (fst (fst t)) l 0)
                       | None => false
                       end) (o_has o).
(* the constructor's grants: every listed account once, in the order of its first appearance *)
Definition add_member (l : list N) (x : N) : list N := if mem_n x l then l else l ++ [x].
Definition dedup (l : list N) : list N := fold_left add_member l [].

Section Monitor.
  Variable hash : op -> id.
  Variable aid : argv -> N.
  Variable cf : cfg.

  Notation pairs_of := (pairs_of aid cf).

  (* one consumed pair: it names the controller, and - when executors are configured - an
     executor holding the role signed exactly ("execute_op", contract, fn, args, pred, salt),
     or the controller itself holds the role and is named (end-to-end calls only) *)
  Notation pair_op := (pair_op cf).
  Notation ops_of := (ops_of cf).
  Definition pair_ok (direct : bool) (xa : list (addr * op)) (before : obs) (p : ctx * meta) : bool :=
    match pair_op p with
    | None => false
    | Some o =>
        if ob_count before EXECUTOR =? 0 then true
        else match m_exec (snd p) with
             | Some x =>
                 (* the controller as executor needs no signature inside its own entry point (invoker-contract rule) *)
                 ob_has before x EXECUTOR && (if N.eqb x (self cf) then negb direct else xa_has xa x o)
             | None => false
             end
    end.
  (* role requirements of the call itself *)
  Definition role_ok (c : call) (before : obs) : bool :=
    match c with
    | ScheduleOp _ _ p _ => ob_has before p PROPOSER
    | CancelOp _ k _ => ob_has before k CANCELLER
    | ExecuteOp _ x _ _ =>
        if ob_count before EXECUTOR =? 0 then true
        else match x with Some e => ob_has before e EXECUTOR | None => false end
    | GrantRole _ r k _ | RevokeRole _ r k _ =>
        on_eqb (o_admin before) (Some k)
        || match alist_get r (o_radmin before) with
           | Some (Some ar) => ob_has before k ar
           | _ => false
           end
    | _ => true
    end.

  Notation tl_calls := (tl_calls cf).

  (* which ids may move, and how (C08's table, with "executed" = consumed or execute_op'ed) *)
  Definition trans_ok (c : call) (i : id) (executed : list id) (a b : opstate) : bool :=
    match a, b with
    | Unset, Unset | Waiting, Waiting | Ready, Ready | Done, Done => true
    | Unset, Waiting | Unset, Ready => match c with ScheduleOp o _ _ _ => N.eqb i (hash o) | _ => false end
    | Waiting, Ready => match c with Advance _ => true | _ => false end
    | Waiting, Unset | Ready, Unset => match c with CancelOp j _ _ => N.eqb i j | _ => false end
    | Ready, Done => existsb (N.eqb i) executed
    | _, _ => false
    end.
  Definition op_step_ok (c : call) (executed : list id) (before : obs) (p : id * opview) : bool :=
    let '(i, va) := p in
    match alist_get i (o_ops before) with
    | None => false
    | Some vb =>
        trans_ok c i executed (v_state vb) (v_state va)
        && (if existsb (N.eqb i) executed then opstate_eqb (v_state vb) Ready && opstate_eqb (v_state va) Done
            else match c with
                 | ScheduleOp o d _ _ =>
                     if N.eqb i (hash o) then opstate_eqb (v_state vb) Unset && (v_ledger va =? sat_add_u32 (o_now before) d)
                     else v_ledger va =? v_ledger vb
                 | CancelOp j _ _ =>
                     if N.eqb i j then v_pending vb && opstate_eqb (v_state va) Unset
                     else v_ledger va =? v_ledger vb
                 | _ => v_ledger va =? v_ledger vb
                 end)
    end.

  Definition has_eqb (x y : addr * role * option Z) : bool :=
    N.eqb (fst (fst x)) (fst (fst y)) && N.eqb (snd (fst x)) (snd (fst y)) && oz_eqb (snd x) (snd y).
  Definition roles_same (before after : obs) : bool :=
    list_eqb has_eqb (o_has before) (o_has after)
    && list_eqb (fun x y => N.eqb (fst x) (fst y) && (snd x =? snd y)) (o_cnt before) (o_cnt after)
    && list_eqb (fun x y => N.eqb (fst x) (fst y) && list_eqb N.eqb (snd x) (snd y)) (o_mem before) (o_mem after)
    && list_eqb N.eqb (o_existing before) (o_existing after).
  (* only the named (account, role) pair may change: every other (account, role) keeps its entry (inside the
     touched role: keeps holding / not holding it - swap-and-pop may renumber), the member count of the role
     moves by [delta], its enumeration and the list of existing roles change at most by the named item *)
  Definition held (v : option Z) : bool := match v with Some _ => true | None => false end.
  Definition has_same_except (r : role) (a : addr) (x y : addr * role * option Z) : bool :=
    N.eqb (fst (fst x)) (fst (fst y)) && N.eqb (snd (fst x)) (snd (fst y))
    && (if N.eqb (snd (fst x)) r
        then N.eqb (fst (fst x)) a || Bool.eqb (held (snd x)) (held (snd y))
        else oz_eqb (snd x) (snd y)).
  Definition set_same_except (a : N) (l1 l2 : list N) : bool :=
    forallb (fun x => N.eqb x a || mem_n x l2) l1 && forallb (fun x => N.eqb x a || mem_n x l1) l2.
  Definition roles_changed_only_at (r : role) (a : addr) (delta : Z) (before after : obs) : bool :=
    list_eqb (has_same_except r a) (o_has before) (o_has after)
    && list_eqb (fun x y => N.eqb (fst x) (fst y)
                            && (if N.eqb (fst x) r then snd y =? snd x + delta else snd x =? snd y)) (o_cnt before) (o_cnt after)
    && list_eqb (fun x y => N.eqb (fst x) (fst y)
                            && (if N.eqb (fst x) r then set_same_except a (snd x) (snd y) else list_eqb N.eqb (snd x) (snd y)))
                (o_mem before) (o_mem after)
    && set_same_except r (o_existing before) (o_existing after).
  Definition radmin_same (before after : obs) : bool :=
    list_eqb (fun x y => N.eqb (fst x) (fst y) && on_eqb (snd x) (snd y)) (o_radmin before) (o_radmin after).

  (* what a successful call may change outside the timelock *)
  Definition effects_ok (c : call) (before after : obs) : bool :=
    (match c with Advance n => (0 <=? n) && (o_now after =? o_now before + n) | _ => o_now after =? o_now before end)
    && (match c with UpdateDelay d _ => oz_eqb (o_min after) (Some d) | _ => oz_eqb (o_min after) (o_min before) end)
    && (match c with
        | AcceptAdmin _ => match o_admin after with Some _ => true | None => false end
        | RenounceAdmin _ => on_eqb (o_admin after) None
        | _ => on_eqb (o_admin after) (o_admin before)
        end)
    && (match c with
        | GrantRole a r _ _ => roles_changed_only_at r a (if ob_has before a r then 0 else 1) before after && ob_has after a r
        | RevokeRole a r _ _ => roles_changed_only_at r a (-1) before after && ob_has before a r && negb (ob_has after a r)
        | RenounceRole r k _ => roles_changed_only_at r k (-1) before after && ob_has before k r && negb (ob_has after k r)
        | _ => roles_same before after
        end)
    && (match c with
        | SetRoleAdmin r ar _ =>
            list_eqb (fun x y => N.eqb (fst x) (fst y) && (if N.eqb (fst x) r then on_eqb (snd y) (Some ar) else on_eqb (snd x) (snd y)))
                     (o_radmin before) (o_radmin after)
        | _ => radmin_same before after
        end)
    && list_eqb (fun x y => N.eqb (fst x) (fst y)
                            && (snd y =? snd x + match c with ExecuteOp o _ true _ => if N.eqb (fst x) (args o) then 1 else 0 | _ => 0 end))
                (o_runs before) (o_runs after).

  Definition same_keys {A B} (l1 : list (N * A)) (l2 : list (N * B)) : bool :=
    list_eqb N.eqb (map fst l1) (map fst l2).

  (* the pending admin offer as it follows from the observed successful transfer_admin_role calls
     (host rules for temporary entries, Lib/Host.v); there is no getter for it *)
  Definition pend_after (pend : option (tentry addr)) (now : Z) (c : call) : option (tentry addr) :=
    match c with
    | TransferAdmin new lu _ =>
        match transfer_role (hcfg cf) now pend new lu with
        | Ok p => p
        | Fail => Some {| tval := new; tlive := Z.max lu now |}
        end
    | AcceptAdmin _ => None
    | _ => pend
    end.

  Variables (ids : list id) (naddr nroles : N) (tags : list N) (avs : list (argv * N)).

  Definition obs_step_ok (pend : option (tentry addr)) (before : obs) (e : event) : option (list Timelock.call) :=
    let '(c, out, after) := e in
    if negb (obs_coherent after && obs_shape ids naddr nroles tags after && enum_ok naddr after && call_wf naddr nroles avs c) then None
    else match out with
         | Fail => if obs_eqb after before then Some [] else None
         | Ok r =>
             match pairs_of (o_admin before) (ob_count before EXECUTOR) (o_admin after) c with
             | None => None
             | Some pairs =>
                 let xa := a_exec (authz_of c) in
                 let executed := map hash (ops_of pairs)
                                 ++ match c with ExecuteOp o _ _ _ => [hash o] | _ => [] end in
                 if forallb (pair_ok (is_direct c) xa before) pairs
                    && role_ok c before
                    && same_keys (o_ops before) (o_ops after)
                    && forallb (op_step_ok c executed before) (o_ops after)
                    && effects_ok c before after
                    && (match c with
                        | AcceptAdmin _ =>
                            (* only the account a (still live) transfer_admin_role named becomes admin *)
                            match tget (o_now before) pend with
                            | Some pa => on_eqb (o_admin after) (Some pa)
                            | None => false
                            end
                        | _ => true
                        end)
                    && (match c with
                        | ScheduleOp o d _ _ =>
                            on_eqb r (Some (hash o)) && match o_min before with Some m => m <=? d | None => false end
                        | _ => on_eqb r None
                        end)
                 then Some (tl_calls c pairs) else None
             end
         end.

  Record mst := MS { m_prev : obs; m_ghost : ghost; m_pend : option (tentry addr) }.

  Definition mon_step (m : mst) (e : event) : option mst :=
    match obs_step_ok (m_pend m) (m_prev m) e with
    | Some tcs =>
        match gfeed hash (m_ghost m) (o_now (m_prev m)) (o_min (m_prev m)) tcs with
        | Some g => Some (MS (snd e) g
                            (if is_ok (snd (fst e)) then pend_after (m_pend m) (o_now (m_prev m)) (fst (fst e)) else m_pend m))
        | None => None
        end
    | None => None
    end.

  Fixpoint mon_from (m : mst) (evs : list event) (k : N) : N :=
    match evs with
    | [] => 0%N
    | e :: r => match mon_step m e with
                | Some m' => mon_from m' r (N.succ k)
                | None => N.succ k
                end
    end.
End Monitor.

(* the first observation: well-shaped, nothing scheduled, no target run, the constructor's minimum delay and
   admin, no role admins; the proposers given to the constructor (each once) are the proposers and the
   cancellers, the executors given are the executors, no other role has a member; the enumerations are coherent *)
Definition mem0_ok (h : header) : bool :=
  forallb (fun p => list_eqb N.eqb (snd p)
                      (if N.eqb (fst p) PROPOSER || N.eqb (fst p) CANCELLER then dedup (h_props h)
                       else if N.eqb (fst p) EXECUTOR then dedup (h_execs h) else []))
          (o_mem (h_obs0 h)).
Definition obs0_ok (h : header) : bool :=
  obs_coherent (h_obs0 h) && obs_shape (h_ids h) (h_naddr h) (h_nroles h) (h_tags h) (h_obs0 h)
  && forallb (in_upto (h_naddr h)) (h_props h ++ h_execs h)
  && enum_ok (h_naddr h) (h_obs0 h) && mem0_ok h
  && (o_now (h_obs0 h) =? h_now h)
  && oz_eqb (o_min (h_obs0 h)) (Some (h_min h))
  && on_eqb (o_admin (h_obs0 h)) (Some (match h_admin h with Some a => a | None => self (h_cfg h) end))
  && forallb (fun p => match snd p with None => true | Some _ => false end) (o_radmin (h_obs0 h))
  && forallb (fun p => v_ledger (snd p) =? 0) (o_ops (h_obs0 h))
  && forallb (fun p => snd p =? 0) (o_runs (h_obs0 h)).

Definition monitor (t : trace) : N :=
  let '(h, evs) := t in
  if tbl_ok (h_tbl h) && avs_ok (h_avs h) && tbl_in (h_ids h) (h_tbl h) && obs0_ok h && N.leb 3 (h_nroles h)
  then mon_from (hash_of (h_tbl h)) (aid_of (h_avs h)) (h_cfg h) (h_ids h) (h_naddr h) (h_nroles h) (h_tags h) (h_avs h)
                (MS (h_obs0 h) [] None) evs 0%N
  else 1%N.


Definition check (t : trace) : verdict := (diff t, monitor t, 0%N).
Definition check_all (ts : list trace) : list verdict := map check ts.

(* ---------------- the trace the model itself produces ---------------- *)
Section ModelTrace.
  Variable h : header.
  Fixpoint model_events (s : state) (cs : list call) : list event :=
    match cs with
    | [] => []
    | c :: r =>
        let '(s', out) := step (hash_of (h_tbl h)) (aid_of (h_avs h)) (h_cfg h) s c in
        (c, out, observe h s') :: model_events s' r
    end.
End ModelTrace.
(* header of a model run: everything is an input except the first observation *)
Definition model_header (cf : cfg) (n0 md : Z) (props execs : list addr) (adm : option addr)
    (ids : list id) (naddr nroles : N) (tags : list N) (tbl : list (op * id)) (avs : list (argv * N)) (s0 : state) : header :=
  Hdr9 cf n0 md props execs adm ids naddr nroles tags tbl avs UNSET_LEDGER DONE_LEDGER
       (observe_u ids naddr nroles tags s0).
Definition model_trace (cf : cfg) (n0 md : Z) (props execs : list addr) (adm : option addr)
    (ids : list id) (naddr nroles : N) (tags : list N) (tbl : list (op * id)) (avs : list (argv * N))
    (s0 : state) (cs : list call) : trace :=
  let h := model_header cf n0 md props execs adm ids naddr nroles tags tbl avs s0 in
  (h, model_events h s0 cs).

(* ---------------- the monitor rejects behaviours that violate the property ---------------- *)
Definition ex_cf : cfg := {| self := 1%N; hcfg := default_cfg 5000; max_roles := 256 |}.
Definition ex_opA := Op 1 10 5 0 0.          (* (controller, update_delay, [5]) *)
Definition ex_tbl := [(ex_opA, 1%N)].
Definition ex_avs := [(AV_u32 5, 5%N); (AV_u32 6, 6%N)].
(* proposer 2, executor 3, admin = the controller itself, min delay 2, ledger 100 *)
Definition ex_s0 : state :=
  match construct ex_cf 100 2 [2%N] [3%N] None with
  | Ok s => s
  | Fail => {| ctl := init_tl 0; acs := {| admin := None; pending := None; members := []; radmin := []; existing := [] |}; cruns := [] |}
  end.
Definition ex_hdr := model_header ex_cf 100 2 [2%N] [3%N] None [1%N] 4%N 3%N [1%N] ex_tbl ex_avs ex_s0.
Definition ex_obs (s : state) : obs := observe ex_hdr s.
Definition ex_run (cs : list call) : state := run (hash_of ex_tbl) (aid_of ex_avs) ex_cf ex_s0 cs.
Definition ex_events (cs : list call) : list event := model_events ex_hdr ex_s0 cs.

Definition ex_sched := ScheduleOp ex_opA 2 2 (AZ [2%N] None []).
Definition ex_self (metas : list meta) : option selfentry := Some (SE (CtxC 1 10 5) [] metas).
Definition ex_update := UpdateDelay 5 (AZ [] (ex_self [Meta 0 0 (Some 3%N)]) [(3%N, ex_opA)]).

(* the well-formed history: accepted, and equal to the model *)
Example ex_good : check (ex_hdr, ex_events [ex_sched; Advance 2; ex_update; ex_update]) = (0, 0, 0)%N
                  /\ map (fun e => is_ok (snd (fst e))) (ex_events [ex_sched; Advance 2; ex_update; ex_update]) = [true; true; true; false]
                  /\ min_delay (ctl (ex_run [ex_sched; Advance 2; ex_update])) = Some 5.
Proof. vm_compute. repeat split. Qed.

(* the state after update_delay(5) took effect WITHOUT anything being consumed *)
Definition ex_unconsumed (s : state) : state :=
  with_ctl s {| now := now (ctl s); min_delay := Some 5; marks := marks (ctl s) |}.
(* F3: the empty descriptor list let update_delay through *)
Example ex_bad_F3 :
  monitor (ex_hdr, ex_events [ex_sched; Advance 2]
                   ++ [(UpdateDelay 5 (AZ [] (ex_self []) []), OkN, ex_obs (ex_unconsumed (ex_run [ex_sched; Advance 2])))]) = 3%N.
Proof. vm_compute. reflexivity. Qed.
(* no authorisation for the controller at all *)
Example ex_bad_no_self_entry :
  monitor (ex_hdr, ex_events [ex_sched; Advance 2]
                   ++ [(UpdateDelay 5 (AZ [] None []), OkN, ex_obs (ex_unconsumed (ex_run [ex_sched; Advance 2])))]) = 3%N.
Proof. vm_compute. reflexivity. Qed.
(* a descriptor is attached but the operation stays Ready (not consumed) *)
Example ex_bad_not_consumed :
  monitor (ex_hdr, ex_events [ex_sched; Advance 2]
                   ++ [(ex_update, OkN, ex_obs (ex_unconsumed (ex_run [ex_sched; Advance 2])))]) = 3%N.
Proof. vm_compute. reflexivity. Qed.
(* consumed one ledger before it was ready *)
Example ex_bad_early :
  monitor (ex_hdr, ex_events [ex_sched; Advance 1]
                   ++ [(ex_update, OkN, ex_obs (ex_run [ex_sched; Advance 2; ex_update; Advance 0]))]) <> 0%N
  /\ monitor (ex_hdr, ex_events [ex_sched; Advance 1]
                   ++ [(ex_update, OkN,
                        ex_obs (with_ctl (ex_run [ex_sched; Advance 1])
                                  {| now := 101; min_delay := Some 5; marks := [(1%N, 1)] |}))]) = 3%N.
Proof. vm_compute. split; [discriminate|reflexivity]. Qed.
(* executors are configured but no executor signed *)
Example ex_bad_no_executor_signature :
  monitor (ex_hdr, ex_events [ex_sched; Advance 2]
                   ++ [(UpdateDelay 5 (AZ [] (ex_self [Meta 0 0 (Some 3%N)]) []), OkN, ex_obs (ex_run [ex_sched; Advance 2; ex_update]))]) = 3%N.
Proof. vm_compute. reflexivity. Qed.
(* the executor named does not hold the role *)
Example ex_bad_executor_without_role :
  monitor (ex_hdr, ex_events [ex_sched; Advance 2]
                   ++ [(UpdateDelay 5 (AZ [] (ex_self [Meta 0 0 (Some 4%N)]) [(4%N, ex_opA)]), OkN, ex_obs (ex_run [ex_sched; Advance 2; ex_update]))]) = 3%N.
Proof. vm_compute. reflexivity. Qed.
(* the operation consumed is for other arguments than the call made (update_delay(6) on an operation for 5) *)
Example ex_bad_other_arguments :
  monitor (ex_hdr, ex_events [ex_sched; Advance 2]
                   ++ [(UpdateDelay 6 (AZ [] (ex_self [Meta 0 0 (Some 3%N)]) [(3%N, ex_opA)]), OkN,
                        ex_obs (with_ctl (ex_run [ex_sched; Advance 2; ex_update])
                                  {| now := 102; min_delay := Some 6; marks := [(1%N, 1)] |}))]) = 3%N.
Proof. vm_compute. reflexivity. Qed.
(* scheduled by an account without the proposer role / without its signature *)
Example ex_bad_schedule_without_role :
  monitor (ex_hdr, [(ScheduleOp ex_opA 2 4 (AZ [4%N] None []), OkI 1, ex_obs (ex_run [ex_sched]))]) = 1%N.
Proof. vm_compute. reflexivity. Qed.
Example ex_bad_schedule_without_signature :
  monitor (ex_hdr, [(ScheduleOp ex_opA 2 2 (AZ [] None []), OkI 1, ex_obs (ex_run [ex_sched]))]) = 1%N.
Proof. vm_compute. reflexivity. Qed.
(* the minimum delay, a role or the admin change in a call that is not entitled to it *)
Example ex_bad_silent_delay_change :
  monitor (ex_hdr, [(Advance 0, OkN, ex_obs (ex_unconsumed ex_s0))]) = 1%N.
Proof. vm_compute. reflexivity. Qed.
Example ex_bad_silent_role_change :
  monitor (ex_hdr, [(Advance 0, OkN,
     ex_obs (with_acs ex_s0 {| admin := admin (acs ex_s0); pending := None; members := [(1%N, [2%N; 4%N]); (3%N, [2%N]); (2%N, [3%N])];
                               radmin := []; existing := existing (acs ex_s0) |}))]) = 1%N.
Proof. vm_compute. reflexivity. Qed.
Example ex_bad_silent_admin_change :
  monitor (ex_hdr, [(Advance 0, OkN,
     ex_obs (with_acs ex_s0 {| admin := Some 4%N; pending := None; members := members (acs ex_s0);
                               radmin := []; existing := existing (acs ex_s0) |}))]) = 1%N.
Proof. vm_compute. reflexivity. Qed.
(* __check_auth itself: fewer descriptors than contexts accepted *)
Example ex_bad_check_auth_short :
  monitor (ex_hdr, ex_events [ex_sched; Advance 2]
                   ++ [(CheckAuth [] [CtxC 1 10 5] [], OkN, ex_obs (ex_run [ex_sched; Advance 2]))]) = 3%N.
Proof. vm_compute. reflexivity. Qed.

(* ---------------- review findings: formerly accepted, now rejected ---------------- *)
(* admin changes hands through accept_admin_transfer although no transfer was ever made *)
Example ex_bad_accept_without_offer :
  monitor (ex_hdr, [(AcceptAdmin (AZ [4%N] None []), OkN,
     ex_obs (with_acs ex_s0 {| admin := Some 4%N; pending := None; members := members (acs ex_s0); radmin := []; existing := existing (acs ex_s0) |}))]) = 1%N.
Proof. vm_compute. reflexivity. Qed.
(* transfer_admin_role(4) is scheduled, waited for and consumed; then account 2, which was NOT named, becomes admin *)
Definition rv_opT := Op 1 14 7 0 0.
Definition rv_tblB := [(ex_opA, 1%N); (rv_opT, 2%N)].
Definition rv_avsB := [(AV_u32 5, 5%N); (AV_u32 6, 6%N); (AV_transfer 4%N 5000, 7%N)].
Definition rv_hdrB := model_header ex_cf 100 2 [2%N] [3%N] None [1%N; 2%N] 4%N 3%N [1%N] rv_tblB rv_avsB ex_s0.
Definition rv_schedT := ScheduleOp rv_opT 2 2 (AZ [2%N] None []).
Definition rv_doT := TransferAdmin 4 5000 (AZ [] (Some (SE (CtxC 1 14 7) [] [Meta 0 0 (Some 3%N)])) [(3%N, rv_opT)]).
Definition rv_sB (cs : list call) := run (hash_of rv_tblB) (aid_of rv_avsB) ex_cf ex_s0 cs.
Definition rv_admin_is (s : state) (a : addr) : state :=
  with_acs s {| admin := Some a; pending := None; members := members (acs s); radmin := radmin (acs s); existing := existing (acs s) |}.
Example ex_bad_accept_by_unnamed_account :
  monitor (rv_hdrB, model_events rv_hdrB ex_s0 [rv_schedT; Advance 2; rv_doT]
                    ++ [(AcceptAdmin (AZ [2%N] None []), OkN, observe rv_hdrB (rv_admin_is (rv_sB [rv_schedT; Advance 2; rv_doT]) 2%N))]) = 4%N
  /\ (* the named account is accepted ... *)
  check (rv_hdrB, model_events rv_hdrB ex_s0 [rv_schedT; Advance 2; rv_doT; AcceptAdmin (AZ [4%N] None [])]) = (0, 0, 0)%N
  /\ (* ... but not after its offer has expired *)
  monitor (rv_hdrB, model_events rv_hdrB ex_s0 [rv_schedT; Advance 2; rv_doT; Advance 4900]
                    ++ [(AcceptAdmin (AZ [4%N] None []), OkN, observe rv_hdrB (rv_admin_is (rv_sB [rv_schedT; Advance 2; rv_doT; Advance 4900]) 4%N))]) = 5%N.
Proof. vm_compute. repeat split. Qed.
(* a consuming grant_role also changes another membership of the same role *)
Definition rv_opG := Op 1 11 8 0 0.
Definition rv_opP := Op 1 11 9 0 0.
Definition rv_tbl2 := [(ex_opA, 1%N); (rv_opG, 2%N); (rv_opP, 3%N)].
Definition rv_avs2 := [(AV_u32 5, 5%N); (AV_u32 6, 6%N); (AV_role 4%N 2%N 1%N, 8%N); (AV_role 4%N 1%N 1%N, 9%N)].
Definition rv_hdr2 := model_header ex_cf 100 2 [2%N] [3%N] None [1%N; 2%N; 3%N] 4%N 3%N [1%N] rv_tbl2 rv_avs2 ex_s0.
Definition rv_run2 := run (hash_of rv_tbl2) (aid_of rv_avs2) ex_cf ex_s0.
Definition rv_sched (o : op) := ScheduleOp o 2 2 (AZ [2%N] None []).
Definition rv_selfau (c : ctx) (o : op) := AZ [] (Some (SE c [] [Meta (pred o) (salt o) (Some 3%N)])) [(3%N, o)].
Definition rv_grantG := GrantRole 4 2 1 (rv_selfau (CtxC 1 11 8) rv_opG).
Definition rv_grantP := GrantRole 4 1 1 (rv_selfau (CtxC 1 11 9) rv_opP).
Definition rv_pre := [rv_sched rv_opG; rv_sched rv_opP; Advance 2].
Definition rv_members (s : state) (m : list (role * list addr)) : state :=
  with_acs s {| admin := admin (acs s); pending := None; members := m; radmin := []; existing := existing (acs s) |}.
Example ex_bad_collateral_grant :
  check (rv_hdr2, model_events rv_hdr2 ex_s0 (rv_pre ++ [rv_grantG; rv_grantP])) = (0, 0, 0)%N
  /\ (* grant_role(4, EXECUTOR) also makes account 2 an executor *)
  monitor (rv_hdr2, model_events rv_hdr2 ex_s0 rv_pre
      ++ [(rv_grantG, OkN, observe rv_hdr2 (rv_members (rv_run2 (rv_pre ++ [rv_grantG])) [(1%N, [2%N]); (3%N, [2%N]); (2%N, [3%N; 4%N; 2%N])]))]) = 4%N
  /\ (* grant_role(4, PROPOSER) also removes the only legitimate proposer *)
  monitor (rv_hdr2, model_events rv_hdr2 ex_s0 rv_pre
      ++ [(rv_grantP, OkN, observe rv_hdr2 (rv_members (rv_run2 (rv_pre ++ [rv_grantP])) [(1%N, [4%N]); (3%N, [2%N]); (2%N, [3%N])]))]) = 4%N.
Proof. vm_compute. repeat split. Qed.
(* accounts / roles outside the observed universe do not count as holding a role: the call is malformed *)
Example ex_bad_outside_universe :
  monitor (rv_hdr2, [(ScheduleOp rv_opG 2 9 (AZ [9%N] None []), OkI 2, observe rv_hdr2 (rv_run2 [rv_sched rv_opG]))]) = 1%N
  /\ monitor (ex_hdr, [(GrantRole 4 9 2 (AZ [2%N] None []), OkN, ex_obs ex_s0)]) = 1%N.
Proof. vm_compute. split; reflexivity. Qed.
(* observations without the role getters (executors configured would silently read as "none") *)
Definition rv_strip (o : obs) : obs := Obs9 (o_now o) (o_min o) (o_ops o) (o_admin o) [] [] [] [] (o_existing o) (o_runs o).
Example ex_bad_stripped_observation :
  monitor (Hdr9 ex_cf 100 2 [2%N] [3%N] None [1%N] 4%N 3%N [1%N] ex_tbl ex_avs 0 1 (rv_strip (ex_obs ex_s0)), []) = 1%N
  /\ monitor (ex_hdr, [(Advance 0, OkN, rv_strip (ex_obs ex_s0))]) = 1%N.
Proof. vm_compute. split; reflexivity. Qed.
(* an authorisation of the controller for a call whose argument vector is not in the measured table *)
Example ex_bad_unknown_argument_vector :
  let opZ := Op 1 10 1000000 0 0 in
  monitor (Hdr9 ex_cf 100 2 [2%N] [3%N] None [1%N] 4%N 3%N [1%N] [(opZ, 1%N)] ex_avs 0 1 (ex_obs ex_s0),
     [(UpdateDelay 7 (AZ [] (Some (SE (CtxC 1 10 1000000) [] [Meta 0 0 (Some 3%N)])) [(3%N, opZ)]), Bad, ex_obs ex_s0)]) = 1%N.
Proof. vm_compute. reflexivity. Qed.
(* a getter trapped *)
Example ex_bad_trapping_getter :
  monitor (ex_hdr, [(Advance 0, OkN,
     Obs9 100 (Some 2) [(1%N, OV9 0 Unset false false false false true)] (o_admin (ex_obs ex_s0)) (o_has (ex_obs ex_s0))
          (o_cnt (ex_obs ex_s0)) (o_mem (ex_obs ex_s0)) (o_radmin (ex_obs ex_s0)) (o_existing (ex_obs ex_s0)) (o_runs (ex_obs ex_s0)))]) = 1%N.
Proof. vm_compute. reflexivity. Qed.

(* ---------------- role enumerations: four executors, swap-and-pop ---------------- *)
(* proposer 2, executors 3 4 5 6, external admin 7 (revokes directly) *)
Definition en_s0 : state :=
  match construct ex_cf 100 2 [2%N] [3%N; 4%N; 5%N; 6%N] (Some 7%N) with Ok s => s | Fail => ex_s0 end.
Definition en_hdr := model_header ex_cf 100 2 [2%N] [3%N; 4%N; 5%N; 6%N] (Some 7%N) [] 7%N 3%N [] [] [] en_s0.
Definition en_rev (a : addr) := RevokeRole a 2 7 (AZ [7%N] None []).
Arguments en_rev _%N_scope.
Definition en_run (cs : list call) := run (hash_of []) (aid_of []) ex_cf en_s0 cs.
Definition en_obs (cs : list call) : obs := observe en_hdr (en_run cs).
Definition set_has (o : obs) (a : addr) (r : role) (v : option Z) : obs :=
  Obs9 (o_now o) (o_min o) (o_ops o) (o_admin o)
       (map (fun t => if N.eqb (fst (fst t)) a && N.eqb (snd (fst t)) r then (a, r, v) else t) (o_has o))
       (o_cnt o) (o_mem o) (o_radmin o) (o_existing o) (o_runs o).
Arguments set_has _ _%N_scope _%N_scope _.
Example ex_enum_good :
  check (en_hdr, model_events en_hdr en_s0 [en_rev 4; en_rev 6; en_rev 5; en_rev 3]) = (0, 0, 0)%N
  /\ mem_list (acs (en_run [en_rev 4])) 2%N = [3; 6; 5]%N
  /\ mem_list (acs (en_run [en_rev 4; en_rev 6; en_rev 5])) 2%N = [3%N].
Proof. vm_compute. repeat split. Qed.
(* the account moved into the vacated slot keeps a stale index: has_role(6) = Some 2 although get_role_member(1) = 6 *)
Example ex_bad_stale_index :
  monitor (en_hdr, [(en_rev 4, OkN, set_has (en_obs [en_rev 4]) 6 2 (Some 2))]) = 1%N.
Proof. vm_compute. reflexivity. Qed.
(* ... which two revocations later lets the revoked executor 6 hold the role again *)
Example ex_bad_revoked_holds_again :
  monitor (en_hdr, model_events en_hdr en_s0 [en_rev 4; en_rev 6]
                   ++ [(en_rev 5, OkN, set_has (en_obs [en_rev 4; en_rev 6; en_rev 5]) 6 2 (Some 0))]) = 3%N.
Proof. vm_compute. reflexivity. Qed.
(* a revocation that reports success and leaves the account a member *)
Example ex_bad_revoke_without_effect :
  monitor (en_hdr, [(en_rev 4, OkN, en_obs [])]) = 1%N.
Proof. vm_compute. reflexivity. Qed.
(* the constructor made an account an executor that was not in its list *)
Example ex_bad_initial_membership :
  monitor (Hdr9 ex_cf 100 2 [2%N] [3%N; 4%N; 5%N] (Some 7%N) [] 7%N 3%N [] [] [] 0 1 (en_obs []), []) = 1%N
  /\ monitor (en_hdr, []) = 0%N.
Proof. vm_compute. split; reflexivity. Qed.

(* small runs for the non-vacuity Examples of Properties/C09.v *)
Definition nv_opE := Op 1 11 8 0 0.                      (* grant_role(controller, EXECUTOR, controller) *)
Definition nv_tbl := [(ex_opA, 1%N); (nv_opE, 2%N)].
Definition nv_avs := [(AV_u32 5, 5%N); (AV_role 1%N 2%N 1%N, 8%N)].
Definition nv_run (execs : list addr) (cs : list call) : list bool :=
  match construct ex_cf 100 2 [2%N] execs None with
  | Ok s0 => map (fun e => is_ok (snd (fst e)))
               (model_events (model_header ex_cf 100 2 [2%N] execs None [1%N; 2%N] 4%N 3%N [1%N] nv_tbl nv_avs s0) s0 cs)
  | Fail => []
  end.
