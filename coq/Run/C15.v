(* C15: trace type, observation of the model, trace checker (model vs implementation)
   and monitor (the property as a boolean over the implementation's observations only). *)
From SC Require Import Lib.Prelude Lib.Int Lib.Host Model.ClaimIssuer Model.Identity.

(* ------------------------------------------------------------------------- *)
(* header of a trace: environment, constants of the code, contracts, universe *)
(* ------------------------------------------------------------------------- *)
Definition sigrec := (Z * bytes * bytes * bytes * Z)%type.   (* scheme, public key, message, signature, recovery id *)

Record hdr := HDR {
  h_net : bytes;                          (* network id *)
  h_now0 : Z;                             (* ledger timestamp at the start *)
  h_xdr : list (addr * bytes);            (* Address::to_xdr of every address of the trace *)
  h_sigs : list sigrec;                   (* the signature oracle: every genuine signature the harness produced *)
  h_max_topics : Z; h_max_issuers : Z; h_max_keys : Z; h_max_regs : Z; h_max_countries : Z;
  h_ctis : list addr; h_irss : list addr; h_idents : list addr; h_issuers : list addr;  (* registered contracts *)
  h_accounts : list addr;                 (* observation universe: accounts *)
  h_iaddrs : list addr;                   (*   addresses used as (claim / trusted) issuers *)
  h_topics : list Z;                      (*   topics *)
  h_keys : list skey;                     (*   signing keys *)
  h_revq : list rkey;                     (*   (identity, topic, data) whose revocation flag is observed *)
  h_foreign : list (addr * list Z)        (* foreign issuer contracts (not built from the library): address and the
                                             scheme numbers for which this mock's is_claim_valid returns the unit
                                             value; for every other scheme it returns a non-unit value or traps *)
}.

Definition sigrec_eqb (a b : sigrec) : bool :=
  let '(s1, p1, m1, g1, r1) := a in let '(s2, p2, m2, g2, r2) := b in
  (s1 =? s2) && bytes_eqb p1 p2 && bytes_eqb m1 m2 && bytes_eqb g1 g2 && (r1 =? r2).
Definition sig_table (tab : list sigrec) (scheme : Z) (pk msg sg : bytes) (rid : Z) : bool :=
  existsb (sigrec_eqb (scheme, pk, msg, sg, rid)) tab.
Definition xdr_table (tab : list (addr * bytes)) (a : addr) : bytes :=
  match aget N.eqb a tab with Some b => b | None => [] end.

(* the mock foreign issuers of the harness answer by scheme number only *)
Definition foreign_confirms (tab : list (addr * list Z)) (i : addr) (scheme : Z) : bool :=
  match aget N.eqb i tab with Some l => mem_z scheme l | None => false end.

Definition cfg_of (h : hdr) : cfg :=
  {| c_net := h_net h; c_xdr := xdr_table (h_xdr h); c_sigok := sig_table (h_sigs h);
     c_other := fun i _ _ scheme _ _ => foreign_confirms (h_foreign h) i scheme;
     c_max_topics := h_max_topics h; c_max_issuers := h_max_issuers h; c_max_keys := h_max_keys h;
     c_max_regs := h_max_regs h; c_max_countries := h_max_countries h |}.
Definition init_of (h : hdr) : world := init (h_now0 h) (h_ctis h) (h_irss h) (h_idents h) (h_issuers h).

(* ------------------------------------------------------------------------- *)
(* observations (positional: aligned with the universe lists of the header)   *)
(* ------------------------------------------------------------------------- *)
Inductive rb := T | F | X.                (* Ok true | Ok false | Fail *)
Definition rb_of (r : res bool) : rb := match r with Ok true => T | Ok false => F | Fail => X end.

Record cti_obs := CO {
  co_topics : list Z;                     (* get_claim_topics *)
  co_issuers : list addr;                 (* get_trusted_issuers *)
  co_tissuers : list (res (list addr));   (* get_claim_topic_issuers t, t in h_topics *)
  co_itopics : list (res (list Z));       (* get_trusted_issuer_claim_topics i, i in h_iaddrs *)
  co_map : res (list (Z * list addr));    (* get_claim_topics_and_issuers *)
  co_trusted : list bool;                 (* is_trusted_issuer i *)
  co_has : list (list rb)                 (* has_claim_topic i t *)
}.
Record irs_obs := IO {
  io_stored : list (res addr);            (* stored_identity a, a in h_accounts *)
  io_recovered : list (option addr)       (* get_recovered_to a *)
}.
(* a claim held under id (i, t) together with what issuer i answers about it *)
Record cdetail := CD {
  cd_claim : claim;                       (* get_claim (id i t) *)
  cd_confirmed : bool;                    (* i.is_claim_valid(identity, t, scheme, sig, data) succeeded *)
  cd_info : option (option bool * bool * Z)
    (* for a reference issuer i: is_key_allowed_for_topic(pk of sig, scheme, t) (None: sig layout wrong),
       is_claim_revoked(identity, t, data), get_current_nonce_for(identity, t) *)
}.
Record ident_obs := DO {
  do_ids : list (list cid);               (* get_claim_ids_by_topic t, t in h_topics *)
  do_claims : list (list (option cdetail))(* per i in h_iaddrs, per t in h_topics *)
}.
Record issuer_obs := SO {
  so_keys : list (res (list skey));       (* get_keys_for_topic t *)
  so_regs : list (res (list addr));       (* get_registries k, k in h_keys *)
  so_nonce : list (list Z);               (* get_current_nonce_for d t, d in h_idents, t in h_topics *)
  so_revoked : list (rkey * bool)         (* (q, is_claim_revoked q), q in h_revq (the harness adds queries as the trace goes) *)
}.
Record ver_obs := VO {
  vo_cti : option addr; vo_irs : option addr;
  vo_verify : list bool                   (* verify_identity a succeeded, a in h_accounts *)
}.
Record obs := OBS {
  o_now : Z;
  o_ctis : list cti_obs; o_irss : list irs_obs; o_idents : list ident_obs; o_issuers : list issuer_obs;
  o_ver : ver_obs
}.

Definition item := (call * outcome * obs)%type.
Definition trace := (hdr * list item)%type.
(* a trace is printed as [with_blobs table (fun b => (header, items))]: byte strings are shared
   through the table, [b k] is its k-th entry *)
Definition with_blobs {A} (tab : list bytes) (f : (Z -> bytes) -> A) : A := f (bx tab).

(* ---------------- the model's observation ---------------- *)
Definition opt_of_res {A} (r : res A) : option A := match r with Ok a => Some a | Fail => None end.

Definition observe_cti (h : hdr) (s : cti) : cti_obs :=
  {| co_topics := ct_topics s; co_issuers := ct_issuers s;
     co_tissuers := map (get_claim_topic_issuers s) (h_topics h);
     co_itopics := map (get_trusted_issuer_claim_topics s) (h_iaddrs h);
     co_map := get_claim_topics_and_issuers s;
     co_trusted := map (is_trusted_issuer s) (h_iaddrs h);
     co_has := map (fun i => map (fun t => rb_of (has_claim_topic s i t)) (h_topics h)) (h_iaddrs h) |}.
Definition observe_irs (h : hdr) (s : irs) : irs_obs :=
  {| io_stored := map (stored_identity s) (h_accounts h);
     io_recovered := map (get_recovered_to s) (h_accounts h) |}.
Definition observe_cell (c : cfg) (w : world) (d : addr) (s : ident) (i : addr) (t : Z) : option cdetail :=
  match get_claim s (i, t) with
  | Fail => None
  | Ok cl =>
      Some {| cd_claim := cl;
              cd_confirmed := is_ok (call_is_claim_valid c w i d t (cl_scheme cl) (cl_sig cl) (cl_data cl));
              cd_info := match the_issuer w i with
                         | Fail => None
                         | Ok si =>
                             Some (match extract_sig (cl_scheme cl) (cl_sig cl) with
                                   | Ok sd => Some (is_key_allowed_for_topic si (sd_pk sd) (cl_scheme cl) t)
                                   | Fail => None
                                   end,
                                   is_claim_revoked si d t (cl_data cl),
                                   get_current_nonce_for si d t)
                         end |}
  end.
Definition observe_ident (h : hdr) (c : cfg) (w : world) (d : addr) (s : ident) : ident_obs :=
  {| do_ids := map (get_claim_ids_by_topic s) (h_topics h);
     do_claims := map (fun i => map (observe_cell c w d s i) (h_topics h)) (h_iaddrs h) |}.
Definition observe_issuer (h : hdr) (s : issuer) : issuer_obs :=
  {| so_keys := map (get_keys_for_topic s) (h_topics h);
     so_regs := map (get_registries s) (h_keys h);
     so_nonce := map (fun d => map (get_current_nonce_for s d) (h_topics h)) (h_idents h);
     so_revoked := map (fun q : rkey => (q, is_claim_revoked s (fst (fst q)) (snd (fst q)) (snd q))) (h_revq h) |}.

Definition get_or {S} (d : S) (a : addr) (l : list (addr * S)) : S :=
  match aget N.eqb a l with Some s => s | None => d end.

Definition observe (h : hdr) (w : world) : obs :=
  let c := cfg_of h in
  {| o_now := w_now w;
     o_ctis := map (fun a => observe_cti h (get_or cti0 a (w_ctis w))) (h_ctis h);
     o_irss := map (fun a => observe_irs h (get_or irs0 a (w_irss w))) (h_irss h);
     o_idents := map (fun a => observe_ident h c w a (get_or ident0 a (w_idents w))) (h_idents h);
     o_issuers := map (fun a => observe_issuer h (get_or issuer0 a (w_issuers w))) (h_issuers h);
     o_ver := {| vo_cti := w_vcti w; vo_irs := w_virs w;
                 vo_verify := map (fun a => is_ok (verify_identity c w a)) (h_accounts h) |} |}.

(* ---------------- boolean equalities ---------------- *)
Definition opt_eqb {A} (e : A -> A -> bool) (a b : option A) : bool :=
  match a, b with Some x, Some y => e x y | None, None => true | _, _ => false end.
Definition res_eqb {A} (e : A -> A -> bool) (a b : res A) : bool :=
  match a, b with Ok x, Ok y => e x y | Fail, Fail => true | _, _ => false end.
Definition pair_eqb {A B} (ea : A -> A -> bool) (eb : B -> B -> bool) (a b : A * B) : bool :=
  ea (fst a) (fst b) && eb (snd a) (snd b).
Definition rb_eqb (a b : rb) : bool :=
  match a, b with T, T | F, F | X, X => true | _, _ => false end.

Definition cti_obs_eqb (a b : cti_obs) : bool :=
  list_eqb Z.eqb (co_topics a) (co_topics b) && list_eqb N.eqb (co_issuers a) (co_issuers b)
  && list_eqb (res_eqb (list_eqb N.eqb)) (co_tissuers a) (co_tissuers b)
  && list_eqb (res_eqb (list_eqb Z.eqb)) (co_itopics a) (co_itopics b)
  && res_eqb (list_eqb (pair_eqb Z.eqb (list_eqb N.eqb))) (co_map a) (co_map b)
  && list_eqb Bool.eqb (co_trusted a) (co_trusted b)
  && list_eqb (list_eqb rb_eqb) (co_has a) (co_has b).
Definition irs_obs_eqb (a b : irs_obs) : bool :=
  list_eqb (res_eqb N.eqb) (io_stored a) (io_stored b)
  && list_eqb (opt_eqb N.eqb) (io_recovered a) (io_recovered b).
Definition info_eqb (a b : option bool * bool * Z) : bool :=
  opt_eqb Bool.eqb (fst (fst a)) (fst (fst b)) && Bool.eqb (snd (fst a)) (snd (fst b)) && (snd a =? snd b).
Definition cdetail_eqb (a b : cdetail) : bool :=
  claim_eqb (cd_claim a) (cd_claim b) && Bool.eqb (cd_confirmed a) (cd_confirmed b)
  && opt_eqb info_eqb (cd_info a) (cd_info b).
Definition ident_obs_eqb (a b : ident_obs) : bool :=
  list_eqb (list_eqb cid_eqb) (do_ids a) (do_ids b)
  && list_eqb (list_eqb (opt_eqb cdetail_eqb)) (do_claims a) (do_claims b).
Definition issuer_obs_eqb (a b : issuer_obs) : bool :=
  list_eqb (res_eqb (list_eqb skey_eqb)) (so_keys a) (so_keys b)
  && list_eqb (res_eqb (list_eqb N.eqb)) (so_regs a) (so_regs b)
  && list_eqb (list_eqb Z.eqb) (so_nonce a) (so_nonce b)
  && list_eqb (pair_eqb rkey_eqb Bool.eqb) (so_revoked a) (so_revoked b).
Definition ver_obs_eqb (a b : ver_obs) : bool :=
  opt_eqb N.eqb (vo_cti a) (vo_cti b) && opt_eqb N.eqb (vo_irs a) (vo_irs b)
  && list_eqb Bool.eqb (vo_verify a) (vo_verify b).
Definition obs_eqb (a b : obs) : bool :=
  (o_now a =? o_now b) && list_eqb cti_obs_eqb (o_ctis a) (o_ctis b)
  && list_eqb irs_obs_eqb (o_irss a) (o_irss b) && list_eqb ident_obs_eqb (o_idents a) (o_idents b)
  && list_eqb issuer_obs_eqb (o_issuers a) (o_issuers b) && ver_obs_eqb (o_ver a) (o_ver b).

Definition oval_eqb (a b : oval) : bool :=
  match a, b with
  | VUnit, VUnit => true
  | VBool x, VBool y => Bool.eqb x y
  | VBytes x, VBytes y => bytes_eqb x y
  | VCid x, VCid y => cid_eqb x y
  | VSig p s r, VSig p' s' r' => bytes_eqb p p' && bytes_eqb s s' && (r =? r')
  | VDec c v p, VDec c' v' p' => (c =? c') && (v =? v') && bytes_eqb p p'
  | VOptAddr x, VOptAddr y => opt_eqb N.eqb x y
  | _, _ => false
  end.
Definition outcome_eqb : outcome -> outcome -> bool := res_eqb oval_eqb.

(* ------------------------------------------------------------------------- *)
(* diff: replay through the model                                             *)
(* ------------------------------------------------------------------------- *)
(* the revocation queries of an observation are the ones the harness knew at that point of the
   trace (a prefix of h_revq): the model is asked exactly those *)
Definition revq_of (o : obs) : list rkey :=
  match o_issuers o with so :: _ => map fst (so_revoked so) | [] => [] end.
Definition set_revq (h : hdr) (q : list rkey) : hdr :=
  {| h_net := h_net h; h_now0 := h_now0 h; h_xdr := h_xdr h; h_sigs := h_sigs h;
     h_max_topics := h_max_topics h; h_max_issuers := h_max_issuers h; h_max_keys := h_max_keys h;
     h_max_regs := h_max_regs h; h_max_countries := h_max_countries h;
     h_ctis := h_ctis h; h_irss := h_irss h; h_idents := h_idents h; h_issuers := h_issuers h;
     h_accounts := h_accounts h; h_iaddrs := h_iaddrs h; h_topics := h_topics h; h_keys := h_keys h;
     h_revq := q; h_foreign := h_foreign h |}.
Fixpoint diff_from (h : hdr) (w : world) (l : list item) (i : N) : N :=
  match l with
  | [] => 0%N
  | (k, out, o) :: r =>
      let '(w', out') := step (cfg_of h) w k in
      if outcome_eqb out' out && obs_eqb (observe (set_revq h (revq_of o)) w') o
      then diff_from h w' r (N.succ i) else N.succ i
  end.

(* ------------------------------------------------------------------------- *)
(* the monitor: C15 over the implementation's observations                    *)
(* ------------------------------------------------------------------------- *)
(* value observed for key k in a list aligned with the universe list ks *)
Definition at_key {K V} (e : K -> K -> bool) (k : K) (ks : list K) (vs : list V) : option V :=
  aget e k (combine ks vs).

(* ---- ghost state: what the successful calls of the trace so far have established at the issuers.
   "Key currently allowed for the topic", "current nonce", "revoked" are read off this history,
   not off the implementation's getters (the getters are checked against it). ---- *)
Definition grant := (addr * skey * Z * addr)%type.        (* issuer, key, topic, registry *)
Definition grant_eqb (a b : grant) : bool :=
  let '(i1, k1, t1, r1) := a in let '(i2, k2, t2, r2) := b in
  N.eqb i1 i2 && skey_eqb k1 k2 && (t1 =? t2) && N.eqb r1 r2.
Definition gkey := (addr * addr * Z)%type.                 (* issuer, identity, topic *)
Definition gkey_eqb (a b : gkey) : bool :=
  N.eqb (fst (fst a)) (fst (fst b)) && N.eqb (snd (fst a)) (snd (fst b)) && (snd a =? snd b).
Definition rgkey := (addr * rkey)%type.                    (* issuer, (identity, topic, data) *)
Definition rgkey_eqb (a b : rgkey) : bool := N.eqb (fst a) (fst b) && rkey_eqb (snd a) (snd b).
Record ghost := GH {
  g_grants : list grant;                  (* authorisations granted by allow_key and not removed *)
  g_nonce : list (gkey * Z);              (* number of successful invalidate_claim_signatures *)
  g_rev : list (rgkey * bool)             (* last successful set_claim_revoked *)
}.
Definition ghost0 : ghost := GH [] [] [].
Definition gnonce (g : ghost) (i d : addr) (t : Z) : Z :=
  match aget gkey_eqb (i, d, t) (g_nonce g) with Some n => n | None => 0 end.
Definition grev (g : ghost) (i : addr) (q : rkey) : bool :=
  match aget rgkey_eqb (i, q) (g_rev g) with Some r => r | None => false end.
Definition ghost_step (g : ghost) (k : call) (out : outcome) : ghost :=
  match k, out with
  | AllowKey i pk r sc t, Ok _ => GH ((i, (pk, sc), t, r) :: g_grants g) (g_nonce g) (g_rev g)
  | RemoveKey i pk r sc t, Ok _ =>
      GH (filter (fun x => negb (grant_eqb x (i, (pk, sc), t, r))) (g_grants g)) (g_nonce g) (g_rev g)
  | Invalidate i d t, Ok _ => GH (g_grants g) (aset gkey_eqb (i, d, t) (gnonce g i d t + 1) (g_nonce g)) (g_rev g)
  | SetRevoked i d t data r, Ok _ => GH (g_grants g) (g_nonce g) (aset rgkey_eqb (i, (d, t, data)) r (g_rev g))
  | _, _ => g
  end.
Definition grant_for (i : addr) (k : skey) (t : Z) (x : grant) : bool :=
  let '(i', k', t', _) := x in N.eqb i' i && skey_eqb k' k && (t' =? t).
Definition granted (g : list grant) (i : addr) (k : skey) (t : Z) : bool := existsb (grant_for i k t) g.

Definition len_is {A} (l : list A) (n : nat) : bool := Nat.eqb (length l) n.
Fixpoint nodup_by {A} (e : A -> A -> bool) (l : list A) : bool :=
  match l with [] => true | x :: r => negb (existsb (e x) r) && nodup_by e r end.
Definition res_nodup {A} (e : A -> A -> bool) (r : res (list A)) : bool :=
  match r with Ok l => nodup_by e l | Fail => true end.

Section Monitor.
  Variable h : hdr.
  Variable o : obs.
  Variable g : ghost.

  Definition cti_at (a : addr) : option cti_obs := at_key N.eqb a (h_ctis h) (o_ctis o).
  Definition irs_at (a : addr) : option irs_obs := at_key N.eqb a (h_irss h) (o_irss o).
  Definition ident_at (a : addr) : option ident_obs := at_key N.eqb a (h_idents h) (o_idents o).
  Definition issuer_at (a : addr) : option issuer_obs := at_key N.eqb a (h_issuers h) (o_issuers o).

  (* ---- shape: every positional list has the length of its universe list (combine truncates) ---- *)
  Definition shape_ok : bool :=
    let nt := length (h_topics h) in let ni := length (h_iaddrs h) in let na := length (h_accounts h) in
    len_is (o_ctis o) (length (h_ctis h)) && len_is (o_irss o) (length (h_irss h))
    && len_is (o_idents o) (length (h_idents h)) && len_is (o_issuers o) (length (h_issuers h))
    && len_is (vo_verify (o_ver o)) na
    && forallb (fun co => len_is (co_tissuers co) nt && len_is (co_itopics co) ni && len_is (co_trusted co) ni
                          && len_is (co_has co) ni && forallb (fun r => len_is r nt) (co_has co)) (o_ctis o)
    && forallb (fun io => len_is (io_stored io) na && len_is (io_recovered io) na) (o_irss o)
    && forallb (fun dob => len_is (do_ids dob) nt && len_is (do_claims dob) ni
                           && forallb (fun r => len_is r nt) (do_claims dob)) (o_idents o)
    && forallb (fun so => len_is (so_keys so) nt && len_is (so_regs so) (length (h_keys h))) (o_issuers o).

  (* issuer i is currently trusted for topic t at the registry: registered as trusted issuer
     and t among its claim topics (read through is_trusted_issuer / has_claim_topic) *)
  Definition trusted_for (co : cti_obs) (i : addr) (t : Z) : bool :=
    match at_key N.eqb i (h_iaddrs h) (co_trusted co), at_key N.eqb i (h_iaddrs h) (co_has co) with
    | Some true, Some row => match at_key Z.eqb t (h_topics h) row with Some T => true | _ => false end
    | _, _ => false
    end.

  Definition cell_at (dob : ident_obs) (i : addr) (t : Z) : option cdetail :=
    match at_key N.eqb i (h_iaddrs h) (do_claims dob) with
    | Some row => match at_key Z.eqb t (h_topics h) row with Some c => c | None => None end
    | None => None
    end.
  Definition ids_at (dob : ident_obs) (t : Z) : list cid :=
    match at_key Z.eqb t (h_topics h) (do_ids dob) with Some l => l | None => [] end.

  (* identity d holds, listed under topic t, a claim for topic t from issuer i that i confirms *)
  Definition holds_valid (d i : addr) (t : Z) : bool :=
    match ident_at d with
    | Some dob =>
        existsb (cid_eqb (i, t)) (ids_at dob t)
        && match cell_at dob i t with
           | Some cd => (cl_topic (cd_claim cd) =? t) && N.eqb (cl_issuer (cd_claim cd)) i && cd_confirmed cd
           | None => false
           end
    | None => false
    end.

  Definition topic_satisfied (co : cti_obs) (d : addr) (t : Z) : bool :=
    existsb (fun i => trusted_for co i t && holds_valid d i t) (h_iaddrs h).

  (* The code traps (and so refuses) when, for a REQUIRED topic, the identity lists the claim id of
     an issuer trusted for that topic but serves no claim for it - an inconsistent identity contract;
     the library's own claim store never is.  Only then is the answer not determined by the property
     text (the text would allow success through another issuer); refusal is the safe side. *)
  Definition dangling (co : cti_obs) (d : addr) : bool :=
    match ident_at d with
    | Some dob =>
        existsb (fun t => existsb (fun i => trusted_for co i t && existsb (cid_eqb (i, t)) (ids_at dob t)
                                            && negb (is_some (cell_at dob i t))) (h_iaddrs h)) (co_topics co)
    | None => false
    end.

  (* what the property says verify_identity(account) must answer; the second component says
     whether the answer is determined (iff) or only bounded from above (verified -> expected) *)
  Definition expected_verify (a : addr) : bool * bool :=
    match vo_irs (o_ver o), vo_cti (o_ver o) with
    | Some ra, Some ca =>
        match irs_at ra, cti_at ca with
        | Some io, Some co =>
            match at_key N.eqb a (h_accounts h) (io_stored io) with
            | Some (Ok d) => (forallb (topic_satisfied co d) (co_topics co), negb (dangling co d))
            | _ => (false, true)
            end
        | _, _ => (false, true)
        end
    | _, _ => (false, true)
    end.

  Definition verify_ok : bool :=
    forallb (fun av : addr * bool =>
               let '(e, exact) := expected_verify (fst av) in
               if exact then Bool.eqb (snd av) e else implb (snd av) e)
            (combine (h_accounts h) (vo_verify (o_ver o))).

  (* An address that is not a reference issuer confirms a claim exactly when it is one of the
     foreign issuer contracts of the header and the claim's scheme number is one for which that mock
     returns the unit value (a non-contract address, a contract without is_claim_valid, a trapping or
     bool- / error-code-returning issuer never confirms).
     The reference issuer i confirms the claim (scheme, sig, data) of identity d for topic t exactly
     when: the signature data has the layout of the scheme, its key has a
     live authorisation for the topic, valid_until lies after the current timestamp, the claim was
     not revoked (and not un-revoked since), and the signature scheme accepts the signature over
     network || issuer || identity || topic || number of nonce bumps so far || data. *)
  Definition confirm_expected (d i : addr) (t scheme : Z) (sg data : bytes) : bool :=
    if negb (mem_a i (h_issuers h)) then foreign_confirms (h_foreign h) i scheme else
       match extract_sig scheme sg with
       | Fail => false
       | Ok sd =>
           granted (g_grants g) i (sd_pk sd, scheme) t
           && match decode_expiration data with
              | Ok (_, valid_until, _) => o_now o <? valid_until
              | Fail => false
              end
           && negb (grev g i (d, t, data))
           && sig_table (h_sigs h) scheme (sd_pk sd)
                (build_claim_message (h_net h) (xdr_table (h_xdr h) i) (xdr_table (h_xdr h) d) t (gnonce g i d t) data)
                (sd_sig sd) (sd_rid sd)
       end.
  (* what the issuer's own getters must answer about a held claim *)
  Definition info_expected (d i : addr) (t : Z) (cl : claim) : option (option bool * bool * Z) :=
    if mem_a i (h_issuers h) then
      Some (match extract_sig (cl_scheme cl) (cl_sig cl) with
            | Ok sd => Some (granted (g_grants g) i (sd_pk sd, cl_scheme cl) t)
            | Fail => None
            end, grev g i (d, t, cl_data cl), gnonce g i d t)
    else None.

  Definition cell_ok (d i : addr) (t : Z) (c : option cdetail) : bool :=
    match c with
    | None => true
    | Some cd =>
        opt_eqb info_eqb (cd_info cd) (info_expected d i t (cd_claim cd))
        && Bool.eqb (cd_confirmed cd)
             (confirm_expected d i t (cl_scheme (cd_claim cd)) (cl_sig (cd_claim cd)) (cl_data (cd_claim cd)))
    end.

  Definition issuers_ok : bool :=
    forallb (fun dd : addr * ident_obs =>
      forallb (fun ir : addr * list (option cdetail) =>
        forallb (fun tc : Z * option cdetail => cell_ok (fst dd) (fst ir) (fst tc) (snd tc))
                (combine (h_topics h) (snd ir)))
        (combine (h_iaddrs h) (do_claims (snd dd))))
      (combine (h_idents h) (o_idents o)).

  (* the registry: is_trusted_issuer / has_claim_topic are membership in get_trusted_issuers /
     get_trusted_issuer_claim_topics; the two indexes agree (i is listed under topic t <-> i is a
     trusted issuer whose topics include t); the map handed to the verifier is the per-topic lists *)
  Definition registry_ok (co : cti_obs) : bool :=
    list_eqb Bool.eqb (co_trusted co) (map (fun i => mem_a i (co_issuers co)) (h_iaddrs h))
    && list_eqb (list_eqb rb_eqb) (co_has co)
         (map (fun rt : res (list Z) => map (fun t => match rt with Ok l => if mem_z t l then T else F | Fail => X end) (h_topics h))
              (co_itopics co))
    && forallb (fun ir : addr * res (list Z) => Bool.eqb (is_ok (snd ir)) (mem_a (fst ir) (co_issuers co)))
         (combine (h_iaddrs h) (co_itopics co))
    && forallb (fun i =>
      forallb (fun t =>
        Bool.eqb
          (mem_z t (co_topics co) &&
           match at_key Z.eqb t (h_topics h) (co_tissuers co) with Some (Ok l) => mem_a i l | _ => false end)
          (trusted_for co i t)) (h_topics h)) (h_iaddrs h)
    && match co_map co with
       | Ok m =>
           forallb (fun t => match aget Z.eqb t m, at_key Z.eqb t (h_topics h) (co_tissuers co) with
                             | Some l, Some (Ok l') => list_eqb N.eqb l l'
                             | _, _ => false
                             end) (co_topics co)
           && forallb (fun tl : Z * list addr => mem_z (fst tl) (co_topics co)) m
       | Fail => false
       end.

  (* no list of the registry names an entry twice: a topic list such as [t; t] is never accepted, an
     issuer is listed once per topic it is trusted for (an issuer listed twice under a topic survives
     its own removal in the map handed to the verifier) *)
  Definition registry_nodup (co : cti_obs) : bool :=
    nodup_by Z.eqb (co_topics co) && nodup_by N.eqb (co_issuers co)
    && forallb (res_nodup N.eqb) (co_tissuers co) && forallb (res_nodup Z.eqb) (co_itopics co).

  (* identity registry: a recovered account has no registered identity *)
  Definition irs_ok (io : irs_obs) : bool :=
    forallb (fun sr : res addr * option addr => negb (is_some (snd sr)) || negb (is_ok (fst sr)))
            (combine (io_stored io) (io_recovered io)).

  (* the issuers' getters agree with the history: get_keys_for_topic lists exactly the keys with a
     live authorisation, get_current_nonce_for counts the bumps, is_claim_revoked is the last flag set *)
  Definition keys_ok : bool :=
    forallb (fun iso : addr * issuer_obs =>
      forallb (fun tk : Z * res (list skey) =>
         let listed := match snd tk with Ok l => l | Fail => [] end in
         forallb (fun k => granted (g_grants g) (fst iso) k (fst tk)) listed
         && forallb (fun x : grant =>
                       negb (N.eqb (fst (fst (fst x))) (fst iso) && (snd (fst x) =? fst tk))
                       || existsb (skey_eqb (snd (fst (fst x)))) listed) (g_grants g))
        (combine (h_topics h) (so_keys (snd iso)))
      && list_eqb (list_eqb Z.eqb) (so_nonce (snd iso))
           (map (fun d => map (gnonce g (fst iso) d) (h_topics h)) (h_idents h))
      && forallb (fun qv : rkey * bool => Bool.eqb (snd qv) (grev g (fst iso) (fst qv))) (so_revoked (snd iso)))
      (combine (h_issuers h) (o_issuers o)).

  Definition mon_state : bool :=
    shape_ok && verify_ok && issuers_ok && forallb registry_ok (o_ctis o) && forallb irs_ok (o_irss o) && keys_ok
    && forallb registry_nodup (o_ctis o).
End Monitor.

(* ------------------------------------------------------------------------- *)
(* calls: outcomes and effects                                                *)
(* ------------------------------------------------------------------------- *)
(* the part of an identity observation that is stored in the identity contract *)
Definition ident_static_eqb (a b : ident_obs) : bool :=
  list_eqb (list_eqb cid_eqb) (do_ids a) (do_ids b)
  && list_eqb (list_eqb (opt_eqb claim_eqb)) (map (map (option_map cd_claim)) (do_claims a))
       (map (map (option_map cd_claim)) (do_claims b)).
(* the part of an issuer observation not already determined by the ghost *)
Definition issuer_static_eqb (a b : issuer_obs) : bool :=
  list_eqb (res_eqb (list_eqb N.eqb)) (so_regs a) (so_regs b).
Definition links_eqb (p o : obs) : bool :=
  opt_eqb N.eqb (vo_cti (o_ver p)) (vo_cti (o_ver o)) && opt_eqb N.eqb (vo_irs (o_ver p)) (vo_irs (o_ver o)).

Inductive target := TNone | TCti (a : addr) | TIrs (a : addr) | TIdent (a : addr) | TIssuer (a : addr) | TLinks.

(* everything stored is observed as before, except at the one contract the call addresses *)
Definition frame (h : hdr) (p o : obs) (tg : target) : bool :=
  forallb (fun x : addr * (cti_obs * cti_obs) =>
             (match tg with TCti c => N.eqb (fst x) c | _ => false end) || cti_obs_eqb (fst (snd x)) (snd (snd x)))
          (combine (h_ctis h) (combine (o_ctis p) (o_ctis o)))
  && forallb (fun x : addr * (irs_obs * irs_obs) =>
             (match tg with TIrs c => N.eqb (fst x) c | _ => false end) || irs_obs_eqb (fst (snd x)) (snd (snd x)))
          (combine (h_irss h) (combine (o_irss p) (o_irss o)))
  && forallb (fun x : addr * (ident_obs * ident_obs) =>
             (match tg with TIdent c => N.eqb (fst x) c | _ => false end) || ident_static_eqb (fst (snd x)) (snd (snd x)))
          (combine (h_idents h) (combine (o_idents p) (o_idents o)))
  && forallb (fun x : addr * (issuer_obs * issuer_obs) =>
             (match tg with TIssuer c => N.eqb (fst x) c | _ => false end) || issuer_static_eqb (fst (snd x)) (snd (snd x)))
          (combine (h_issuers h) (combine (o_issuers p) (o_issuers o)))
  && ((match tg with TLinks => true | _ => false end) || links_eqb p o).

(* the value a positional list must have after one entry changed *)
Definition upd_at {K V} (e : K -> K -> bool) (k : K) (v : V) (ks : list K) (vs : list V) : list V :=
  map (fun kv : K * V => if e (fst kv) k then v else snd kv) (combine ks vs).
Definition res_map {A B} (f : A -> B) (r : res A) : res B := match r with Ok a => Ok (f a) | Fail => Fail end.

Section Calls.
  Variable h : hdr.
  Variable p o : obs.       (* observation before and after the call *)
  Variable g : ghost.       (* ghost state after the call *)

  Definition in_ctis (a : addr) := mem_a a (h_ctis h).
  (* --- effects of the successful mutators, in terms of the getters before and after --- *)
  Definition cti_effect (c : addr) (f : cti_obs -> cti_obs -> bool) : bool :=
    match cti_at h p c, cti_at h o c with Some pc, Some oc => f pc oc | _, _ => false end.
  Definition irs_effect (c : addr) (f : irs_obs -> irs_obs -> bool) : bool :=
    match irs_at h p c, irs_at h o c with Some pc, Some oc => f pc oc | _, _ => false end.
  Definition ident_effect (c : addr) (f : ident_obs -> ident_obs -> bool) : bool :=
    match ident_at h p c, ident_at h o c with Some pc, Some oc => f pc oc | _, _ => false end.

  Definition zl_eqb := list_eqb Z.eqb.
  Definition al_eqb := list_eqb N.eqb.
  Definition itopics_eqb := list_eqb (res_eqb (list_eqb Z.eqb)).
  Definition claims_of (dob : ident_obs) : list (list (option claim)) := map (map (option_map cd_claim)) (do_claims dob).
  (* cells after one claim changed: position (i, t) holds v *)
  Definition claims_upd (id : cid) (v : option claim) (cs : list (list (option claim))) : list (list (option claim)) :=
    map (fun ir : addr * list (option claim) =>
           map (fun tc : Z * option claim => if N.eqb (fst ir) (fst id) && (fst tc =? snd id) then v else snd tc)
               (combine (h_topics h) (snd ir)))
        (combine (h_iaddrs h) cs).
  Definition ids_upd (t : Z) (v : list cid) (l : list (list cid)) : list (list cid) := upd_at Z.eqb t v (h_topics h) l.
  Definition id_in_universe (id : cid) : bool := mem_a (fst id) (h_iaddrs h) && mem_z (snd id) (h_topics h).
  Definition claim_cell (dob : ident_obs) (id : cid) : option claim := option_map cd_claim (cell_at h dob (fst id) (snd id)).

  Definition effect_ok (k : call) (out : oval) : bool :=
    match k with
    | AddTopic c t =>
        frame h p o (TCti c) && cti_effect c (fun pc oc =>
          zl_eqb (co_topics oc) (co_topics pc ++ [t]) && al_eqb (co_issuers oc) (co_issuers pc)
          && itopics_eqb (co_itopics oc) (co_itopics pc))
    | RemoveTopic c t =>
        frame h p o (TCti c) && cti_effect c (fun pc oc =>
          mem_z t (co_topics pc)
          && zl_eqb (co_topics oc) (remove_first_or_same (Z.eqb t) (co_topics pc)) && al_eqb (co_issuers oc) (co_issuers pc)
          && itopics_eqb (co_itopics oc) (map (res_map (remove_first_or_same (Z.eqb t))) (co_itopics pc)))
    | AddIssuer c i ts =>
        mem_a i (h_iaddrs h) &&
        frame h p o (TCti c) && cti_effect c (fun pc oc =>
          zl_eqb (co_topics oc) (co_topics pc) && al_eqb (co_issuers oc) (co_issuers pc ++ [i])
          && itopics_eqb (co_itopics oc) (upd_at N.eqb i (Ok ts) (h_iaddrs h) (co_itopics pc)))
    | RemoveIssuer c i =>
        mem_a i (h_iaddrs h) &&
        frame h p o (TCti c) && cti_effect c (fun pc oc =>
          mem_a i (co_issuers pc)
          && zl_eqb (co_topics oc) (co_topics pc) && al_eqb (co_issuers oc) (remove_first_or_same (N.eqb i) (co_issuers pc))
          && itopics_eqb (co_itopics oc) (upd_at N.eqb i Fail (h_iaddrs h) (co_itopics pc)))
    | UpdateIssuer c i ts =>
        mem_a i (h_iaddrs h) &&
        frame h p o (TCti c) && cti_effect c (fun pc oc =>
          mem_a i (co_issuers pc)
          && zl_eqb (co_topics oc) (co_topics pc) && al_eqb (co_issuers oc) (co_issuers pc)
          && itopics_eqb (co_itopics oc) (upd_at N.eqb i (Ok ts) (h_iaddrs h) (co_itopics pc)))
    | AddIdentity r a d _ | ModifyIdentity r a d =>
        mem_a a (h_accounts h) &&
        frame h p o (TIrs r) && irs_effect r (fun pc oc =>
          list_eqb (res_eqb N.eqb) (io_stored oc) (upd_at N.eqb a (Ok d) (h_accounts h) (io_stored pc))
          && list_eqb (opt_eqb N.eqb) (io_recovered oc) (io_recovered pc))
    | RemoveIdentity r a =>
        mem_a a (h_accounts h) &&
        frame h p o (TIrs r) && irs_effect r (fun pc oc =>
          match at_key N.eqb a (h_accounts h) (io_stored pc) with Some (Ok _) => true | _ => false end
          && list_eqb (res_eqb N.eqb) (io_stored oc) (upd_at N.eqb a Fail (h_accounts h) (io_stored pc))
          && list_eqb (opt_eqb N.eqb) (io_recovered oc) (io_recovered pc))
    | RecoverIdentity r old new =>
        mem_a old (h_accounts h) && mem_a new (h_accounts h) &&
        frame h p o (TIrs r) && irs_effect r (fun pc oc =>
          match at_key N.eqb old (h_accounts h) (io_stored pc) with
          | Some (Ok d) =>
              list_eqb (res_eqb N.eqb) (io_stored oc)
                (upd_at N.eqb old Fail (h_accounts h) (upd_at N.eqb new (Ok d) (h_accounts h) (io_stored pc)))
          | _ => false
          end
          && list_eqb (opt_eqb N.eqb) (io_recovered oc) (upd_at N.eqb old (Some new) (h_accounts h) (io_recovered pc)))
    | AddClaim d cl =>
        let id := (cl_issuer cl, cl_topic cl) in
        id_in_universe id && oval_eqb out (VCid id) &&
        frame h p o (TIdent d) && ident_effect d (fun pc oc =>
          list_eqb (list_eqb (opt_eqb claim_eqb)) (claims_of oc) (claims_upd id (Some cl) (claims_of pc))
          && list_eqb (list_eqb cid_eqb) (do_ids oc)
               (if is_some (claim_cell pc id) then do_ids pc else ids_upd (cl_topic cl) (ids_at h pc (cl_topic cl) ++ [id]) (do_ids pc)))
    | RemoveClaim d id =>
        id_in_universe id &&
        frame h p o (TIdent d) && ident_effect d (fun pc oc =>
          match claim_cell pc id with
          | Some cl =>
              list_eqb (list_eqb (opt_eqb claim_eqb)) (claims_of oc) (claims_upd id None (claims_of pc))
              && list_eqb (list_eqb cid_eqb) (do_ids oc)
                   (ids_upd (cl_topic cl) (remove_first_or_same (cid_eqb id) (ids_at h pc (cl_topic cl))) (do_ids pc))
          | None => false
          end)
    | ForceClaim d id ix cl =>
        id_in_universe id && mem_z ix (h_topics h) &&
        frame h p o (TIdent d) && ident_effect d (fun pc oc =>
          list_eqb (list_eqb (opt_eqb claim_eqb)) (claims_of oc) (claims_upd id (Some cl) (claims_of pc))
          && list_eqb (list_eqb cid_eqb) (do_ids oc)
               (if existsb (cid_eqb id) (ids_at h pc ix) then do_ids pc else ids_upd ix (ids_at h pc ix ++ [id]) (do_ids pc)))
    | AllowKey i _ _ _ _ | RemoveKey i _ _ _ _ => frame h p o (TIssuer i)
    | Invalidate _ _ _ | SetRevoked _ _ _ _ _ => frame h p o TNone
    | SetCti c => frame h p o TLinks && opt_eqb N.eqb (vo_cti (o_ver o)) (Some c)
                  && opt_eqb N.eqb (vo_irs (o_ver o)) (vo_irs (o_ver p))
    | SetIrs r => frame h p o TLinks && opt_eqb N.eqb (vo_irs (o_ver o)) (Some r)
                  && opt_eqb N.eqb (vo_cti (o_ver o)) (vo_cti (o_ver p))
    | _ => frame h p o TNone          (* read-only calls, Advance, Ledger *)
    end.

  (* --- answers of the calls the property (or a getter it talks about) determines --- *)
  Definition is_issuer (i : addr) : bool := mem_a i (h_issuers h).
  Definition answer_ok (k : call) (out : outcome) : bool :=
    match k with
    | Verify a =>
        match at_key N.eqb a (h_accounts h) (vo_verify (o_ver o)) with
        | Some v => Bool.eqb (is_ok out) v
        | None => false
        end
    | IsClaimValid i d t scheme sg data => Bool.eqb (is_ok out) (confirm_expected h o g d i t scheme sg data)
    | ValidateClaim cl t i d =>
        outcome_eqb out (Ok (VBool ((cl_topic cl =? t) && N.eqb (cl_issuer cl) i
                                    && confirm_expected h o g d i t (cl_scheme cl) (cl_sig cl) (cl_data cl))))
    | AuthorizedFor i registry t =>
        outcome_eqb out
          (if is_issuer i then
             match cti_at h o registry with
             | Some co => match at_key N.eqb i (h_iaddrs h) (co_itopics co) with
                          | Some (Ok l) => Ok (VBool (mem_z t l))
                          | Some Fail => Fail
                          | None => out          (* issuer outside the observed universe: not determined here *)
                          end
             | None => Fail
             end
           else Fail)
    | Message i d t data =>
        outcome_eqb out (if is_issuer i then Ok (VBytes (build_claim_message (h_net h) (xdr_table (h_xdr h) i)
                                                          (xdr_table (h_xdr h) d) t (gnonce g i d t) data)) else Fail)
    | Identifier i d t data =>
        outcome_eqb out (if is_issuer i then Ok (VBytes (build_claim_identifier (h_net h) (xdr_table (h_xdr h) i)
                                                          (xdr_table (h_xdr h) d) t data)) else Fail)
    | Extract i scheme sg =>
        outcome_eqb out (if is_issuer i then res_map (fun sd => VSig (sd_pk sd) (sd_sig sd) (sd_rid sd)) (extract_sig scheme sg) else Fail)
    | Encode i ca vu pl => outcome_eqb out (if is_issuer i then res_map VBytes (encode_expiration ca vu pl) else Fail)
    | Decode i data =>
        outcome_eqb out (if is_issuer i then res_map (fun x : Z * Z * bytes => VDec (fst (fst x)) (snd (fst x)) (snd x)) (decode_expiration data) else Fail)
    | Expired i data => outcome_eqb out (if is_issuer i then res_map VBool (is_claim_expired (o_now o) data) else Fail)
    | RecoveryTarget a =>
        match vo_irs (o_ver o) with
        | Some r => match irs_at h o r with
                    | Some io => match at_key N.eqb a (h_accounts h) (io_recovered io) with
                                 | Some x => outcome_eqb out (Ok (VOptAddr x))
                                 | None => false
                                 end
                    | None => outcome_eqb out Fail
                    end
        | None => outcome_eqb out Fail
        end
    | SetCti _ | SetIrs _ | Advance _ | Ledger _ _ => is_ok out                 (* cannot fail *)
    | SetRevoked i _ _ _ _ => Bool.eqb (is_ok out) (is_issuer i)
    | Invalidate i d t =>      (* fails only at a non-issuer or when the nonce would leave u32 *)
        Bool.eqb (is_ok out) (is_issuer i && ((if is_ok out then gnonce g i d t else gnonce g i d t + 1) <=? MAXU32))
    | ForceClaim d _ _ _ => Bool.eqb (is_ok out) (mem_a d (h_idents h))
    | AddClaim d cl =>         (* add_claim accepts only a claim its issuer confirms (asked by the identity itself) *)
        implb (is_ok out)
              (mem_a d (h_idents h)
               && confirm_expected h o g d (cl_issuer cl) (cl_topic cl) (cl_scheme cl) (cl_sig cl) (cl_data cl))
    | _ => true
    end.

  Definition clock_ok (k : call) (out : outcome) : bool :=
    o_now o =? o_now p + match k, out with Advance dt, Ok _ => dt | Ledger _ dt, Ok _ => dt | _, _ => 0 end.

  (* a failing call changes nothing observed; a successful one changes exactly what its kind may *)
  Definition mon_call (k : call) (out : outcome) : bool :=
    clock_ok k out && answer_ok k out
    && match out with
       | Fail => frame h p o TNone
       | Ok v => effect_ok k v
       end.
End Calls.

(* the observation of the freshly deployed contracts: the state before the first call *)
Definition empty_obs (h : hdr) : obs :=
  let nt := h_topics h in let ni := h_iaddrs h in
  {| o_now := h_now0 h;
     o_ctis := map (fun _ => CO [] [] (map (fun _ => Fail) nt) (map (fun _ => Fail) ni) (Ok []) (map (fun _ => false) ni)
                                (map (fun _ => map (fun _ => X) nt) ni)) (h_ctis h);
     o_irss := map (fun _ => IO (map (fun _ => Fail) (h_accounts h)) (map (fun _ => None) (h_accounts h))) (h_irss h);
     o_idents := map (fun _ => DO (map (fun _ => []) nt) (map (fun _ => map (fun _ => None) nt) ni)) (h_idents h);
     o_issuers := map (fun _ => SO (map (fun _ => Fail) nt) (map (fun _ => Fail) (h_keys h))
                                   (map (fun _ => map (fun _ => 0) nt) (h_idents h)) []) (h_issuers h);
     o_ver := VO None None (map (fun _ => false) (h_accounts h)) |}.

(* the header declares a non-empty universe, and the issuer contracts are among the issuer addresses *)
Definition hdr_ok (h : hdr) : bool :=
  negb (is_nil (h_accounts h)) && negb (is_nil (h_topics h)) && negb (is_nil (h_iaddrs h))
  && negb (is_nil (h_ctis h)) && negb (is_nil (h_irss h)) && negb (is_nil (h_idents h))
  && forallb (fun i => mem_a i (h_iaddrs h)) (h_issuers h)
  && forallb (fun f : addr * list Z => mem_a (fst f) (h_iaddrs h) && negb (mem_a (fst f) (h_issuers h))) (h_foreign h).

(* the revocation queries of an observation vary from item to item (the harness adds queries as the
   trace goes; every answer is checked against the ghost in keys_ok): not part of the comparison
   of two consecutive observations *)
Definition strip_rev (o : obs) : obs :=
  {| o_now := o_now o; o_ctis := o_ctis o; o_irss := o_irss o; o_idents := o_idents o;
     o_issuers := map (fun so => SO (so_keys so) (so_regs so) (so_nonce so) []) (o_issuers o); o_ver := o_ver o |}.

Fixpoint mon_from (h : hdr) (prev : obs) (g : ghost) (l : list item) (i : N) : N :=
  match l with
  | [] => 0%N
  | (k, out, o) :: r =>
      let g' := ghost_step g k out in
      if mon_state h o g' && mon_call h (strip_rev prev) (strip_rev o) g' k out
      then mon_from h o g' r (N.succ i) else N.succ i
  end.

Definition check (t : trace) : verdict :=
  let '(h, l) := t in
  (diff_from h (init_of h) l 0%N,
   if hdr_ok h && negb (is_nil l) then mon_from h (empty_obs h) ghost0 l 0%N else 1%N,
   0%N).
Definition check_all (ts : list trace) : list verdict := map check ts.
