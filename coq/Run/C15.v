(* C15: trace type, observation of the model, trace checker (model vs implementation)
   and monitor (the property as a boolean over the implementation's observations only). *)
From SC Require Import Lib.Prelude Lib.Int Lib.Host Model.ClaimIssuer Model.Identity.

(* ------------------------------------------------------------------------- *)
(* header of a trace: environment, constants of the code, contracts, universe *)
(* ------------------------------------------------------------------------- *)
Definition sigrec := (Z * bytes * bytes * bytes * Z)%type.   (* scheme, public key, message, signature, recovery id *)

Record hdr := HDR {
  h_net : bytes;                          (* network id *)
  h_now0 : Z;                             (* ledger timestamp at the start *)
  h_xdr : list (addr * bytes);            (* Address::to_xdr of every address of the trace *)
  h_sigs : list sigrec;                   (* the signature oracle: every genuine signature the harness produced *)
  h_max_topics : Z; h_max_issuers : Z; h_max_keys : Z; h_max_regs : Z; h_max_countries : Z;
  h_ctis : list addr; h_irss : list addr; h_idents : list addr; h_issuers : list addr;  (* registered contracts *)
  h_accounts : list addr;                 (* observation universe: accounts *)
  h_iaddrs : list addr;                   (*   addresses used as (claim / trusted) issuers *)
  h_topics : list Z;                      (*   topics *)
  h_keys : list skey;                     (*   signing keys *)
  h_revq : list rkey                      (*   (identity, topic, data) whose revocation flag is observed *)
}.

Definition sigrec_eqb (a b : sigrec) : bool :=
  let '(s1, p1, m1, g1, r1) := a in let '(s2, p2, m2, g2, r2) := b in
  (s1 =? s2) && bytes_eqb p1 p2 && bytes_eqb m1 m2 && bytes_eqb g1 g2 && (r1 =? r2).
Definition sig_table (tab : list sigrec) (scheme : Z) (pk msg sg : bytes) (rid : Z) : bool :=
  existsb (sigrec_eqb (scheme, pk, msg, sg, rid)) tab.
Definition xdr_table (tab : list (addr * bytes)) (a : addr) : bytes :=
  match aget N.eqb a tab with Some b => b | None => [] end.

Definition cfg_of (h : hdr) : cfg :=
  {| c_net := h_net h; c_xdr := xdr_table (h_xdr h); c_sigok := sig_table (h_sigs h);
     c_max_topics := h_max_topics h; c_max_issuers := h_max_issuers h; c_max_keys := h_max_keys h;
     c_max_regs := h_max_regs h; c_max_countries := h_max_countries h |}.
Definition init_of (h : hdr) : world := init (h_now0 h) (h_ctis h) (h_irss h) (h_idents h) (h_issuers h).

(* ------------------------------------------------------------------------- *)
(* observations (positional: aligned with the universe lists of the header)   *)
(* ------------------------------------------------------------------------- *)
Inductive rb := T | F | X.                (* Ok true | Ok false | Fail *)
Definition rb_of (r : res bool) : rb := match r with Ok true => T | Ok false => F | Fail => X end.

Record cti_obs := CO {
  co_topics : list Z;                     (* get_claim_topics *)
  co_issuers : list addr;                 (* get_trusted_issuers *)
  co_tissuers : list (res (list addr));   (* get_claim_topic_issuers t, t in h_topics *)
  co_itopics : list (res (list Z));       (* get_trusted_issuer_claim_topics i, i in h_iaddrs *)
  co_map : res (list (Z * list addr));    (* get_claim_topics_and_issuers *)
  co_trusted : list bool;                 (* is_trusted_issuer i *)
  co_has : list (list rb)                 (* has_claim_topic i t *)
}.
Record irs_obs := IO {
  io_stored : list (res addr);            (* stored_identity a, a in h_accounts *)
  io_recovered : list (option addr)       (* get_recovered_to a *)
}.
(* a claim held under id (i, t) together with what issuer i answers about it *)
Record cdetail := CD {
  cd_claim : claim;                       (* get_claim (id i t) *)
  cd_confirmed : bool;                    (* i.is_claim_valid(identity, t, scheme, sig, data) succeeded *)
  cd_info : option (option bool * bool * Z)
    (* for a reference issuer i: is_key_allowed_for_topic(pk of sig, scheme, t) (None: sig layout wrong),
       is_claim_revoked(identity, t, data), get_current_nonce_for(identity, t) *)
}.
Record ident_obs := DO {
  do_ids : list (list cid);               (* get_claim_ids_by_topic t, t in h_topics *)
  do_claims : list (list (option cdetail))(* per i in h_iaddrs, per t in h_topics *)
}.
Record issuer_obs := SO {
  so_keys : list (res (list skey));       (* get_keys_for_topic t *)
  so_regs : list (res (list addr));       (* get_registries k, k in h_keys *)
  so_nonce : list (list Z);               (* get_current_nonce_for d t, d in h_idents, t in h_topics *)
  so_revoked : list (rkey * bool)         (* (q, is_claim_revoked q), q in h_revq (the harness adds queries as the trace goes) *)
}.
Record ver_obs := VO {
  vo_cti : option addr; vo_irs : option addr;
  vo_verify : list bool                   (* verify_identity a succeeded, a in h_accounts *)
}.
Record obs := OBS {
  o_now : Z;
  o_ctis : list cti_obs; o_irss : list irs_obs; o_idents : list ident_obs; o_issuers : list issuer_obs;
  o_ver : ver_obs
}.

Definition item := (call * outcome * obs)%type.
Definition trace := (hdr * list item)%type.
(* a trace is printed as [with_blobs table (fun b => (header, items))]: byte strings are shared
   through the table, [b k] is its k-th entry *)
Definition with_blobs {A} (tab : list bytes) (f : (Z -> bytes) -> A) : A := f (bx tab).

(* ---------------- the model's observation ---------------- *)
Definition opt_of_res {A} (r : res A) : option A := match r with Ok a => Some a | Fail => None end.

Definition observe_cti (h : hdr) (s : cti) : cti_obs :=
  {| co_topics := ct_topics s; co_issuers := ct_issuers s;
     co_tissuers := map (get_claim_topic_issuers s) (h_topics h);
     co_itopics := map (get_trusted_issuer_claim_topics s) (h_iaddrs h);
     co_map := get_claim_topics_and_issuers s;
     co_trusted := map (is_trusted_issuer s) (h_iaddrs h);
     co_has := map (fun i => map (fun t => rb_of (has_claim_topic s i t)) (h_topics h)) (h_iaddrs h) |}.
Definition observe_irs (h : hdr) (s : irs) : irs_obs :=
  {| io_stored := map (stored_identity s) (h_accounts h);
     io_recovered := map (get_recovered_to s) (h_accounts h) |}.
Definition observe_cell (c : cfg) (w : world) (d : addr) (s : ident) (i : addr) (t : Z) : option cdetail :=
  match get_claim s (i, t) with
  | Fail => None
  | Ok cl =>
      Some {| cd_claim := cl;
              cd_confirmed := is_ok (call_is_claim_valid c w i d t (cl_scheme cl) (cl_sig cl) (cl_data cl));
              cd_info := match the_issuer w i with
                         | Fail => None
                         | Ok si =>
                             Some (match extract_sig (cl_scheme cl) (cl_sig cl) with
                                   | Ok sd => Some (is_key_allowed_for_topic si (sd_pk sd) (cl_scheme cl) t)
                                   | Fail => None
                                   end,
                                   is_claim_revoked si d t (cl_data cl),
                                   get_current_nonce_for si d t)
                         end |}
  end.
Definition observe_ident (h : hdr) (c : cfg) (w : world) (d : addr) (s : ident) : ident_obs :=
  {| do_ids := map (get_claim_ids_by_topic s) (h_topics h);
     do_claims := map (fun i => map (observe_cell c w d s i) (h_topics h)) (h_iaddrs h) |}.
Definition observe_issuer (h : hdr) (s : issuer) : issuer_obs :=
  {| so_keys := map (get_keys_for_topic s) (h_topics h);
     so_regs := map (get_registries s) (h_keys h);
     so_nonce := map (fun d => map (get_current_nonce_for s d) (h_topics h)) (h_idents h);
     so_revoked := map (fun q : rkey => (q, is_claim_revoked s (fst (fst q)) (snd (fst q)) (snd q))) (h_revq h) |}.

Definition get_or {S} (d : S) (a : addr) (l : list (addr * S)) : S :=
  match aget N.eqb a l with Some s => s | None => d end.

Definition observe (h : hdr) (w : world) : obs :=
  let c := cfg_of h in
  {| o_now := w_now w;
     o_ctis := map (fun a => observe_cti h (get_or cti0 a (w_ctis w))) (h_ctis h);
     o_irss := map (fun a => observe_irs h (get_or irs0 a (w_irss w))) (h_irss h);
     o_idents := map (fun a => observe_ident h c w a (get_or ident0 a (w_idents w))) (h_idents h);
     o_issuers := map (fun a => observe_issuer h (get_or issuer0 a (w_issuers w))) (h_issuers h);
     o_ver := {| vo_cti := w_vcti w; vo_irs := w_virs w;
                 vo_verify := map (fun a => is_ok (verify_identity c w a)) (h_accounts h) |} |}.

(* ---------------- boolean equalities ---------------- *)
Definition opt_eqb {A} (e : A -> A -> bool) (a b : option A) : bool :=
  match a, b with Some x, Some y => e x y | None, None => true | _, _ => false end.
Definition res_eqb {A} (e : A -> A -> bool) (a b : res A) : bool :=
  match a, b with Ok x, Ok y => e x y | Fail, Fail => true | _, _ => false end.
Definition pair_eqb {A B} (ea : A -> A -> bool) (eb : B -> B -> bool) (a b : A * B) : bool :=
  ea (fst a) (fst b) && eb (snd a) (snd b).
Definition rb_eqb (a b : rb) : bool :=
  match a, b with T, T | F, F | X, X => true | _, _ => false end.

Definition cti_obs_eqb (a b : cti_obs) : bool :=
  list_eqb Z.eqb (co_topics a) (co_topics b) && list_eqb N.eqb (co_issuers a) (co_issuers b)
  && list_eqb (res_eqb (list_eqb N.eqb)) (co_tissuers a) (co_tissuers b)
  && list_eqb (res_eqb (list_eqb Z.eqb)) (co_itopics a) (co_itopics b)
  && res_eqb (list_eqb (pair_eqb Z.eqb (list_eqb N.eqb))) (co_map a) (co_map b)
  && list_eqb Bool.eqb (co_trusted a) (co_trusted b)
  && list_eqb (list_eqb rb_eqb) (co_has a) (co_has b).
Definition irs_obs_eqb (a b : irs_obs) : bool :=
  list_eqb (res_eqb N.eqb) (io_stored a) (io_stored b)
  && list_eqb (opt_eqb N.eqb) (io_recovered a) (io_recovered b).
Definition info_eqb (a b : option bool * bool * Z) : bool :=
  opt_eqb Bool.eqb (fst (fst a)) (fst (fst b)) && Bool.eqb (snd (fst a)) (snd (fst b)) && (snd a =? snd b).
Definition cdetail_eqb (a b : cdetail) : bool :=
  claim_eqb (cd_claim a) (cd_claim b) && Bool.eqb (cd_confirmed a) (cd_confirmed b)
  && opt_eqb info_eqb (cd_info a) (cd_info b).
Definition ident_obs_eqb (a b : ident_obs) : bool :=
  list_eqb (list_eqb cid_eqb) (do_ids a) (do_ids b)
  && list_eqb (list_eqb (opt_eqb cdetail_eqb)) (do_claims a) (do_claims b).
Definition issuer_obs_eqb (a b : issuer_obs) : bool :=
  list_eqb (res_eqb (list_eqb skey_eqb)) (so_keys a) (so_keys b)
  && list_eqb (res_eqb (list_eqb N.eqb)) (so_regs a) (so_regs b)
  && list_eqb (list_eqb Z.eqb) (so_nonce a) (so_nonce b)
  && list_eqb (pair_eqb rkey_eqb Bool.eqb) (so_revoked a) (so_revoked b).
Definition ver_obs_eqb (a b : ver_obs) : bool :=
  opt_eqb N.eqb (vo_cti a) (vo_cti b) && opt_eqb N.eqb (vo_irs a) (vo_irs b)
  && list_eqb Bool.eqb (vo_verify a) (vo_verify b).
Definition obs_eqb (a b : obs) : bool :=
  (o_now a =? o_now b) && list_eqb cti_obs_eqb (o_ctis a) (o_ctis b)
  && list_eqb irs_obs_eqb (o_irss a) (o_irss b) && list_eqb ident_obs_eqb (o_idents a) (o_idents b)
  && list_eqb issuer_obs_eqb (o_issuers a) (o_issuers b) && ver_obs_eqb (o_ver a) (o_ver b).

Definition oval_eqb (a b : oval) : bool :=
  match a, b with
  | VUnit, VUnit => true
  | VBool x, VBool y => Bool.eqb x y
  | VBytes x, VBytes y => bytes_eqb x y
  | VCid x, VCid y => cid_eqb x y
  | VSig p s r, VSig p' s' r' => bytes_eqb p p' && bytes_eqb s s' && (r =? r')
  | VDec c v p, VDec c' v' p' => (c =? c') && (v =? v') && bytes_eqb p p'
  | VOptAddr x, VOptAddr y => opt_eqb N.eqb x y
  | _, _ => false
  end.
Definition outcome_eqb : outcome -> outcome -> bool := res_eqb oval_eqb.

(* ------------------------------------------------------------------------- *)
(* diff: replay through the model                                             *)
(* ------------------------------------------------------------------------- *)
(* the revocation queries of an observation are the ones the harness knew at that point of the
   trace (a prefix of h_revq): the model is asked exactly those *)
Definition revq_of (o : obs) : list rkey :=
  match o_issuers o with so :: _ => map fst (so_revoked so) | [] => [] end.
Definition set_revq (h : hdr) (q : list rkey) : hdr :=
  {| h_net := h_net h; h_now0 := h_now0 h; h_xdr := h_xdr h; h_sigs := h_sigs h;
     h_max_topics := h_max_topics h; h_max_issuers := h_max_issuers h; h_max_keys := h_max_keys h;
     h_max_regs := h_max_regs h; h_max_countries := h_max_countries h;
     h_ctis := h_ctis h; h_irss := h_irss h; h_idents := h_idents h; h_issuers := h_issuers h;
     h_accounts := h_accounts h; h_iaddrs := h_iaddrs h; h_topics := h_topics h; h_keys := h_keys h;
     h_revq := q |}.
Fixpoint diff_from (h : hdr) (w : world) (l : list item) (i : N) : N :=
  match l with
  | [] => 0%N
  | (k, out, o) :: r =>
      let '(w', out') := step (cfg_of h) w k in
      if outcome_eqb out' out && obs_eqb (observe (set_revq h (revq_of o)) w') o
      then diff_from h w' r (N.succ i) else N.succ i
  end.

(* ------------------------------------------------------------------------- *)
(* the monitor: C15 over the implementation's observations                    *)
(* ------------------------------------------------------------------------- *)
(* value observed for key k in a list aligned with the universe list ks *)
Definition at_key {K V} (e : K -> K -> bool) (k : K) (ks : list K) (vs : list V) : option V :=
  aget e k (combine ks vs).

Section Monitor.
  Variable h : hdr.
  Variable o : obs.

  Definition cti_at (a : addr) : option cti_obs := at_key N.eqb a (h_ctis h) (o_ctis o).
  Definition irs_at (a : addr) : option irs_obs := at_key N.eqb a (h_irss h) (o_irss o).
  Definition ident_at (a : addr) : option ident_obs := at_key N.eqb a (h_idents h) (o_idents o).
  Definition issuer_at (a : addr) : option issuer_obs := at_key N.eqb a (h_issuers h) (o_issuers o).

  (* issuer i is currently trusted for topic t at the registry: registered as trusted issuer
     and t among its claim topics (read through is_trusted_issuer / has_claim_topic) *)
  Definition trusted_for (co : cti_obs) (i : addr) (t : Z) : bool :=
    match at_key N.eqb i (h_iaddrs h) (co_trusted co), at_key N.eqb i (h_iaddrs h) (co_has co) with
    | Some true, Some row => match at_key Z.eqb t (h_topics h) row with Some T => true | _ => false end
    | _, _ => false
    end.

  Definition cell_at (dob : ident_obs) (i : addr) (t : Z) : option cdetail :=
    match at_key N.eqb i (h_iaddrs h) (do_claims dob) with
    | Some row => match at_key Z.eqb t (h_topics h) row with Some c => c | None => None end
    | None => None
    end.
  Definition ids_at (dob : ident_obs) (t : Z) : list cid :=
    match at_key Z.eqb t (h_topics h) (do_ids dob) with Some l => l | None => [] end.

  (* identity d holds, listed under topic t, a claim for topic t from issuer i that i confirms *)
  Definition holds_valid (d i : addr) (t : Z) : bool :=
    match ident_at d with
    | Some dob =>
        existsb (cid_eqb (i, t)) (ids_at dob t)
        && match cell_at dob i t with
           | Some cd => (cl_topic (cd_claim cd) =? t) && N.eqb (cl_issuer (cd_claim cd)) i && cd_confirmed cd
           | None => false
           end
    | None => false
    end.

  (* every id the identity lists under a topic of the universe resolves to a stored claim *)
  Definition index_sound (d : addr) : bool :=
    match ident_at d with
    | Some dob => forallb (fun t => forallb (fun id : cid => is_some (cell_at dob (fst id) (snd id))) (ids_at dob t)) (h_topics h)
    | None => true
    end.

  Definition topic_satisfied (co : cti_obs) (d : addr) (t : Z) : bool :=
    existsb (fun i => trusted_for co i t && holds_valid d i t) (h_iaddrs h).

  (* what the property says verify_identity(account) must answer; the second component says
     whether the answer is determined (iff) or only bounded from above (verified -> expected) *)
  Definition expected_verify (a : addr) : bool * bool :=
    match vo_irs (o_ver o), vo_cti (o_ver o) with
    | Some ra, Some ca =>
        match irs_at ra, cti_at ca with
        | Some io, Some co =>
            match at_key N.eqb a (h_accounts h) (io_stored io) with
            | Some (Ok d) => (forallb (topic_satisfied co d) (co_topics co), index_sound d)
            | _ => (false, true)
            end
        | _, _ => (false, true)
        end
    | _, _ => (false, true)
    end.

  Definition verify_ok : bool :=
    forallb (fun av : addr * bool =>
               let '(e, exact) := expected_verify (fst av) in
               if exact then Bool.eqb (snd av) e else implb (snd av) e)
            (combine (h_accounts h) (vo_verify (o_ver o))).

  (* the reference issuer confirms exactly the claims that are signed, over network, issuer,
     identity, topic, current nonce and data, by a key currently allowed for the topic, and are
     neither expired nor revoked *)
  Definition confirm_expected (d i : addr) (t : Z) (cl : claim) (info : option bool * bool * Z) : bool :=
    let '(ka, revoked, nonce) := info in
    match extract_sig (cl_scheme cl) (cl_sig cl) with
    | Fail => false
    | Ok sd =>
        match ka with Some true => true | _ => false end
        && match decode_expiration (cl_data cl) with
           | Ok (_, valid_until, _) => o_now o <? valid_until
           | Fail => false
           end
        && negb revoked
        && sig_table (h_sigs h) (cl_scheme cl) (sd_pk sd)
             (build_claim_message (h_net h) (xdr_table (h_xdr h) i) (xdr_table (h_xdr h) d) t nonce (cl_data cl))
             (sd_sig sd) (sd_rid sd)
    end.

  Definition cell_ok (d i : addr) (t : Z) (c : option cdetail) : bool :=
    match c with
    | None => true
    | Some cd =>
        match cd_info cd with
        | Some info => Bool.eqb (cd_confirmed cd) (confirm_expected d i t (cd_claim cd) info)
        | None => negb (cd_confirmed cd)         (* not an issuer contract: never confirms *)
        end
    end.

  Definition issuers_ok : bool :=
    forallb (fun dd : addr * ident_obs =>
      forallb (fun ir : addr * list (option cdetail) =>
        forallb (fun tc : Z * option cdetail => cell_ok (fst dd) (fst ir) (fst tc) (snd tc))
                (combine (h_topics h) (snd ir)))
        (combine (h_iaddrs h) (do_claims (snd dd))))
      (combine (h_idents h) (o_idents o)).

  (* the two indexes of the registry agree: i is listed under topic t  <->  i is a trusted issuer
     whose topics include t; and the map handed to the verifier is the per-topic lists *)
  Definition registry_ok (co : cti_obs) : bool :=
    forallb (fun i =>
      forallb (fun t =>
        Bool.eqb
          (mem_z t (co_topics co) &&
           match at_key Z.eqb t (h_topics h) (co_tissuers co) with Some (Ok l) => mem_a i l | _ => false end)
          (trusted_for co i t)) (h_topics h)) (h_iaddrs h)
    && match co_map co with
       | Ok m =>
           forallb (fun t => match aget Z.eqb t m, at_key Z.eqb t (h_topics h) (co_tissuers co) with
                             | Some l, Some (Ok l') => list_eqb N.eqb l l'
                             | _, _ => false
                             end) (co_topics co)
           && forallb (fun tl : Z * list addr => mem_z (fst tl) (co_topics co)) m
       | Fail => false
       end.

  Definition mon_state : bool := verify_ok && issuers_ok && forallb registry_ok (o_ctis o).
End Monitor.

(* temporal clauses: a successful nonce bump raises the current nonce by one; a successful
   set_claim_revoked is what is_claim_revoked answers afterwards *)
Definition nonce_at (h : hdr) (o : obs) (i d : addr) (t : Z) : option Z :=
  match issuer_at h o i with
  | Some so => match at_key N.eqb d (h_idents h) (so_nonce so) with
               | Some row => at_key Z.eqb t (h_topics h) row
               | None => None
               end
  | None => None
  end.
Definition revoked_at (h : hdr) (o : obs) (i : addr) (q : rkey) : option bool :=
  match issuer_at h o i with
  | Some so => aget rkey_eqb q (so_revoked so)
  | None => None
  end.

(* frame clauses: which nonces / revocation flags an operation may change
   (revocation does not depend on the nonce and vice versa; one (identity, topic) pair or one claim
   at one issuer at a time) *)
Definition nonces_frame (h : hdr) (p o : obs) (exc : addr -> addr -> Z -> bool) : bool :=
  forallb (fun i => forallb (fun d => forallb (fun t =>
    exc i d t || opt_eqb Z.eqb (nonce_at h p i d t) (nonce_at h o i d t)) (h_topics h)) (h_idents h)) (h_issuers h).
Definition revocations_frame (h : hdr) (p o : obs) (exc : addr -> rkey -> bool) : bool :=
  forallb (fun i => forallb (fun q =>
    exc i q || match revoked_at h p i q with
               | Some v => opt_eqb Bool.eqb (Some v) (revoked_at h o i q)
               | None => true
               end) (revq_of p)) (h_issuers h).

(* the passage of time / of ledgers changes nothing that was stored: registries, identities, held
   claims, keys, nonces, revocation flags, links (everything observed except the clock, the
   issuers' verdicts and verify_identity, which depend on the timestamp through expiry only) *)
Definition strip_cd (c : option cdetail) : option (claim * option (option bool * bool * Z)) :=
  match c with Some cd => Some (cd_claim cd, cd_info cd) | None => None end.
Definition static_eqb (p o : obs) : bool :=
  list_eqb cti_obs_eqb (o_ctis p) (o_ctis o) && list_eqb irs_obs_eqb (o_irss p) (o_irss o)
  && list_eqb (fun a b => list_eqb (list_eqb cid_eqb) (do_ids a) (do_ids b)
                          && list_eqb (list_eqb (opt_eqb (pair_eqb claim_eqb (opt_eqb info_eqb))))
                               (map (map strip_cd) (do_claims a)) (map (map strip_cd) (do_claims b)))
       (o_idents p) (o_idents o)
  && list_eqb issuer_obs_eqb (o_issuers p) (o_issuers o)
  && opt_eqb N.eqb (vo_cti (o_ver p)) (vo_cti (o_ver o)) && opt_eqb N.eqb (vo_irs (o_ver p)) (vo_irs (o_ver o)).

Definition mon_call (h : hdr) (prev : option obs) (k : call) (out : outcome) (o : obs) : bool :=
  match k, out with
  | Advance _, Ok _ | Ledger _ _, Ok _ =>
      match prev with Some p => static_eqb p o | None => true end
  | Invalidate i d t, Ok _ =>
      match prev with
      | Some p =>
          match nonce_at h p i d t, nonce_at h o i d t with
          | Some n, Some n' => n' =? n + 1
          | _, _ => true
          end
          && nonces_frame h p o (fun i' d' t' => N.eqb i' i && N.eqb d' d && (t' =? t))
          && revocations_frame h p o (fun _ _ => false)
      | None => true
      end
  | SetRevoked i d t data r, Ok _ =>
      match revoked_at h o i (d, t, data) with Some r' => Bool.eqb r r' | None => true end
      && match prev with
         | Some p =>
             nonces_frame h p o (fun _ _ _ => false)
             && revocations_frame h p o (fun i' q => N.eqb i' i && rkey_eqb q (d, t, data))
         | None => true
         end
  | _, _ => true
  end.

(* ghost state of the monitor: the (issuer, key, topic, registry) authorisations granted and not
   removed so far, reconstructed from the successful allow_key / remove_key calls of the trace.
   "A key currently allowed for the topic" = a key with such an authorisation for the topic. *)
Definition grant := (addr * skey * Z * addr)%type.
Definition grant_eqb (a b : grant) : bool :=
  let '(i1, k1, t1, r1) := a in let '(i2, k2, t2, r2) := b in
  N.eqb i1 i2 && skey_eqb k1 k2 && (t1 =? t2) && N.eqb r1 r2.
Definition ghost_step (g : list grant) (k : call) (out : outcome) : list grant :=
  match k, out with
  | AllowKey i pk r sc t, Ok _ => (i, (pk, sc), t, r) :: g
  | RemoveKey i pk r sc t, Ok _ => filter (fun x => negb (grant_eqb x (i, (pk, sc), t, r))) g
  | _, _ => g
  end.
Definition grant_for (i : addr) (k : skey) (t : Z) (x : grant) : bool :=
  let '(i', k', t', _) := x in N.eqb i' i && skey_eqb k' k && (t' =? t).
Definition granted (g : list grant) (i : addr) (k : skey) (t : Z) : bool := existsb (grant_for i k t) g.

(* get_keys_for_topic lists exactly the keys with a live authorisation for the topic *)
Definition keys_ok (h : hdr) (o : obs) (g : list grant) : bool :=
  forallb (fun iso : addr * issuer_obs =>
    forallb (fun tk : Z * res (list skey) =>
       let listed := match snd tk with Ok l => l | Fail => [] end in
       forallb (fun k => granted g (fst iso) k (fst tk)) listed
       && forallb (fun x : grant =>
                     negb (N.eqb (fst (fst (fst x))) (fst iso) && (snd (fst x) =? fst tk))
                     || existsb (skey_eqb (snd (fst (fst x)))) listed) g)
      (combine (h_topics h) (so_keys (snd iso))))
    (combine (h_issuers h) (o_issuers o)).

Fixpoint mon_from (h : hdr) (prev : option obs) (g : list grant) (l : list item) (i : N) : N :=
  match l with
  | [] => 0%N
  | (k, out, o) :: r =>
      let g' := ghost_step g k out in
      if mon_state h o && keys_ok h o g' && mon_call h prev k out o
      then mon_from h (Some o) g' r (N.succ i) else N.succ i
  end.

Definition check (t : trace) : verdict :=
  let '(h, l) := t in
  (diff_from h (init_of h) l 0%N, mon_from h None [] l 0%N, 0%N).
Definition check_all (ts : list trace) : list verdict := map check ts.
