(* C16: trace checker (model vs implementation) and monitor (property vs implementation). *)
From SC Require Import Lib.Prelude Lib.Int Lib.Host Model.Gates Model.GatesSpec.

(* ------------------------------------------------------------------ *)
(* traces                                                              *)
(* one trace = one deployed contract: constructor arguments, the observation right after
   deployment, then for every call: the call, ok/fail, the observation after it *)
Definition tstep := (call * bool * obs)%type.
Record trace := mkTrace { t_cfg : cfg; t_obs0 : obs; t_steps : list tstep }.

(* ------------------------------------------------------------------ *)
(* equality of observations                                            *)
Fixpoint list_eqb {A} (eq : A -> A -> bool) (a b : list A) : bool :=
  match a, b with
  | [], [] => true
  | x :: a', y :: b' => eq x y && list_eqb eq a' b'
  | _, _ => false
  end.
Definition optZ_eqb (a b : option Z) : bool :=
  match a, b with Some x, Some y => x =? y | None, None => true | _, _ => false end.
(* list status: an unread entry (None) matches anything *)
Definition ob_eqb (a b : option bool) : bool :=
  match a, b with Some x, Some y => Bool.eqb x y | _, _ => true end.
Definition obs_eqb (a b : obs) : bool :=
  (o_supply a =? o_supply b) && list_eqb Z.eqb (o_bal a) (o_bal b)
  && list_eqb (list_eqb Z.eqb) (o_alw a) (o_alw b)
  && Bool.eqb (o_paused a) (o_paused b) && list_eqb ob_eqb (o_list a) (o_list b)
  && optZ_eqb (o_cap a) (o_cap b) && Bool.eqb (o_mig a) (o_mig b) && optZ_eqb (o_data a) (o_data b)
  && Bool.eqb (o_trap a) (o_trap b) && list_eqb Bool.eqb (o_mgr a) (o_mgr b).

(* ------------------------------------------------------------------ *)
(* diff: replay through the model                                      *)
Fixpoint diff_from (c : cfg) (s : state) (l : list tstep) (i : N) : N :=
  match l with
  | [] => 0%N
  | (cl, ok, o) :: r =>
      let '(s', ok') := step c s cl in
      if Bool.eqb ok ok' && obs_eqb o (observe c s') then diff_from c s' r (N.succ i) else N.succ i
  end.

(* a wrong observation right after deployment is reported as a disagreement at call 1 *)
(* a deployment whose constructor must refuse its arguments: the trace consists of the marker
   observation (o_trap = true) and no calls *)
Definition dead_trace (t : trace) : bool :=
  o_trap (t_obs0 t) && match t_steps t with [] => true | _ => false end.

Definition diff (t : trace) : N :=
  if ctor_ok (t_cfg t) then
    if obs_eqb (t_obs0 t) (observe (t_cfg t) (init (t_cfg t)))
    then diff_from (t_cfg t) (init (t_cfg t)) (t_steps t) 0%N
    else 1%N
  else if dead_trace t then 0%N else 1%N.


(* ------------------------------------------------------------------ *)
(* monitor: the property over implementation observations only          *)
(* It sees: constructor arguments, calls, authorisation sets, ok/fail and getter values.
   It keeps the *history* of the gate operations that succeeded on the implementation
   ([hist], Model/GatesSpec.v: the last successful pause/unpause, the last successful list
   change of every address, whether an upgrade succeeded since the last successful migration,
   the ledger) and states, for every call, what the property demands of its outcome and of
   the getter values after it.  No model state is consulted. *)

(* getters over an observation *)
Definition gb (p : obs) (a : addr) : Z := nth (N.to_nat a) (o_bal p) 0.
Definition ga (p : obs) (o sp : addr) : Z := nth (N.to_nat sp) (nth (N.to_nat o) (o_alw p) []) 0.
Definition gl (p : obs) (a : addr) : option bool := nth (N.to_nat a) (o_list p) None.
Definition gm (p : obs) (a : addr) : bool := nth (N.to_nat a) (o_mgr p) false.
Definition view_obs (p : obs) : view := mkView (o_supply p) (gb p) (ga p) (o_cap p) (o_data p).

(* --- the clauses of the property text, one by one ---------------------------------- *)

(* a failing call has no effect on anything observable *)
Definition m_noeffect (p : obs) (ok : bool) (q : obs) : bool := implies (negb ok) (obs_eqb q p).

(* while paused every entry point declared pausable fails *)
Definition m_paused_blocks (c : cfg) (h : hist) (o : op) (ok : bool) : bool :=
  implies (is_paus (knd c) && h_paused h && pausable_op o) (negb ok).

(* pause and unpause strictly alternate *)
Definition m_alternation (h : hist) (o : op) (ok : bool) : bool :=
  match o with
  | Pause _ => implies ok (negb (h_paused h))
  | Unpause _ => implies ok (h_paused h)
  | _ => true
  end.

(* allow list: success => every vetted party allowed; block list: success => none blocked *)
Definition m_allow (c : cfg) (h : hist) (o : op) (ok : bool) : bool :=
  implies (is_allow (knd c) && ok) (forallb (h_listed h) (vetted o)).
Definition m_block (c : cfg) (h : hist) (o : op) (ok : bool) : bool :=
  implies (is_block (knd c) && ok) (forallb (fun a => negb (h_listed h a)) (vetted o)).

(* the pause / list / migration getters always equal what the history of successful gate
   operations says: changes are immediate, idempotent, and nothing else moves a gate *)
Definition m_getters (c : cfg) (h' : hist) (q : obs) : bool :=
  Bool.eqb (o_paused q) (h_paused h')
  && forallb (fun x => match gl q x with
                        | Some b => Bool.eqb b (h_listed h' x)
                        | None => true                      (* not read after this call *)
                        end) (universe c)
  && Bool.eqb (o_mig q) (h_armed h')
  && negb (o_trap q)                                        (* no getter may trap *)
  && forallb (fun x => Bool.eqb (gm q x) (h_mgr h' x)) (universe c).   (* "manager" role holders *)

(* a cap-checked mint never lifts the supply above the cap; overflow => failure *)
Definition m_cap (c : cfg) (p : obs) (o : op) (ok : bool) (q : obs) : bool :=
  match o with
  | Mint _ a =>
      implies (is_cap (knd c) && ok)
        (match o_cap p with
         | Some cp => (o_supply q =? o_supply p + a) && (o_supply q <=? cp) && in_i128 (o_supply p + a)
         | None => false
         end)
  | _ => true
  end.

(* a migration completes only if an upgrade happened since the last one *)
Definition m_migrate (h : hist) (o : op) (ok : bool) : bool :=
  match o with
  | Migrate _ _ | LibEnsure => implies ok (h_armed h)
  | _ => true
  end.

(* "works again": where the text promises that a re-opened gate lets calls through, the outcome must
   be exactly what the fungible core / authorisation rule alone decide ([expected_ok]):
   - a pausable entry point while the contract is not paused;
   - a gated entry point of a listed token when every party involved, the spender included, is open
     (nothing is demanded when only the spender is closed: the text does not say whether a closed
     spender may act; the code lets it, the diff pins that);
   - migrate by the authorised owner while an upgrade is pending ("can be completed").
   Anything stricter than the text elsewhere is left to the model/implementation diff. *)
Definition spender_of (o : op) : list addr :=
  match o with TransferFrom sp _ _ _ | BurnFrom sp _ _ => [sp] | _ => [] end.
Definition m_reopen (c : cfg) (h : hist) (p : obs) (cl : call) (ok : bool) : bool :=
  let o := fst cl in
  let exact := Bool.eqb ok (expected_ok c h (view_obs p) cl) in
  implies (is_paus (knd c) && negb (h_paused h) && pausable_op o) exact
  && implies (is_allow (knd c) && negb (match vetted o with [] => true | _ => false end)
              && forallb (h_listed h) (vetted o ++ spender_of o)) exact
  && implies (is_block (knd c) && negb (match vetted o with [] => true | _ => false end)
              && forallb (fun a => negb (h_listed h a)) (vetted o ++ spender_of o)) exact
  && match o with
     | Migrate _ operator =>
         implies ((kind_eqb (knd c) KUpgV1 || kind_eqb (knd c) KUpgV2) && h_armed h
                  && has_auth (snd cl) operator && N.eqb operator (owner c)) ok
     | _ => true
     end.

(* shape of an observation: one entry per address of the universe *)
Definition m_shape (c : cfg) (q : obs) : bool :=
  (length (o_bal q) =? na c)%nat && (length (o_alw q) =? na c)%nat
  && forallb (fun r => (length r =? na c)%nat) (o_alw q)
  && (length (o_list q) =? na c)%nat && (length (o_mgr q) =? na c)%nat.
Definition all_read (q : obs) : bool :=
  forallb (fun e => match e with Some _ => true | None => false end) (o_list q).

(* effects of a successful call on supply, balances, allowances, cap, migration data *)
Definition m_effects (c : cfg) (h : hist) (p : obs) (o : op) (ok : bool) (q : obs) : bool :=
  implies ok
    ((o_supply q =? exp_supply (view_obs p) o)
     && forallb (fun x => gb q x =? exp_bal (view_obs p) o x) (universe c)
     && forallb (fun x => forallb (fun y =>
            match o with
            | Advance n =>                (* an allowance lapses exactly when its live_until_ledger is passed *)
                ga q x y =? (if h_lu h x y <? h_now h + n then 0 else ga p x y)
            | _ => ga q x y =? exp_alw (view_obs p) o x y
            end) (universe c)) (universe c)
     && optZ_eqb (o_cap q) (exp_cap (view_obs p) o)
     && optZ_eqb (o_data q) (exp_data (view_obs p) o)).

Definition mon_step (c : cfg) (h : hist) (p : obs) (st : tstep) : bool :=
  let '(cl, ok, q) := st in
  let o := fst cl in
  let h' := if ok then hist_upd h o else h in
  m_noeffect p ok q
  && m_paused_blocks c h o ok && m_alternation h o ok
  && m_allow c h o ok && m_block c h o ok
  && m_getters c h' q
  && m_cap c p o ok q && m_migrate h o ok
  && m_reopen c h p cl ok && m_effects c h p o ok q && m_shape c q.

Definition hist_next (h : hist) (st : tstep) : hist :=
  let '(cl, ok, _) := st in if ok then hist_upd h (fst cl) else h.

Fixpoint mon_from (c : cfg) (h : hist) (p : obs) (l : list tstep) (i : N) : N :=
  match l with
  | [] => 0%N
  | st :: r =>
      if mon_step c h p st
      then mon_from c (hist_next h st) (snd st) r (N.succ i)
      else N.succ i
  end.

(* what must hold right after deployment: gates in their constructor state (cap = the configured
   cap, pause off, lists as the constructor leaves them, no pending migration, the manager argument
   holds the role), the constructor's mint and nothing else, every list entry read *)
Definition init_supply_of (c : cfg) : Z :=
  match knd c with KPaus | KAllowEx | KBlockEx => init_supply c | _ => 0 end.
Definition mon_init (c : cfg) (p : obs) : bool :=
  m_getters c (hist0 c) p && m_shape c p && all_read p
  && optZ_eqb (o_cap p) (match knd c with KCapEx => Some (init_cap c) | _ => None end)
  && (o_supply p =? init_supply_of c)
  && forallb (fun x => gb p x =? (if N.eqb x (owner c) then init_supply_of c else 0)) (universe c)
  && forallb (fun x => forallb (fun y => ga p x y =? 0) (universe c)) (universe c)
  && optZ_eqb (o_data p) None.

Fixpoint last_obs_from (p : obs) (l : list tstep) : obs :=
  match l with [] => p | st :: r => last_obs_from (snd st) r end.
Definition last_obs (t : trace) : obs := last_obs_from (t_obs0 t) (t_steps t).

(* a wrong state right after deployment is reported at call 1; list entries still unread at the
   end of the trace at the last call *)
Definition mon (t : trace) : N :=
  if ctor_ok (t_cfg t) then
    if mon_init (t_cfg t) (t_obs0 t)
    then match mon_from (t_cfg t) (hist0 (t_cfg t)) (t_obs0 t) (t_steps t) 0%N with
         | 0%N => if all_read (last_obs t) then 0%N else N.max 1 (N.of_nat (length (t_steps t)))
         | k => k
         end
    else 1%N
  else if dead_trace t then 0%N else 1%N.

Definition check (t : trace) : verdict := (diff t, mon t, 0%N).
Definition check_all (ts : list trace) : list verdict := map check ts.

(* the observations the model itself produces *)
Fixpoint model_steps (c : cfg) (s : state) (cs : list call) : list tstep :=
  match cs with
  | [] => []
  | cl :: r => (cl, snd (step c s cl), observe c (fst (step c s cl))) :: model_steps c (fst (step c s cl)) r
  end.
Definition observe_model (c : cfg) (cs : list call) : trace :=
  mkTrace c (observe c (init c)) (model_steps c (init c) cs).

(* diagnostics: the value of every named clause at the first step the monitor rejects
   (order: no-effect-on-failure, paused-blocks, alternation, allow, block, getters-follow-history,
   cap, migrate, works-again, effects, shape); [] if the monitor accepts *)
Definition clause_vector (c : cfg) (h : hist) (p : obs) (st : tstep) : list bool :=
  let '(cl, ok, q) := st in
  let o := fst cl in
  [ m_noeffect p ok q; m_paused_blocks c h o ok; m_alternation h o ok; m_allow c h o ok; m_block c h o ok;
    m_getters c (if ok then hist_upd h o else h) q; m_cap c p o ok q; m_migrate h o ok;
    m_reopen c h p cl ok; m_effects c h p o ok q; m_shape c q ].
Fixpoint first_rejection (c : cfg) (h : hist) (p : obs) (l : list tstep) : list bool :=
  match l with
  | [] => []
  | st :: r => if mon_step c h p st then first_rejection c (hist_next h st) (snd st) r
               else clause_vector c h p st
  end.
Definition rejected_clauses (t : trace) : list bool :=
  first_rejection (t_cfg t) (hist0 (t_cfg t)) (t_obs0 t) (t_steps t).
