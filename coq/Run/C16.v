(* C16: trace checker (model vs implementation) and monitor (property vs implementation). *)
From SC Require Import Lib.Prelude Lib.Int Lib.Host Model.Gates Model.GatesSpec.

(* ------------------------------------------------------------------ *)
(* traces                                                              *)
(* one trace = one deployed contract: constructor arguments, the observation right after
   deployment, then for every call: the call, ok/fail, the observation after it *)
Definition tstep := (call * bool * obs)%type.
Record trace := mkTrace { t_cfg : cfg; t_obs0 : obs; t_steps : list tstep }.

(* ------------------------------------------------------------------ *)
(* equality of observations                                            *)
Fixpoint list_eqb {A} (eq : A -> A -> bool) (a b : list A) : bool :=
  match a, b with
  | [], [] => true
  | x :: a', y :: b' => eq x y && list_eqb eq a' b'
  | _, _ => false
  end.
Definition optZ_eqb (a b : option Z) : bool :=
  match a, b with Some x, Some y => x =? y | None, None => true | _, _ => false end.
(* list status: an unread entry (None) matches anything *)
Definition ob_eqb (a b : option bool) : bool :=
  match a, b with Some x, Some y => Bool.eqb x y | _, _ => true end.
Definition obs_eqb (a b : obs) : bool :=
  (o_supply a =? o_supply b) && list_eqb Z.eqb (o_bal a) (o_bal b)
  && list_eqb (list_eqb Z.eqb) (o_alw a) (o_alw b)
  && Bool.eqb (o_paused a) (o_paused b) && list_eqb ob_eqb (o_list a) (o_list b)
  && optZ_eqb (o_cap a) (o_cap b) && Bool.eqb (o_mig a) (o_mig b) && optZ_eqb (o_data a) (o_data b)
  && Bool.eqb (o_trap a) (o_trap b) && list_eqb Bool.eqb (o_mgr a) (o_mgr b).

(* ------------------------------------------------------------------ *)
(* diff: replay through the model                                      *)
Fixpoint diff_from (c : cfg) (s : state) (l : list tstep) (i : N) : N :=
  match l with
  | [] => 0%N
  | (cl, ok, o) :: r =>
      let '(s', ok') := step c s cl in
      if Bool.eqb ok ok' && obs_eqb o (observe c s') then diff_from c s' r (N.succ i) else N.succ i
  end.

(* a wrong observation right after deployment is reported as a disagreement at call 1 *)
Definition diff (t : trace) : N :=
  if obs_eqb (t_obs0 t) (observe (t_cfg t) (init (t_cfg t)))
  then diff_from (t_cfg t) (init (t_cfg t)) (t_steps t) 0%N
  else 1%N.


(* ------------------------------------------------------------------ *)
(* monitor: the property over implementation observations only          *)
(* It sees: constructor arguments, calls, authorisation sets, ok/fail and getter values.
   It keeps the *history* of the gate operations that succeeded on the implementation
   ([hist], Model/GatesSpec.v: the last successful pause/unpause, the last successful list
   change of every address, whether an upgrade succeeded since the last successful migration,
   the ledger) and states, for every call, what the property demands of its outcome and of
   the getter values after it.  No model state is consulted. *)

(* getters over an observation *)
Definition gb (p : obs) (a : addr) : Z := nth (N.to_nat a) (o_bal p) 0.
Definition ga (p : obs) (o sp : addr) : Z := nth (N.to_nat sp) (nth (N.to_nat o) (o_alw p) []) 0.
Definition gl (p : obs) (a : addr) : option bool := nth (N.to_nat a) (o_list p) None.
Definition gm (p : obs) (a : addr) : bool := nth (N.to_nat a) (o_mgr p) false.
Definition view_obs (p : obs) : view := mkView (o_supply p) (gb p) (ga p) (o_cap p) (o_data p).

(* --- the clauses of the property text, one by one ---------------------------------- *)

(* a failing call has no effect on anything observable *)
Definition m_noeffect (p : obs) (ok : bool) (q : obs) : bool := implies (negb ok) (obs_eqb q p).

(* while paused every entry point declared pausable fails *)
Definition m_paused_blocks (c : cfg) (h : hist) (o : op) (ok : bool) : bool :=
  implies (is_paus (knd c) && h_paused h && pausable_op o) (negb ok).

(* pause and unpause strictly alternate *)
Definition m_alternation (h : hist) (o : op) (ok : bool) : bool :=
  match o with
  | Pause _ => implies ok (negb (h_paused h))
  | Unpause _ => implies ok (h_paused h)
  | _ => true
  end.

(* allow list: success => every vetted party allowed; block list: success => none blocked *)
Definition m_allow (c : cfg) (h : hist) (o : op) (ok : bool) : bool :=
  implies (is_allow (knd c) && ok) (forallb (h_listed h) (vetted o)).
Definition m_block (c : cfg) (h : hist) (o : op) (ok : bool) : bool :=
  implies (is_block (knd c) && ok) (forallb (fun a => negb (h_listed h a)) (vetted o)).

(* the pause / list / migration getters always equal what the history of successful gate
   operations says: changes are immediate, idempotent, and nothing else moves a gate *)
Definition m_getters (c : cfg) (h' : hist) (q : obs) : bool :=
  Bool.eqb (o_paused q) (h_paused h')
  && forallb (fun x => match gl q x with
                        | Some b => Bool.eqb b (h_listed h' x)
                        | None => true                      (* not read after this call *)
                        end) (universe c)
  && Bool.eqb (o_mig q) (h_armed h')
  && negb (o_trap q)                                        (* no getter may trap *)
  && forallb (fun x => Bool.eqb (gm q x) (h_mgr h' x)) (universe c).   (* "manager" role holders *)

(* a cap-checked mint never lifts the supply above the cap; overflow => failure *)
Definition m_cap (c : cfg) (p : obs) (o : op) (ok : bool) (q : obs) : bool :=
  match o with
  | Mint _ a =>
      implies (is_cap (knd c) && ok)
        (match o_cap p with
         | Some cp => (o_supply q =? o_supply p + a) && (o_supply q <=? cp) && in_i128 (o_supply p + a)
         | None => false
         end)
  | _ => true
  end.

(* a migration completes only if an upgrade happened since the last one *)
Definition m_migrate (h : hist) (o : op) (ok : bool) : bool :=
  match o with
  | Migrate _ _ | LibEnsure => implies ok (h_armed h)
  | _ => true
  end.

(* exactness: the call succeeds iff its gates are open and the fungible core / the
   authorisation rules have no objection - so a gate that fails to re-open is caught too *)
Definition m_exact (c : cfg) (h : hist) (p : obs) (cl : call) (ok : bool) : bool :=
  Bool.eqb ok (expected_ok c h (view_obs p) cl).

(* effects of a successful call on supply, balances, allowances, cap, migration data *)
Definition m_effects (c : cfg) (p : obs) (o : op) (ok : bool) (q : obs) : bool :=
  implies ok
    ((o_supply q =? exp_supply (view_obs p) o)
     && forallb (fun x => gb q x =? exp_bal (view_obs p) o x) (universe c)
     && forallb (fun x => forallb (fun y =>
            match o with
            | Advance _ => (ga q x y =? ga p x y) || (ga q x y =? 0)      (* an allowance may expire *)
            | _ => ga q x y =? exp_alw (view_obs p) o x y
            end) (universe c)) (universe c)
     && optZ_eqb (o_cap q) (exp_cap (view_obs p) o)
     && optZ_eqb (o_data q) (exp_data (view_obs p) o)).

Definition mon_step (c : cfg) (h : hist) (p : obs) (st : tstep) : bool :=
  let '(cl, ok, q) := st in
  let o := fst cl in
  let h' := if ok then hist_upd h o else h in
  m_noeffect p ok q
  && m_paused_blocks c h o ok && m_alternation h o ok
  && m_allow c h o ok && m_block c h o ok
  && m_getters c h' q
  && m_cap c p o ok q && m_migrate h o ok
  && m_exact c h p cl ok && m_effects c p o ok q.

Definition hist_next (h : hist) (st : tstep) : hist :=
  let '(cl, ok, _) := st in if ok then hist_upd h (fst cl) else h.

Fixpoint mon_from (c : cfg) (h : hist) (p : obs) (l : list tstep) (i : N) : N :=
  match l with
  | [] => 0%N
  | st :: r =>
      if mon_step c h p st
      then mon_from c (hist_next h st) (snd st) r (N.succ i)
      else N.succ i
  end.

(* what must hold right after deployment: gates in their constructor state *)
Definition mon_init (c : cfg) (p : obs) : bool := m_getters c (hist0 c) p.

(* a wrong gate state right after deployment is reported at call 1 *)
Definition mon (t : trace) : N :=
  if mon_init (t_cfg t) (t_obs0 t)
  then mon_from (t_cfg t) (hist0 (t_cfg t)) (t_obs0 t) (t_steps t) 0%N
  else 1%N.

Definition check (t : trace) : verdict := (diff t, mon t, 0%N).
Definition check_all (ts : list trace) : list verdict := map check ts.

(* the observations the model itself produces *)
Fixpoint model_steps (c : cfg) (s : state) (cs : list call) : list tstep :=
  match cs with
  | [] => []
  | cl :: r => (cl, snd (step c s cl), observe c (fst (step c s cl))) :: model_steps c (fst (step c s cl)) r
  end.
Definition observe_model (c : cfg) (cs : list call) : trace :=
  mkTrace c (observe c (init c)) (model_steps c (init c) cs).

(* diagnostics: the value of every named clause at the first step the monitor rejects
   (order: no-effect-on-failure, paused-blocks, alternation, allow, block, getters-follow-history,
   cap, migrate, exactness, effects); [] if the monitor accepts *)
Definition clause_vector (c : cfg) (h : hist) (p : obs) (st : tstep) : list bool :=
  let '(cl, ok, q) := st in
  let o := fst cl in
  [ m_noeffect p ok q; m_paused_blocks c h o ok; m_alternation h o ok; m_allow c h o ok; m_block c h o ok;
    m_getters c (if ok then hist_upd h o else h) q; m_cap c p o ok q; m_migrate h o ok;
    m_exact c h p cl ok; m_effects c p o ok q ].
Fixpoint first_rejection (c : cfg) (h : hist) (p : obs) (l : list tstep) : list bool :=
  match l with
  | [] => []
  | st :: r => if mon_step c h p st then first_rejection c (hist_next h st) (snd st) r
               else clause_vector c h p st
  end.
Definition rejected_clauses (t : trace) : list bool :=
  first_rejection (t_cfg t) (hist0 (t_cfg t)) (t_obs0 t) (t_steps t).
