(* C19: trace checker (model vs implementation) and monitor (property vs implementation). *)
From SC Require Import Lib.Prelude Lib.Int Lib.Host Model.FeeForwarder.

(* ---- short constructors used by the harness printer ---- *)
Definition Fn (c : addr) (f : N) (a : list val) : func := {| f_contract := c; f_name := f; f_args := a |}.
Definition En (w : addr) (r : func) (s : list func) : entry := {| en_who := w; en_root := r; en_subs := s |}.
Definition TO (t : Z) (b : list Z) (a : list (list (Z * Z))) : tokobs := {| ob_total := t; ob_bal := b; ob_alw := a |}.
Definition Ob (nw : Z) (tk : list tokobs) (cnt : N) (en : list (option addr)) (past : option addr)
  (ix : list (option N)) (al : list bool) (flc : N) (lg : list (list logent)) (ex mg : list bool) : obs :=
  {| o_now := nw; o_toks := tk; o_count := cnt; o_enum := en; o_past := past; o_idx := ix;
     o_allowed := al; o_flcount := flc; o_logs := lg; o_exec := ex; o_mgr := mg |}.
Definition Cf (mn mx start : Z) (fp fl : addr) (ex mg tk tg ho ow sp ca : list addr) : cfg :=
  {| c_host := {| min_temp_ttl := mn; max_ttl := mx |}; c_start := start; c_fp := fp; c_fl := fl;
     c_executors := ex; c_managers := mg; c_tokens := tk; c_targets := tg;
     c_holders := ho; c_owners := ow; c_spenders := sp; c_cands := ca |}.

Definition item := (call * res Z * obs)%type.
Definition trace := (cfg * obs * list item)%type.

(* ---- boolean equalities on observations ---- *)
Definition opt_eqb {A} (eqb : A -> A -> bool) (x y : option A) : bool :=
  match x, y with Some a, Some b => eqb a b | None, None => true | _, _ => false end.
Definition zz_eqb (x y : Z * Z) : bool := (fst x =? fst y) && (snd x =? snd y).
Definition logent_eqb (x y : logent) : bool := N.eqb (fst x) (fst y) && list_eqb atom_eqb (snd x) (snd y).
Definition tokobs_eqb (x y : tokobs) : bool :=
  (ob_total x =? ob_total y) && list_eqb Z.eqb (ob_bal x) (ob_bal y)
  && list_eqb (list_eqb zz_eqb) (ob_alw x) (ob_alw y).
Definition obs_eqb (x y : obs) : bool :=
  (o_now x =? o_now y) && list_eqb tokobs_eqb (o_toks x) (o_toks y)
  && N.eqb (o_count x) (o_count y) && list_eqb (opt_eqb N.eqb) (o_enum x) (o_enum y)
  && opt_eqb N.eqb (o_past x) (o_past y) && list_eqb (opt_eqb N.eqb) (o_idx x) (o_idx y)
  && list_eqb Bool.eqb (o_allowed x) (o_allowed y) && N.eqb (o_flcount x) (o_flcount y)
  && list_eqb (list_eqb logent_eqb) (o_logs x) (o_logs y)
  && list_eqb Bool.eqb (o_exec x) (o_exec y) && list_eqb Bool.eqb (o_mgr x) (o_mgr y).
Definition out_eqb (x y : res Z) : bool :=
  match x, y with Ok a, Ok b => a =? b | Fail, Fail => true | _, _ => false end.

(* ---- diff: replay through the model ---- *)
Fixpoint diff_from (c : cfg) (st : state) (l : list item) (i : N) : N :=
  match l with
  | [] => 0%N
  | (cl, out, ob) :: r =>
      let '(st', out') := step c st cl in
      if out_eqb out' out && obs_eqb (observe c st') ob then diff_from c st' r (N.succ i) else N.succ i
  end.
Definition diff (t : trace) : N :=
  let '(c, o0, l) := t in
  if obs_eqb (observe c (init c)) o0 then diff_from c (init c) l 0%N else 1%N.

(* ------------------------------------------------------------------------- *)
(* Monitor: the property as a boolean over implementation observations only   *)
(* ------------------------------------------------------------------------- *)
Fixpoint all3 {K A B} (p : K -> A -> B -> bool) (ks : list K) (l : list A) (m : list B) : bool :=
  match ks, l, m with
  | [], [], [] => true
  | k :: ks', a :: l', b :: m' => p k a b && all3 p ks' l' m'
  | _, _, _ => false
  end.

(* the authorisation entries attached to the call contain one signed by [who] whose ROOT
   invocation is exactly [f] *)
Definition has_root (au : list entry) (who : addr) (f : func) : bool :=
  existsb (fun e => N.eqb (en_who e) who && func_eqb (en_root e) f) au.
(* ... one signed by [who] that covers [f] as root or as a direct sub-invocation *)
Definition has_sub_or_root (au : list entry) (who : addr) (f : func) : bool :=
  existsb (fun e => N.eqb (en_who e) who
                    && (func_eqb (en_root e) f || existsb (fun s => func_eqb s f) (en_subs e))) au.

(* relation between the token observations before / after a call, cell by cell *)
Definition toks_rel (c : cfg) (total_ok : addr -> Z -> Z -> bool) (bal_ok : addr -> addr -> Z -> Z -> bool)
  (alw_ok : addr -> addr -> addr -> Z * Z -> Z * Z -> bool) (prev cur : obs) : bool :=
  all3 (fun t x y =>
          total_ok t (ob_total x) (ob_total y)
          && all3 (bal_ok t) (c_holders c) (ob_bal x) (ob_bal y)
          && all3 (fun o r1 r2 => all3 (alw_ok t o) (c_spenders c) r1 r2) (c_owners c) (ob_alw x) (ob_alw y))
       (c_tokens c) (o_toks prev) (o_toks cur).
Definition logs_rel (c : cfg) (p : addr -> list logent -> list logent -> bool) (prev cur : obs) : bool :=
  all3 p (c_targets c) (o_logs prev) (o_logs cur).

Definition same_total (_ : addr) (x y : Z) : bool := x =? y.
Definition same_bal (_ _ : addr) (x y : Z) : bool := x =? y.
Definition same_alw (_ _ _ : addr) (x y : Z * Z) : bool := zz_eqb x y.
Definition same_log (_ : addr) (x y : list logent) : bool := list_eqb logent_eqb x y.

Definition al_obs_eqb (x y : obs) : bool :=
  N.eqb (o_count x) (o_count y) && list_eqb (opt_eqb N.eqb) (o_enum x) (o_enum y)
  && opt_eqb N.eqb (o_past x) (o_past y) && list_eqb (opt_eqb N.eqb) (o_idx x) (o_idx y)
  && list_eqb Bool.eqb (o_allowed x) (o_allowed y) && N.eqb (o_flcount x) (o_flcount y).

(* ---- the allow-list observation against the set of tokens allowed and not since removed ---- *)
Definition is_some {A} (o : option A) : bool := match o with Some _ => true | None => false end.
Fixpoint strip {A} (l : list (option A)) : list A :=
  match l with [] => [] | Some a :: r => a :: strip r | None :: r => strip r end.
Fixpoint nodupb (l : list addr) : bool :=
  match l with [] => true | a :: r => negb (memb a r) && nodupb r end.
Fixpoint find_index (t : addr) (l : list addr) (i : N) : option N :=
  match l with [] => None | a :: r => if N.eqb t a then Some i else find_index t r (N.succ i) end.
Fixpoint remove_addr (t : addr) (l : list addr) : list addr :=
  match l with [] => [] | a :: r => if N.eqb t a then remove_addr t r else a :: remove_addr t r end.

(* (a stale Token(i) slot past the end is a disagreement with the model - the diff compares
   [o_past] - but not a violation of the property: the enumeration is Token(0..count-1)) *)
(* the observation has the shape the header announces (one entry per listed token / holder /
   owner x spender / target) *)
Definition shape_ok (c : cfg) (o : obs) : bool :=
  Nat.eqb (length (o_toks o)) (length (c_tokens c))
  && forallb (fun t => Nat.eqb (length (ob_bal t)) (length (c_holders c))
                       && Nat.eqb (length (ob_alw t)) (length (c_owners c))
                       && forallb (fun r => Nat.eqb (length r) (length (c_spenders c))) (ob_alw t)) (o_toks o)
  && Nat.eqb (length (o_logs o)) (length (c_targets c)).

Definition al_consistent (c : cfg) (S : list addr) (o : obs) : bool :=
  let ts := strip (o_enum o) in
  shape_ok c o &&
  N.eqb (o_count o) (N.of_nat (length (o_enum o)))
  && forallb is_some (o_enum o)
  && nodupb ts && forallb (fun t => memb t S) ts && forallb (fun t => memb t ts) S
  && all3 (fun t ix al => opt_eqb N.eqb ix (find_index t ts 0%N)
                          && Bool.eqb al (N.eqb (o_count o) 0 || memb t ts))
          (c_cands c) (o_idx o) (o_allowed o)
  && N.eqb (o_flcount o) 0
  (* the roles granted at construction are still there (and nobody else has them): stored state
     holds until explicitly changed, however many ledgers pass *)
  && list_eqb Bool.eqb (o_exec o) (map (fun h => memb h (c_executors c)) (c_holders c))
  && list_eqb Bool.eqb (o_mgr o) (map (fun h => memb h (c_managers c)) (c_holders c)).

(* ---- per call ---- *)
(* an allowance with a positive amount survives exactly until its live_until ledger *)
Definition expire_ok (nw : Z) (x y : Z * Z) : bool :=
  if 0 <? fst x then zz_eqb y (if snd x <? nw then (0, 0) else x) else fst y =? 0.

(* ---- forward ---- *)
(* the fee part: what the (user -> forwarder) allowance on the fee token must read after the fee has
   been collected, given what it read before ([need] = a fresh approval was due) *)
Definition fee_need (ap : approval) (max : Z) (x : Z * Z) : bool :=
  match ap with Eager => true | Lazy => fst x <? max end.
Definition is_fee_cell (tok user F t o s : addr) : bool := N.eqb t tok && N.eqb o user && N.eqb s F.
Definition fee_value (ap : approval) (tok user F : addr) (fee max exp : Z) (t o s : addr) (x : Z * Z) : Z * Z :=
  if is_fee_cell tok user F t o s
  then (if fee_need ap max x then (max - fee, exp) else (fst x - fee, snd x))
  else x.

(* a fresh approval is authorised UNDER the user's signed forward tree: token.approve(user, F, max,
   exp) is a direct sub-invocation of an entry signed by the user whose root is the forward tuple
   [f2] (or, when user = relayer, the relayer's argument list [f1]) *)
Definition approve_under_tree (au : list entry) (user relayer : addr) (f1 f2 ap : func) : bool :=
  existsb (fun e => N.eqb (en_who e) user
                    && existsb (fun s => func_eqb s ap) (en_subs e)
                    && (func_eqb (en_root e) f2 || (N.eqb user relayer && func_eqb (en_root e) f1))) au.

Definition transfer_delta (tok from to : addr) (amt : Z) (t h : addr) : Z :=
  if N.eqb t tok then (if N.eqb h to then amt else 0) - (if N.eqb h from then amt else 0) else 0.
Definition transfer_bal (tok from to : addr) (amt : Z) (t h : addr) (x y : Z) : bool :=
  y =? x + transfer_delta tok from to amt t h.

(* the target part, when the target is itself a fee token: the token function the forwarder is
   made to call moves [amt] from [from] to [to], spending [from]'s allowance to [sp] if it is a
   transfer_from: (from, to, amt, sp) *)
Definition tgt_moves (c : cfg) (target : addr) (fn : N) (args : list atom)
  : option (addr * addr * Z * option addr) :=
  if memb target (c_tokens c) then
    match args with
    | [AA spender; AA from; AA to; AI amt] =>
        if N.eqb fn F_TRANSFER_FROM then Some (from, to, amt, Some spender) else None
    | [AA from; AA to; AI amt] => if N.eqb fn F_TRANSFER then Some (from, to, amt, None) else None
    | _ => None
    end
  else None.
Definition tgt_delta (mv : option (addr * addr * Z * option addr)) (target t h : addr) : Z :=
  match mv with Some (from, to, amt, _) => transfer_delta target from to amt t h | None => 0 end.
Definition tgt_alw (mv : option (addr * addr * Z * option addr)) (target t o s : addr) (z : Z * Z) : Z * Z :=
  match mv with
  | Some (from, _, amt, Some sp) =>
      if N.eqb t target && N.eqb o from && N.eqb s sp && (0 <? amt) then (fst z - amt, snd z) else z
  | _ => z
  end.

(* what the harness target logs for a call: a re-entering function also logs the result of the call
   it made into the fee token / the forwarder, and that result must be 0 (refused and rolled back) *)
Definition expected_entry (fn : N) (args : list atom) : logent :=
  if is_script fn then (fn, args ++ [AI 0]) else (fn, args).

Definition recipient_of (c : cfg) (k : kind) (relayer : addr) : addr :=
  match k with Permissioned => fwd_addr c k | Permissionless => relayer end.

(* Well-formedness of a call: a boolean that [check] EVALUATES on every call of a trace (a call
   that is not well-formed is a monitor failure, never silently monitored).
   (1) Every principal whose balance / allowance the call can move is in the observed tables of the
       header (otherwise the per-cell clauses would be vacuous for it).
   (2) When the forwarded target function re-enters a fee token from inside, NOBODY among the
       signers of this call authorised that inner call and its principal is not the target itself
       (the inner call is "on behalf of nobody"). *)
Definition wf_call (c : cfg) (cl : call) : bool :=
  match cl with
  | Advance _ => true
  | Mint tok to amt => memb to (c_holders c)
  | Approve tok owner spender amt exp au => memb owner (c_owners c) && memb spender (c_spenders c)
  | SetTok _ _ _ _ => true
  | Sweep tok recipient operator au => memb (c_fp c) (c_holders c) && memb recipient (c_holders c)
  | Forward k tok fee max exp target fn args user relayer au =>
      let F := fwd_addr c k in
      (* a forward whose user is the forwarder itself can only fail *)
      (N.eqb F user
       || (memb user (c_holders c) && memb user (c_owners c) && memb (recipient_of c k relayer) (c_holders c)
           && memb F (c_spenders c)
           && match tgt_moves c target fn args with
              | Some (from, to, _, sp) =>
                  memb from (c_holders c) && memb to (c_holders c)
                  && match sp with Some s => memb from (c_owners c) && memb s (c_spenders c) | None => true end
              | None => true
              end))
      && match args with
         | [AA tk; AA spender; AA from; AA to; AI amt; AI sw] =>
             negb (N.eqb fn F_PULL)
             || (negb (N.eqb target spender)
                 && negb (has_sub_or_root au spender (mkf tk F_TRANSFER_FROM [VA spender; VA from; VA to; VI amt])))
         | [AA tk; AA owner; AA spender; AI amt; AI exp'; AI sw] =>
             negb (N.eqb fn F_APPROVE_FOR)
             || (negb (N.eqb target owner)
                 && negb (has_sub_or_root au owner (mkf tk F_APPROVE (approve_args owner spender amt exp'))))
         | _ => true
         end
  end.

Definition mon_forward (c : cfg) (prev cur : obs) (k : kind) (tok : addr) (fee max exp : Z)
  (target : addr) (fn : N) (args : list atom) (user relayer : addr) (au : list entry) (ret : Z) : bool :=
  let F := fwd_addr c k in
  let recipient := recipient_of c k relayer in
  let f1 := mkf F F_FORWARD (forward_args tok fee max exp target fn args user relayer) in
  let f2 := mkf F F_FORWARD (user_args tok max exp target fn args) in
  let mv := tgt_moves c target fn args in
  (* the user's authorisation over the fee token, the maximum fee, the expiration ledger and the
     exact target contract, function and arguments; the relayer's over the whole call *)
  has_root au user f2
  && has_root au relayer f1
  && (match k with Permissioned => memb relayer (c_executors c) | Permissionless => true end)
  (* the fee is positive and at most the authorised maximum; the authorisation has not expired *)
  && (0 <? fee) && (fee <=? max) && (o_now prev <=? exp)
  && negb (N.eqb F user)
  (* the fee token is accepted only if the allow-list is empty or contains it *)
  && (match k with
      | Permissioned => N.eqb (o_count prev) 0 || existsb (opt_eqb N.eqb (Some tok)) (o_enum prev)
      | Permissionless => true
      end)
  && memb tok (c_tokens c)
  (* exactly the fee leaves the user and reaches the recipient; beyond that only what the signed
     target call itself moves (nothing, unless the target is a fee token); nobody else is touched.
     The allowance (user -> forwarder) changes as the approval strategy says (a fresh approval being
     authorised under the user's forward tree), then as the signed target call says. *)
  && toks_rel c same_total
       (fun t h x y => y =? x + transfer_delta tok user recipient fee t h + tgt_delta mv target t h)
       (fun t o s x y =>
          (* the property does not fix the order of fee collection and target call: either composition
             is accepted (the code collects the fee first; a change of order is left to the diff) *)
          let ok_after x0 :=
            if is_fee_cell tok user F t o s && fee_need (approval_of k) max x0
            then approve_under_tree au user relayer f1 f2 (mkf tok F_APPROVE (approve_args user F max exp))
            else true in
          (zz_eqb y (tgt_alw mv target t o s (fee_value (approval_of k) tok user F fee max exp t o s x))
           && ok_after x)
          || (zz_eqb y (fee_value (approval_of k) tok user F fee max exp t o s (tgt_alw mv target t o s x))
              && ok_after (tgt_alw mv target t o s x)))
       prev cur
  (* exactly that target call, once: a harness target logs it (and whatever it tried on the fee token
     from inside was refused); a fee token as target shows it by the movement above *)
  && (if memb target (c_tokens c)
      then is_some mv && logs_rel c same_log prev cur && (ret =? 0)
      else memb target (c_targets c)
           && logs_rel c (fun g x y => if N.eqb g target
                                       then list_eqb logent_eqb y (x ++ [expected_entry fn args])
                                            && (ret =? Z.of_nat (length y))
                                       else list_eqb logent_eqb x y) prev cur)
  && (o_now cur =? o_now prev) && al_obs_eqb prev cur.

Definition mon_call (c : cfg) (S : list addr) (prev cur : obs) (cl : call) (ret : Z) : bool * list addr :=
  match cl with
  | Advance n =>
      ((0 <=? n) && (o_now cur =? o_now prev + n)
       && toks_rel c same_total same_bal (fun _ _ _ => expire_ok (o_now cur)) prev cur
       && logs_rel c same_log prev cur && al_obs_eqb prev cur, S)
  | Mint tok to amt =>
      ((0 <=? amt)
       && toks_rel c (fun t x y => y =? x + (if N.eqb t tok then amt else 0))
            (fun t h x y => y =? x + (if N.eqb t tok && N.eqb h to then amt else 0)) same_alw prev cur
       && logs_rel c same_log prev cur && al_obs_eqb prev cur && (o_now cur =? o_now prev), S)
  | Approve tok owner spender amt exp au =>
      (has_root au owner (mkf tok F_APPROVE (approve_args owner spender amt exp))
       && (0 <=? amt)
       && toks_rel c same_total same_bal
            (fun t o s x y => if N.eqb t tok && N.eqb o owner && N.eqb s spender
                              then (if 0 <? amt then zz_eqb y (amt, exp) && (o_now prev <=? exp) else fst y =? 0)
                              else zz_eqb x y) prev cur
       && logs_rel c same_log prev cur && al_obs_eqb prev cur && (o_now cur =? o_now prev), S)
  | Forward k tok fee max exp target fn args user relayer au =>
      (mon_forward c prev cur k tok fee max exp target fn args user relayer au ret, S)
  | SetTok allowed tok operator au =>
      (memb operator (c_managers c)
       && has_root au operator (mkf (c_fp c) (if allowed then F_ENABLE else F_DISABLE) [VA tok; VA operator])
       && (if allowed then negb (memb tok S) else memb tok S)
       && toks_rel c same_total same_bal same_alw prev cur
       && logs_rel c same_log prev cur && (o_now cur =? o_now prev),
       if allowed then tok :: S else remove_addr tok S)
  | Sweep tok recipient operator au =>
      (memb operator (c_managers c)
       && has_root au operator (mkf (c_fp c) F_SWEEP [VA tok; VA recipient; VA operator])
       && negb (ret =? 0)
       && toks_rel c same_total
            (fun t h x y => transfer_bal tok (c_fp c) recipient ret t h x y
                            && (if N.eqb t tok && N.eqb h (c_fp c) then x =? ret else true))
            same_alw prev cur
       && logs_rel c same_log prev cur && al_obs_eqb prev cur && (o_now cur =? o_now prev), S)
  end.

(* one step: a failing call leaves no trace at all; a succeeding one satisfies its clause; the
   allow-list observation always matches the set of tokens allowed and not since removed *)
Definition mon_step (c : cfg) (S : list addr) (prev : obs) (it : item) : bool * list addr :=
  let '(cl, out, cur) := it in
  if negb (wf_call c cl) then (false, S) else
  match out with
  | Fail => (obs_eqb prev cur && al_consistent c S cur, S)
  | Ok ret => let '(b, S') := mon_call c S prev cur cl ret in (b && al_consistent c S' cur, S')
  end.

Fixpoint mon_from (c : cfg) (S : list addr) (prev : obs) (l : list item) (i : N) : N :=
  match l with
  | [] => 0%N
  | it :: r =>
      let '(b, S') := mon_step c S prev it in
      if b then mon_from c S' (snd it) r (N.succ i) else N.succ i
  end.
Definition mon (t : trace) : N :=
  let '(c, o0, l) := t in
  if al_consistent c [] o0 && (o_now o0 =? c_start c) then mon_from c [] o0 l 0%N else 1%N.

Definition check (t : trace) : verdict := (diff t, mon t, 0%N).
Definition check_all (ts : list trace) : list verdict := map check ts.

(* the trace the model itself produces *)
Fixpoint model_items (c : cfg) (st : state) (cs : list call) : list item :=
  match cs with
  | [] => []
  | cl :: r => let '(st', out) := step c st cl in (cl, out, observe c st') :: model_items c st' r
  end.
Definition observe_model (c : cfg) (cs : list call) : trace :=
  (c, observe c (init c), model_items c (init c) cs).
