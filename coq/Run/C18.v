(* C18: trace type, model-vs-implementation diff and the monitor (the property as a
   boolean over the implementation's observations only).

   The monitor stands on its own: it re-reads the printed client data with its own JSON
   reader (Model/ClientDataSpec.v) and the printed sig_data with its own XDR decoder
   (Model/SigDataXdrSpec.v) and uses the harness-supplied parser / decoder answers only where
   its reader does not decide; it uses the RFC 4648 specification (not the model's encoder),
   bit tests (not masks), its own spelling of "webauthn.get", and the DOCUMENTED bounds
   1024 / 37 (the model keeps the code's constants from the trace header).  Well-formedness
   of the trace (header, sizes, consistency of the oracle answers with the printed bytes and
   with each other) is checked, not assumed. *)
From SC Require Import Lib.Prelude Lib.Int Model.Base64 Model.Verifiers
  Model.ClientDataSpec Model.SigDataXdrSpec.
From Coq Require Strings.Ascii Strings.String.
Open Scope Z_scope.

(* ------------------------------------------------------------------ *)
(* calls *)
Record assertion := {
  a_payload : list Z;                      (* signature_payload *)
  a_key : list Z;                          (* 65-byte SEC1 public key *)
  a_sig : list Z;                          (* 64-byte signature *)
  a_ad : list Z;                           (* authenticator data *)
  a_cd : list Z;                           (* client data JSON *)
  a_parsed : option (list Z * list Z);     (* oracle: serde_json_core -> (type, challenge) *)
  a_sigok : bool;                          (* oracle: P-256 verification of a_sig under a_key
                                              over sha256 (a_ad ++ sha256 a_cd), computed by the
                                              harness with the p256 crate and its own SHA-256 *)
  a_expect : option bool                   (* what the generator knows by construction:
                                              Some true = genuine, Some false = corrupted *)
}.

Inductive call :=
| B64 (dst_len : Z) (src : list Z)              (* base64_url_encode(&mut [0; dst_len], src) *)
| B64F (dst src : list Z)                       (* base64_url_encode(&mut dst, src), dst NOT zeroed *)
| Extract (n : Z) (sb eb : bound) (data : list Z)   (* extract_from_bytes::<n>(data, (sb, eb)) *)
| Flags (f : Z)                                 (* the three validate_*_bit functions, in order *)
| FlagOne (which : Z) (f : Z)                   (* one of them: 0 = user present, 1 = user verified,
                                                   2 = backup eligibility/state *)
| TypeChk (ty : list Z)                         (* validate_expected_type *)
| Challenge (ch payload : list Z)               (* validate_challenge *)
| WaLib (a : assertion)                         (* webauthn::verify *)
| WaEx (key_data sig_data : list Z) (decoded : bool) (a : assertion)
                                                (* WebauthnVerifierContract::verify; decoded = oracle:
                                                   WebAuthnSigData::from_xdr succeeded (fields in a) *)
| EdLib (payload key sig : list Z) (sigok : bool) (expect : option bool)   (* ed25519::verify *)
| EdEx (payload key sig : list Z) (sigok : bool) (expect : option bool)    (* Ed25519VerifierContract, reached
                                                   through the generic interface verify(Bytes, Val, Val): key and sig
                                                   are byte strings of ANY length *)
| BadArg (which shape : Z).                     (* an example verifier contract (0 = Ed25519, 1 = WebAuthn) called
                                                   through the generic interface with an argument that is not a byte
                                                   string at all (shape = 100 * position + kind of value) *)

Inductive out := OUnit | OBool (b : bool) | OBytes (l : list Z) | OOpt (o : option (list Z)).
Definition outcome := res out.
Definition obs := (call * outcome)%type.
Definition trace := (cfg * list obs)%type.

Definition eqb_out (a b : out) : bool :=
  match a, b with
  | OUnit, OUnit => true
  | OBool x, OBool y => Bool.eqb x y
  | OBytes x, OBytes y => eqb_bytes x y
  | OOpt None, OOpt None => true
  | OOpt (Some x), OOpt (Some y) => eqb_bytes x y
  | _, _ => false
  end.
Definition eqb_outcome (a b : outcome) : bool :=
  match a, b with Ok x, Ok y => eqb_out x y | Fail, Fail => true | _, _ => false end.

(* ------------------------------------------------------------------ *)
(* the model's answer to a call *)
Definition lift {A} (f : A -> out) (r : res A) : outcome := do x <- r; Ok (f x).

Definition run_call (c : cfg) (k : call) : outcome :=
  match k with
  | B64 dst_len src => lift OBytes (base64_url_encode (repeat 0 (Z.to_nat dst_len)) src)
  | B64F dst src => lift OBytes (base64_url_encode dst src)
  | Extract n sb eb data => lift OOpt (extract_from_bytes n data sb eb)
  | Flags f =>
      lift (fun _ => OUnit)
        (do _ <- validate_user_present_bit_set f;
         do _ <- validate_user_verified_bit_set f;
         validate_backup_eligibility_and_state f)
  | FlagOne w f =>
      lift (fun _ => OUnit)
        (if w =? 0 then validate_user_present_bit_set f
         else if w =? 1 then validate_user_verified_bit_set f
         else validate_backup_eligibility_and_state f)
  | TypeChk ty => lift (fun _ => OUnit) (validate_expected_type ty)
  | Challenge ch payload => lift (fun _ => OUnit) (validate_challenge ch payload)
  | WaLib a =>
      lift OBool (wa_decide c (a_payload a) (a_ad a) (a_cd a) (a_parsed a) (a_sigok a))
  | WaEx kd sd decoded a =>
      lift OBool (wa_contract_decide c (a_payload a) kd
                    (if decoded then Some (a_sig a, a_ad a, a_cd a) else None)
                    (a_parsed a) (a_sigok a))
  | EdLib _ _ _ sigok _ | EdEx _ _ _ sigok _ => lift OBool (ed_decide sigok)
  | BadArg _ _ => Fail        (* the conversion of the argument to KeyData / SigData / Bytes traps *)
  end.

Definition model_obs (c : cfg) (k : call) : obs := (k, run_call c k).

(* ------------------------------------------------------------------ *)
(* The monitor *)
Module SpecType.
  Import Strings.Ascii Strings.String.
  Definition ascii_bytes (s : string) : list Z :=
    map (fun a => Z.of_N (N_of_ascii a)) (list_ascii_of_string s).
  Definition spec_type : list Z := ascii_bytes "webauthn.get"%string.
End SpecType.
Definition spec_type : list Z := SpecType.spec_type.

(* the bounds of the text: client data of at most 1024 bytes; authenticator data of at least
   37 bytes (rpIdHash 32, flags 1, signCount 4) *)
Definition SPEC_MAX_CD : Z := 1024.
Definition SPEC_MIN_AD : Z := 37.
Definition cfg_ok (c : cfg) : bool := (max_cd c =? SPEC_MAX_CD) && (min_ad c =? SPEC_MIN_AD).

(* user present (bit 0), user verified (bit 2), and not (backup state (bit 4) without
   backup eligibility (bit 3)) *)
Definition spec_up (f : Z) : bool := Z.testbit f 0.
Definition spec_uv (f : Z) : bool := Z.testbit f 2.
Definition spec_backup (f : Z) : bool := negb (negb (Z.testbit f 3) && Z.testbit f 4).
Definition spec_flags_ok (f : Z) : bool := spec_up f && spec_uv f && spec_backup f.

(* the challenge is the unpadded base64url of exactly the 32-byte payload *)
Definition spec_challenge_exact (ch payload : list Z) : bool :=
  (len payload =? 32) && eqb_bytes ch (rfc4648_url_nopad payload).
(* what the code does for a payload of another length (a deviation from the text that is
   outside the property's domain - the host passes a 32-byte hash): shorter payloads are
   rejected, longer ones are accepted on their first 32 bytes.  Used only as the "accepts
   only if" direction for payloads that are not 32 bytes long. *)
Definition spec_challenge_prefix (ch payload : list Z) : bool :=
  (32 <=? len payload) && eqb_bytes ch (rfc4648_url_nopad (firstn 32 payload)).

(* the monitor's own reading of the client data, where its reader decides *)
Definition cd_view (cd : list Z) : option (option (list Z * list Z)) :=
  match cd_fields cd with
  | CdPlain ty ch => Some (Some (ty, ch))
  | CdInvalid => Some None
  | CdOther => None
  end.
Definition eqb_parsed (x y : option (list Z * list Z)) : bool :=
  match x, y with
  | Some (t1, c1), Some (t2, c2) => eqb_bytes t1 t2 && eqb_bytes c1 c2
  | None, None => true
  | _, _ => false
  end.
(* the parser oracle may not contradict the printed client data *)
Definition parsed_agrees (a : assertion) : bool :=
  match cd_view (a_cd a) with Some p => eqb_parsed p (a_parsed a) | None => true end.
Definition spec_parsed (a : assertion) : option (list Z * list Z) :=
  match cd_view (a_cd a) with Some p => p | None => a_parsed a end.

(* everything but the challenge *)
Definition spec_wa_rest (a : assertion) : bool :=
  (len (a_cd a) <=? SPEC_MAX_CD)
  && match spec_parsed a with Some (ty, _) => eqb_bytes ty spec_type | None => false end
  && (SPEC_MIN_AD <=? len (a_ad a))
  && match nth_error (a_ad a) 32 with Some f => spec_flags_ok f | None => false end
  && a_sigok a.
Definition spec_ch (a : assertion) : list Z :=
  match spec_parsed a with Some (_, ch) => ch | None => [] end.
Definition spec_wa_accept (a : assertion) : bool :=
  spec_wa_rest a && spec_challenge_exact (spec_ch a) (a_payload a).
Definition spec_wa_accept_prefix (a : assertion) : bool :=
  spec_wa_rest a && spec_challenge_prefix (spec_ch a) (a_payload a).

Definition is_accept (o : outcome) : bool :=
  match o with Ok (OBool true) => true | _ => false end.
(* a verifier either returns true or fails; it never answers false or anything else *)
Definition verdict_shape (o : outcome) : bool :=
  match o with Ok (OBool true) | Fail => true | _ => false end.
Definition unit_or_fail (o : outcome) (want_ok : bool) : bool :=
  match o with Ok OUnit => want_ok | Fail => negb want_ok | _ => false end.
Definition expect_ok (e : option bool) (o : outcome) : bool :=
  match e with Some b => Bool.eqb (is_accept o) b | None => true end.

(* the verdict on an assertion: for a 32-byte payload acceptance is equivalent to the
   property's conjunction; for other payload lengths (outside the property's domain) only
   "accepts only if" is demanded, with the code's prefix rule for the challenge *)
Definition wa_verdict (a : assertion) (pre : bool) (o : outcome) : bool :=
  verdict_shape o
  && (if len (a_payload a) =? 32
      then Bool.eqb (is_accept o) (pre && spec_wa_accept a)
      else implb (is_accept o) (pre && spec_wa_accept_prefix a)).

(* sizes a signature oracle answer "valid" presupposes *)
Definition wa_sizes_ok (a : assertion) : bool :=
  implb (a_sigok a) ((len (a_key a) =? 65) && (len (a_sig a) =? 64)).
(* the tag "genuine" is meaningful only inside the property's domain (32-byte payloads) *)
Definition tag_ok (a : assertion) : bool :=
  match a_expect a with Some true => len (a_payload a) =? 32 | _ => true end.
Definition ed_sizes_ok (key sig : list Z) (sigok : bool) : bool :=
  implb sigok ((len key =? 32) && (len sig =? 64)).

(* the monitor's own decoding of sig_data *)
Definition xdr_agrees (sd : list Z) (decoded : bool) (a : assertion) : bool :=
  match xdr_sigdata sd with
  | Some (sig, ad, cd) =>
      decoded && eqb_bytes sig (a_sig a) && eqb_bytes ad (a_ad a) && eqb_bytes cd (a_cd a)
  | None => negb decoded
  end.

Definition bound_u32 (b : bound) : bool :=
  match b with Unbounded => true | Included k | Excluded k => in_u32 k end.
(* first index and one-past-last index a Rust range denotes *)
Definition range_start (sb : bound) : Z :=
  match sb with Unbounded => 0 | Included s => s | Excluded s => s + 1 end.
Definition range_end (eb : bound) (l : Z) : Z :=
  match eb with Unbounded => l | Included e => e + 1 | Excluded e => e end.

Definition mon_call (k : call) (o : outcome) : bool :=
  match k with
  | B64 dst_len src =>
      (0 <=? dst_len) && bytes_ok src &&
      let n := enc_len (len src) in
      if n <=? dst_len then
        (* the encoding, then the untouched rest of the zeroed buffer *)
        match o with
        | Ok (OBytes r) => eqb_bytes r (rfc4648_url_nopad src ++ repeat 0 (Z.to_nat (dst_len - n)))
        | _ => false
        end
      else negb (is_ok o)                                   (* cannot fit: must not return *)
  | B64F dst src =>
      bytes_ok src &&
      let n := enc_len (len src) in
      if n <=? len dst then
        (* the encoding WRITTEN over the front of the buffer (whatever it held), the rest as it was *)
        match o with
        | Ok (OBytes r) => eqb_bytes r (rfc4648_url_nopad src ++ skipn (Z.to_nat n) dst)
        | _ => false
        end
      else negb (is_ok o)
  | Extract n sb eb data =>
      bound_u32 sb && bound_u32 eb && (len data <=? MAXU32) &&
      let s := range_start sb in
      let e := range_end eb (len data) in
      match o with
      | Ok (OOpt (Some x)) =>
          (* whatever is returned is exactly the n bytes the range denotes *)
          (s <=? e) && (e <=? len data) && (e - s =? n)
          && eqb_bytes x (firstn (Z.to_nat n) (skipn (Z.to_nat s) data))
      | Ok (OOpt None) =>
          (* None only when it must: the range is out of bounds or does not have n elements
             (an Excluded start bound - no Rust range syntax produces one - is not judged) *)
          match sb with
          | Excluded _ => true
          | _ => negb ((s <=? e) && (e <=? len data) && (e - s =? n))
          end
      | Fail =>
          (* a panic only for an inverted range (end - start underflows) or an inclusive end
             at u32::MAX (n + 1 overflows) *)
          match sb with
          | Excluded _ => true
          | _ => (e <? s) || match eb with Included k => MAXU32 <? k + 1 | _ => false end
          end
      | _ => false
      end
  | Flags f => is_byte f && unit_or_fail o (spec_flags_ok f)
  | FlagOne w f =>
      is_byte f &&
      unit_or_fail o (if w =? 0 then spec_up f else if w =? 1 then spec_uv f else spec_backup f)
  | TypeChk ty => unit_or_fail o (eqb_bytes ty spec_type)
  | Challenge ch payload =>
      bytes_ok payload &&
      (if len payload =? 32 then unit_or_fail o (spec_challenge_exact ch payload)
       else match o with
            | Ok OUnit => spec_challenge_prefix ch payload
            | Fail => true
            | _ => false
            end)
  | WaLib a =>
      bytes_ok (a_payload a) && parsed_agrees a && wa_sizes_ok a && tag_ok a
      && wa_verdict a true o && expect_ok (a_expect a) o
  | WaEx kd sd decoded a =>
      bytes_ok (a_payload a) && parsed_agrees a && wa_sizes_ok a && xdr_agrees sd decoded a
      && (negb (decoded && (65 <=? len kd)) || eqb_bytes (a_key a) (firstn 65 kd)) && tag_ok a
      && wa_verdict a (decoded && (65 <=? len kd)) o
      && expect_ok (a_expect a) o
  | EdLib _ key sig sigok e | EdEx _ key sig sigok e =>
      ed_sizes_ok key sig sigok
      && verdict_shape o && Bool.eqb (is_accept o) sigok && expect_ok e o
  | BadArg _ _ =>
      (* something that is not a byte string is not a key, a signature or a payload: never accepted
         (and, as everywhere, never answered with false) *)
      match o with Fail => true | _ => false end
  end.

(* the oracles are functions of the printed bytes: two calls with the same (key, signature,
   authenticator data, client data) carry the same signature verdict, the same client data
   carries the same parse, the same (payload, key, signature) the same Ed25519 verdict *)
Definition call_asn (k : call) : option assertion :=
  match k with WaLib a | WaEx _ _ _ a => Some a | _ => None end.
Definition asn_compat (a b : assertion) : bool :=
  (* written with [if] so that the comparisons stop early under vm_compute *)
  if eqb_bytes (a_cd a) (a_cd b) then
    if eqb_parsed (a_parsed a) (a_parsed b) then
      if eqb_bytes (a_sig a) (a_sig b) then
        if eqb_bytes (a_key a) (a_key b) then
          if eqb_bytes (a_ad a) (a_ad b) then Bool.eqb (a_sigok a) (a_sigok b) else true
        else true
      else true
    else false
  else true.
Definition compat (k1 k2 : call) : bool :=
  match call_asn k1, call_asn k2 with
  | Some a, Some b => asn_compat a b
  | _, _ =>
      match k1, k2 with
      | (EdLib p1 k1' s1 o1 _ | EdEx p1 k1' s1 o1 _), (EdLib p2 k2' s2 o2 _ | EdEx p2 k2' s2 o2 _) =>
          if eqb_bytes s1 s2 then if eqb_bytes k1' k2' then if eqb_bytes p1 p2 then Bool.eqb o1 o2 else true else true else true
      | _, _ => true
      end
  end.
Definition consistent (seen : list call) (k : call) : bool := forallb (fun k' => compat k' k) seen.

(* ------------------------------------------------------------------ *)
Definition step_ok (c : cfg) (x : obs) : bool := eqb_outcome (run_call c (fst x)) (snd x).
Definition mon_ok (x : obs) : bool := mon_call (fst x) (snd x).

(* first call (1-based) at which the monitor is false; [seen] = the calls before it *)
Fixpoint mon_from (c : cfg) (seen : list call) (l : list obs) (i : N) : N :=
  match l with
  | [] => 0%N
  | x :: r =>
      if cfg_ok c && mon_ok x && consistent seen (fst x)
      then mon_from c (fst x :: seen) r (N.succ i) else N.succ i
  end.

Definition check (t : trace) : verdict :=
  let '(c, l) := t in
  (first_false (step_ok c) l 0%N, mon_from c [] l 0%N, 0%N).
Definition check_all (ts : list trace) : list verdict := map check ts.

(* ------------------------------------------------------------------ *)
(* well-formedness of a list of generated calls: exactly what the monitor checks of the
   inputs (not of the outcomes) - the hypothesis of C18_monitor_accepts_model *)
Definition expect_agrees (e : option bool) (b : bool) : bool :=
  match e with Some x => Bool.eqb x b | None => true end.

(* the generator's tag agrees with the specification: for a 32-byte payload exactly; for
   other lengths a tag "genuine" is not allowed (outside the domain), a tag "corrupted"
   must be justified by the specification *)
Definition wa_expect_wf (a : assertion) (pre : bool) : bool :=
  if len (a_payload a) =? 32 then expect_agrees (a_expect a) (pre && spec_wa_accept a)
  else match a_expect a with
       | Some true => false
       | Some false => negb (pre && spec_wa_accept_prefix a)
       | None => true
       end.

Definition wf_call (k : call) : bool :=
  match k with
  | B64 dst_len src => (0 <=? dst_len) && bytes_ok src
  | B64F dst src => bytes_ok src
  | Extract n sb eb data => bound_u32 sb && bound_u32 eb && (len data <=? MAXU32)
  | Flags f => is_byte f
  | FlagOne _ f => is_byte f
  | TypeChk _ => true
  | Challenge ch payload => bytes_ok payload
  | WaLib a =>
      bytes_ok (a_payload a) && parsed_agrees a && wa_sizes_ok a && tag_ok a && wa_expect_wf a true
  | WaEx kd sd decoded a =>
      bytes_ok (a_payload a) && parsed_agrees a && wa_sizes_ok a && xdr_agrees sd decoded a
      && (negb (decoded && (65 <=? len kd)) || eqb_bytes (a_key a) (firstn 65 kd)) && tag_ok a
      && wa_expect_wf a (decoded && (65 <=? len kd))
  | EdLib _ key sig sigok e | EdEx _ key sig sigok e =>
      ed_sizes_ok key sig sigok && expect_agrees e sigok
  | BadArg _ _ => true
  end.

Fixpoint wf_calls (seen : list call) (cs : list call) : bool :=
  match cs with
  | [] => true
  | k :: r => wf_call k && consistent seen k && wf_calls (k :: seen) r
  end.
Definition wf_trace (c : cfg) (cs : list call) : bool := cfg_ok c && wf_calls [] cs.
