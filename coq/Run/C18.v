(* C18: trace type, model-vs-implementation diff and the monitor (the property as a
   boolean over the implementation's observations only). *)
From SC Require Import Lib.Prelude Lib.Int Model.Base64 Model.Verifiers.
From Coq Require Strings.Ascii Strings.String.
Open Scope Z_scope.

(* ------------------------------------------------------------------ *)
(* calls *)
Record assertion := {
  a_payload : list Z;                      (* signature_payload *)
  a_key : list Z;                          (* 65-byte SEC1 public key *)
  a_sig : list Z;                          (* 64-byte signature *)
  a_ad : list Z;                           (* authenticator data *)
  a_cd : list Z;                           (* client data JSON *)
  a_parsed : option (list Z * list Z);     (* oracle: serde_json_core -> (type, challenge) *)
  a_sigok : bool;                          (* oracle: P-256 verification of a_sig under a_key
                                              over sha256 (a_ad ++ sha256 a_cd), computed by the
                                              harness with the p256 crate and its own SHA-256 *)
  a_expect : option bool                   (* what the generator knows by construction:
                                              Some true = genuine, Some false = corrupted *)
}.

Inductive call :=
| B64 (dst_len : Z) (src : list Z)              (* base64_url_encode(&mut [0; dst_len], src) *)
| Extract (n : Z) (sb eb : bound) (data : list Z)   (* extract_from_bytes::<n>(data, (sb, eb)) *)
| Flags (f : Z)                                 (* the three validate_*_bit functions, in order *)
| TypeChk (ty : list Z)                         (* validate_expected_type *)
| Challenge (ch payload : list Z)               (* validate_challenge *)
| WaLib (a : assertion)                         (* webauthn::verify *)
| WaEx (key_data : list Z) (decoded : bool) (a : assertion)
                                                (* WebauthnVerifierContract::verify; decoded = oracle:
                                                   WebAuthnSigData::from_xdr succeeded (fields in a) *)
| EdLib (payload key sig : list Z) (sigok : bool) (expect : option bool)   (* ed25519::verify *)
| EdEx (payload key sig : list Z) (sigok : bool) (expect : option bool).   (* Ed25519VerifierContract *)

Inductive out := OUnit | OBool (b : bool) | OBytes (l : list Z) | OOpt (o : option (list Z)).
Definition outcome := res out.
Definition obs := (call * outcome)%type.
Definition trace := (cfg * list obs)%type.

Definition eqb_out (a b : out) : bool :=
  match a, b with
  | OUnit, OUnit => true
  | OBool x, OBool y => Bool.eqb x y
  | OBytes x, OBytes y => eqb_bytes x y
  | OOpt None, OOpt None => true
  | OOpt (Some x), OOpt (Some y) => eqb_bytes x y
  | _, _ => false
  end.
Definition eqb_outcome (a b : outcome) : bool :=
  match a, b with Ok x, Ok y => eqb_out x y | Fail, Fail => true | _, _ => false end.

(* ------------------------------------------------------------------ *)
(* the model's answer to a call *)
Definition lift {A} (f : A -> out) (r : res A) : outcome := do x <- r; Ok (f x).

Definition run_call (c : cfg) (k : call) : outcome :=
  match k with
  | B64 dst_len src => lift OBytes (base64_url_encode (repeat 0 (Z.to_nat dst_len)) src)
  | Extract n sb eb data => lift OOpt (extract_from_bytes n data sb eb)
  | Flags f =>
      lift (fun _ => OUnit)
        (do _ <- validate_user_present_bit_set f;
         do _ <- validate_user_verified_bit_set f;
         validate_backup_eligibility_and_state f)
  | TypeChk ty => lift (fun _ => OUnit) (validate_expected_type ty)
  | Challenge ch payload => lift (fun _ => OUnit) (validate_challenge ch payload)
  | WaLib a =>
      lift OBool (wa_decide c (a_payload a) (a_ad a) (a_cd a) (a_parsed a) (a_sigok a))
  | WaEx kd decoded a =>
      lift OBool (wa_contract_decide c (a_payload a) kd
                    (if decoded then Some (a_sig a, a_ad a, a_cd a) else None)
                    (a_parsed a) (a_sigok a))
  | EdLib _ _ _ sigok _ | EdEx _ _ _ sigok _ => lift OBool (ed_decide sigok)
  end.

Definition model_obs (c : cfg) (k : call) : obs := (k, run_call c k).

(* ------------------------------------------------------------------ *)
(* The monitor: the property text over (call, outcome) pairs.  It uses the RFC 4648
   specification (not the model's encoder), bit tests (not masks) and its own
   spelling of "webauthn.get". *)
Module SpecType.
  Import Strings.Ascii Strings.String.
  Definition ascii_bytes (s : string) : list Z :=
    map (fun a => Z.of_N (N_of_ascii a)) (list_ascii_of_string s).
  Definition spec_type : list Z := ascii_bytes "webauthn.get"%string.
End SpecType.
Definition spec_type : list Z := SpecType.spec_type.

(* user present (bit 0), user verified (bit 2), and not (backup state (bit 4) without
   backup eligibility (bit 3)) *)
Definition spec_flags_ok (f : Z) : bool :=
  Z.testbit f 0 && Z.testbit f 2 && negb (negb (Z.testbit f 3) && Z.testbit f 4).

(* the challenge is the unpadded base64url of exactly the first 32 payload bytes *)
Definition spec_challenge_ok (ch payload : list Z) : bool :=
  (32 <=? len payload) && eqb_bytes ch (rfc4648_url_nopad (firstn 32 payload)).

Definition spec_wa_accept (c : cfg) (a : assertion) : bool :=
  (len (a_cd a) <=? max_cd c)
  && match a_parsed a with
     | Some (ty, ch) => eqb_bytes ty spec_type && spec_challenge_ok ch (a_payload a)
     | None => false
     end
  && (min_ad c <=? len (a_ad a))
  && match nth_error (a_ad a) 32 with Some f => spec_flags_ok f | None => false end
  && a_sigok a.

Definition is_accept (o : outcome) : bool :=
  match o with Ok (OBool true) => true | _ => false end.
(* a verifier either returns true or fails; it never answers false or anything else *)
Definition verdict_shape (o : outcome) : bool :=
  match o with Ok (OBool true) | Fail => true | _ => false end.
Definition unit_or_fail (o : outcome) (want_ok : bool) : bool :=
  match o with Ok OUnit => want_ok | Fail => negb want_ok | _ => false end.
Definition expect_ok (e : option bool) (o : outcome) : bool :=
  match e with Some b => Bool.eqb (is_accept o) b | None => true end.

Definition mon_call (c : cfg) (k : call) (o : outcome) : bool :=
  match k with
  | B64 dst_len src =>
      let n := enc_len (len src) in
      if n <=? dst_len then
        (* the encoding, then the untouched rest of the zeroed buffer *)
        match o with
        | Ok (OBytes r) => eqb_bytes r (rfc4648_url_nopad src ++ repeat 0 (Z.to_nat (dst_len - n)))
        | _ => false
        end
      else negb (is_ok o)                                   (* cannot fit: must not return *)
  | Extract n (Included s) (Excluded e) data =>
      (* the ordinary range s..e (what the code uses): the n bytes from s, or None *)
      if (0 <=? s) && (s <=? e) && (e <=? MAXU32) then
        match o with
        | Ok (OOpt r) =>
            if (e <=? len data) && (e - s =? n)
            then match r with Some x => eqb_bytes x (firstn (Z.to_nat n) (skipn (Z.to_nat s) data)) | None => false end
            else match r with None => true | Some _ => false end
        | _ => false
        end
      else true
  | Extract _ _ _ _ => true
  | Flags f => unit_or_fail o (spec_flags_ok f)
  | TypeChk ty => unit_or_fail o (eqb_bytes ty spec_type)
  | Challenge ch payload => unit_or_fail o (spec_challenge_ok ch payload)
  | WaLib a =>
      verdict_shape o && Bool.eqb (is_accept o) (spec_wa_accept c a) && expect_ok (a_expect a) o
  | WaEx kd decoded a =>
      verdict_shape o
      && Bool.eqb (is_accept o)
           (decoded && (65 <=? len kd) && eqb_bytes (a_key a) (firstn 65 kd) && spec_wa_accept c a)
      && expect_ok (a_expect a) o
  | EdLib _ _ _ sigok e | EdEx _ _ _ sigok e =>
      verdict_shape o && Bool.eqb (is_accept o) sigok && expect_ok e o
  end.

(* ------------------------------------------------------------------ *)
Definition step_ok (c : cfg) (x : obs) : bool := eqb_outcome (run_call c (fst x)) (snd x).
Definition mon_ok (c : cfg) (x : obs) : bool := mon_call c (fst x) (snd x).

Definition check (t : trace) : verdict :=
  let '(c, l) := t in
  (first_false (step_ok c) l 0%N, first_false (mon_ok c) l 0%N, 0%N).
Definition check_all (ts : list trace) : list verdict := map check ts.

(* ------------------------------------------------------------------ *)
(* well-formedness of generated calls (a boolean the harness inputs satisfy): bytes are
   bytes, sizes are sizes, the generator's expectation agrees with the oracles, and the
   key the WebAuthn contract call is judged under is the 65-byte prefix of key_data *)
Definition expect_agrees (e : option bool) (b : bool) : bool :=
  match e with Some x => Bool.eqb x b | None => true end.

Definition wf_call (c : cfg) (k : call) : bool :=
  match k with
  | B64 dst_len src => (0 <=? dst_len) && bytes_ok src
  | Extract n sb eb data => true
  | Flags f => is_byte f
  | TypeChk _ => true
  | Challenge ch payload => bytes_ok payload
  | WaLib a =>
      bytes_ok (a_payload a) && bytes_ok (a_ad a)
      && expect_agrees (a_expect a) (spec_wa_accept c a)
  | WaEx kd decoded a =>
      bytes_ok (a_payload a) && bytes_ok (a_ad a)
      && (negb (decoded && (65 <=? len kd)) || eqb_bytes (a_key a) (firstn 65 kd))
      && expect_agrees (a_expect a) (decoded && (65 <=? len kd) && spec_wa_accept c a)
  | EdLib _ _ _ sigok e | EdEx _ _ _ sigok e => expect_agrees e sigok
  end.
