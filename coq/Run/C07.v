(* C07: trace checker (model vs implementation) and monitor (the property, as a boolean
   over what the implementation showed: calls with their authorisation sets, outcomes,
   the public holder getter).  The monitor uses no model state. *)
From SC Require Import Lib.Prelude Lib.Int Lib.Host Model.RoleTransfer.

Record header := {
  h_kind : kind;              (* Own: examples/ownable, AC: examples/nft-access-control (admin) *)
  h_min : Z;                  (* ledger info min_temp_entry_ttl (1 as C07 prescribes) *)
  h_max : Z;                  (* ledger info max_entry_ttl *)
  h_start : Z;                (* ledger sequence at the start *)
  h_holder : option addr      (* owner / admin set by the constructor *)
}.
Definition item := (call * res Z * obs)%type.
Definition trace := (header * list item)%type.

Definition h_cfg (h : header) : hostcfg := {| min_temp_ttl := h_min h; max_ttl := h_max h |}.
Definition h_init (h : header) : state := init (h_start h) (h_holder h).
(* C07 prescribes min_temp_entry_ttl = 1: with a larger minimum the host keeps a short offer's entry alive
   beyond its live_until (the documented caveat of transfer_role), outside the property's domain *)
Definition wf_header (h : header) : bool := h_min h =? 1.

Definition eqb_oaddr (a b : option addr) : bool :=
  match a, b with Some x, Some y => N.eqb x y | None, None => true | _, _ => false end.
Definition eqb_res (a b : res Z) : bool :=
  match a, b with Ok x, Ok y => x =? y | Fail, Fail => true | _, _ => false end.
Definition eqb_pv (a b : option (addr * Z)) : bool :=
  match a, b with
  | Some (x, l), Some (y, m) => N.eqb x y && (l =? m)
  | None, None => true
  | _, _ => false
  end.
Definition eqb_obs (a b : obs) : bool := eqb_oaddr (fst a) (fst b) && eqb_pv (snd a) (snd b).

(* ---------------- diff: replay through the model ---------------- *)
Fixpoint diff_from (k : kind) (c : hostcfg) (s : state) (l : list item) (i : N) : N :=
  match l with
  | [] => 0%N
  | (cl, o, ob) :: r =>
      let '(s', o') := step k c s cl in
      if eqb_res o o' && eqb_obs ob (observe s') then diff_from k c s' r (N.succ i) else N.succ i
  end.

(* ---------------- monitor ---------------- *)
(* The latest offer that was neither cancelled nor accepted, as reconstructed from the
   observed calls: addressee, the ledger until which the offer itself says it is live
   (o_lu = its live_until), and o_cover = the latest live_until among the offers that
   replaced one another since the last cancel / accept / lapse (>= o_lu).  o_cover is used
   to CLASSIFY an acceptance after o_lu as the known finding F2 (o_lu < n <= o_cover: the
   accepted offer overwrote a longer-lived one that is still within its live_until), and to
   demand that renouncing stays refused while such an entry can still be accepted. *)
Record offer_t := { o_new : addr; o_lu : Z; o_cover : Z }.
Record mon := { q_now : Z; q_holder : option addr; q_off : option offer_t }.
(* MKnown: the step is the known finding (class 1); monitoring CONTINUES from q *)
Inductive mres := MOk (q : mon) | MKnown (q : mon) | MBad.

Definition holder_auth (h : option addr) (auths : list addr) : bool :=
  match h with Some a => has_auth auths a | None => false end.
Definition is_some {A} (o : option A) : bool := match o with Some _ => true | None => false end.
Definition set_off (q : mon) (f : option offer_t) : mon :=
  {| q_now := q_now q; q_holder := q_holder q; q_off := f |}.

Definition mon_step (hd : header) (q : mon) (it : item) : mres :=
  let '(cl, o, ob) := it in
  let h := q_holder q in
  let h' := fst ob in
  let n := q_now q in
  match cl with
  | Advance k =>
      (* moving the ledger changes nobody's role, however far *)
      if is_ok o && eqb_oaddr h' h
      then MOk {| q_now := n + Z.of_N k; q_holder := h; q_off := q_off q |} else MBad
  | Guarded au =>
      (* the restricted entry point runs exactly with the current holder's authorisation:
         until acceptance the current holder keeps full control, nobody else has any *)
      if eqb_oaddr h' h && Bool.eqb (is_ok o) (holder_auth h au) then MOk q else MBad
  | Offer new lu au =>
      if negb (eqb_oaddr h' h) then MBad              (* offering / cancelling moves nothing *)
      else if lu =? 0 then
        match o with
        | Ok _ =>   (* only the holder cancels, and only the offer that is pending *)
            if holder_auth h au && match q_off q with Some f => N.eqb (o_new f) new | None => false end
            then MOk (set_off q None) else MBad
        | Fail =>   (* the holder can always cancel a live offer *)
            if holder_auth h au &&
               match q_off q with Some f => N.eqb (o_new f) new && (n <=? o_lu f) | None => false end
            then MBad else MOk q
        end
      else
        let valid := holder_auth h au && (n <=? lu) && (lu <=? n + h_max hd - 1) in
        match o with
        | Ok _ =>   (* only the holder offers; the new offer replaces the previous one *)
            if valid then
              let f' := match q_off q with
                        | Some f => if n <=? o_cover f
                                    then {| o_new := new; o_lu := lu; o_cover := Z.max lu (o_cover f) |}
                                    else {| o_new := new; o_lu := lu; o_cover := lu |}
                        | None => {| o_new := new; o_lu := lu; o_cover := lu |}
                        end in
              MOk (set_off q (Some f'))
            else MBad
        | Fail => if valid then MBad else MOk q
        end
  | Accept au =>
      match o with
      | Ok _ =>
          match q_off q with
          | None => MBad                   (* nothing on offer: cancelled, already accepted, never made *)
          | Some f =>
              if has_auth au (o_new f)     (* the designated pending account itself *)
                 && eqb_oaddr h' (Some (o_new f)) && is_some h
              then let q' := {| q_now := n; q_holder := h'; q_off := None |} in
                   if n <=? o_lu f then MOk q'
                   else if n <=? o_cover f then MKnown q'  (* known finding F2 *)
                   else MBad
              else MBad
          end
      | Fail =>
          if negb (eqb_oaddr h' h) then MBad
          else match q_off q with
               | Some f =>          (* a live offer can be accepted by its addressee *)
                   if has_auth au (o_new f) && (n <=? o_lu f) && is_some h then MBad else MOk q
               | None => MOk q
               end
      end
  | Renounce au =>
      match o with
      | Ok _ =>    (* only the holder, never while an offer is pending - nor while an overwritten
                      longer-lived entry keeps the offer acceptable (F2 window) *)
          if holder_auth h au && eqb_oaddr h' None
             && negb match q_off q with Some f => n <=? o_cover f | None => false end
          then MOk {| q_now := n; q_holder := None; q_off := q_off q |} else MBad
      | Fail =>
          if negb (eqb_oaddr h' h) then MBad
          else if holder_auth h au && match q_off q with Some f => o_cover f <? n | None => true end
               then MBad else MOk q
      end
  end.

(* MOk and MKnown both let the monitor go on *)
Definition cont (r : mres) : option mon := match r with MOk q | MKnown q => Some q | MBad => None end.

(* verdict: the first unclassified failure if there is one (the monitor stops there);
   otherwise the first known-finding step (class 1), after which monitoring went on *)
Fixpoint mon_from (hd : header) (q : mon) (l : list item) (i : N) (known : N) : N * N :=
  match l with
  | [] => if N.eqb known 0 then (0%N, 0%N) else (known, 1%N)
  | it :: r =>
      match mon_step hd q it with
      | MOk q' => mon_from hd q' r (N.succ i) known
      | MKnown q' => mon_from hd q' r (N.succ i) (if N.eqb known 0 then N.succ i else known)
      | MBad => (N.succ i, 0%N)
      end
  end.

Definition mon_init (hd : header) : mon := {| q_now := h_start hd; q_holder := h_holder hd; q_off := None |}.

Definition check (t : trace) : verdict :=
  let '(hd, l) := t in
  if wf_header hd then
    let d := diff_from (h_kind hd) (h_cfg hd) (h_init hd) l 0%N in
    let '(m, cls) := mon_from hd (mon_init hd) l 0%N 0%N in
    (d, m, cls)
  else (1%N, 1%N, 0%N).       (* a malformed header is a failure of both *)
Definition check_all (ts : list trace) : list verdict := map check ts.

(* the trace the model itself produces for a list of calls *)
Fixpoint model_items (k : kind) (c : hostcfg) (s : state) (cs : list call) : list item :=
  match cs with
  | [] => []
  | cl :: r => let '(s', o) := step k c s cl in (cl, o, observe s') :: model_items k c s' r
  end.
Definition observe_model (hd : header) (cs : list call) : trace :=
  (hd, model_items (h_kind hd) (h_cfg hd) (h_init hd) cs).

(* ---------------- the monitor rejects bad traces ---------------- *)
Definition hd0 : header := {| h_kind := Own; h_min := 1; h_max := 5000; h_start := 100; h_holder := Some 0%N |}.

(* the known finding, as observed on the implementation: class 1 *)
Example C07_monitor_flags_F2 :
  check (hd0, [(Offer 1%N 1000 [0%N], Ok 0, (Some 0%N, Some (1%N, 1000)));
               (Offer 2%N 110 [0%N], Ok 0, (Some 0%N, Some (2%N, 1000)));
               (Advance 400%N, Ok 0, (Some 0%N, Some (2%N, 1000)));
               (Accept [2%N], Ok 0, (Some 2%N, None))]) = (0%N, 4%N, 1%N).
Proof. vm_compute. reflexivity. Qed.
(* a fresh offer accepted after its live_until: an unclassified violation *)
Example C07_monitor_rejects_expired_accept :
  snd (fst (check (hd0, [(Offer 1%N 110 [0%N], Ok 0, (Some 0%N, Some (1%N, 110)));
               (Advance 11%N, Ok 0, (Some 0%N, None));
               (Accept [1%N], Ok 0, (Some 1%N, None))]))) = 3%N /\
  snd (check (hd0, [(Offer 1%N 110 [0%N], Ok 0, (Some 0%N, Some (1%N, 110)));
               (Advance 11%N, Ok 0, (Some 0%N, None));
               (Accept [1%N], Ok 0, (Some 1%N, None))])) = 0%N.
Proof. vm_compute. split; reflexivity. Qed.
(* beyond the overwritten entry's lifetime it is not the known class either *)
Example C07_monitor_rejects_beyond_cover :
  let v := check (hd0, [(Offer 1%N 1000 [0%N], Ok 0, (Some 0%N, Some (1%N, 1000)));
               (Offer 2%N 110 [0%N], Ok 0, (Some 0%N, Some (2%N, 1000)));
               (Advance 901%N, Ok 0, (Some 0%N, None));
               (Accept [2%N], Ok 0, (Some 2%N, None))]) in
  snd (fst v) = 4%N /\ snd v = 0%N.
Proof. vm_compute. split; reflexivity. Qed.
(* accepted by somebody else's authorisation *)
Example C07_monitor_rejects_wrong_acceptor :
  let v := check (hd0, [(Offer 1%N 1000 [0%N], Ok 0, (Some 0%N, Some (1%N, 1000)));
               (Accept [2%N; 0%N], Ok 0, (Some 1%N, None))]) in
  snd (fst v) = 2%N /\ snd v = 0%N.
Proof. vm_compute. split; reflexivity. Qed.
(* accepted after cancel; accepted twice; offer by a non-holder; renounce while pending;
   holder changed by an offer; holder locked out before acceptance *)
Example C07_monitor_rejects_more :
  snd (fst (check (hd0, [(Offer 1%N 1000 [0%N], Ok 0, (Some 0%N, Some (1%N, 1000)));
               (Offer 1%N 0 [0%N], Ok 0, (Some 0%N, None));
               (Accept [1%N], Ok 0, (Some 1%N, None))]))) = 3%N /\
  snd (fst (check (hd0, [(Offer 1%N 1000 [0%N], Ok 0, (Some 0%N, Some (1%N, 1000)));
               (Accept [1%N], Ok 0, (Some 1%N, None));
               (Accept [1%N], Ok 0, (Some 1%N, None))]))) = 3%N /\
  snd (fst (check (hd0, [(Offer 1%N 1000 [1%N], Ok 0, (Some 0%N, Some (1%N, 1000)))]))) = 1%N /\
  snd (fst (check (hd0, [(Offer 1%N 1000 [0%N], Ok 0, (Some 0%N, Some (1%N, 1000)));
               (Renounce [0%N], Ok 0, (None, Some (1%N, 1000)))]))) = 2%N /\
  snd (fst (check (hd0, [(Offer 1%N 1000 [0%N], Ok 0, (Some 1%N, Some (1%N, 1000)))]))) = 1%N /\
  snd (fst (check (hd0, [(Offer 1%N 1000 [0%N], Ok 0, (Some 0%N, Some (1%N, 1000)));
               (Guarded [0%N], Fail, (Some 0%N, Some (1%N, 1000)))]))) = 2%N /\
  snd (fst (check (hd0, [(Offer 1%N 1000 [0%N], Ok 0, (Some 0%N, Some (1%N, 1000)));
               (Guarded [1%N], Ok 1, (Some 0%N, Some (1%N, 1000)))]))) = 2%N.
Proof. vm_compute. repeat split; reflexivity. Qed.

(* a history used by the non-vacuity examples of Properties/C07.v: a cancel, a fresh offer accepted at
   exactly its live_until, a second offer that expires, a successful renounce *)
Definition ex_cfg : hostcfg := {| min_temp_ttl := 1; max_ttl := 5000 |}.
Definition ex_calls : list call :=
  [Offer 1%N 200 [0%N]; Offer 1%N 0 [0%N]; Offer 2%N 150 [0%N]; Advance 50%N; Accept [2%N]; Guarded [2%N];
   Offer 3%N 160 [2%N]; Advance 11%N; Renounce [2%N]; Guarded [2%N]].

(* ---- traces of the adversarial review ---- *)
(* the monitor goes on after a known-finding step: a later unclassified failure wins *)
Example C07_monitor_continues_after_known :
  check (hd0, [(Offer 1%N 1000 [0%N], Ok 0, (Some 0%N, Some (1%N, 1000)));
     (Offer 2%N 110 [0%N], Ok 0, (Some 0%N, Some (2%N, 1000)));
     (Advance 400%N, Ok 0, (Some 0%N, Some (2%N, 1000)));
     (Accept [2%N], Ok 0, (Some 2%N, None));
     (Guarded [3%N], Ok 1, (Some 2%N, None));
     (Accept [1%N], Ok 0, (Some 1%N, None));
     (Advance 5%N, Ok 0, (Some 3%N, None))]) = (5%N, 5%N, 0%N) /\
  check (hd0, [(Offer 1%N 1000 [0%N], Ok 0, (Some 0%N, Some (1%N, 1000)));
     (Offer 2%N 110 [0%N], Ok 0, (Some 0%N, Some (2%N, 1000)));
     (Advance 400%N, Ok 0, (Some 0%N, Some (2%N, 1000)));
     (Accept [2%N], Ok 0, (Some 2%N, None));
     (Offer 3%N 510 [2%N], Ok 0, (Some 2%N, Some (3%N, 510)));
     (Advance 1000%N, Ok 0, (Some 2%N, None));
     (Accept [3%N], Ok 0, (Some 3%N, None))]) = (7%N, 7%N, 0%N) /\
  (* ... and a clean continuation keeps the class-1 verdict of the first known step *)
  check (observe_model hd0 [Offer 1%N 1000 [0%N]; Offer 2%N 110 [0%N]; Advance 400%N; Accept [2%N];
                            Guarded [2%N]; Offer 3%N 600 [2%N]; Accept [3%N]]) = (0%N, 4%N, 1%N).
Proof. vm_compute. repeat split; reflexivity. Qed.
(* min_temp_entry_ttl <> 1 is outside the property's prescribed configuration: the whole trace is refused *)
Definition hd16 : header := {| h_kind := Own; h_min := 16; h_max := 5000; h_start := 100; h_holder := Some 0%N |}.
Example C07_monitor_refuses_other_min_ttl :
  check (hd16, [(Offer 1%N 101 [0%N], Ok 0, (Some 0%N, Some (1%N, 115)));
                (Advance 10%N, Ok 0, (Some 0%N, Some (1%N, 115)));
                (Accept [1%N], Ok 0, (Some 1%N, None))]) = (1%N, 1%N, 0%N).
Proof. vm_compute. reflexivity. Qed.
(* accepted after BOTH offers' live_until: not the known class *)
Example C07_monitor_rejects_after_both_live_untils :
  check (hd0, [(Offer 1%N 101 [0%N], Ok 0, (Some 0%N, Some (1%N, 115)));
               (Offer 2%N 100 [0%N], Ok 0, (Some 0%N, Some (2%N, 115)));
               (Advance 10%N, Ok 0, (Some 0%N, Some (2%N, 115)));
               (Accept [2%N], Ok 0, (Some 2%N, None))]) = (1%N, 4%N, 0%N).
Proof. vm_compute. reflexivity. Qed.
(* renounce going through while an overwritten longer-lived entry keeps the offer acceptable *)
Example C07_monitor_rejects_renounce_in_known_window :
  snd (fst (check (hd0, [(Offer 1%N 1000 [0%N], Ok 0, (Some 0%N, Some (1%N, 1000)));
       (Offer 2%N 110 [0%N], Ok 0, (Some 0%N, Some (2%N, 1000)));
       (Advance 400%N, Ok 0, (Some 0%N, Some (2%N, 1000)));
       (Renounce [0%N], Ok 0, (None, Some (2%N, 1000)))]))) = 4%N.
Proof. vm_compute. reflexivity. Qed.
