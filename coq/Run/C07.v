(* C07: trace checker (model vs implementation) and monitor (the property, as a boolean
   over what the implementation showed: calls with their authorisation sets, outcomes,
   the public holder getter).  The monitor uses no model state. *)
From SC Require Import Lib.Prelude Lib.Int Lib.Host Model.RoleTransfer.

Record header := {
  h_kind : kind;              (* Own: examples/ownable, AC: examples/nft-access-control (admin) *)
  h_min : Z;                  (* ledger info min_temp_entry_ttl (1 as C07 prescribes) *)
  h_max : Z;                  (* ledger info max_entry_ttl *)
  h_start : Z;                (* ledger sequence at the start *)
  h_holder : option addr      (* owner / admin set by the constructor *)
}.
Definition item := (call * res Z * obs)%type.
Definition trace := (header * list item)%type.

Definition h_cfg (h : header) : hostcfg := {| min_temp_ttl := h_min h; max_ttl := h_max h |}.
Definition h_init (h : header) : state := init (h_start h) (h_holder h).
Definition wf_header (h : header) : bool := 1 <=? h_min h.

Definition eqb_oaddr (a b : option addr) : bool :=
  match a, b with Some x, Some y => N.eqb x y | None, None => true | _, _ => false end.
Definition eqb_res (a b : res Z) : bool :=
  match a, b with Ok x, Ok y => x =? y | Fail, Fail => true | _, _ => false end.
Definition eqb_pv (a b : option (addr * Z)) : bool :=
  match a, b with
  | Some (x, l), Some (y, m) => N.eqb x y && (l =? m)
  | None, None => true
  | _, _ => false
  end.
Definition eqb_obs (a b : obs) : bool := eqb_oaddr (fst a) (fst b) && eqb_pv (snd a) (snd b).

(* ---------------- diff: replay through the model ---------------- *)
Fixpoint diff_from (k : kind) (c : hostcfg) (s : state) (l : list item) (i : N) : N :=
  match l with
  | [] => 0%N
  | (cl, o, ob) :: r =>
      let '(s', o') := step k c s cl in
      if eqb_res o o' && eqb_obs ob (observe s') then diff_from k c s' r (N.succ i) else N.succ i
  end.

(* ---------------- monitor ---------------- *)
(* The latest offer that was neither cancelled nor accepted, as reconstructed from the
   observed calls: addressee, the ledger until which the offer itself says it is live
   (o_lu), and o_cover = the latest live_until among the chain of offers that replaced
   one another in place while still stored (only used to CLASSIFY a failure as the known
   finding F2, never to excuse anything else). *)
Record offer_t := { o_new : addr; o_lu : Z; o_cover : Z }.
Record mon := { q_now : Z; q_holder : option addr; q_off : option offer_t }.
Inductive mres := MOk (q : mon) | MBad (cls : N).

Definition holder_auth (h : option addr) (auths : list addr) : bool :=
  match h with Some a => has_auth auths a | None => false end.
Definition is_some {A} (o : option A) : bool := match o with Some _ => true | None => false end.
Definition set_off (q : mon) (f : option offer_t) : mon :=
  {| q_now := q_now q; q_holder := q_holder q; q_off := f |}.

Definition mon_step (hd : header) (q : mon) (it : item) : mres :=
  let '(cl, o, ob) := it in
  let h := q_holder q in
  let h' := fst ob in
  let n := q_now q in
  match cl with
  | Advance k =>
      (* moving the ledger changes nobody's role *)
      if is_ok o && eqb_oaddr h' h
      then MOk {| q_now := n + Z.of_N k; q_holder := h; q_off := q_off q |} else MBad 0
  | Guarded au =>
      (* the restricted entry point runs exactly with the current holder's authorisation:
         until acceptance the current holder keeps full control, nobody else has any *)
      if eqb_oaddr h' h && Bool.eqb (is_ok o) (holder_auth h au) then MOk q else MBad 0
  | Offer new lu au =>
      if negb (eqb_oaddr h' h) then MBad 0            (* offering / cancelling moves nothing *)
      else if lu =? 0 then
        match o with
        | Ok _ =>   (* only the holder cancels, and only the offer that is pending *)
            if holder_auth h au && match q_off q with Some f => N.eqb (o_new f) new | None => false end
            then MOk (set_off q None) else MBad 0
        | Fail =>   (* the holder can always cancel a live offer *)
            if holder_auth h au &&
               match q_off q with Some f => N.eqb (o_new f) new && (n <=? o_lu f) | None => false end
            then MBad 0 else MOk q
        end
      else
        let valid := holder_auth h au && (n <=? lu) && (lu <=? n + h_max hd - 1) in
        match o with
        | Ok _ =>   (* only the holder offers; the new offer replaces the previous one *)
            if valid then
              (* a fresh entry lives until max lu (n + min_ttl - 1) (= lu for min_ttl = 1, as prescribed);
                 an offer written over a still stored one says lu, the entry keeps the later of the two *)
              let fresh := Z.max lu (n + h_min hd - 1) in
              let f' := match q_off q with
                        | Some f => if n <=? o_cover f
                                    then {| o_new := new; o_lu := lu; o_cover := Z.max lu (o_cover f) |}
                                    else {| o_new := new; o_lu := fresh; o_cover := fresh |}
                        | None => {| o_new := new; o_lu := fresh; o_cover := fresh |}
                        end in
              MOk (set_off q (Some f'))
            else MBad 0
        | Fail => if valid then MBad 0 else MOk q
        end
  | Accept au =>
      match o with
      | Ok _ =>
          match q_off q with
          | None => MBad 0                 (* nothing on offer: cancelled, already accepted, never made *)
          | Some f =>
              if has_auth au (o_new f)     (* the designated pending account itself *)
                 && eqb_oaddr h' (Some (o_new f)) && is_some h
              then if n <=? o_lu f then MOk {| q_now := n; q_holder := h'; q_off := None |}
                   else if n <=? o_cover f then MBad 1     (* known finding F2 *)
                   else MBad 0
              else MBad 0
          end
      | Fail =>
          if negb (eqb_oaddr h' h) then MBad 0
          else match q_off q with
               | Some f =>          (* a live offer can be accepted by its addressee *)
                   if has_auth au (o_new f) && (n <=? o_lu f) && is_some h then MBad 0 else MOk q
               | None => MOk q
               end
      end
  | Renounce au =>
      match o with
      | Ok _ =>    (* only the holder, never while an offer is pending *)
          if holder_auth h au && eqb_oaddr h' None
             && negb match q_off q with Some f => n <=? o_lu f | None => false end
          then MOk {| q_now := n; q_holder := None; q_off := q_off q |} else MBad 0
      | Fail =>
          if negb (eqb_oaddr h' h) then MBad 0
          else if holder_auth h au && match q_off q with Some f => o_cover f <? n | None => true end
               then MBad 0 else MOk q
      end
  end.

Fixpoint mon_from (hd : header) (q : mon) (l : list item) (i : N) : N * N :=
  match l with
  | [] => (0%N, 0%N)
  | it :: r =>
      match mon_step hd q it with
      | MOk q' => mon_from hd q' r (N.succ i)
      | MBad cls => (N.succ i, cls)
      end
  end.

Definition mon_init (hd : header) : mon := {| q_now := h_start hd; q_holder := h_holder hd; q_off := None |}.

Definition check (t : trace) : verdict :=
  let '(hd, l) := t in
  let d := if wf_header hd then diff_from (h_kind hd) (h_cfg hd) (h_init hd) l 0%N else 1%N in
  let '(m, cls) := mon_from hd (mon_init hd) l 0%N in
  (d, m, cls).
Definition check_all (ts : list trace) : list verdict := map check ts.

(* the trace the model itself produces for a list of calls *)
Fixpoint model_items (k : kind) (c : hostcfg) (s : state) (cs : list call) : list item :=
  match cs with
  | [] => []
  | cl :: r => let '(s', o) := step k c s cl in (cl, o, observe s') :: model_items k c s' r
  end.
Definition observe_model (hd : header) (cs : list call) : trace :=
  (hd, model_items (h_kind hd) (h_cfg hd) (h_init hd) cs).

(* ---------------- the monitor rejects bad traces ---------------- *)
Definition hd0 : header := {| h_kind := Own; h_min := 1; h_max := 5000; h_start := 100; h_holder := Some 0%N |}.

(* the known finding, as observed on the implementation: class 1 *)
Example C07_monitor_flags_F2 :
  check (hd0, [(Offer 1%N 1000 [0%N], Ok 0, (Some 0%N, Some (1%N, 1000)));
               (Offer 2%N 110 [0%N], Ok 0, (Some 0%N, Some (2%N, 1000)));
               (Advance 400%N, Ok 0, (Some 0%N, Some (2%N, 1000)));
               (Accept [2%N], Ok 0, (Some 2%N, None))]) = (0%N, 4%N, 1%N).
Proof. vm_compute. reflexivity. Qed.
(* a fresh offer accepted after its live_until: an unclassified violation *)
Example C07_monitor_rejects_expired_accept :
  snd (fst (check (hd0, [(Offer 1%N 110 [0%N], Ok 0, (Some 0%N, Some (1%N, 110)));
               (Advance 11%N, Ok 0, (Some 0%N, None));
               (Accept [1%N], Ok 0, (Some 1%N, None))]))) = 3%N /\
  snd (check (hd0, [(Offer 1%N 110 [0%N], Ok 0, (Some 0%N, Some (1%N, 110)));
               (Advance 11%N, Ok 0, (Some 0%N, None));
               (Accept [1%N], Ok 0, (Some 1%N, None))])) = 0%N.
Proof. vm_compute. split; reflexivity. Qed.
(* beyond the overwritten entry's lifetime it is not the known class either *)
Example C07_monitor_rejects_beyond_cover :
  let v := check (hd0, [(Offer 1%N 1000 [0%N], Ok 0, (Some 0%N, Some (1%N, 1000)));
               (Offer 2%N 110 [0%N], Ok 0, (Some 0%N, Some (2%N, 1000)));
               (Advance 901%N, Ok 0, (Some 0%N, None));
               (Accept [2%N], Ok 0, (Some 2%N, None))]) in
  snd (fst v) = 4%N /\ snd v = 0%N.
Proof. vm_compute. split; reflexivity. Qed.
(* accepted by somebody else's authorisation *)
Example C07_monitor_rejects_wrong_acceptor :
  let v := check (hd0, [(Offer 1%N 1000 [0%N], Ok 0, (Some 0%N, Some (1%N, 1000)));
               (Accept [2%N; 0%N], Ok 0, (Some 1%N, None))]) in
  snd (fst v) = 2%N /\ snd v = 0%N.
Proof. vm_compute. split; reflexivity. Qed.
(* accepted after cancel; accepted twice; offer by a non-holder; renounce while pending;
   holder changed by an offer; holder locked out before acceptance *)
Example C07_monitor_rejects_more :
  snd (fst (check (hd0, [(Offer 1%N 1000 [0%N], Ok 0, (Some 0%N, Some (1%N, 1000)));
               (Offer 1%N 0 [0%N], Ok 0, (Some 0%N, None));
               (Accept [1%N], Ok 0, (Some 1%N, None))]))) = 3%N /\
  snd (fst (check (hd0, [(Offer 1%N 1000 [0%N], Ok 0, (Some 0%N, Some (1%N, 1000)));
               (Accept [1%N], Ok 0, (Some 1%N, None));
               (Accept [1%N], Ok 0, (Some 1%N, None))]))) = 3%N /\
  snd (fst (check (hd0, [(Offer 1%N 1000 [1%N], Ok 0, (Some 0%N, Some (1%N, 1000)))]))) = 1%N /\
  snd (fst (check (hd0, [(Offer 1%N 1000 [0%N], Ok 0, (Some 0%N, Some (1%N, 1000)));
               (Renounce [0%N], Ok 0, (None, Some (1%N, 1000)))]))) = 2%N /\
  snd (fst (check (hd0, [(Offer 1%N 1000 [0%N], Ok 0, (Some 1%N, Some (1%N, 1000)))]))) = 1%N /\
  snd (fst (check (hd0, [(Offer 1%N 1000 [0%N], Ok 0, (Some 0%N, Some (1%N, 1000)));
               (Guarded [0%N], Fail, (Some 0%N, Some (1%N, 1000)))]))) = 2%N /\
  snd (fst (check (hd0, [(Offer 1%N 1000 [0%N], Ok 0, (Some 0%N, Some (1%N, 1000)));
               (Guarded [1%N], Ok 1, (Some 0%N, Some (1%N, 1000)))]))) = 2%N.
Proof. vm_compute. repeat split; reflexivity. Qed.

(* a history used by the non-vacuity examples of Properties/C07.v: a cancel, a fresh offer accepted at
   exactly its live_until, a second offer that expires, a successful renounce *)
Definition ex_cfg : hostcfg := {| min_temp_ttl := 1; max_ttl := 5000 |}.
Definition ex_calls : list call :=
  [Offer 1%N 200 [0%N]; Offer 1%N 0 [0%N]; Offer 2%N 150 [0%N]; Advance 50%N; Accept [2%N]; Guarded [2%N];
   Offer 3%N 160 [2%N]; Advance 11%N; Renounce [2%N]; Guarded [2%N]].
