(* C04, fourth trace family - the whole stack: the real token in front of the real compliance
   contract (with harness modules) and the real identity verifier (over the real claim-topics-and-
   issuers registry, identity registry storage and identity-claims contracts, with a harness claim
   issuer).  Checked against the COMPOSITION of the three models: a token step whose collaborator
   answers are computed by the compliance model (from its own state) and by the identity model
   (from the registry state observed just before the call), and whose questions / notifications
   are then fed through the compliance model. *)
From SC Require Import Lib.Prelude Lib.Int Lib.Host Model.Rwa Model.RwaCompliance Model.RwaIdentity
  Run.C04Compliance Run.C04Identity Run.C04Token.

Inductive scall :=
| STokF (o : op) (auths : list addr) (deny : list addr) (fail : list addr) (w : iworld)
    (* a call of the token; [deny] = the compliance modules that refuse during it (answer false);
       [fail] = the compliance modules that fail during it (trap / cannot be invoked);
       [w] = the state of the identity registries as read through their getters just before *)
| SCmp (c : ccall)          (* an administrative call of the compliance contract *)
| SEdit.                    (* an edit of an identity registry (add / remove topic, issuer, identity,
                               claim; revoke): not modelled, its effect is in the next observed [w] *)
(* a token call during which no compliance module fails *)
Definition STok (o : op) (auths deny : list addr) (w : iworld) : scall := STokF o auths deny [] w.

Record sobs := mkSObs { so_tok : obs; so_cmp : cobs }.
Record sitem := SI { si_call : scall; si_out : res ret; si_obs : sobs }.
Record strace := mkST {
  st_hc : hostcfg; st_cf : ccfg; st_univ : list addr;
  st_tok : addr;                         (* the token's own address, as the compliance contract sees it *)
  st_items : list sitem }.

(* a token call of the stack whose transfer destination was sent as a MuxedAddress with id [id] *)
Definition SIMux (id : Z) (c : scall) (o : res ret) (b : sobs) : sitem :=
  SI (match c with STokF op au deny fail w => STokF (mux_op id op) au deny fail w | c' => c' end) o b.

Record sstate := mkSS { ss_tok : state; ss_cmp : cstate }.
Definition sinit : sstate := mkSS init cinit.

(* ------------------------------------------------------------------ *)
(* the composition                                                      *)

(* the collaborators' answers, computed by the other two models; a compliance query that traps
   (a module asked fails) is no approval: the token call fails as a whole *)
Definition answer (r : res (bool * cstate)) : bool := match r with Ok (b, _) => b | Fail => false end.
Definition orc_of (univ : list addr) (cst : cstate) (fail deny : list addr) (w : iworld) : oracle :=
  mkOracle (filter (fun a => is_ok (iverify_identity w a)) univ)
           (answer (ask_all_f fail deny (mods cst HCanTransfer) (MCanTransfer 0 0 0 0)%N cst))
           (answer (ask_all_f fail deny (mods cst HCanCreate) (MCanCreate 0 0 0)%N cst))
           (w_recovered w).

(* what the token asks / tells the compliance contract goes through the compliance model, the
   token being the caller *)
Definition feed_event (tok : addr) (fail deny : list addr) (e : cev) (cst : cstate) : res cstate :=
  match e with
  | QCanTransfer f t a => do bs <- ask_all_f fail deny (mods cst HCanTransfer) (MCanTransfer f t a tok) cst; Ok (snd bs)
  | QCanCreate t a => do bs <- ask_all_f fail deny (mods cst HCanCreate) (MCanCreate t a tok) cst; Ok (snd bs)
  | NTransferred f t a => hook_notify fail [tok] HTransferred (MOnTransfer f t a tok) tok cst
  | NCreated t a => hook_notify fail [tok] HCreated (MOnCreated t a tok) tok cst
  | NDestroyed f a => hook_notify fail [tok] HDestroyed (MOnDestroyed f a tok) tok cst
  | CBadToken => Fail
  end.
Fixpoint feed (tok : addr) (fail deny : list addr) (l : list cev) (cst : cstate) : res cstate :=
  match l with
  | [] => Ok cst
  | e :: r => do cst' <- feed_event tok fail deny e cst; feed tok fail deny r cst'
  end.

Definition sstep (hc : hostcfg) (cf : ccfg) (univ : list addr) (tok : addr) (ss : sstate) (c : scall)
  : sstate * res ret :=
  let s0 := clear_logs (ss_tok ss) in
  let c0 := cclear (ss_cmp ss) in
  match c with
  | STokF o au deny fail w =>
      let '(s', out) := step hc (ss_tok ss) (mkCall o au (fun _ => orc_of univ c0 fail deny w)) in
      match out with
      | Fail => (mkSS s0 c0, Fail)
      | Ok r =>
          match feed tok fail deny (cmp_log s') c0 with
          | Ok c' => (mkSS s' c', Ok r)
          | Fail => (mkSS s0 c0, Fail)        (* the compliance contract rejected a notification (token not bound, or
                                                 a module notified fails): everything rolls back *)
          end
      end
  | SCmp cc => let '(c', out) := cstep cf (ss_cmp ss) cc in (mkSS s0 c', out)
  | SEdit => (mkSS s0 c0, Ok None)
  end.

(* the token's observation in this family: the collaborators are real contracts, so there are no
   mock logs; what they received shows in the compliance modules' log instead *)
Definition strip (o : obs) : obs :=
  mkObs (ob_paused o) (ob_supply o) (ob_accts o) (ob_allow o) [] [] (ob_cmp_at o) (ob_idv_at o) None None.
Definition sobserve (univ : list addr) (tok : addr) (ss : sstate) : sobs :=
  mkSObs (strip (observe univ (ss_tok ss))) (cobserve [tok] (ss_cmp ss)).

Definition eqb_sobs (x y : sobs) : bool := eqb_obs (so_tok x) (so_tok y) && eqb_cobs (so_cmp x) (so_cmp y).

Fixpoint sdiff_from hc cf univ tok (ss : sstate) (items : list sitem) (i : N) : N :=
  match items with
  | [] => 0%N
  | it :: r =>
      let '(ss', o) := sstep hc cf univ tok ss (si_call it) in
      if eqb_out o (si_out it) && eqb_sobs (sobserve univ tok ss') (si_obs it)
      then sdiff_from hc cf univ tok ss' r (N.succ i) else N.succ i
  end.

(* ------------------------------------------------------------------ *)
(* THE MONITOR of the whole stack, over observations only.

   THE COMPOSED GATE: a transfer / transfer_from that succeeds found - in the token state, the
   compliance state and the registry state observed just before - the token not paused, nobody
   frozen, the amount within the unfrozen balance, BOTH PARTIES VERIFIED PER THE REGISTRY
   ([verified]: a registered identity holding, for every required topic, an accepted matching claim
   of a trusted issuer), EVERY compliance module registered for CanTransfer approving, and the token
   bound to the compliance contract; the modules registered for CanTransfer were each asked once
   and those registered for Transferred each notified once, with the exact parties and amount and
   the token's address; NONE of these modules failed (a module that traps, cannot be invoked or
   does not return a bool is neither an approval nor a delivered notification: [hooks_of],
   [none_fails]).  Likewise mint (recipient verified, CanCreate modules), burn, forced
   transfer, recovery (target verified and registered in the registry).  Plus everything the token
   monitor says about balances, frozen amounts, flags, pause, links, and the compliance monitor
   about its administrative calls. *)
Definition st_gate (lk : addr -> option acct) (prev : obs) (from to : addr) (amt : Z) : bool :=
  negb (ob_paused prev)
  && match lk from with
     | Some (b, f, fl) => negb fl && (amt <=? b - f)
     | None => true
     end
  && match lk to with
     | Some (_, _, fl) => negb fl
     | None => true
     end
  && (0 <=? amt).

Definition sgates_ok (lk : addr -> option acct) (la la' : addr -> addr -> option Z)
  (w : iworld) (deny : list addr) (pc : cobs) (prev : obs) (o : op) (au : list addr) (r : ret) : bool :=
  match o with
  | Transfer from to amt =>
      has_auth au from && st_gate lk prev from to amt
      && verified w from && verified w to && all_approve deny (mods_of pc HCanTransfer)
  | TransferFrom sp from to amt =>
      has_auth au sp && allowance_spent la la' from sp amt && st_gate lk prev from to amt
      && verified w from && verified w to && all_approve deny (mods_of pc HCanTransfer)
  | Approve owner sp amt _ =>
      has_auth au owner && (0 <=? amt)
      && match la' owner sp with Some q => q =? amt | None => true end
  | Mint to amt _ => (0 <=? amt) && verified w to && all_approve deny (mods_of pc HCanCreate)
  | Burn _ amt _ | ForcedTransfer _ _ amt _ | Freeze _ amt _ | Unfreeze _ amt _ => 0 <=? amt
  | RecoverBalance old new _ =>
      match r with
      | None => false
      | Some moved =>
          verified w new
          && match irecovery_target w old with Some t => N.eqb t new | None => false end
          && match lk old with
             | Some (b, _, _) => Bool.eqb moved (negb (b =? 0))
             | None => true
             end
      end
  | Pause _ => negb (ob_paused prev)
  | Unpause _ => ob_paused prev
  | _ => true
  end.

(* everything the compliance modules must have received during a successful token call *)
Definition expected_mlog (lk : addr -> option acct) (pc : cobs) (tok : addr) (o : op) (r : ret)
  : option (list (addr * mev)) :=
  let ev := fun h e => map (fun m => (m, e)) (mods_of pc h) in
  match o with
  | Transfer f t a | TransferFrom _ f t a =>
      Some (ev HCanTransfer (MCanTransfer f t a tok) ++ ev HTransferred (MOnTransfer f t a tok))
  | ForcedTransfer f t a _ => Some (ev HTransferred (MOnTransfer f t a tok))
  | Mint t a _ => Some (ev HCanCreate (MCanCreate t a tok) ++ ev HCreated (MOnCreated t a tok))
  | Burn w a _ => Some (ev HDestroyed (MOnDestroyed w a tok))
  | RecoverBalance old new _ =>
      match r with
      | Some true => match lk old with
                     | Some (bo, _, _) => Some (ev HTransferred (MOnTransfer old new bo tok))
                     | None => None
                     end
      | _ => Some []
      end
  | _ => Some []
  end.
(* the hooks of the compliance contract a successful token call goes through: every module
   registered for one of them was invoked, so none of them may be a failing one *)
Definition hooks_of (o : op) (r : ret) : list hook :=
  match o with
  | Transfer _ _ _ | TransferFrom _ _ _ _ => [HCanTransfer; HTransferred]
  | ForcedTransfer _ _ _ _ => [HTransferred]
  | Mint _ _ _ => [HCanCreate; HCreated]
  | Burn _ _ _ => [HDestroyed]
  | RecoverBalance _ _ _ => match r with Some true => [HTransferred] | _ => [] end
  | _ => []
  end.
Definition none_fails (fail : list addr) (pc : cobs) (o : op) (r : ret) : bool :=
  forallb (fun h => negb (any_fail fail (mods_of pc h))) (hooks_of o r).

(* does the call notify the compliance contract (which accepts that from a bound token only) *)
Definition notifies (o : op) (r : ret) : bool :=
  match o with
  | Transfer _ _ _ | TransferFrom _ _ _ _ | ForcedTransfer _ _ _ _ | Mint _ _ _ | Burn _ _ _ => true
  | RecoverBalance _ _ _ => match r with Some true => true | _ => false end
  | _ => false
  end.

Definition cmp_unchanged (pc cc : cobs) : bool :=
  eqb_list (eqb_list N.eqb) (co_mods pc) (co_mods cc) && eqb_list Bool.eqb (co_bound pc) (co_bound cc).
Definition no_mlog (cc : cobs) : bool := match co_log cc with [] => true | _ => false end.
Definition tok_unchanged (pt ct : obs) : bool :=
  eqb_list eqb_acct (ob_accts pt) (ob_accts ct) && Bool.eqb (ob_paused pt) (ob_paused ct)
  && eqb_list Z.eqb (ob_allow pt) (ob_allow ct) && (ob_supply pt =? ob_supply ct)
  && eqb_oaddr (ob_cmp_at pt) (ob_cmp_at ct) && eqb_oaddr (ob_idv_at pt) (ob_idv_at ct).

Definition smon_step (cf : ccfg) (univ : list addr) (tok : addr) (prev : sobs) (it : sitem) : bool :=
  let pt := so_tok prev in let ct := so_tok (si_obs it) in
  let pc := so_cmp prev in let cc := so_cmp (si_obs it) in
  let P := combine univ (ob_accts pt) in
  let Q := combine univ (ob_accts ct) in
  let lk := fun a => look a P in
  let la := fun o sp => look2 o sp (combine (pairs univ) (ob_allow pt)) in
  let la' := fun o sp => look2 o sp (combine (pairs univ) (ob_allow ct)) in
  (length (ob_accts ct) =? length univ)%nat && inv_ok ct
  && cinv_ok cf cc && (length (co_bound cc) =? 1)%nat
  && match si_call it with
     | SCmp c => cmon_step cf [tok] pc (CI c (si_out it) cc) && tok_unchanged pt ct
     | SEdit => tok_unchanged pt ct && cmp_unchanged pc cc && no_mlog cc
     | STokF o au deny fail w =>
         let c := mkCall o au (fun _ => mkOracle [] false false (w_recovered w)) in
         wf_call univ c
         && links_ok pt ct c (is_ok (si_out it))
         && allow_ok c (is_ok (si_out it)) (pairs univ) (ob_allow pt) (ob_allow ct)
         && (ob_supply ct =? supply_after pt c (is_ok (si_out it)))
         && cmp_unchanged pc cc
         && match si_out it with
            | Fail =>
                eqb_list eqb_acct (ob_accts pt) (ob_accts ct) && Bool.eqb (ob_paused pt) (ob_paused ct)
                && no_mlog cc
            | Ok r =>
                sgates_ok lk la la' w deny pc pt o au r
                && none_fails fail pc o r
                && accts_ok lk c r P Q
                && Bool.eqb (ob_paused ct) (paused_after pt c)
                && (if notifies o r
                    then match bound_look [tok] pc tok with Some b => b | None => false end
                    else true)
                && match expected_mlog lk pc tok o r with
                   | Some l => eqb_list eqb_entry (co_log cc) l
                   | None => true
                   end
            end
     end.

Fixpoint smon_from cf univ tok (prev : sobs) (items : list sitem) (i : N) : N :=
  match items with
  | [] => 0%N
  | it :: r => if smon_step cf univ tok prev it then smon_from cf univ tok (si_obs it) r (N.succ i) else N.succ i
  end.

(* well-formed calls: parties inside the observed universe, the compliance calls about this token *)
Definition swf (univ : list addr) (tok : addr) (c : scall) : bool :=
  match c with
  | STokF o au _ _ w => wf_call univ (mkCall o au (fun _ => mkOracle [] false false (w_recovered w)))
  | SCmp cc => cwf_call [tok] cc
  | SEdit => true
  end.

Definition check_stack (t : strace) : verdict :=
  (sdiff_from (st_hc t) (st_cf t) (st_univ t) (st_tok t) sinit (st_items t) 0%N,
   smon_from (st_cf t) (st_univ t) (st_tok t) (sobserve (st_univ t) (st_tok t) sinit) (st_items t) 0%N,
   0%N).

Fixpoint smodel_items hc cf univ tok (ss : sstate) (cs : list scall) : list sitem :=
  match cs with
  | [] => []
  | c :: r => let '(ss', o) := sstep hc cf univ tok ss c in
              SI c o (sobserve univ tok ss') :: smodel_items hc cf univ tok ss' r
  end.
Definition sobserve_model hc cf univ tok (cs : list scall) : strace :=
  mkST hc cf univ tok (smodel_items hc cf univ tok sinit cs).
