(* C06: trace checker (model vs implementation) and monitor (the property as a boolean over
   the implementation's observations: calls with authorisation sets, outcomes, all public
   getters over the small universe).  The monitor uses no model state. *)
From SC Require Import Lib.Prelude Lib.Int Lib.Host Model.RoleTransfer Model.Access Model.AllowList Model.AccessLow.
From SC Require Run.C07.

Record aheader := {
  ah_min : Z; ah_max : Z;          (* ledger info: min_temp_entry_ttl, max_entry_ttl *)
  ah_start : Z;                    (* ledger sequence at the start *)
  ah_admin : option addr;          (* admin set by the constructor *)
  ah_max_roles : N;                (* pub const MAX_ROLES *)
  ah_minter : role; ah_burner : role;
  ah_u : universe
}.
Definition aitem := (Access.call * bool * aobs)%type.

(* examples/fungible-allowlist: the header of the AccessControl part, the "manager" role and the
   account the constructor grants it to *)
Record alheader := { alh : aheader; alh_manager : role; alh_macct : addr }.
Definition alitem := (alcall * bool * alobs)%type.

(* contracts whose constructor grants roles to caller-supplied account lists through grant_role_no_auth
   (examples/fee-forwarder-permissioned, examples/timelock-controller, a bare wrapper of the library), and the
   library's low-level no-auth entry points: the header of the AccessControl part and the (account, role) pairs
   the constructor was told to grant, in the order it grants them, duplicates included *)
Record lheader := { lh : aheader; lh_ctor : list (addr * role) }.
Definition litem := (lcall * bool * aobs)%type.

Inductive trace :=
| TLow (h : lheader) (o0 : aobs) (l : list litem)          (* constructors with account lists + the *_no_auth entry points *)
| TAllow (h : alheader) (o0 : alobs) (l : list alitem)    (* examples/fungible-allowlist: role-guarded allow / disallow *)
| TAC (h : aheader) (o0 : aobs) (l : list aitem)          (* examples/nft-access-control; o0 = getters right after construction *)
| TOwn (h : C07.header) (l : list C07.item).              (* examples/ownable: #[only_owner] *)

Definition ah_cfg (h : aheader) : cfg :=
  {| host := {| min_temp_ttl := ah_min h; max_ttl := ah_max h |}; max_roles := ah_max_roles h;
     minter := ah_minter h; burner := ah_burner h |}.
Definition ah_init (h : aheader) : st := Access.init (ah_start h) (ah_admin h).

(* ---------------- equality of observations ---------------- *)
Definition eqb_on (a b : option N) : bool :=
  match a, b with Some x, Some y => N.eqb x y | None, None => true | _, _ => false end.
Fixpoint eqb_list {A} (f : A -> A -> bool) (a b : list A) : bool :=
  match a, b with
  | [], [] => true
  | x :: r, y :: s => f x y && eqb_list f r s
  | _, _ => false
  end.
Definition eqb_robs (a b : robs) : bool :=
  eqb_on (ro_admin_role a) (ro_admin_role b) && N.eqb (ro_count a) (ro_count b)
  && eqb_list eqb_on (ro_members a) (ro_members b) && eqb_list eqb_on (ro_has a) (ro_has b).
Definition eqb_aobs (a b : aobs) : bool :=
  eqb_on (ob_admin a) (ob_admin b) && C07.eqb_pv (ob_pending a) (ob_pending b)
  && eqb_list eqb_robs (ob_roles a) (ob_roles b) && eqb_list N.eqb (ob_existing a) (ob_existing b)
  && eqb_list eqb_on (ob_tokens a) (ob_tokens b) && eqb_list eqb_on (ob_approved a) (ob_approved b).

Fixpoint diff_from (c : cfg) (u : universe) (s : st) (l : list aitem) (i : N) : N :=
  match l with
  | [] => 0%N
  | (cl, ok, ob) :: r =>
      let '(s', ok') := Access.step c s cl in
      if Bool.eqb ok ok' && eqb_aobs ob (Access.observe u s') then diff_from c u s' r (N.succ i) else N.succ i
  end.

(* ======================= monitor for the access-control contract ======================= *)
Definition nth_o {A} (l : list (option A)) (i : nat) : option A := nth i l None.
Fixpoint index_of (x : N) (l : list N) : option nat :=
  match l with
  | [] => None
  | y :: r => if N.eqb x y then Some O else match index_of x r with Some k => Some (S k) | None => None end
  end.
Definition dummy_robs : robs := {| ro_admin_role := None; ro_count := 0; ro_members := []; ro_has := [] |}.
(* the observation of role r / of (account a, role r) in an observation, by position in the universe *)
Definition role_obs (u : universe) (o : aobs) (r : role) : option robs :=
  match index_of r (u_roles u) with Some k => nth_error (ob_roles o) k | None => None end.
Definition obs_has (u : universe) (o : aobs) (a : addr) (r : role) : bool :=
  match role_obs u o r, index_of a (u_accounts u) with
  | Some ro, Some k => is_some (nth_o (ro_has ro) k)
  | _, _ => false
  end.
Definition obs_role_admin (u : universe) (o : aobs) (r : role) : option role :=
  match role_obs u o r with Some ro => ro_admin_role ro | None => None end.
Definition obs_token (u : universe) (o : aobs) (t : N) : option addr :=
  match index_of t (u_tokens u) with Some k => nth_o (ob_tokens o) k | None => None end.
Definition obs_appr (u : universe) (o : aobs) (t : N) : option addr :=
  match index_of t (u_tokens u) with Some k => nth_o (ob_approved o) k | None => None end.

(* the caller may administer role r: it is the admin, or holds r's admin role *)
Definition obs_authority (u : universe) (o : aobs) (r : role) (caller : addr) : bool :=
  (match ob_admin o with Some a => N.eqb a caller | None => false end)
  || (match obs_role_admin u o r with Some ar => obs_has u o caller ar | None => false end).

(* the set of (account, role) pairs, as the has_role getter shows it: one row per role *)
Definition membership (o : aobs) : list (list bool) := map (fun ro => map is_some (ro_has ro)) (ob_roles o).
Definition eqb_membership (a b : list (list bool)) : bool := eqb_list (eqb_list Bool.eqb) a b.
(* membership with the pair (a, r) set to v *)
Definition set_nth {A} (l : list A) (k : nat) (v : A) : list A :=
  firstn k l ++ match skipn k l with [] => [] | _ :: t => v :: t end.
Definition membership_set (u : universe) (m : list (list bool)) (a : addr) (r : role) (v : bool) : list (list bool) :=
  match index_of r (u_roles u), index_of a (u_accounts u) with
  | Some kr, Some ka => set_nth m kr (set_nth (nth kr m []) ka v)
  | _, _ => m
  end.

(* enumeration consistency of ONE observation: for every role, count = number of holders;
   indices 0..count-1 hold pairwise different holders, has_role stores the inverse index,
   nothing is stored at count and count+1; existing roles = the roles with a member. *)
Fixpoint count_true (l : list bool) : N :=
  match l with [] => 0%N | b :: r => ((if b then 1 else 0) + count_true r)%N end.
Fixpoint forall_idx {A} (f : nat -> A -> bool) (l : list A) (i : nat) : bool :=
  match l with [] => true | x :: r => f i x && forall_idx f r (S i) end.
Definition role_consistent (u : universe) (ro : robs) : bool :=
  let cnt := ro_count ro in
  (* count = |holders| *)
  N.eqb cnt (count_true (map is_some (ro_has ro)))
  && Nat.eqb (length (ro_has ro)) (length (u_accounts u))
  && Nat.eqb (length (ro_members ro)) (N.to_nat cnt + 2)
  (* member i (i < count) is an account a of the universe with has a = Some i; beyond count: nothing *)
  && forall_idx (fun i m =>
        if (N.of_nat i <? cnt)%N then
          match m with
          | Some a => match index_of a (u_accounts u) with
                      | Some k => eqb_on (nth_o (ro_has ro) k) (Some (N.of_nat i))
                      | None => false end
          | None => false
          end
        else negb (is_some m)) (ro_members ro) O
  (* has a = Some i -> i < count and member i = a *)
  && forall_idx (fun k h =>
        match h with
        | Some i => (i <? cnt)%N && eqb_on (nth_o (ro_members ro) (N.to_nat i)) (nth_error (u_accounts u) k)
        | None => true
        end) (ro_has ro) O.
Fixpoint nodupb (l : list N) : bool :=
  match l with [] => true | x :: r => negb (existsb (N.eqb x) r) && nodupb r end.
Definition existing_consistent (u : universe) (o : aobs) : bool :=
  nodupb (ob_existing o)
  && forallb (fun r => match role_obs u o r with Some ro => (0 <? ro_count ro)%N | None => false end) (ob_existing o)
  && forall_idx (fun k ro => if (0 <? ro_count ro)%N
                             then match nth_error (u_roles u) k with Some r => existsb (N.eqb r) (ob_existing o) | None => false end
                             else true) (ob_roles o) O.
Definition obs_consistent (u : universe) (o : aobs) : bool :=
  Nat.eqb (length (ob_roles o)) (length (u_roles u))
  && forallb (role_consistent u) (ob_roles o) && existing_consistent u o.

Definition admin_auth (o : aobs) (auths : list addr) : bool :=
  match ob_admin o with Some a => has_auth auths a | None => false end.
Definition role_admins (o : aobs) : list (option role) := map ro_admin_role (ob_roles o).
Definition obs_any_role (h : aheader) (o : aobs) (a : addr) : bool :=
  obs_has (ah_u h) o a (ah_minter h) || obs_has (ah_u h) o a (ah_burner h).

(* [p] = observation before the call, [o] = observation after it *)
Definition mon_step (h : aheader) (p : aobs) (it : aitem) : bool :=
  let '(cl, ok, o) := it in
  let u := ah_u h in
  let same_members := eqb_membership (membership o) (membership p) in
  let same_admin := eqb_on (ob_admin o) (ob_admin p) in
  let same_role_admins := eqb_list eqb_on (role_admins o) (role_admins p) in
  let same_owners := eqb_list eqb_on (ob_tokens o) (ob_tokens p) in
  let same_appr := eqb_list eqb_on (ob_approved o) (ob_approved p) in
  let same_tokens := same_owners && same_appr in
  let unchanged := same_members && same_admin && same_role_admins && same_tokens in
  obs_consistent u o &&
  (* after the admin is gone it never comes back *)
  (match ob_admin p with None => negb (is_some (ob_admin o)) | Some _ => true end) &&
  match cl with
  | Grant a r caller au =>
      let may := has_auth au caller && obs_authority u p r caller in
      same_admin && same_role_admins && same_tokens &&
      if ok then
        may && eqb_membership (membership o) (membership_set u (membership p) a r true)
      else
        same_members &&
        (* an authorised grant is refused only when it would create role number MAX_ROLES + 1 *)
        negb (may && (obs_has u p a r
                      || negb (N.eqb (N.of_nat (length (ob_existing p))) (ah_max_roles h))
                      || match role_obs u p r with Some ro => (0 <? ro_count ro)%N | None => false end))
  | Revoke a r caller au =>
      let may := has_auth au caller && obs_authority u p r caller in
      same_admin && same_role_admins && same_tokens &&
      if ok then
        may && obs_has u p a r && eqb_membership (membership o) (membership_set u (membership p) a r false)
      else same_members && negb (may && obs_has u p a r)
  | RenounceRole r caller au =>
      same_admin && same_role_admins && same_tokens &&
      if ok then
        has_auth au caller && obs_has u p caller r
        && eqb_membership (membership o) (membership_set u (membership p) caller r false)
      else same_members && negb (has_auth au caller && obs_has u p caller r)
  | SetRoleAdmin r ar au =>
      same_members && same_admin && same_tokens &&
      if ok then
        admin_auth p au &&
        match index_of r (u_roles u) with
        | Some k => eqb_list eqb_on (role_admins o) (set_nth (role_admins p) k (Some ar))
        | None => false
        end
      else same_role_admins && negb (admin_auth p au)
  | TransferAdmin new lu au =>
      unchanged && (if ok then admin_auth p au else true)
  | AcceptAdmin au =>
      same_members && same_role_admins && same_tokens &&
      if ok then
        is_some (ob_admin p) &&
        match ob_admin o with Some a => has_auth au a | None => false end
      else same_admin
  | RenounceAdmin au =>
      same_members && same_role_admins && same_tokens &&
      if ok then admin_auth p au && negb (is_some (ob_admin o)) else same_admin
  | AdminRestricted au =>
      unchanged && Bool.eqb ok (admin_auth p au)
  | Mint to token caller au =>
      same_members && same_admin && same_role_admins &&
      Bool.eqb ok (obs_has u p caller (ah_minter h) && has_auth au caller) &&
      (* a successful mint sets exactly this token's owner *)
      (if ok then match index_of token (u_tokens u) with
                  | Some k => eqb_list eqb_on (ob_tokens o) (set_nth (ob_tokens p) k (Some to))
                  | None => false end && same_appr
       else same_tokens)
  | MultiRoleAction caller au | MultiRoleAuthAction caller au =>
      unchanged && Bool.eqb ok (obs_any_role h p caller && has_auth au caller)
  | Burn from token au =>
      same_members && same_admin && same_role_admins &&
      Bool.eqb ok (obs_has u p from (ah_burner h) && has_auth au from && eqb_on (obs_token u p token) (Some from)) &&
      (* a successful burn removes exactly this token and its approval *)
      (if ok then match index_of token (u_tokens u) with
                  | Some k => eqb_list eqb_on (ob_tokens o) (set_nth (ob_tokens p) k None)
                              && eqb_list eqb_on (ob_approved o) (set_nth (ob_approved p) k None)
                  | None => false end else same_tokens)
  | BurnFrom spender from token au =>
      (* the role holder may burn its own token or one it is approved for *)
      same_members && same_admin && same_role_admins &&
      Bool.eqb ok (obs_has u p spender (ah_burner h) && has_auth au spender
                   && (N.eqb spender from || eqb_on (obs_appr u p token) (Some spender))
                   && eqb_on (obs_token u p token) (Some from)) &&
      (* a successful burn removes exactly this token and its approval *)
      (if ok then match index_of token (u_tokens u) with
                  | Some k => eqb_list eqb_on (ob_tokens o) (set_nth (ob_tokens p) k None)
                              && eqb_list eqb_on (ob_approved o) (set_nth (ob_approved p) k None)
                  | None => false end else same_tokens)
  | Approve approver approved token lu au =>
      (* not role-guarded: only the owner, with its authorisation, approves a spender for its token *)
      same_members && same_admin && same_role_admins && same_owners &&
      (if ok then has_auth au approver && eqb_on (obs_token u p token) (Some approver)
                  && eqb_on (obs_appr u o token) (if lu =? 0 then None else Some approved)
       else same_appr)
  | Advance _ =>
      (* the passing of time changes no role, admin, role admin or owner, however long; an approval may only lapse *)
      ok && same_members && same_admin && same_role_admins && same_owners
      && eqb_list (fun n o' => match n with None => true | Some _ => eqb_on n o' end) (ob_approved o) (ob_approved p)
  end.

(* ---- WHO is the admin: the two-step hand-over, monitored with the clauses of C07 ---- *)
(* the admin-related calls are read as calls of the C07 handshake; every other call must leave the
   admin alone (a no-op for the handshake).  A known-finding step of C07 (class 1 there) is C07's
   business: monitoring continues. *)
Definition c07_hd (h : aheader) : C07.header :=
  {| C07.h_kind := AC; C07.h_min := ah_min h; C07.h_max := ah_max h; C07.h_start := ah_start h; C07.h_holder := ah_admin h |}.
Definition proj_call (cl : Access.call) : RoleTransfer.call :=
  match cl with
  | TransferAdmin n lu au => RoleTransfer.Offer n lu au
  | AcceptAdmin au => RoleTransfer.Accept au
  | RenounceAdmin au => RoleTransfer.Renounce au
  | AdminRestricted au => RoleTransfer.Guarded au
  | Access.Advance n => RoleTransfer.Advance n
  | _ => RoleTransfer.Advance 0
  end.
Definition is_admin_call (cl : Access.call) : bool :=
  match cl with
  | TransferAdmin _ _ _ | AcceptAdmin _ | RenounceAdmin _ | AdminRestricted _ => true
  | _ => false
  end.
Definition proj_item (it : aitem) : C07.item :=
  let '(cl, ok, o) := it in
  (proj_call cl, if is_admin_call cl then (if ok then Ok 0 else Fail) else Ok 0, (ob_admin o, ob_pending o)).
Definition hand_step (h : aheader) (q : C07.mon) (it : aitem) : option C07.mon :=
  C07.cont (C07.mon_step (c07_hd h) q (proj_item it)).

Fixpoint mon_from (h : aheader) (p : aobs) (q : C07.mon) (l : list aitem) (i : N) : N :=
  match l with
  | [] => 0%N
  | it :: r =>
      if mon_step h p it then
        match hand_step h q it with
        | Some q' => mon_from h (snd it) q' r (N.succ i)
        | None => N.succ i
        end
      else N.succ i
  end.

(* what a freshly constructed contract shows: the admin handed to the constructor, nothing else *)
Definition init_obs (h : aheader) : aobs :=
  {| ob_admin := ah_admin h; ob_pending := None;
     ob_roles := map (fun _ => {| ro_admin_role := None; ro_count := 0; ro_members := [None; None];
                                  ro_has := map (fun _ => None) (u_accounts (ah_u h)) |}) (u_roles (ah_u h));
     ob_existing := [];
     ob_tokens := map (fun _ => None) (u_tokens (ah_u h));
     ob_approved := map (fun _ => None) (u_tokens (ah_u h)) |}.

(* ======================= monitor for the ownable contract (#[only_owner]) ======================= *)
(* the restricted entry point runs exactly with the current owner's authorisation; once
   ownership is renounced nothing restricted succeeds any more and the owner stays None *)
Definition own_step (hp : option addr) (it : C07.item) : bool :=
  let '(cl, o, ob) := it in
  let h' := fst ob in
  match hp with
  | None => negb (is_some h') && match cl with RoleTransfer.Advance _ => true | _ => negb (is_ok o) end
  | Some a =>
      match cl with
      | RoleTransfer.Guarded au => Bool.eqb (is_ok o) (has_auth au a) && eqb_on h' hp
      | RoleTransfer.Offer _ _ au => (if is_ok o then has_auth au a else true) && eqb_on h' hp
      | RoleTransfer.Renounce au => if is_ok o then has_auth au a && negb (is_some h') else eqb_on h' hp
      | RoleTransfer.Accept au => if is_ok o then match h' with Some b => has_auth au b | None => false end else eqb_on h' hp
      | RoleTransfer.Advance _ => eqb_on h' hp
      end
  end.
Fixpoint own_from (hd : C07.header) (hp : option addr) (q : C07.mon) (l : list C07.item) (i : N) : N :=
  match l with
  | [] => 0%N
  | it :: r =>
      if own_step hp it then
        match C07.cont (C07.mon_step hd q it) with     (* the ownership hand-over obeys the C07 clauses *)
        | Some q' => own_from hd (fst (snd it)) q' r (N.succ i)
        | None => N.succ i
        end
      else N.succ i
  end.

(* ======================= the allow-list contract ======================= *)
Definition alh_cfg (h : alheader) : alcfg := {| al_c := ah_cfg (alh h); al_manager := alh_manager h |}.
Definition alh_init (h : alheader) : alst :=
  al_init (alh_cfg h) (ah_start (alh h)) (match ah_admin (alh h) with Some a => a | None => 0%N end) (alh_macct h).
Definition eqb_alobs (a b : alobs) : bool := eqb_aobs (fst a) (fst b) && eqb_list Bool.eqb (snd a) (snd b).

Fixpoint al_diff_from (c : alcfg) (u : universe) (s : alst) (l : list alitem) (i : N) : N :=
  match l with
  | [] => 0%N
  | (cl, ok, ob) :: r =>
      let '(s', ok') := al_step c s cl in
      if Bool.eqb ok ok' && eqb_alobs ob (al_observe u s') then al_diff_from c u s' r (N.succ i) else N.succ i
  end.

(* allow_user / disallow_user run exactly for an authorised holder of "manager", change exactly the
   named account's flag and nothing about roles; every AccessControl call obeys the access-control
   monitor and leaves the allow flags alone (also across arbitrarily long ledger gaps) *)
Definition al_mon_step (h : alheader) (p : alobs) (it : alitem) : bool :=
  let '(cl, ok, o) := it in
  let u := ah_u (alh h) in
  match cl with
  | ACall c => mon_step (alh h) (fst p) (c, ok, fst o) && eqb_list Bool.eqb (snd o) (snd p)
  | AllowUser user op au | DisallowUser user op au =>
      let v := match cl with AllowUser _ _ _ => true | _ => false end in
      obs_consistent u (fst o)
      && eqb_membership (membership (fst o)) (membership (fst p))
      && eqb_on (ob_admin (fst o)) (ob_admin (fst p))
      && eqb_list eqb_on (role_admins (fst o)) (role_admins (fst p))
      && Bool.eqb ok (obs_has u (fst p) op (alh_manager h) && has_auth au op)
      && eqb_list Bool.eqb (snd o)
           (if ok then match index_of user (u_accounts u) with Some k => set_nth (snd p) k v | None => snd p end
            else snd p)
  end.
Definition al_proj (it : alitem) : aitem :=
  let '(cl, ok, o) := it in
  match cl with ACall c => (c, ok, fst o) | _ => (Access.Advance 0, true, fst o) end.
Fixpoint al_mon_from (h : alheader) (p : alobs) (q : C07.mon) (l : list alitem) (i : N) : N :=
  match l with
  | [] => 0%N
  | it :: r =>
      if al_mon_step h p it then
        match hand_step (alh h) q (al_proj it) with
        | Some q' => al_mon_from h (snd it) q' r (N.succ i)
        | None => N.succ i
        end
      else N.succ i
  end.

(* what the freshly constructed allow-list contract shows: the admin, exactly one role member - the account the
   constructor was told, holding "manager" - and exactly the admin allowed *)
Definition al_init_obs (h : alheader) : alobs :=
  let u := ah_u (alh h) in
  ({| ob_admin := ah_admin (alh h); ob_pending := None;
      ob_roles := map (fun r => if N.eqb r (alh_manager h)
                                then {| ro_admin_role := None; ro_count := 1; ro_members := [Some (alh_macct h); None; None];
                                        ro_has := map (fun a => if N.eqb a (alh_macct h) then Some 0%N else None) (u_accounts u) |}
                                else {| ro_admin_role := None; ro_count := 0; ro_members := [None; None];
                                        ro_has := map (fun _ => None) (u_accounts u) |}) (u_roles u);
      ob_existing := [alh_manager h];
      ob_tokens := map (fun _ => None) (u_tokens u);
      ob_approved := map (fun _ => None) (u_tokens u) |},
   map (fun a => match ah_admin (alh h) with Some ad => N.eqb a ad | None => false end) (u_accounts u)).

(* every account / role / token mentioned by a call belongs to the universe *)
Definition inb (x : N) (l : list N) : bool := existsb (N.eqb x) l.
Definition wf_call (u : universe) (cl : Access.call) : bool :=
  let A x := inb x (u_accounts u) in let R x := inb x (u_roles u) in let T x := inb x (u_tokens u) in
  match cl with
  | Grant a r c _ | Revoke a r c _ => A a && R r && A c
  | RenounceRole r c _ => R r && A c
  | SetRoleAdmin r ar _ => R r && R ar
  | TransferAdmin n _ _ => A n
  | AcceptAdmin _ | RenounceAdmin _ | AdminRestricted _ | Access.Advance _ => true
  | Mint to t c _ => A to && T t && A c
  | MultiRoleAction c _ | MultiRoleAuthAction c _ => A c
  | Burn f t _ => A f && T t
  | BurnFrom sp f t _ => A sp && A f && T t
  | Approve a b t _ _ => A a && A b && T t
  end.
Definition wf_alcall (u : universe) (cl : alcall) : bool :=
  match cl with
  | ACall c => wf_call u c
  | AllowUser a b _ | DisallowUser a b _ => inb a (u_accounts u) && inb b (u_accounts u)
  end.
(* well-formedness of the header (what the harness guarantees): universe without duplicates *)
Definition wf_aheader (h : aheader) : bool :=
  nodupb (u_accounts (ah_u h)) && nodupb (u_roles (ah_u h)) && nodupb (u_tokens (ah_u h)) && (ah_min h =? 1)
  && (Z.of_nat (length (u_accounts (ah_u h))) <? MAXU32).

Definition wf_alheader (h : alheader) : bool :=
  match ah_admin (alh h) with Some a => existsb (N.eqb a) (u_accounts (ah_u (alh h))) | None => false end
  && existsb (N.eqb (alh_macct h)) (u_accounts (ah_u (alh h)))
  && existsb (N.eqb (alh_manager h)) (u_roles (ah_u (alh h)))
  && negb (N.eqb (ah_max_roles (alh h)) 0).

(* ======================= constructors with account lists and the low-level (no-auth) entry points ======================= *)
Definition lh_cfg (h : lheader) : cfg := ah_cfg (lh h).
Definition lh_init (h : lheader) : st := linit (lh_cfg h) (ah_start (lh h)) (ah_admin (lh h)) (lh_ctor h).

Fixpoint l_diff_from (c : cfg) (u : universe) (s : st) (l : list litem) (i : N) : N :=
  match l with
  | [] => 0%N
  | (cl, ok, ob) :: r =>
      let '(s', ok') := lstep c s cl in
      if Bool.eqb ok ok' && eqb_aobs ob (Access.observe u s') then l_diff_from c u s' r (N.succ i) else N.succ i
  end.

(* The no-auth entry points carry no authority clause (they are the constructor's tools); what the property
   demands of them is the second sentence: after each of them the queryable membership still describes exactly
   the set - the named pair entered / left it and nothing else, count = number of holders, gap-free indices -
   and nothing else of the contract moved.  An ordinary call is judged by the access-control monitor. *)
Definition l_mon_step (h : lheader) (p : aobs) (it : litem) : bool :=
  let '(cl, ok, o) := it in
  let hh := lh h in
  let u := ah_u hh in
  let same_members := eqb_membership (membership o) (membership p) in
  let same_admin := eqb_on (ob_admin o) (ob_admin p) in
  let same_role_admins := eqb_list eqb_on (role_admins o) (role_admins p) in
  let same_tokens := eqb_list eqb_on (ob_tokens o) (ob_tokens p) && eqb_list eqb_on (ob_approved o) (ob_approved p) in
  match cl with
  | LCall c => mon_step hh p (c, ok, o)
  | GrantNoAuth a r =>
      obs_consistent u o && same_admin && same_role_admins && same_tokens &&
      if ok then eqb_membership (membership o) (membership_set u (membership p) a r true)
      else same_members &&
           (* refused only when it would create role number MAX_ROLES + 1 *)
           negb (obs_has u p a r
                 || negb (N.eqb (N.of_nat (length (ob_existing p))) (ah_max_roles hh))
                 || match role_obs u p r with Some ro => (0 <? ro_count ro)%N | None => false end)
  | RevokeNoAuth a r =>
      obs_consistent u o && same_admin && same_role_admins && same_tokens &&
      Bool.eqb ok (obs_has u p a r) &&
      eqb_membership (membership o) (if ok then membership_set u (membership p) a r false else membership p)
  | SetRoleAdminNoAuth r ar =>
      obs_consistent u o && ok && same_members && same_admin && same_tokens &&
      match index_of r (u_roles u) with
      | Some k => eqb_list eqb_on (role_admins o) (set_nth (role_admins p) k (Some ar))
      | None => false
      end
  | RemoveRoleAdminNoAuth r =>
      obs_consistent u o && same_members && same_admin && same_tokens &&
      Bool.eqb ok (is_some (obs_role_admin u p r)) &&
      match index_of r (u_roles u) with
      | Some k => eqb_list eqb_on (role_admins o) (if ok then set_nth (role_admins p) k None else role_admins p)
      | None => false
      end
  | RemoveCountNoAuth r _ =>
      (* never while the role has a member; no getter moves *)
      obs_consistent u o && same_members && same_admin && same_role_admins && same_tokens &&
      (if ok then match role_obs u p r with Some ro => N.eqb (ro_count ro) 0 | None => false end else true)
  | EnsureAuthority r caller =>
      obs_consistent u o && same_members && same_admin && same_role_admins && same_tokens &&
      Bool.eqb ok (obs_authority u p r caller)
  | EnsureRole r caller =>
      obs_consistent u o && same_members && same_admin && same_role_admins && same_tokens &&
      Bool.eqb ok (obs_has u p caller r)
  end.
Definition l_proj (it : litem) : aitem :=
  let '(cl, ok, o) := it in
  match cl with LCall c => (c, ok, o) | _ => (Access.Advance 0, true, o) end.
Fixpoint l_mon_from (h : lheader) (p : aobs) (q : C07.mon) (l : list litem) (i : N) : N :=
  match l with
  | [] => 0%N
  | it :: r =>
      if l_mon_step h p it then
        match hand_step (lh h) q (l_proj it) with
        | Some q' => l_mon_from h (snd it) q' r (N.succ i)
        | None => N.succ i
        end
      else N.succ i
  end.

(* what a contract constructed with the pair list shows: the admin handed to the constructor, no role admin,
   no token, and a consistent enumeration (count = number of holders, gap-free, inverse index, existing roles)
   of EXACTLY the set of listed pairs - a pair listed twice is one member *)
Definition ctor_membership (u : universe) (pairs : list (addr * role)) : list (list bool) :=
  fold_left (fun m p => membership_set u m (fst p) (snd p) true) pairs
            (map (fun _ => map (fun _ => false) (u_accounts u)) (u_roles u)).
Definition all_none {A} (l : list (option A)) : bool := forallb (fun x => negb (is_some x)) l.
Definition l_init_ok (h : lheader) (o0 : aobs) : bool :=
  let u := ah_u (lh h) in
  obs_consistent u o0
  && eqb_membership (membership o0) (ctor_membership u (lh_ctor h))
  && eqb_on (ob_admin o0) (ah_admin (lh h)) && negb (is_some (ob_pending o0))
  && all_none (role_admins o0)
  && all_none (ob_tokens o0) && Nat.eqb (length (ob_tokens o0)) (length (u_tokens u))
  && all_none (ob_approved o0) && Nat.eqb (length (ob_approved o0)) (length (u_tokens u)).

Definition wf_lcall (u : universe) (cl : lcall) : bool :=
  let A x := inb x (u_accounts u) in let R x := inb x (u_roles u) in
  match cl with
  | LCall c => wf_call u c
  | GrantNoAuth a r | RevokeNoAuth a r => A a && R r
  | SetRoleAdminNoAuth r ar => R r && R ar
  | RemoveRoleAdminNoAuth r | RemoveCountNoAuth r _ => R r
  | EnsureAuthority r c | EnsureRole r c => R r && A c
  end.
(* the constructor's pairs belong to the universe and the universe of roles fits into MAX_ROLES
   (so that no grant of the constructor is refused) *)
Definition wf_lheader (h : lheader) : bool :=
  let u := ah_u (lh h) in
  forallb (fun p => inb (fst p) (u_accounts u) && inb (snd p) (u_roles u)) (lh_ctor h)
  && (N.of_nat (length (u_roles u)) <=? ah_max_roles (lh h))%N.

(* the monitor stands on its own: a malformed header, a call outside the universe or an initial
   observation that is not the freshly constructed contract's is a monitor failure at index 1 *)
Definition check (t : trace) : verdict :=
  match t with
  | TLow h o0 l =>
      let u := ah_u (lh h) in
      (if wf_aheader (lh h) && wf_lheader h && eqb_aobs o0 (Access.observe u (lh_init h))
       then l_diff_from (lh_cfg h) u (lh_init h) l 0%N else 1%N,
       if wf_aheader (lh h) && wf_lheader h && forallb (fun it => wf_lcall u (fst (fst it))) l && l_init_ok h o0
       then l_mon_from h o0 (C07.mon_init (c07_hd (lh h))) l 0%N else 1%N, 0%N)
  | TAllow h o0 l =>
      let u := ah_u (alh h) in
      (if wf_aheader (alh h) && wf_alheader h && eqb_alobs o0 (al_observe u (alh_init h))
       then al_diff_from (alh_cfg h) u (alh_init h) l 0%N else 1%N,
       if wf_aheader (alh h) && wf_alheader h && forallb (fun it => wf_alcall u (fst (fst it))) l
          && eqb_alobs o0 (al_init_obs h)
       then al_mon_from h o0 (C07.mon_init (c07_hd (alh h))) l 0%N else 1%N, 0%N)
  | TAC h o0 l =>
      (if wf_aheader h && eqb_aobs o0 (Access.observe (ah_u h) (ah_init h))
       then diff_from (ah_cfg h) (ah_u h) (ah_init h) l 0%N else 1%N,
       if wf_aheader h && forallb (fun it => wf_call (ah_u h) (fst (fst it))) l && eqb_aobs o0 (init_obs h)
       then mon_from h o0 (C07.mon_init (c07_hd h)) l 0%N else 1%N, 0%N)
  | TOwn h l =>
      if C07.wf_header h then
        (C07.diff_from (C07.h_kind h) (C07.h_cfg h) (C07.h_init h) l 0%N,
         own_from h (C07.h_holder h) (C07.mon_init h) l 0%N, 0%N)
      else (1%N, 1%N, 0%N)
  end.
Definition check_all (ts : list trace) : list verdict := map check ts.

(* the trace the model itself produces *)
Fixpoint model_items (c : cfg) (u : universe) (s : st) (cs : list Access.call) : list aitem :=
  match cs with
  | [] => []
  | cl :: r => let '(s', ok) := Access.step c s cl in (cl, ok, Access.observe u s') :: model_items c u s' r
  end.
Definition observe_model (h : aheader) (cs : list Access.call) : trace :=
  TAC h (Access.observe (ah_u h) (ah_init h)) (model_items (ah_cfg h) (ah_u h) (ah_init h) cs).
Definition observe_model_own (h : C07.header) (cs : list RoleTransfer.call) : trace :=
  TOwn h (C07.model_items (C07.h_kind h) (C07.h_cfg h) (C07.h_init h) cs).

Fixpoint al_model_items (c : alcfg) (u : universe) (s : alst) (cs : list alcall) : list alitem :=
  match cs with
  | [] => []
  | cl :: r => let '(s', ok) := al_step c s cl in (cl, ok, al_observe u s') :: al_model_items c u s' r
  end.
Definition observe_model_allow (h : alheader) (cs : list alcall) : trace :=
  TAllow h (al_observe (ah_u (alh h)) (alh_init h)) (al_model_items (alh_cfg h) (ah_u (alh h)) (alh_init h) cs).

Fixpoint l_model_items (c : cfg) (u : universe) (s : st) (cs : list lcall) : list litem :=
  match cs with
  | [] => []
  | cl :: r => let '(s', ok) := lstep c s cl in (cl, ok, Access.observe u s') :: l_model_items c u s' r
  end.
Definition observe_model_low (h : lheader) (cs : list lcall) : trace :=
  TLow h (Access.observe (ah_u (lh h)) (lh_init h)) (l_model_items (lh_cfg h) (ah_u (lh h)) (lh_init h) cs).

(* ---------------- the monitor rejects bad traces ---------------- *)
Definition ex_u : universe := {| u_accounts := [0; 1; 2; 3]%N; u_roles := [0; 1; 2]%N; u_tokens := [0; 1]%N |}.
Definition ex_h : aheader :=
  {| ah_min := 1; ah_max := 5000; ah_start := 100; ah_admin := Some 0%N; ah_max_roles := 256%N;
     ah_minter := 0%N; ah_burner := 1%N; ah_u := ex_u |}.
(* what a correct implementation shows for a list of calls *)
Definition good (cs : list Access.call) : list aitem := model_items (ah_cfg ex_h) ex_u (ah_init ex_h) cs.
Definition obs0 : aobs := Access.observe ex_u (ah_init ex_h).
(* the observations of the run [shown], presented as the answers to the calls [claimed] *)
Definition relabel (claimed : list (Access.call * bool)) (shown : list aitem) : list aitem :=
  map (fun p => (fst (fst p), snd (fst p), snd (snd p))) (combine claimed shown).
Definition mon_of (l : list aitem) : N := snd (fst (check (TAC ex_h obs0 l))).

(* a stranger's grant "succeeds" (the implementation behaved as if the admin had signed) *)
Example C06_monitor_rejects_unauthorised_grant :
  mon_of (relabel [(Grant 1 0 2 [2], true)]%N (good [Grant 1 0 0 [0]]%N)) = 1%N.
Proof. vm_compute. reflexivity. Qed.
(* the admin is named as caller but did not sign *)
Example C06_monitor_rejects_unsigned_grant :
  mon_of (relabel [(Grant 1 0 0 [1], true)]%N (good [Grant 1 0 0 [0]]%N)) = 1%N.
Proof. vm_compute. reflexivity. Qed.
(* a plain member of the role (not of its admin role) revokes *)
Example C06_monitor_rejects_member_revoke :
  mon_of (relabel [(Grant 1 0 0 [0], true); (Grant 2 0 0 [0], true); (Revoke 2 0 1 [1], true)]%N
                  (good [Grant 1 0 0 [0]; Grant 2 0 0 [0]; Revoke 2 0 0 [0]]%N)) = 3%N.
Proof. vm_compute. reflexivity. Qed.
(* somebody else renounces on the holder's behalf *)
Example C06_monitor_rejects_foreign_renounce :
  mon_of (relabel [(Grant 1 0 0 [0], true); (RenounceRole 0 1 [0], true)]%N
                  (good [Grant 1 0 0 [0]; RenounceRole 0 1 [1]]%N)) = 2%N.
Proof. vm_compute. reflexivity. Qed.
(* a failed call that nevertheless changed the membership *)
Example C06_monitor_rejects_failing_call_with_effect :
  mon_of (relabel [(Grant 1 0 2 [2], false)]%N (good [Grant 1 0 0 [0]]%N)) = 1%N.
Proof. vm_compute. reflexivity. Qed.
(* swap-and-pop gone wrong: after revoking the first of three members the enumeration keeps a gap *)
Definition break_enum (o : aobs) : aobs :=
  {| ob_admin := ob_admin o; ob_pending := ob_pending o;
     ob_roles := match ob_roles o with
                 | ro :: t => {| ro_admin_role := ro_admin_role ro; ro_count := ro_count ro;
                                 ro_members := [None; Some 2%N; Some 3%N; None]; ro_has := ro_has ro |} :: t
                 | [] => [] end;
     ob_existing := ob_existing o; ob_tokens := ob_tokens o; ob_approved := ob_approved o |}.
Example C06_monitor_rejects_gap :
  mon_of (match good [Grant 1 0 0 [0]; Grant 2 0 0 [0]; Grant 3 0 0 [0]; Revoke 1 0 0 [0]]%N with
          | [a; b; c; (cl, ok, o)] => [a; b; c; (cl, ok, break_enum o)]
          | l => l end) = 4%N.
Proof. vm_compute. reflexivity. Qed.
(* the guarded entry point runs without the admin's authorisation; runs after the admin was renounced *)
Example C06_monitor_rejects_guard_bypass :
  mon_of (relabel [(AdminRestricted [1], true)]%N (good [AdminRestricted [0]]%N)) = 1%N /\
  mon_of (relabel [(RenounceAdmin [0], true); (AdminRestricted [0], true)]%N
                  (good [RenounceAdmin [0]; Access.Advance 0]%N)) = 2%N /\
  mon_of (relabel [(Mint 1 0 2 [2], true)]%N (good [Access.Advance 0]%N)) = 1%N /\
  mon_of (relabel [(Grant 2 0 0 [0], true); (MultiRoleAuthAction 2 [], true)]%N
                  (good [Grant 2 0 0 [0]; MultiRoleAuthAction 2 [2]]%N)) = 2%N.
Proof. vm_compute. repeat split; reflexivity. Qed.
(* #[only_owner] without the owner's authorisation; after renounce *)
Example C06_monitor_rejects_owner_bypass :
  snd (fst (check (TOwn C07.hd0 [(RoleTransfer.Guarded [1%N], Ok 1, (Some 0%N, None))]))) = 1%N /\
  snd (fst (check (TOwn C07.hd0 [(RoleTransfer.Renounce [0%N], Ok 0, (None, None));
                                 (RoleTransfer.Guarded [0%N], Ok 1, (None, None))]))) = 2%N.
Proof. vm_compute. split; reflexivity. Qed.

(* calls used by the non-vacuity example of Properties/C06.v: a role-admin cycle, swap-and-pop,
   the admin renounced and a role admin still governing *)
Definition ex_cfg : cfg := ah_cfg ex_h.
Definition ex_calls : list Access.call :=
  [SetRoleAdmin 0 2 [0]; SetRoleAdmin 2 0 [0]; Grant 1 2 0 [0]; Grant 2 0 1 [1]; Grant 3 0 1 [1]; Grant 1 0 1 [1];
   Revoke 2 0 1 [1]; RenounceAdmin [0]; Grant 2 2 3 [3]; Grant 0 0 1 [1]; AdminRestricted [0]]%N.

(* allow-list: a non-manager's allow_user "succeeds"; an allow flag lapses over a long ledger gap *)
Definition ex_alh : alheader := {| alh := ex_h; alh_manager := 2%N; alh_macct := 1%N |}.
Definition al_good (cs : list alcall) : list alitem := al_model_items (alh_cfg ex_alh) ex_u (alh_init ex_alh) cs.
Definition al_mon_of (l : list alitem) : N := snd (fst (check (TAllow ex_alh (al_observe ex_u (alh_init ex_alh)) l))).
Example C06_monitor_rejects_allow_by_non_manager :
  al_mon_of (map (fun it => match it with (_, ok, o) => (AllowUser 3%N 0%N [0%N], ok, o) end) (al_good [AllowUser 3%N 1%N [1%N]])) = 1%N /\
  al_mon_of (map (fun it => match it with (_, ok, o) => (AllowUser 3%N 1%N [], ok, o) end) (al_good [AllowUser 3%N 1%N [1%N]])) = 1%N /\
  al_mon_of (al_good [AllowUser 3%N 1%N [1%N]; ACall (Access.Advance 4000000%N)]) = 0%N.
Proof. vm_compute. repeat split; reflexivity. Qed.
Example C06_monitor_rejects_lapsed_state :
  (* after one long Advance the implementation shows the allow flag gone / the role gone *)
  al_mon_of (match al_good [AllowUser 3%N 1%N [1%N]; ACall (Access.Advance 4000000%N)] with
             | [a; (cl, ok, (o, fl))] => [a; (cl, ok, (o, map (fun _ => false) fl))] | l => l end) = 2%N /\
  mon_of (match good [Grant 1 0 0 [0]; Access.Advance 4000000]%N with
          | [a; (cl, ok, o)] => [a; (cl, ok, Access.observe ex_u (ah_init ex_h))] | l => l end) = 2%N.
Proof. vm_compute. split; reflexivity. Qed.

(* ---- traces of the adversarial review ---- *)
Definition ob_after (cs : list Access.call) : aobs := Access.observe ex_u (Access.run (ah_cfg ex_h) (ah_init ex_h) cs).
Definition with_admin (o : aobs) (a : option addr) : aobs :=
  {| ob_admin := a; ob_pending := ob_pending o; ob_roles := ob_roles o; ob_existing := ob_existing o;
     ob_tokens := ob_tokens o; ob_approved := ob_approved o |}.
Definition with_tokens (o : aobs) (t : list (option addr)) : aobs :=
  {| ob_admin := ob_admin o; ob_pending := ob_pending o; ob_roles := ob_roles o; ob_existing := ob_existing o;
     ob_tokens := t; ob_approved := ob_approved o |}.
Definition with_pending (o : aobs) (p : option (addr * Z)) : aobs :=
  {| ob_admin := ob_admin o; ob_pending := p; ob_roles := ob_roles o; ob_existing := ob_existing o;
     ob_tokens := ob_tokens o; ob_approved := ob_approved o |}.
Definition mon_tr (t : trace) : N := snd (fst (check t)).

(* the contract is born with a back-door member / another admin / another manager than the constructor was told *)
Example C06_monitor_rejects_backdoor_at_birth :
  mon_tr (TAC ex_h (ob_after [Grant 3 0 0 [0]]%N)
            [(Mint 3 0 3 [3], true, ob_after [Grant 3 0 0 [0]; Mint 3 0 3 [3]])%N]) = 1%N /\
  mon_tr (TAC ex_h (with_admin obs0 (Some 3%N))
            [(AdminRestricted [3], true, with_admin obs0 (Some 3%N))%N]) = 1%N /\
  mon_tr (TAllow ex_alh (al_observe ex_u (al_run (alh_cfg ex_alh) (alh_init ex_alh) [ACall (Grant 3 2 0 [0])]%N))
            [(AllowUser 3 3 [3], true,
              al_observe ex_u (al_run (alh_cfg ex_alh) (alh_init ex_alh) [ACall (Grant 3 2 0 [0]); AllowUser 3 3 [3]]))%N]) = 1%N.
Proof. vm_compute. repeat split; reflexivity. Qed.
(* admin / owner take-over through accept: no offer, an offer to somebody else, a failed transfer that left an entry *)
Example C06_monitor_rejects_takeover :
  mon_tr (TAC ex_h obs0 [(AcceptAdmin [3], true, with_admin obs0 (Some 3%N))%N;
                         (AdminRestricted [3], true, with_admin obs0 (Some 3%N))%N]) = 1%N /\
  mon_tr (TAC ex_h obs0 [(TransferAdmin 1 200 [0], true, ob_after [TransferAdmin 1 200 [0]])%N;
                         (AcceptAdmin [3], true, with_admin obs0 (Some 3%N))%N]) = 2%N /\
  mon_tr (TAC ex_h obs0 [(TransferAdmin 3%N 200 [3%N], false, with_pending obs0 (Some (3%N, 200)));
                         (AcceptAdmin [3], true, with_admin obs0 (Some 3%N))%N]) = 2%N /\
  mon_tr (TOwn C07.hd0 [(RoleTransfer.Accept [3%N], Ok 0, (Some 3%N, None));
                        (RoleTransfer.Guarded [3%N], Ok 1, (Some 3%N, None))]) = 1%N /\
  (* the legitimate hand-over interleaved with role traffic passes *)
  mon_tr (TAC ex_h obs0 (good [TransferAdmin 1 200 [0]; Grant 2 0 0 [0]; Access.Advance 50; AcceptAdmin [1]; Grant 3 0 1 [1]; AdminRestricted [0]]%N)) = 0%N.
Proof. vm_compute. repeat split; reflexivity. Qed.
(* a successful mint / burn touching another token *)
Example C06_monitor_rejects_other_tokens_touched :
  mon_tr (TAC ex_h obs0 [(Grant 2 0 0 [0], true, ob_after [Grant 2 0 0 [0]])%N;
                         (Mint 1 0 2 [2], true, with_tokens (ob_after [Grant 2 0 0 [0]]%N) [Some 1%N; Some 3%N])%N]) = 2%N /\
  mon_tr (TAC ex_h obs0 (good [Grant 2 0 0 [0]; Grant 1 1 0 [0]; Mint 1 0 2 [2]; Mint 3 1 2 [2]]%N ++
            [(Burn 1 0 [1], true, with_tokens (ob_after [Grant 2 0 0 [0]; Grant 1 1 0 [0]; Mint 1 0 2 [2]; Mint 3 1 2 [2]]%N) [None; None])%N])) = 5%N.
Proof. vm_compute. split; reflexivity. Qed.
(* malformed traces: a call outside the universe, a universe with a duplicate, min_temp_entry_ttl <> 1 *)
Example C06_monitor_rejects_malformed :
  mon_tr (TAC ex_h obs0 [(Grant 9 0 0 [0], true, obs0)%N]) = 1%N /\
  mon_tr (TAC {| ah_min := 1; ah_max := 5000; ah_start := 100; ah_admin := Some 0%N; ah_max_roles := 256%N; ah_minter := 0%N; ah_burner := 1%N;
                 ah_u := {| u_accounts := [0; 1; 1]%N; u_roles := [0]%N; u_tokens := [] |} |}
              (Access.observe {| u_accounts := [0; 1; 1]%N; u_roles := [0]%N; u_tokens := [] |} (ah_init ex_h)) []) = 1%N /\
  mon_tr (TOwn C07.hd16 []) = 1%N.
Proof. vm_compute. repeat split; reflexivity. Qed.

(* ---- constructors with account lists and the no-auth entry points ---- *)
Definition ex_lh (pairs : list (addr * role)) : lheader := {| lh := ex_h; lh_ctor := pairs |}.
Definition l_obs0 (pairs : list (addr * role)) : aobs := Access.observe ex_u (lh_init (ex_lh pairs)).
Definition l_good (pairs : list (addr * role)) (cs : list lcall) : list litem :=
  l_model_items (ah_cfg ex_h) ex_u (lh_init (ex_lh pairs)) cs.
Definition ex_pairs : list (addr * role) := [(1, 2); (1, 2); (0, 2); (1, 0); (3, 2); (1, 2)]%N.
Definition ex_lcalls : list lcall :=
  [LCall (Revoke 1 2 0 [0]); GrantNoAuth 1 2; GrantNoAuth 1 2; RevokeNoAuth 0 2; RevokeNoAuth 0 2; EnsureAuthority 1 3; EnsureAuthority 1 0;
   SetRoleAdminNoAuth 1 2; EnsureAuthority 1 3; RemoveRoleAdminNoAuth 1; RemoveRoleAdminNoAuth 1; EnsureRole 2 3; EnsureRole 2 0;
   LCall (RenounceAdmin [0]); GrantNoAuth 2 1; LCall (Grant 2 0 1 [1])]%N.
(* the model's own trace passes: a list with a pair named three times, the admin among the members, later no-auth traffic *)
Example C06_monitor_accepts_duplicate_list :
  check (TLow (ex_lh ex_pairs) (l_obs0 ex_pairs) (l_good ex_pairs ex_lcalls)) = (0, 0, 0)%N /\
  ro_count (nth 2 (ob_roles (l_obs0 ex_pairs)) dummy_robs) = 3%N /\
  map snd (map fst (l_good ex_pairs ex_lcalls)) =
    [true; true; true; true; false; false; true; true; true; true; false; true; false; true; true; false].
Proof. vm_compute. repeat split; reflexivity. Qed.
(* a constructor list naming the same account twice, built WITHOUT the early return of grant_role_no_auth: one holder
   counted twice (count 2, has_role index 1, two enumeration slots) - rejected at birth; so are a member the
   constructor was not told and a listed member that is missing *)
Example C06_monitor_rejects_bad_birth :
  mon_tr (TLow (ex_lh [(1, 2); (1, 2)]%N) (Access.observe ex_u (bad_ctor (ah_cfg ex_h) 100 (Some 0%N) [(1, 2); (1, 2)]%N)) []) = 1%N /\
  mon_tr (TLow (ex_lh [(1, 2); (1, 2)]%N) (l_obs0 [(1, 2); (1, 2)]%N) []) = 0%N /\
  mon_tr (TLow (ex_lh [(1, 2)]%N) (l_obs0 [(1, 2); (3, 2)]%N) []) = 1%N /\
  mon_tr (TLow (ex_lh [(1, 2); (3, 2)]%N) (l_obs0 [(1, 2)]%N) []) = 1%N /\
  (* a pair outside the universe / more role names than MAX_ROLES: malformed *)
  mon_tr (TLow (ex_lh [(9, 2)]%N) (l_obs0 [(9, 2)]%N) []) = 1%N.
Proof. vm_compute. repeat split; reflexivity. Qed.
(* a later no-auth grant to a holder that appends the account once more; a no-auth revoke of a non-member that
   "succeeds"; the authority guard passing for the holder of some other role although the role has no admin role *)
Example C06_monitor_rejects_low_level_misbehaviour :
  mon_tr (TLow (ex_lh [(1, 2)]%N) (l_obs0 [(1, 2)]%N)
            [(GrantNoAuth 1 2, true, Access.observe ex_u (bad_ctor (ah_cfg ex_h) 100 (Some 0%N) [(1, 2); (1, 2)]))%N]) = 1%N /\
  mon_tr (TLow (ex_lh [(1, 2)]%N) (l_obs0 [(1, 2)]%N) [(RevokeNoAuth 3 2, true, l_obs0 [(1, 2)])%N]) = 1%N /\
  mon_tr (TLow (ex_lh [(1, 2)]%N) (l_obs0 [(1, 2)]%N) [(RevokeNoAuth 1 2, false, l_obs0 [(1, 2)])%N]) = 1%N /\
  mon_tr (TLow (ex_lh [(1, 2)]%N) (l_obs0 [(1, 2)]%N) [(EnsureAuthority 0 1, true, l_obs0 [(1, 2)])%N]) = 1%N /\
  mon_tr (TLow (ex_lh [(1, 2)]%N) (l_obs0 [(1, 2)]%N) [(LCall (Grant 3 0 1 [1]), true, l_obs0 [(1, 2); (3, 0)])%N]) = 1%N /\
  mon_tr (TLow (ex_lh [(1, 2)]%N) (l_obs0 [(1, 2)]%N) [(EnsureAuthority 0 0, true, l_obs0 [(1, 2)])%N]) = 0%N.
Proof. vm_compute. repeat split; reflexivity. Qed.
(* remove_role_accounts_count_no_auth "succeeds" while the role has a member; on empty roles either answer is accepted *)
Example C06_monitor_rejects_count_removed_with_members :
  mon_tr (TLow (ex_lh [(1, 2)]%N) (l_obs0 [(1, 2)]%N) [(RemoveCountNoAuth 2 true, true, l_obs0 [(1, 2)])%N]) = 1%N /\
  check (TLow (ex_lh [(1, 2)]%N) (l_obs0 [(1, 2)]%N)
           (l_good [(1, 2)]%N [RemoveCountNoAuth 2 true; RemoveCountNoAuth 0 true; RemoveCountNoAuth 0 false]%N)) = (0, 0, 0)%N /\
  map snd (map fst (l_good [(1, 2)]%N [RemoveCountNoAuth 2 true; RemoveCountNoAuth 0 true; RemoveCountNoAuth 0 false]%N)) = [false; true; false].
Proof. vm_compute. repeat split; reflexivity. Qed.
