(* C01: trace checker (model vs implementation, [diff] of Model/FungibleObs.v) and the monitor:
   the property "supply is conserved and reconstructible from events" as a boolean over the
   implementation's observations only (calls, outcomes, events, getter values; no model state). *)
From SC Require Import Lib.Prelude Lib.Int Lib.Host Model.Math Model.Fungible Model.FungibleObs.

(* the balance movement a successful call must have caused, read off the call, its returned
   value and the previous observation *)
Definition expected_move (prev : obs) (cl : call) (v : Z) : move :=
  match cl with
  | Mint to amt => (None, Some to, amt)
  | Transfer _ f t _ amt | TransferFrom _ _ f t amt | RForcedTransfer f t amt => (Some f, Some t, amt)
  | Burn _ f amt | BurnFrom _ _ f amt | RBurn f amt => (Some f, None, amt)
  | VDeposit _ _ _ r _ _ => (None, Some r, v)            (* returns the shares minted *)
  | VMint _ _ sh r _ _ => (None, Some r, sh)
  | VWithdraw _ _ _ o _ => (Some o, None, v)           (* returns the shares burned *)
  | VRedeem _ sh _ o _ => (Some o, None, sh)
  | RRecover old new => if v =? 0 then no_move else (Some old, Some new, bal_of prev old)
  | _ => no_move
  end.

(* a transfer never changes the supply, a mint / burn changes it by exactly the amount; every
   balance changes by exactly the movement (also for from = to and amount 0) *)
Definition moved_ok (univ : list addr) (prev cur : obs) (m : move) : bool :=
  let '(f, t, amt) := m in
  (0 <=? amt)
  && forallb (fun a => bal_of cur a =? ocredit (ocredit (bal_of prev) f (- amt)) t amt a) univ
  && (o_supply cur =? o_supply prev + (if is_none f then amt else 0) - (if is_none t then amt else 0)).

(* a failing call leaves every balance, allowance and the supply exactly as before *)
Definition same_token (univ : list addr) (prev cur : obs) : bool :=
  (o_supply cur =? o_supply prev)
  && forallb (fun a => bal_of cur a =? bal_of prev a) univ
  && forallb (fun p => z3_eqb (allow_of cur p) (allow_of prev p)) (pairs univ).

(* replay of the emitted events, over association lists *)
Definition acredit (l : list (addr * Z)) (o : option addr) (v : Z) : list (addr * Z) :=
  match o with Some a => alist_set a (getd l a + v) l | None => l end.
Definition led_apply (ld : list (addr * Z) * Z) (e : event) : list (addr * Z) * Z :=
  let '(f, t, amt) := ev_move e in
  (acredit (acredit (fst ld) f (- amt)) t amt,
   snd ld + (if is_none f then amt else 0) - (if is_none t then amt else 0)).

Record m01 := { m_prev : obs; m_led : list (addr * Z); m_sup : Z }.

Definition m01_init (genesis : obs) : m01 := {| m_prev := genesis; m_led := []; m_sup := 0 |}.

(* an event must name observed accounts only and carry a non-negative amount *)
Definition ev_ok (univ : list addr) (e : event) : bool :=
  let '(f, t, amt) := ev_move e in
  (0 <=? amt)
  && match f with Some a => mem a univ | None => true end
  && match t with Some a => mem a univ | None => true end.

Definition is_nil {A} (l : list A) : bool := match l with [] => true | _ => false end.

Definition c01_item (univ : list addr) (m : m01) (it : item) : bool * m01 :=
  let '(cl, out, evs, cur) := it in
  let prev := m_prev m in
  let ld := fold_left led_apply evs (m_led m, m_sup m) in
  let ok :=
    (* shape of the observation, clock, getters' answers, failing / getter calls and time passing
       leave everything unchanged (Model/FungibleObs.v) *)
    common_ok univ prev it
    && forallb (ev_ok univ) evs
    (* total_supply = sum of all balances; no balance negative *)
    && (sum_over (bal_of cur) univ =? o_supply cur)
    && forallb (fun a => 0 <=? bal_of cur a) univ
    && match out with
       | Fail => same_token univ prev cur && is_nil evs
       | Ok v => moved_ok univ prev cur (expected_move prev cl v)
       end
    (* replaying every event emitted since genesis reproduces every balance and the supply *)
    && forallb (fun a => getd (fst ld) a =? bal_of cur a) univ
    && (snd ld =? o_supply cur) in
  (ok, {| m_prev := cur; m_led := fst ld; m_sup := snd ld |}).

Fixpoint c01_from (univ : list addr) (m : m01) (items : list item) (i : N) : N :=
  match items with
  | [] => 0%N
  | it :: r =>
      let '(ok, m') := c01_item univ m it in
      if ok then c01_from univ m' r (N.succ i) else N.succ i
  end.

(* 1-based index of the first call at which the property is false on the trace; 0 = none *)
Definition c01_monitor (t : trace) : N :=
  if genesis_ok (t_univ t) (t_start t) (t_init t)
  then c01_from (t_univ t) (m01_init (t_init t)) (t_items t) 0%N
  else 1%N.

(* triage helper (not used by the driver): at the first failing call, which clause is false
   1 = supply <> sum of balances, 2 = negative balance, 3 = failing call left a trace,
   4 = wrong delta for a successful call (incl. any change across an Advance), 5 = event replay does not
   reproduce the balances, 7 = shared clause (observation shape / unobserved address / clock / failing or getter
   call or Advance changed something / getter answer differs from the observation), 8 = event naming an
   unobserved account or carrying a negative amount, 9 = malformed header or genesis observation *)
Definition c01_item_why (univ : list addr) (m : m01) (it : item) : N :=
  let '(cl, out, evs, cur) := it in
  let prev := m_prev m in
  let ld := fold_left led_apply evs (m_led m, m_sup m) in
  if negb (common_ok univ prev it) then 7%N
  else if negb (forallb (ev_ok univ) evs) then 8%N
  else if negb (sum_over (bal_of cur) univ =? o_supply cur) then 1%N
  else if negb (forallb (fun a => 0 <=? bal_of cur a) univ) then 2%N
  else if negb (match out with Fail => same_token univ prev cur && is_nil evs | Ok _ => true end) then 3%N
  else if negb (match out with Fail => true | Ok v => moved_ok univ prev cur (expected_move prev cl v) end) then 4%N
  else if negb (forallb (fun a => getd (fst ld) a =? bal_of cur a) univ && (snd ld =? o_supply cur)) then 5%N
  else 0%N.
Fixpoint c01_why_from (univ : list addr) (m : m01) (items : list item) (i : N) : N * N :=
  match items with
  | [] => (0%N, 0%N)
  | it :: r =>
      let '(ok, m') := c01_item univ m it in
      if ok then c01_why_from univ m' r (N.succ i) else (N.succ i, c01_item_why univ m it)
  end.
Definition c01_why (t : trace) : N * N :=
  if genesis_ok (t_univ t) (t_start t) (t_init t)
  then c01_why_from (t_univ t) (m01_init (t_init t)) (t_items t) 0%N
  else (1%N, 9%N).

Definition check (t : trace) : verdict := (diff t, c01_monitor t, 0%N).
Definition check_all (ts : list trace) : list verdict := map check ts.

(* well-formedness of generated call lists: every address named by a call that can hold a
   balance belongs to the (duplicate-free) universe that is observed *)
Definition call_addrs (cl : call) : list addr :=
  match cl with
  | Mint to _ => [to]
  | Transfer _ f t _ _ | TransferFrom _ _ f t _ | RForcedTransfer f t _ => [f; t]
  | Burn _ f _ | BurnFrom _ _ f _ | RBurn f _ => [f]
  | VDeposit _ _ _ r _ _ | VMint _ _ _ r _ _ => [r]
  | VWithdraw _ _ _ o _ | VRedeem _ _ _ o _ => [o]
  | RRecover old new => [old; new]
  | _ => []
  end.
Definition wf_calls (univ : list addr) (cs : list call) : bool := wf_calls_all univ cs.
