(* C11: trace checker (model vs implementation) and monitor (property vs implementation).
   The monitor replays the observed calls and outcomes into plain tables (Run/NftCommon.v
   [ghost]): who owns each token, which approval was given for it since its last move and
   until when, which operator each owner appointed and until when.  A call that moved a
   token or set an approval must have been authorised by somebody those tables entitle at
   the current ledger; the approvals and operators the getters report must be exactly the ones
   the tables hold live at the current ledger. *)
From SC Require Import Lib.Prelude Lib.Int Lib.Host Model.Nft Run.NftCommon.
Local Open Scope N_scope.

(* x may move token id, which `from` is claimed to own: from is the owner, x authorised the
   call, and x is the owner, the live approved account or a live operator of the owner *)
Definition may_move (g : ghost) (auths : list addr) (x from : addr) (id : N) : bool :=
  has_auth auths x
  && oaddr_eqb (rget (g_own g) id) (Some from)
  && ((x =? from) || oaddr_eqb (live_appr g id) (Some x) || live_oper g from x).

(* judged against the reference BEFORE the call (mints: [mint_scope], Run/NftCommon.v); calls other than
   sequential / batch mints return nothing; the ledger cannot refuse to move *)
Definition c11_legal (g : ghost) (cl : call) (o : outcome) : bool :=
  match o with
  | Fail => match cl with Advance _ => false | _ => true end
  | Ok r =>
      match cl with
      | MintSeq _ | BatchMint _ _ => true
      | Transfer auths from _ id | Burn auths from id => is_none r && may_move g auths from from id
      | TransferFrom auths sp from _ id | BurnFrom auths sp from id => is_none r && may_move g auths sp from id
      | Approve auths approver _ id _ =>
          is_none r && has_auth auths approver
          && match rget (g_own g) id with
             | Some ow => (approver =? ow) || live_oper g ow approver
             | None => false
             end
      | ApproveForAll auths ow _ _ => is_none r && has_auth auths ow
      | _ => is_none r
      end
  end.

(* Well-formedness of an observation, CHECKED: owner_of and get_approved are asked for the same strictly
   increasing ids, which contain every id 0 .. next_id+2, every individually assigned id and the ids the call
   names; is_approved_for_all is asked for every pair the reference holds an entry for and for the pair the
   call names.  [g] = the reference AFTER the call. *)
Definition c11_shape_ok (g : ghost) (cl : call) (o : outcome) (ob : obs) : bool :=
  let ids := map fst (o_owner ob) in
  let pairs := map fst (o_oper ob) in
  strictly_incr ids
  && list_eqb N.eqb (map fst (o_appr ob)) ids
  && covers_from ids 0 (N.to_nat (g_next g + 3))
  && forallb (fun i => memN i ids) (point_ids (g_own g))
  && forallb (fun i => memN i ids) (call_ids cl o)
  && forallb (fun k => existsb (peqb k) pairs) (map fst (g_oper g))
  && match cl with ApproveForAll _ ow op _ => existsb (peqb (ow, op)) pairs | _ => true end.

(* judged against the reference AFTER the call: the getters report exactly the approvals / operators
   the reference holds live.  "Only those": cleared by every move, not inherited from a previous
   owner, gone after live_until and after a revoke.  "All of those": an approval or operator that was
   given and is neither expired, revoked nor cleared by a move is still there, however many ledgers
   have passed (approvals are temporary only up to their live_until_ledger). *)
Definition c11_obs_ok (g : ghost) (ob : obs) : bool :=
  (* "its current owner": the owner the authority judgments refer to is the one owner_of reports -
     ownership changes only by the successful moves and mints the reference has replayed *)
  forallb (fun p : N * option addr => oaddr_eqb (snd p) (rget (g_own g) (fst p))) (o_owner ob)
  && forallb (fun p : N * option addr => oaddr_eqb (snd p) (live_appr g (fst p))) (o_appr ob)
  && forallb (fun p : (addr * addr) * bool => Bool.eqb (snd p) (live_oper g (fst (fst p)) (snd (fst p)))) (o_oper ob).

Definition c11_step_ok (g : ghost) (x : call * outcome * obs) : bool :=
  let '(cl, o, ob) := x in
  let g' := ghost_step g cl o in
  c11_legal g cl o && c11_shape_ok g' cl o ob && c11_obs_ok g' ob.

(* [strict] = false: a trace that leaves the property's quantifier (a mint onto a live id: OutOfScope) is not
   judged from that call on; [strict] = true: it is flagged there.  Illegal mints are always flagged. *)
Fixpoint mon_from (strict : bool) (fl : flavour) (g : ghost) (l : list (call * outcome * obs)) (i : N) : N :=
  match l with
  | [] => 0
  | x :: r =>
      match mint_scope fl g (fst (fst x)) (snd (fst x)) with
      | Illegal => N.succ i
      | OutOfScope => if strict then N.succ i else 0
      | InScope =>
          if c11_step_ok g x
          then mon_from strict fl (ghost_step g (fst (fst x)) (snd (fst x))) r (N.succ i)
          else N.succ i
      end
  end.
Definition monitor (t : trace) : N := mon_from false (t_fl t) (ghost0 (t_now0 t)) (t_steps t) 0.
Definition monitor_strict (t : trace) : N := mon_from true (t_fl t) (ghost0 (t_now0 t)) (t_steps t) 0.

Definition check (t : trace) : verdict := (diff t, monitor t, 0).
Definition check_all (ts : list trace) : list verdict := map check ts.
