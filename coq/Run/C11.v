(* C11: trace checker (model vs implementation) and monitor (property vs implementation).
   The monitor replays the observed calls and outcomes into plain tables (Run/NftCommon.v
   [ghost]): who owns each token, which approval was given for it since its last move and
   until when, which operator each owner appointed and until when.  A call that moved a
   token or set an approval must have been authorised by somebody those tables entitle at
   the current ledger; the approvals and operators the getters report must be exactly the ones
   the tables hold live at the current ledger. *)
From SC Require Import Lib.Prelude Lib.Int Lib.Host Model.Nft Run.NftCommon.
Local Open Scope N_scope.

(* x may move token id, which `from` is claimed to own: from is the owner, x authorised the
   call, and x is the owner, the live approved account or a live operator of the owner *)
Definition may_move (g : ghost) (auths : list addr) (x from : addr) (id : N) : bool :=
  has_auth auths x
  && oaddr_eqb (rget (g_own g) id) (Some from)
  && ((x =? from) || oaddr_eqb (live_appr g id) (Some x) || live_oper g from x).

(* judged against the reference BEFORE the call *)
Definition c11_legal (g : ghost) (cl : call) (o : outcome) : bool :=
  match o with
  | Fail => true
  | Ok _ =>
      match cl with
      | Transfer auths from _ id | Burn auths from id => may_move g auths from from id
      | TransferFrom auths sp from _ id | BurnFrom auths sp from id => may_move g auths sp from id
      | Approve auths approver _ id _ =>
          has_auth auths approver
          && match rget (g_own g) id with
             | Some ow => (approver =? ow) || live_oper g ow approver
             | None => false
             end
      | ApproveForAll auths ow _ _ => has_auth auths ow
      | _ => true
      end
  end.

(* judged against the reference AFTER the call: the getters report exactly the approvals / operators
   the reference holds live.  "Only those": cleared by every move, not inherited from a previous
   owner, gone after live_until and after a revoke.  "All of those": an approval or operator that was
   given and is neither expired, revoked nor cleared by a move is still there, however many ledgers
   have passed (approvals are temporary only up to their live_until_ledger). *)
Definition c11_obs_ok (g : ghost) (ob : obs) : bool :=
  (* "its current owner": the owner the authority judgments refer to is the one owner_of reports -
     ownership changes only by the successful moves and mints the reference has replayed *)
  forallb (fun p : N * option addr => oaddr_eqb (snd p) (rget (g_own g) (fst p))) (o_owner ob)
  && forallb (fun p : N * option addr => oaddr_eqb (snd p) (live_appr g (fst p))) (o_appr ob)
  && forallb (fun p : (addr * addr) * bool => Bool.eqb (snd p) (live_oper g (fst (fst p)) (snd (fst p)))) (o_oper ob).

Definition c11_step_ok (g : ghost) (x : call * outcome * obs) : bool :=
  let '(cl, o, ob) := x in
  c11_legal g cl o && c11_obs_ok (ghost_step g cl o) ob.

Fixpoint mon_from (g : ghost) (l : list (call * outcome * obs)) (i : N) : N :=
  match l with
  | [] => 0
  | x :: r =>
      if c11_step_ok g x
      then mon_from (ghost_step g (fst (fst x)) (snd (fst x))) r (N.succ i)
      else N.succ i
  end.
Definition monitor (t : trace) : N := mon_from (ghost0 (t_now0 t)) (t_steps t) 0.

Definition check (t : trace) : verdict := (diff t, monitor t, 0).
Definition check_all (ts : list trace) : list verdict := map check ts.
