(* C20: trace checker (model vs implementation) and monitor (property vs implementation)
   for the eight registries.  One trace = one registry instance driven from its empty state. *)
From SC Require Import Lib.Prelude Model.SwapPop Model.RegCommon Model.RegBinder Model.RegDocs
  Model.RegCTI Model.RegKeys Model.RegIRS Model.RegSmall Model.RegSA.

Inductive trace :=
| TrBinder (bs max : N) (pre : list addr) (t : list (ev (tcall tb_call) unit tb_query tb_ans))
| TrDocs (bs max maxuri : N) (pre : list dentry) (t : list (ev (tcall dm_call) unit dm_query dm_ans))
| TrCTI (maxt maxi : N) (t : list (ev (tcall cti_call) unit cti_query cti_ans))
| TrKeys (maxk maxr : N) (t : list (ev (tcall ck_call) unit ck_query ck_ans))
| TrIRS (maxc maxm maxl : N) (t : list (ev (tcall irs_call) unit irs_query irs_ans))
| TrCM (max : N) (t : list (ev (tcall cm_call) unit cm_query cm_ans))
| TrIC (t : list (ev (tcall ic_call) (option cid) ic_query ic_ans))
| TrSA (maxr maxs maxp now : N) (t : list (ev (tcall sa_call) (option rule) sa_query sa_ans)).

Definition tb_cfg_of (bs max : N) : tb_cfg := {| tb_bs := N.to_nat bs; tb_max := N.to_nat max |}.
Definition dm_cfg_of (bs max maxuri : N) : dm_cfg :=
  {| dm_bs := N.to_nat bs; dm_max := N.to_nat max; dm_max_uri := maxuri |}.
Definition cti_cfg_of (maxt maxi : N) : cti_cfg :=
  {| cti_max_topics := N.to_nat maxt; cti_max_issuers := N.to_nat maxi |}.
Definition ck_cfg_of (maxk maxr : N) : ck_cfg := {| ck_max_keys := N.to_nat maxk; ck_max_regs := N.to_nat maxr |}.
Definition irs_cfg_of (maxc maxm maxl : N) : irs_cfg :=
  {| irs_max_countries := N.to_nat maxc; irs_max_meta := maxm; irs_max_meta_len := maxl |}.
Definition cm_cfg_of (max : N) : cm_cfg := {| cm_max := N.to_nat max |}.
Definition sa_cfg_of (maxr maxs maxp now : N) : sa_cfg :=
  {| sa_max_rules := N.to_nat maxr; sa_max_signers := N.to_nat maxs; sa_max_policies := N.to_nat maxp; sa_now := now |}.

Definition ocid_eqb : option cid -> option cid -> bool := option_eqb cid_eqb.
Definition orule_eqb : option rule -> option rule -> bool := option_eqb rule_eqb.

(* model steps lifted to traces with [Advance] steps; only the smart-account model reads the
   ledger sequence number (valid_until checks) *)
Definition tb_lstep (c : tb_cfg) := lstep (fun _ : N => tb_step c) tt.
Definition dm_lstep (c : dm_cfg) := lstep (fun _ : N => dm_step c) tt.
Definition cti_lstep (c : cti_cfg) := lstep (fun _ : N => cti_step c) tt.
Definition ck_lstep (c : ck_cfg) := lstep (fun _ : N => ck_step c) tt.
Definition irs_lstep (c : irs_cfg) := lstep (fun _ : N => irs_step c) tt.
Definition cm_lstep (c : cm_cfg) := lstep (fun _ : N => cm_step c) tt.
Definition ic_lstep := lstep (fun _ : N => ic_step) (@None cid).
Definition sa_lstep (c : sa_cfg) := lstep (fun now : N => sa_step (sa_with_now c now)) (@None rule).

(* model vs implementation: index of the first differing event *)
Definition diff (t : trace) : N :=
  match t with
  | TrBinder bs max pre evs =>
      let c := tb_cfg_of bs max in
      if tb_pre_ok c pre then replay (tb_lstep c) (lans (tb_answer c)) unit_eqb tb_ans_eqb (tb_start c pre, 0%N) evs 0%N
      else 1%N
  | TrDocs bs max mu pre evs =>
      let c := dm_cfg_of bs max mu in
      if dm_pre_ok c pre then replay (dm_lstep c) (lans (dm_answer c)) unit_eqb dm_ans_eqb (dm_start c pre, 0%N) evs 0%N
      else 1%N
  | TrCTI mt mi evs =>
      let c := cti_cfg_of mt mi in replay (cti_lstep c) (lans cti_answer) unit_eqb cti_ans_eqb (cti_init, 0%N) evs 0%N
  | TrKeys mk mr evs =>
      let c := ck_cfg_of mk mr in replay (ck_lstep c) (lans ck_answer) unit_eqb ck_ans_eqb (ck_init, 0%N) evs 0%N
  | TrIRS mc mm ml evs =>
      let c := irs_cfg_of mc mm ml in replay (irs_lstep c) (lans irs_answer) unit_eqb irs_ans_eqb (irs_init, 0%N) evs 0%N
  | TrCM mx evs =>
      let c := cm_cfg_of mx in replay (cm_lstep c) (lans cm_answer) unit_eqb cm_ans_eqb (cm_init, 0%N) evs 0%N
  | TrIC evs => replay ic_lstep (lans ic_answer) ocid_eqb ic_ans_eqb (ic_init, 0%N) evs 0%N
  | TrSA mr ms mp now evs =>
      let c := sa_cfg_of mr ms mp now in replay (sa_lstep c) (lans sa_answer) orule_eqb sa_ans_eqb (sa_init, now) evs 0%N
  end.

(* ========================================================================= *)
(* The monitors: the property as a boolean over the implementation's          *)
(* observations.  Each keeps only the plain set / map implied by the calls    *)
(* made so far (no buckets, no index tables, no per-direction copies) and      *)
(* checks (1) that every call is accepted or refused as that set / map and    *)
(* the documented limits dictate, (2) that every getter answer is the answer   *)
(* of that set / map, compared as a SET (any order, no duplicates), and        *)
(* (3) that index-based access is injective (enumerates every element once).   *)
(* ========================================================================= *)
Local Open Scope nat_scope.

(* the relation {(index, element)} observed in one event is functional and injective *)
Definition injb {B} (beq : B -> B -> bool) (ps : list (N * B)) : bool :=
  forallb (fun p => forallb (fun q => Bool.eqb (N.eqb (fst p) (fst q)) (beq (snd p) (snd q))) ps) ps.
(* multiset equality *)
Definition count_occb {B} (beq : B -> B -> bool) (x : B) (l : list B) : nat := length (filter (beq x) l).
Definition permb {B} (beq : B -> B -> bool) (l m : list B) : bool :=
  (length l =? length m) && forallb (fun x => count_occb beq x l =? count_occb beq x m) l.

(* ---------------- 1. token binder: a set of addresses ---------------- *)
Definition tb_spec (c : tb_cfg) (a : list addr) (k : tb_call) : res (list addr) :=
  match k with
  | TbBind t =>
      if memb N.eqb t a || (tb_max c <=? length a) then Fail else Ok (t :: a)
  | TbBindMany ts =>
      if (2 * tb_bs c <? length ts) || (tb_max c <? length a + length ts)
         || negb (nodupb N.eqb ts) || existsb (fun t => memb N.eqb t a) ts
      then Fail else Ok (ts ++ a)
  | TbUnbind t => if memb N.eqb t a then Ok (rem N.eqb t a) else Fail
  end.
Definition tb_chk (a : list addr) (qa : tb_query * tb_ans) : bool :=
  match qa with
  | (TqLinked, TaList l) => enumb N.eqb l a
  | (TqCount, TaNat n) => N.eqb n (N.of_nat (length a))
  | (TqIsBound t, TaBool b) => Bool.eqb b (memb N.eqb t a)
  | (TqIndexOf t, TaIdx (Ok i)) => memb N.eqb t a && (i <? N.of_nat (length a))%N
  | (TqIndexOf t, TaIdx Fail) => negb (memb N.eqb t a)
  | (TqByIndex i, TaAddr (Ok t)) => memb N.eqb t a && (i <? N.of_nat (length a))%N
  | (TqByIndex i, TaAddr Fail) => (N.of_nat (length a) <=? i)%N
  | _ => false
  end.
Definition tb_pairs (qas : list (tb_query * tb_ans)) : list (N * addr) :=
  flat_map (fun qa => match qa with
                      | (TqIndexOf t, TaIdx (Ok i)) => [(i, t)]
                      | (TqByIndex i, TaAddr (Ok t)) => [(i, t)]
                      | _ => []
                      end) qas.
Definition tb_cross (a : list addr) (qas : list (tb_query * tb_ans)) : bool := injb N.eqb (tb_pairs qas).
Definition tb_mon (c : tb_cfg) := lmon (fun _ : N => spec_unit (tb_spec c)) tb_chk tb_cross.

(* ---------------- 2. documents: a map name -> document ---------------- *)
Definition dm_spec (c : dm_cfg) (a : list dentry) (k : dm_call) : res (list dentry) :=
  match k with
  | DmSet nm d =>
      if (dm_max_uri c <? d_ulen d)%N then Fail
      else if ahas N.eqb nm a then Ok (aset N.eqb nm d a)
      else if dm_max c <=? length a then Fail
      else Ok (aset N.eqb nm d a)
  | DmRemove nm => if ahas N.eqb nm a then Ok (adel N.eqb nm a) else Fail
  end.
Definition dm_holds (a : list dentry) (e : dentry) : bool :=
  option_eqb doc_eqb (aget N.eqb (fst e) a) (Some (snd e)).
Definition dm_chk (a : list dentry) (qa : dm_query * dm_ans) : bool :=
  match qa with
  | (DqCount, DaNat n) => N.eqb n (N.of_nat (length a))
  | (DqGet nm, DaDoc r) => res_eqb doc_eqb r (of_option (aget N.eqb nm a))
  | (DqByIndex i, DaEntry (Ok e)) => dm_holds a e && (i <? N.of_nat (length a))%N
  | (DqByIndex i, DaEntry Fail) => (N.of_nat (length a) <=? i)%N
  | (DqBucket k, DaList l) => forallb (dm_holds a) l && nodupb N.eqb (map fst l)
  | _ => false
  end.
Definition dm_pairs (qas : list (dm_query * dm_ans)) : list (N * dname) :=
  flat_map (fun qa => match qa with (DqByIndex i, DaEntry (Ok e)) => [(i, fst e)] | _ => [] end) qas.
Definition dm_bucket_answers (qas : list (dm_query * dm_ans)) : list (N * list dentry) :=
  flat_map (fun qa => match qa with (DqBucket k, DaList l) => [(k, l)] | _ => [] end) qas.
(* a bucket answer read as index-based access: entry j of bucket k sits at index k * BUCKET_SIZE + j *)
Definition dm_bucket_pairs (c : dm_cfg) (kl : N * list dentry) : list (N * dname) :=
  combine (map (fun j => N.of_nat (N.to_nat (fst kl) * dm_bs c + j)) (seq 0 (length (snd kl)))) (map fst (snd kl)).
(* all index-based observations of one event (get_document_by_index and every bucket read, in any
   order, repeated or not) form ONE injective relation index -> name: no document at two places, no
   two documents at one place, repeated reads agree, buckets agree with by-index access; and every
   bucket read has exactly the entries of its page: min(BUCKET_SIZE, size - k * BUCKET_SIZE).
   (Hence reading the pages 0 .. ceil(size / BUCKET_SIZE) - 1 enumerates every document exactly once.) *)
Definition dm_cross (c : dm_cfg) (a : list dentry) (qas : list (dm_query * dm_ans)) : bool :=
  injb N.eqb (dm_pairs qas ++ flat_map (dm_bucket_pairs c) (dm_bucket_answers qas))
  && forallb (fun kl => length (snd kl) =? Nat.min (dm_bs c) (length a - N.to_nat (fst kl) * dm_bs c))
             (dm_bucket_answers qas).
Definition dm_mon (c : dm_cfg) := lmon (fun _ : N => spec_unit (dm_spec c)) dm_chk (dm_cross c).

(* ---------------- 3. claim topics and issuers: two sets and one relation ---------------- *)
Record cti_ref := { rT : list topic;                   (* the claim topics *)
                    rI : list addr;                    (* the trusted issuers *)
                    rR : list (addr * list topic) }.   (* issuer -> its topics *)
Definition cti_ref0 : cti_ref := {| rT := []; rI := []; rR := [] |}.
Definition rtopics (a : cti_ref) (i : addr) : list topic :=
  match aget N.eqb i (rR a) with Some l => l | None => [] end.
Definition rissuers (a : cti_ref) (t : topic) : list addr :=
  filter (fun i => memb N.eqb t (rtopics a i)) (rI a).
Definition cti_valid (c : cti_cfg) (a : cti_ref) (ts : list topic) : bool :=
  negb (match ts with [] => true | _ => false end) && (length ts <=? cti_max_topics c)
  && nodupb N.eqb ts && subsetb N.eqb ts (rT a).
Definition cti_spec (c : cti_cfg) (a : cti_ref) (k : cti_call) : res cti_ref :=
  match k with
  | CtAddTopic t =>
      if (cti_max_topics c <=? length (rT a)) || memb N.eqb t (rT a) then Fail
      else Ok {| rT := rT a ++ [t]; rI := rI a; rR := rR a |}
  | CtRemoveTopic t =>
      if memb N.eqb t (rT a)
      then Ok {| rT := rem N.eqb t (rT a); rI := rI a;
                 rR := map (fun p => (fst p, rem N.eqb t (snd p))) (rR a) |}
      else Fail
  | CtAddIssuer i ts =>
      if cti_valid c a ts && negb (cti_max_issuers c <=? length (rI a)) && negb (memb N.eqb i (rI a))
      then Ok {| rT := rT a; rI := rI a ++ [i]; rR := aset N.eqb i ts (rR a) |}
      else Fail
  | CtRemoveIssuer i =>
      if memb N.eqb i (rI a)
      then Ok {| rT := rT a; rI := rem N.eqb i (rI a); rR := adel N.eqb i (rR a) |}
      else Fail
  | CtUpdateIssuer i ts =>
      if cti_valid c a ts && memb N.eqb i (rI a)
      then Ok {| rT := rT a; rI := rI a; rR := aset N.eqb i ts (rR a) |}
      else Fail
  end.
Definition cti_chk (a : cti_ref) (qa : cti_query * cti_ans) : bool :=
  match qa with
  | (CqTopics, CaList l) => enumb N.eqb l (rT a)
  | (CqIssuers, CaList l) => enumb N.eqb l (rI a)
  | (CqTopicIssuers t, CaRList r) =>
      match r with
      | Ok l => memb N.eqb t (rT a) && enumb N.eqb l (rissuers a t)
      | Fail => negb (memb N.eqb t (rT a))
      end
  | (CqIssuerTopics i, CaRList r) =>
      match r with
      | Ok l => memb N.eqb i (rI a) && enumb N.eqb l (rtopics a i)
      | Fail => negb (memb N.eqb i (rI a))
      end
  | (CqIsTrusted i, CaBool b) => Bool.eqb b (memb N.eqb i (rI a))
  | (CqHasTopic i t, CaRBool r) =>
      match r with
      | Ok b => memb N.eqb i (rI a) && Bool.eqb b (memb N.eqb t (rtopics a i))
      | Fail => negb (memb N.eqb i (rI a))
      end
  | (CqAll, CaMap (Ok m)) =>
      enumb N.eqb (map fst m) (rT a) && forallb (fun p => enumb N.eqb (snd p) (rissuers a (fst p))) m
  | _ => false
  end.
Definition cti_mon (c : cti_cfg) :=
  lmon (fun _ : N => spec_unit (cti_spec c)) cti_chk (fun _ _ => true).

(* ---------------- 4. claim-issuer keys: a set of (key, topic, registry) triples ---------------- *)
Notation ktriple := (skey * N * addr)%type (only parsing).
Definition ktriple_eqb : ktriple -> ktriple -> bool := pair_eqb (pair_eqb skey_eqb N.eqb) N.eqb.
Definition kt_key (x : ktriple) : skey := fst (fst x).
Definition kt_topic (x : ktriple) : N := snd (fst x).
Definition kt_reg (x : ktriple) : addr := snd x.
Definition keys_of (a : list ktriple) (t : N) : list skey :=
  map kt_key (filter (fun x => N.eqb (kt_topic x) t) a).
Definition pairs_of (a : list ktriple) (k : skey) : list ktriple :=
  filter (fun x => skey_eqb (kt_key x) k) a.
Definition nodup_keys (l : list skey) : list skey :=
  fold_right (fun k acc => if memb skey_eqb k acc then acc else k :: acc) [] l.
Definition ck_spec (c : ck_cfg) (a : list ktriple) (k : ck_call) : res (list ktriple) :=
  match k with
  | CkAllow pk reg sch t has =>
      let key : skey := (pk, sch) in
      if (pk =? 0)%N then Fail
      else match has with
           | Ok true =>
               if memb ktriple_eqb (key, t, reg) a then Fail
               else if negb (memb skey_eqb key (keys_of a t))
                       && (ck_max_keys c <=? length (nodup_keys (keys_of a t))) then Fail
               else if ck_max_regs c <=? length (pairs_of a key) then Fail
               else Ok (a ++ [(key, t, reg)])
           | _ => Fail
           end
  | CkRemove pk reg sch t =>
      let x : ktriple := ((pk, sch), t, reg) in
      if memb ktriple_eqb x a then Ok (rem ktriple_eqb x a) else Fail
  end.

Definition ck_chk (a : list ktriple) (qa : ck_query * ck_ans) : bool :=
  match qa with
  | (KqKeysForTopic t, KaKeys r) =>
      match r with
      | Ok l => negb (match keys_of a t with [] => true | _ => false end) && enumb skey_eqb l (nodup_keys (keys_of a t))
      | Fail => match keys_of a t with [] => true | _ => false end
      end
  | (KqRegistries k, KaRegs r) =>
      match r with
      | Ok l => negb (match pairs_of a k with [] => true | _ => false end) && permb N.eqb l (map kt_reg (pairs_of a k))
      | Fail => match pairs_of a k with [] => true | _ => false end
      end
  | (KqAllowedTopic k t, KaBool b) => Bool.eqb b (memb skey_eqb k (keys_of a t))
  | (KqAllowedRegistry k r, KaBool b) =>
      Bool.eqb b (existsb (fun x => N.eqb (kt_reg x) r) (pairs_of a k))
  | _ => false
  end.
Definition ck_mon (c : ck_cfg) := lmon (fun _ : N => spec_unit (ck_spec c)) ck_chk (fun _ _ => true).

(* ---------------- 5. identity registry: a map account -> (identity, profile) and the
   recovery links old -> new ---------------- *)
Record irs_ref := { rM : list (addr * (addr * profile)); rV : list (addr * addr) }.
Definition irs_ref0 : irs_ref := {| rM := []; rV := [] |}.
Definition irs_spec (c : irs_cfg) (a : irs_ref) (k : irs_call) : res irs_ref :=
  match k with
  | IrAdd acct ident ty cds =>
      if ahas N.eqb acct (rV a)                                   (* a recovered account is never registered again *)
         || (match cds with [] => true | _ => false end)
         || (irs_max_countries c <? length cds) || negb (forallb (cd_valid c) cds)
         || ahas N.eqb acct (rM a)
      then Fail else Ok {| rM := aset N.eqb acct (ident, (ty, cds)) (rM a); rV := rV a |}
  | IrModify acct ident =>
      match aget N.eqb acct (rM a) with
      | Some (_, p) => Ok {| rM := aset N.eqb acct (ident, p) (rM a); rV := rV a |}
      | None => Fail
      end
  | IrRemove acct =>
      if ahas N.eqb acct (rM a) then Ok {| rM := adel N.eqb acct (rM a); rV := rV a |} else Fail
  | IrRecover old new =>
      match aget N.eqb old (rM a) with
      | Some v =>
          if ahas N.eqb new (rV a) || ahas N.eqb new (rM a) then Fail
          else Ok {| rM := adel N.eqb old (aset N.eqb new v (rM a)); rV := aset N.eqb old new (rV a) |}
      | None => Fail
      end
  | IrAddCountries acct cds =>
      match aget N.eqb acct (rM a) with
      | Some (ident, (ty, old)) =>
          if (match cds with [] => true | _ => false end) || negb (forallb (cd_valid c) cds)
             || (irs_max_countries c <? length old + length cds)
          then Fail else Ok {| rM := aset N.eqb acct (ident, (ty, old ++ cds)) (rM a); rV := rV a |}
      | None => Fail
      end
  | IrModifyCountry acct i d =>
      match aget N.eqb acct (rM a) with
      | Some (ident, (ty, old)) =>
          if negb (cd_valid c d) || (N.of_nat (length old) <=? i)%N then Fail
          else Ok {| rM := aset N.eqb acct (ident, (ty, upd (N.to_nat i) d old)) (rM a); rV := rV a |}
      | None => Fail
      end
  | IrDeleteCountry acct i =>
      match aget N.eqb acct (rM a) with
      | Some (ident, (ty, old)) =>
          if (length old =? 1) || (N.of_nat (length old) <=? i)%N then Fail
          else Ok {| rM := aset N.eqb acct (ident, (ty, remove_at (N.to_nat i) old)) (rM a); rV := rV a |}
      | None => Fail
      end
  end.
Definition irs_chk (a : irs_ref) (qa : irs_query * irs_ans) : bool :=
  match qa with
  | (IqIdentity x, IaAddr r) => res_eqb N.eqb r (of_option (option_map fst (aget N.eqb x (rM a))))
  | (IqProfile x, IaProfile r) => res_eqb profile_eqb r (of_option (option_map snd (aget N.eqb x (rM a))))
  | (IqCountry x i, IaCountry r) =>
      res_eqb cdata_eqb r
        (match aget N.eqb x (rM a) with
         | Some (_, (_, cds)) => if (N.of_nat (length cds) <=? i)%N then Fail else of_option (nth_error cds (N.to_nat i))
         | None => Fail
         end)
  | (IqCountries x, IaCountries l) =>
      list_eqb cdata_eqb l (match aget N.eqb x (rM a) with Some (_, (_, cds)) => cds | None => [] end)
  | (IqRecovered x, IaOpt o) =>
      option_eqb N.eqb o (aget N.eqb x (rV a))
      (* a recovered account holds no identity *)
      && (match aget N.eqb x (rV a) with Some _ => negb (ahas N.eqb x (rM a)) | None => true end)
  | _ => false
  end.
Definition irs_mon (c : irs_cfg) := lmon (fun _ : N => spec_unit (irs_spec c)) irs_chk (fun _ _ => true).

(* ---------------- 6. compliance modules: one set of modules per hook ---------------- *)
Definition cm_spec (c : cm_cfg) (a : cm_state) (k : cm_call) : res cm_state :=
  match k with
  | CmAdd h m =>
      if memb N.eqb m (cm_modules a h) || (cm_max c <=? length (cm_modules a h)) then Fail
      else Ok (aset N.eqb h (cm_modules a h ++ [m]) a)
  | CmRemove h m =>
      if memb N.eqb m (cm_modules a h) then Ok (aset N.eqb h (rem N.eqb m (cm_modules a h)) a) else Fail
  end.
Definition cm_chk (a : cm_state) (qa : cm_query * cm_ans) : bool :=
  match qa with
  | (MqModules h, MaList l) => enumb N.eqb l (cm_modules a h)
  | (MqIsRegistered h m, MaBool b) => Bool.eqb b (memb N.eqb m (cm_modules a h))
  | _ => false
  end.
Definition cm_mon (c : cm_cfg) := lmon (fun _ : N => spec_unit (cm_spec c)) cm_chk (fun _ _ => true).

(* ---------------- 7. identity claims: a map claim id -> claim ---------------- *)
Definition ic_spec (a : list (cid * claim)) (k : ic_call) (o : res (option cid)) : option (list (cid * claim)) :=
  match k, o with
  | IcAdd cl valid, Ok (Some i) =>
      if valid && cid_eqb i (cl_issuer cl, cl_topic cl) then Some (aset cid_eqb i cl a) else None
  | IcAdd cl valid, Fail => if valid then None else Some a
  | IcRemove i, Ok None => if ahas cid_eqb i a then Some (adel cid_eqb i a) else None
  | IcRemove i, Fail => if ahas cid_eqb i a then None else Some a
  | _, _ => None
  end.
Definition ic_chk (a : list (cid * claim)) (qa : ic_query * ic_ans) : bool :=
  match qa with
  | (JqClaim i, JaClaim r) => res_eqb claim_eqb r (of_option (aget cid_eqb i a))
  | (JqByTopic t, JaIds l) =>
      enumb cid_eqb l (map fst (filter (fun p => N.eqb (cl_topic (snd p)) t) a))
  | _ => false
  end.
Definition ic_mon := lmon (fun _ : N => ic_spec) ic_chk (fun _ _ => true).

(* ---------------- 8. smart-account context rules: a map id -> rule; ids never reused ---------------- *)
Record sa_ref := { rRules : list rule;      (* the live rules *)
                   rBound : N;              (* every id handed out so far is below this *)
                   rAdds : N }.             (* number of rules ever added *)
Definition sa_ref0 : sa_ref := {| rRules := []; rBound := 0%N; rAdds := 0%N |}.
(* same rule up to the order of its signer and policy lists *)
Definition rule_sim (x y : rule) : bool :=
  N.eqb (r_id x) (r_id y) && ctxt_eqb (r_ctx x) (r_ctx y) && N.eqb (r_name x) (r_name y)
  && enumb signer_eqb (r_signers x) (r_signers y) && enumb N.eqb (r_policies x) (r_policies y)
  && option_eqb N.eqb (r_until x) (r_until y).
(* duplicate fingerprint: same context type, same signer set, same policy set *)
Definition same_fp (cx : ctxt) (sg : list signer) (po : list addr) (r : rule) : bool :=
  ctxt_eqb cx (r_ctx r) && seteqb signer_eqb sg (r_signers r) && seteqb N.eqb po (r_policies r).
Definition find_rule (id : N) (l : list rule) : option rule := find (fun r => N.eqb (r_id r) id) l.
Definition put_rule (r' : rule) (l : list rule) : list rule :=
  map (fun r => if N.eqb (r_id r) (r_id r') then r' else r) l.
Definition drop_rule (id : N) (l : list rule) : list rule := filter (fun r => negb (N.eqb (r_id r) id)) l.
Definition with_sp (r : rule) (sg : list signer) (po : list addr) : rule :=
  {| r_id := r_id r; r_ctx := r_ctx r; r_name := r_name r; r_signers := sg; r_policies := po; r_until := r_until r |}.

Definition sa_spec (c : sa_cfg) (a : sa_ref) (k : sa_call) (o : res (option rule)) : option sa_ref :=
  match k with
  | SaAddRule cx name until sg po =>
      let pol := map fst po in
      let refuse := (sa_max_rules c <=? length (rRules a)) || negb (nodupb signer_eqb sg)
                    || negb (nodupb N.eqb pol)
                    || negb (until_ok c until) || negb (sa_validate c sg pol)
                    || existsb (same_fp cx sg pol) (rRules a) || negb (forallb snd po) in
      match o with
      (* a refusal is legitimate when a documented condition fails, or when all 2^32 - 1 usable ids have
         been handed out (one per rule ever added; ids are never reused) *)
      | Fail => if refuse || (4294967295 <=? rAdds a)%N then Some a else None
      | Ok (Some r) =>
          let want := {| r_id := r_id r; r_ctx := cx; r_name := name; r_signers := sg; r_policies := pol; r_until := until |} in
          if negb refuse && (rBound a <=? r_id r)%N && rule_sim r want
          then Some {| rRules := rRules a ++ [want]; rBound := (r_id r + 1)%N; rAdds := (rAdds a + 1)%N |} else None
      | Ok None => None
      end
  | SaUpdateName id name =>
      match find_rule id (rRules a), o with
      | Some r, Ok (Some r') =>
          let want := {| r_id := id; r_ctx := r_ctx r; r_name := name; r_signers := r_signers r;
                         r_policies := r_policies r; r_until := r_until r |} in
          if rule_sim r' want then Some {| rRules := put_rule want (rRules a); rBound := rBound a; rAdds := rAdds a |} else None
      | None, Fail => Some a
      | _, _ => None
      end
  | SaUpdateUntil id until =>
      match find_rule id (rRules a), o with
      | Some r, Ok (Some r') =>
          let want := {| r_id := id; r_ctx := r_ctx r; r_name := r_name r; r_signers := r_signers r;
                         r_policies := r_policies r; r_until := until |} in
          if until_ok c until && rule_sim r' want
          then Some {| rRules := put_rule want (rRules a); rBound := rBound a; rAdds := rAdds a |} else None
      | Some r, Fail => if until_ok c until then None else Some a
      | None, Fail => Some a
      | _, _ => None
      end
  | SaRemoveRule id =>
      match find_rule id (rRules a), o with
      | Some _, Ok None => Some {| rRules := drop_rule id (rRules a); rBound := rBound a; rAdds := rAdds a |}
      | None, Fail => Some a
      | _, _ => None
      end
  | SaAddSigner id x =>
      let ok := match find_rule id (rRules a) with
                | Some r => negb (memb signer_eqb x (r_signers r))
                            && sa_validate c (r_signers r ++ [x]) (r_policies r)
                            && negb (existsb (same_fp (r_ctx r) (r_signers r ++ [x]) (r_policies r)) (rRules a))
                | None => false
                end in
      match find_rule id (rRules a), o with
      | Some r, Ok None =>
          if ok then Some {| rRules := put_rule (with_sp r (r_signers r ++ [x]) (r_policies r)) (rRules a); rBound := rBound a; rAdds := rAdds a |} else None
      | _, Fail => if ok then None else Some a
      | _, _ => None
      end
  | SaRemoveSigner id x =>
      let ok := match find_rule id (rRules a) with
                | Some r => memb signer_eqb x (r_signers r)
                            && sa_validate c (rem signer_eqb x (r_signers r)) (r_policies r)
                            && negb (existsb (same_fp (r_ctx r) (rem signer_eqb x (r_signers r)) (r_policies r)) (rRules a))
                | None => false
                end in
      match find_rule id (rRules a), o with
      | Some r, Ok None =>
          if ok then Some {| rRules := put_rule (with_sp r (rem signer_eqb x (r_signers r)) (r_policies r)) (rRules a); rBound := rBound a; rAdds := rAdds a |} else None
      | _, Fail => if ok then None else Some a
      | _, _ => None
      end
  | SaAddPolicy id p installs =>
      let ok := match find_rule id (rRules a) with
                | Some r => negb (memb N.eqb p (r_policies r)) && installs
                            && sa_validate c (r_signers r) (r_policies r ++ [p])
                            && negb (existsb (same_fp (r_ctx r) (r_signers r) (r_policies r ++ [p])) (rRules a))
                | None => false
                end in
      match find_rule id (rRules a), o with
      | Some r, Ok None =>
          if ok then Some {| rRules := put_rule (with_sp r (r_signers r) (r_policies r ++ [p])) (rRules a); rBound := rBound a; rAdds := rAdds a |} else None
      | _, Fail => if ok then None else Some a
      | _, _ => None
      end
  | SaRemovePolicy id p =>
      let ok := match find_rule id (rRules a) with
                | Some r => memb N.eqb p (r_policies r)
                            && sa_validate c (r_signers r) (rem N.eqb p (r_policies r))
                            && negb (existsb (same_fp (r_ctx r) (r_signers r) (rem N.eqb p (r_policies r))) (rRules a))
                | None => false
                end in
      match find_rule id (rRules a), o with
      | Some r, Ok None =>
          if ok then Some {| rRules := put_rule (with_sp r (r_signers r) (rem N.eqb p (r_policies r))) (rRules a); rBound := rBound a; rAdds := rAdds a |} else None
      | _, Fail => if ok then None else Some a
      | _, _ => None
      end
  end.
Definition sa_chk (a : sa_ref) (qa : sa_query * sa_ans) : bool :=
  match qa with
  | (SqRule id, SaRule r) =>
      match r, find_rule id (rRules a) with
      | Ok x, Some y => rule_sim x y
      | Fail, None => true
      | _, _ => false
      end
  | (SqRules cx, SaRules (Ok l)) =>
      let want := filter (fun r => ctxt_eqb (r_ctx r) cx) (rRules a) in
      (* every rule of that type exactly once *)
      enumb N.eqb (map r_id l) (map r_id want)
      && forallb (fun x => match find_rule (r_id x) want with Some y => rule_sim x y | None => false end) l
  | (SqCount, SaNat n) => N.eqb n (N.of_nat (length (rRules a)))
  | _ => false
  end.
Definition sa_mon (c : sa_cfg) := lmon (fun now : N => sa_spec (sa_with_now c now)) sa_chk (fun _ _ => true).

(* ---------------- the monitor of a trace ---------------- *)
Definition tb_gap (evs : list (ev (tcall tb_call) unit tb_query tb_ans)) : N := gap_stable tb_pairs [] evs 0%N.
Definition dm_gap (evs : list (ev (tcall dm_call) unit dm_query dm_ans)) : N := gap_stable dm_pairs [] evs 0%N.

Definition monitor (t : trace) : N :=
  match t with
  | TrBinder bs max pre evs =>
      let c := tb_cfg_of bs max in
      if tb_pre_ok c pre
      then first_idx (first_idx (mon_run (tb_mon c) (pre, 0%N) evs 0%N) (tb_gap evs)) (nonempty_obs evs 0%N) else 1%N
  | TrDocs bs max mu pre evs =>
      let c := dm_cfg_of bs max mu in
      if dm_pre_ok c pre
      then first_idx (first_idx (mon_run (dm_mon c) (pre, 0%N) evs 0%N) (dm_gap evs)) (nonempty_obs evs 0%N) else 1%N
  | TrCTI mt mi evs => first_idx (mon_run (cti_mon (cti_cfg_of mt mi)) (cti_ref0, 0%N) evs 0%N) (nonempty_obs evs 0%N)
  | TrKeys mk mr evs => first_idx (mon_run (ck_mon (ck_cfg_of mk mr)) ([], 0%N) evs 0%N) (nonempty_obs evs 0%N)
  | TrIRS mc mm ml evs => first_idx (mon_run (irs_mon (irs_cfg_of mc mm ml)) (irs_ref0, 0%N) evs 0%N) (nonempty_obs evs 0%N)
  | TrCM mx evs => first_idx (mon_run (cm_mon (cm_cfg_of mx)) (cm_init, 0%N) evs 0%N) (nonempty_obs evs 0%N)
  | TrIC evs => first_idx (mon_run ic_mon ([], 0%N) evs 0%N) (nonempty_obs evs 0%N)
  | TrSA mr ms mp now evs => first_idx (mon_run (sa_mon (sa_cfg_of mr ms mp now)) (sa_ref0, now) evs 0%N) (nonempty_obs evs 0%N)
  end.

(* ---- the documented values of the limits on the pinned tree (/repo @ 4342d51).  The limits are
   PARAMETERS of models, theorems and monitors (the harness prints the current `pub const`s into
   every trace header), so a changed constant is not a property violation.  That it differs from
   the documented value is reported separately: class 9 in the verdict (visible in replay files)
   and the harness label `limits.changed.<NAME>` instead of `limits.as_documented`. ---- *)
Definition limits_as_documented (t : trace) : bool :=
  match t with
  | TrBinder bs max _ _ => (bs =? 100)%N && (max =? 10000)%N            (* BUCKET_SIZE, MAX_TOKENS *)
  | TrDocs bs max mu _ _ => (bs =? 50)%N && (max =? 5000)%N && (mu =? 200)%N   (* BUCKET_SIZE, MAX_DOCUMENTS, MAX_URI_LEN *)
  | TrCTI mt mi _ => (mt =? 15)%N && (mi =? 50)%N                       (* MAX_CLAIM_TOPICS, MAX_ISSUERS *)
  | TrKeys mk mr _ => (mk =? 50)%N && (mr =? 20)%N                      (* MAX_KEYS_PER_TOPIC, MAX_REGISTRIES_PER_KEY *)
  | TrIRS mc mm ml _ => (mc =? 15)%N && (mm =? 10)%N && (ml =? 100)%N   (* MAX_COUNTRY_ENTRIES, MAX_METADATA_ENTRIES, MAX_METADATA_STRING_LEN *)
  | TrCM mx _ => (mx =? 20)%N                                           (* MAX_MODULES *)
  | TrIC _ => true
  | TrSA mr ms mp _ _ => (mr =? 15)%N && (ms =? 15)%N && (mp =? 5)%N    (* MAX_CONTEXT_RULES, MAX_SIGNERS, MAX_POLICIES *)
  end.

Definition check (t : trace) : verdict := (diff t, monitor t, if limits_as_documented t then 0%N else 9%N).
Definition check_all (ts : list trace) : list verdict := map check ts.

Local Close Scope nat_scope.
(* ---- the traces the models themselves produce (for the theorem "the monitor accepts
   every run of the model") ---- *)
Inductive calls :=
| CsBinder (bs max : N) (pre : list addr) (cs : list (tcall tb_call * list tb_query))
| CsDocs (bs max maxuri : N) (pre : list dentry) (cs : list (tcall dm_call * list dm_query))
| CsCTI (maxt maxi : N) (cs : list (tcall cti_call * list cti_query))
| CsKeys (maxk maxr : N) (cs : list (tcall ck_call * list ck_query))
| CsIRS (maxc maxm maxl : N) (cs : list (tcall irs_call * list irs_query))
| CsCM (max : N) (cs : list (tcall cm_call * list cm_query))
| CsIC (cs : list (tcall ic_call * list ic_query))
| CsSA (maxr maxs maxp now : N) (cs : list (tcall sa_call * list sa_query)).

Definition observe_model (k : calls) : trace :=
  match k with
  | CsBinder bs max pre cs =>
      let c := tb_cfg_of bs max in TrBinder bs max pre (model_trace (tb_lstep c) (lans (tb_answer c)) (tb_start c pre, 0%N) cs)
  | CsDocs bs max mu pre cs =>
      let c := dm_cfg_of bs max mu in TrDocs bs max mu pre (model_trace (dm_lstep c) (lans (dm_answer c)) (dm_start c pre, 0%N) cs)
  | CsCTI mt mi cs => TrCTI mt mi (model_trace (cti_lstep (cti_cfg_of mt mi)) (lans cti_answer) (cti_init, 0%N) cs)
  | CsKeys mk mr cs => TrKeys mk mr (model_trace (ck_lstep (ck_cfg_of mk mr)) (lans ck_answer) (ck_init, 0%N) cs)
  | CsIRS mc mm ml cs => TrIRS mc mm ml (model_trace (irs_lstep (irs_cfg_of mc mm ml)) (lans irs_answer) (irs_init, 0%N) cs)
  | CsCM mx cs => TrCM mx (model_trace (cm_lstep (cm_cfg_of mx)) (lans cm_answer) (cm_init, 0%N) cs)
  | CsIC cs => TrIC (model_trace ic_lstep (lans ic_answer) (ic_init, 0%N) cs)
  | CsSA mr ms mp now cs =>
      TrSA mr ms mp now (model_trace (sa_lstep (sa_cfg_of mr ms mp now)) (lans sa_answer) (sa_init, now) cs)
  end.

(* well-formedness of a run: the fixture initial states of the two bucketed registries are
   duplicate-free lists within the capacity and BUCKET_SIZE > 0 (what the harness prints) *)
Definition calls_wf (k : calls) : bool :=
  match k with
  | CsBinder bs max pre cs => tb_pre_ok (tb_cfg_of bs max) pre && forallb (@has_queries _ _) cs
  | CsDocs bs max mu pre cs => dm_pre_ok (dm_cfg_of bs max mu) pre && forallb (@has_queries _ _) cs
  | CsCTI _ _ cs => forallb (@has_queries _ _) cs
  | CsKeys _ _ cs => forallb (@has_queries _ _) cs
  | CsIRS _ _ _ cs => forallb (@has_queries _ _) cs
  | CsCM _ cs => forallb (@has_queries _ _) cs
  | CsIC cs => forallb (@has_queries _ _) cs
  | CsSA _ _ _ _ cs => forallb (@has_queries _ _) cs
  end.
