(* C04, token layer: observations, trace checker (model vs implementation) and monitor (property vs
   implementation).  Run/C04.v re-exports this file and adds the sum of the four trace families. *)
From SC Require Import Lib.Prelude Lib.Int Lib.Host Model.Rwa.

(* ------------------------------------------------------------------ *)
(* observations: what the harness reads back after EVERY call           *)
Definition acct := (Z * Z * bool)%type.          (* balance, frozen tokens, address-frozen flag *)
Record obs := mkObs {
  ob_paused : bool;
  ob_supply : Z;
  ob_accts : list acct;        (* one per address of the trace's universe, in order *)
  ob_allow : list Z;           (* allowance(owner, spender), row-major over the universe *)
  ob_idv : list iev;           (* what the identity verifier was asked during this call *)
  ob_cmp : list cev;           (* what the compliance contract was asked / told during this call *)
  ob_cmp_at : option addr;     (* what the compliance() getter answers (None = it traps: not set) *)
  ob_idv_at : option addr;     (* what the identity_verifier() getter answers *)
  ob_cmp_from : option addr;   (* the compliance contract that logged [ob_cmp] (None = nobody was called) *)
  ob_idv_from : option addr    (* the identity verifier that logged [ob_idv] *)
}.
(* the collaborators' answer tables as the harness prints them: one table for all, or one for the
   contracts 50 / 60 and another for 51 / 61 *)
Definition orc1 (o : oracle) : addr -> oracle := fun _ => o.
Definition orc2 (a b : oracle) : addr -> oracle := fun x => if N.eqb x 51 || N.eqb x 61 then b else a.

Record item := I { it_call : call; it_out : res ret; it_obs : obs }.
Record ttrace := mkTT { t_hc : hostcfg; t_univ : list addr; t_items : list item }.
(* an item whose transfer destination was sent as a MuxedAddress carrying the id [id] (the model's
   entry point drops the id, Model/Rwa.v [mux_op]; diff and monitor treat the call like any other
   transfer: same gates, same movement, exactly one notification naming the address part) *)
Definition IMux (id : Z) (c : call) (o : res ret) (b : obs) : item :=
  I (mkCall (mux_op id (c_op c)) (c_auths c) (c_orc c)) o b.

(* ------------------------------------------------------------------ *)
(* boolean equalities                                                   *)
Fixpoint eqb_list {A} (eqb : A -> A -> bool) (l1 l2 : list A) : bool :=
  match l1, l2 with
  | [], [] => true
  | x :: r1, y :: r2 => eqb x y && eqb_list eqb r1 r2
  | _, _ => false
  end.
Definition eqb_acct (x y : acct) : bool :=
  let '(b1, f1, l1) := x in let '(b2, f2, l2) := y in (b1 =? b2) && (f1 =? f2) && Bool.eqb l1 l2.
Definition eqb_iev (x y : iev) : bool :=
  match x, y with
  | QVerify a, QVerify b => N.eqb a b
  | QRecovery a, QRecovery b => N.eqb a b
  | _, _ => false
  end.
Definition eqb_cev (x y : cev) : bool :=
  match x, y with
  | QCanTransfer a b m, QCanTransfer a' b' m' => N.eqb a a' && N.eqb b b' && (m =? m')
  | QCanCreate a m, QCanCreate a' m' => N.eqb a a' && (m =? m')
  | NTransferred a b m, NTransferred a' b' m' => N.eqb a a' && N.eqb b b' && (m =? m')
  | NCreated a m, NCreated a' m' => N.eqb a a' && (m =? m')
  | NDestroyed a m, NDestroyed a' m' => N.eqb a a' && (m =? m')
  | CBadToken, CBadToken => true
  | _, _ => false
  end.
Definition eqb_oaddr (x y : option addr) : bool :=
  match x, y with
  | Some a, Some b => N.eqb a b
  | None, None => true
  | _, _ => false
  end.
Definition eqb_ret (x y : ret) : bool :=
  match x, y with
  | None, None => true
  | Some a, Some b => Bool.eqb a b
  | _, _ => false
  end.
Definition eqb_out (x y : res ret) : bool :=
  match x, y with
  | Ok a, Ok b => eqb_ret a b
  | Fail, Fail => true
  | _, _ => false
  end.
(* the ORDER in which the identity verifier is asked its questions is immaterial (they are pure
   queries): its log is compared as a multiset; the compliance log is compared as a sequence *)
Definition count_iev (x : iev) (l : list iev) : nat := length (filter (eqb_iev x) l).
Definition perm_iev (l1 l2 : list iev) : bool :=
  forallb (fun x => Nat.eqb (count_iev x l1) (count_iev x l2)) (l1 ++ l2).
Definition eqb_obs (x y : obs) : bool :=
  Bool.eqb (ob_paused x) (ob_paused y) && (ob_supply x =? ob_supply y)
  && eqb_list eqb_acct (ob_accts x) (ob_accts y) && eqb_list Z.eqb (ob_allow x) (ob_allow y)
  && perm_iev (ob_idv x) (ob_idv y) && eqb_list eqb_cev (ob_cmp x) (ob_cmp y)
  && eqb_oaddr (ob_cmp_at x) (ob_cmp_at y) && eqb_oaddr (ob_idv_at x) (ob_idv_at y)
  && eqb_oaddr (ob_cmp_from x) (ob_cmp_from y) && eqb_oaddr (ob_idv_from x) (ob_idv_from y).

(* ------------------------------------------------------------------ *)
(* the model's observation                                              *)
Definition acct_of (s : state) (a : addr) : acct := (bal s a, frozen s a, aflag s a).
(* all (owner, spender) pairs of the universe, row-major *)
Definition pairs (univ : list addr) : list (addr * addr) :=
  flat_map (fun o => map (fun sp => (o, sp)) univ) univ.
Definition observe (univ : list addr) (s : state) : obs :=
  mkObs (paused s) (supply s) (map (acct_of s) univ)
        (map (fun p => allowance s (fst p) (snd p)) (pairs univ))
        (idv_log s) (cmp_log s) (link_cmp s) (link_idv s)
        (match cmp_log s with [] => None | _ => link_cmp s end)
        (match idv_log s with [] => None | _ => link_idv s end).

(* diff: replay the calls through the model, compare outcome and observation at every call *)
Fixpoint diff_from (hc : hostcfg) (univ : list addr) (s : state) (items : list item) (i : N) : N :=
  match items with
  | [] => 0%N
  | it :: r =>
      let '(s', o) := step hc s (it_call it) in
      if eqb_out o (it_out it) && eqb_obs (observe univ s') (it_obs it)
      then diff_from hc univ s' r (N.succ i) else N.succ i
  end.

(* ------------------------------------------------------------------ *)
(* THE MONITOR: property C04 as a boolean over observations only        *)

Definition look (a : addr) (l : list (addr * acct)) : option acct := alist_get a l.

(* allowance(owner, spender) as observed *)
Fixpoint look2 (o sp : addr) (l : list ((addr * addr) * Z)) : option Z :=
  match l with
  | [] => None
  | ((o', sp'), v) :: r => if N.eqb o o' && N.eqb sp sp' then Some v else look2 o sp r
  end.

Definition mem_iev (x : iev) (l : list iev) : bool := existsb (eqb_iev x) l.
Definition mem_cev (x : cev) (l : list cev) : bool := existsb (eqb_cev x) l.

(* 0 <= frozen tokens <= balance, for every observed account *)
Definition inv_ok (o : obs) : bool :=
  forallb (fun x : acct => let '(b, f, _) := x in (0 <=? f) && (f <=? b)) (ob_accts o).

(* the gates of a holder-initiated movement, read from the observation BEFORE the call, the
   collaborators' answers, and the collaborators' logs of this call *)
Definition gates_transfer (lk : addr -> option acct) (prev cur : obs) (o : oracle) (from to : addr) (amt : Z) : bool :=
  negb (ob_paused prev)
  && match lk from with
     | Some (b, f, fl) => negb fl && (amt <=? b - f)
     | None => true
     end
  && match lk to with
     | Some (_, _, fl) => negb fl
     | None => true
     end
  && (0 <=? amt)
  && idv_ok o from && idv_ok o to && o_can_transfer o
  && mem_iev (QVerify from) (ob_idv cur) && mem_iev (QVerify to) (ob_idv cur)
  && mem_cev (QCanTransfer from to amt) (ob_cmp cur).

Definition gates_mint (cur : obs) (o : oracle) (to : addr) (amt : Z) : bool :=
  (0 <=? amt) && idv_ok o to && o_can_create o
  && mem_iev (QVerify to) (ob_idv cur) && mem_cev (QCanCreate to amt) (ob_cmp cur).

Definition gates_recover (lk : addr -> option acct) (cur : obs) (o : oracle) (old new : addr) (r : ret) : bool :=
  match r with
  | None => false
  | Some moved =>
      idv_ok o new
      && match recovery_target o old with Some t => N.eqb t new | None => false end
      && mem_iev (QVerify new) (ob_idv cur) && mem_iev (QRecovery old) (ob_idv cur)
      && match lk old with
         | Some (b, _, _) => Bool.eqb moved (negb (b =? 0))
         | None => true
         end
  end.

(* holder-initiated: the holder's own authorisation, or the spender's authorisation within a live
   allowance granted by the holder, of which exactly the amount is consumed *)
Definition allowance_spent (la la' : addr -> addr -> option Z) (from sp : addr) (amt : Z) : bool :=
  match la from sp, la' from sp with
  | Some p, Some q => (amt <=? p) && (q =? p - amt)
  | _, _ => true
  end.

(* the answers that count: those of the collaborators the token pointed at BEFORE the call *)
Definition eff_obs (prev : obs) (c : call) : oracle :=
  let oi := c_orc c (match ob_idv_at prev with Some a => a | None => 0%N end) in
  let oc := c_orc c (match ob_cmp_at prev with Some a => a | None => 0%N end) in
  mkOracle (o_verified oi) (o_can_transfer oc) (o_can_create oc) (o_recovery oi).

Definition gates_ok (lk : addr -> option acct) (la la' : addr -> addr -> option Z) (prev cur : obs) (c : call) (r : ret) : bool :=
  match c_op c with
  | Transfer from to amt => has_auth (c_auths c) from && gates_transfer lk prev cur (eff_obs prev c) from to amt
  | TransferFrom sp from to amt =>
      has_auth (c_auths c) sp && allowance_spent la la' from sp amt
      && gates_transfer lk prev cur (eff_obs prev c) from to amt
  | Approve owner sp amt _ =>
      has_auth (c_auths c) owner && (0 <=? amt)
      && match la' owner sp with Some q => q =? amt | None => true end
  | Mint to amt _ => gates_mint cur (eff_obs prev c) to amt
  | Burn _ amt _ | ForcedTransfer _ _ amt _ | Freeze _ amt _ | Unfreeze _ amt _ => 0 <=? amt
  | RecoverBalance old new _ => gates_recover lk cur (eff_obs prev c) old new r
  | Pause _ => negb (ob_paused prev)
  | Unpause _ => ob_paused prev
  | _ => true
  end.

(* the account (balance, frozen tokens, flag) of address [a] after a successful call, given its
   account [x] before; None = not constrained (a party lies outside the observed universe) *)
Definition expect_acct (lk : addr -> option acct) (c : call) (r : ret) (a : addr) (x : acct) : option acct :=
  let '(b, f, fl) := x in
  let is x := N.eqb a x in
  match c_op c with
  | Transfer from to amt | TransferFrom _ from to amt =>
      Some (b - (if is from then amt else 0) + (if is to then amt else 0), f, fl)
  | Mint to amt _ => Some (b + (if is to then amt else 0), f, fl)
  | Burn w amt _ =>
      Some (b - (if is w then amt else 0), (if is w then f - unfrozen_by b f amt else f), fl)
  | ForcedTransfer from to amt _ =>
      Some (b - (if is from then amt else 0) + (if is to then amt else 0),
            (if is from then f - unfrozen_by b f amt else f), fl)
  | RecoverBalance old new _ =>
      match r with
      | Some true =>
          if N.eqb old new then Some x
          else if is old then Some (0, 0, fl)
          else if is new then
            match lk old with
            | Some (bo, fo, flo) => Some (b + bo, f + fo, fl || flo)
            | None => None
            end
          else Some x
      | _ => Some x
      end
  | SetAddressFrozen w v _ => Some (b, f, if is w then v else fl)
  | Freeze w amt _ => Some (b, (if is w then f + amt else f), fl)
  | Unfreeze w amt _ => Some (b, (if is w then f - amt else f), fl)
  | _ => Some x
  end.

Fixpoint accts_ok (lk : addr -> option acct) (c : call) (r : ret) (p q : list (addr * acct)) : bool :=
  match p, q with
  | [], [] => true
  | (a, x) :: p', (a', y) :: q' =>
      N.eqb a a'
      && match expect_acct lk c r a x with Some e => eqb_acct e y | None => true end
      && accts_ok lk c r p' q'
  | _, _ => false
  end.

(* the notifications (transferred / created / destroyed) the compliance contract must have
   received during the call: exactly these, in this order *)
Definition expected_notifs (lk : addr -> option acct) (c : call) (r : ret) : option (list cev) :=
  match c_op c with
  | Transfer from to amt | TransferFrom _ from to amt | ForcedTransfer from to amt _ =>
      Some [NTransferred from to amt]
  | Mint to amt _ => Some [NCreated to amt]
  | Burn w amt _ => Some [NDestroyed w amt]
  | RecoverBalance old new _ =>
      match r with
      | Some true => match lk old with
                     | Some (bo, _, _) => Some [NTransferred old new bo]
                     | None => None
                     end
      | _ => Some []
      end
  | _ => Some []
  end.

Definition paused_after (prev : obs) (c : call) : bool :=
  match c_op c with Pause _ => true | Unpause _ => false | _ => ob_paused prev end.

(* the links to the collaborators: set by set_compliance / set_identity_verifier and by nothing
   else, and never lost again (whatever time passes) *)
Definition links_after (prev : obs) (c : call) (ok : bool) : option addr * option addr :=
  match c_op c with
  | SetCompliance w _ => (if ok then Some w else ob_cmp_at prev, ob_idv_at prev)
  | SetIdentityVerifier w _ => (ob_cmp_at prev, if ok then Some w else ob_idv_at prev)
  | _ => (ob_cmp_at prev, ob_idv_at prev)
  end.
Definition links_ok (prev cur : obs) (c : call) (ok : bool) : bool :=
  eqb_oaddr (ob_cmp_at cur) (fst (links_after prev c ok)) && eqb_oaddr (ob_idv_at cur) (snd (links_after prev c ok)).

(* whoever was asked / told anything during the call is the collaborator the token pointed at
   BEFORE the call (the currently registered one - not a stale or a first-registered one) *)
Definition asked_ok (prev cur : obs) : bool :=
  match ob_cmp cur with [] => eqb_oaddr (ob_cmp_from cur) None | _ => eqb_oaddr (ob_cmp_from cur) (ob_cmp_at prev) end
  && match ob_idv cur with [] => eqb_oaddr (ob_idv_from cur) None | _ => eqb_oaddr (ob_idv_from cur) (ob_idv_at prev) end.

(* every party a call names belongs to the observed universe (a trace that names others is malformed:
   nothing could be said about them) *)
Definition inu (univ : list addr) (a : addr) : bool := existsb (N.eqb a) univ.
Definition wf_call (univ : list addr) (c : call) : bool :=
  match c_op c with
  | Transfer f t _ => inu univ f && inu univ t
  | TransferFrom sp f t _ => inu univ sp && inu univ f && inu univ t
  | Approve o sp _ _ => inu univ o && inu univ sp
  | Mint t _ _ | Burn t _ _ | SetAddressFrozen t _ _ | Freeze t _ _ | Unfreeze t _ _ => inu univ t
  | ForcedTransfer f t _ _ => inu univ f && inu univ t
  | RecoverBalance o n _ => inu univ o && inu univ n
  | _ => true
  end.

(* allowances change only by approve (to the approved amount), by transfer_from (minus the amount
   spent) and by expiry when the ledger advances; the supply only by mint and burn *)
Definition pair_eqb (p q : addr * addr) : bool := N.eqb (fst p) (fst q) && N.eqb (snd p) (snd q).
Definition allow_after (c : call) (ok : bool) (pr : addr * addr) (p q : Z) : bool :=
  if ok then
    match c_op c with
    | Approve ow sp amt _ => if pair_eqb pr (ow, sp) then q =? amt else q =? p
    | TransferFrom spd from _ amt => if pair_eqb pr (from, spd) then q =? p - amt else q =? p
    | Advance _ => (q =? p) || (q =? 0)
    | _ => q =? p
    end
  else q =? p.
Fixpoint allow_ok (c : call) (ok : bool) (prs : list (addr * addr)) (ps qs : list Z) : bool :=
  match prs, ps, qs with
  | [], [], [] => true
  | pr :: prs', p :: ps', q :: qs' => allow_after c ok pr p q && allow_ok c ok prs' ps' qs'
  | _, _, _ => false
  end.
Definition supply_after (prev : obs) (c : call) (ok : bool) : Z :=
  if ok then
    match c_op c with
    | Mint _ amt _ => ob_supply prev + amt
    | Burn _ amt _ => ob_supply prev - amt
    | _ => ob_supply prev
    end
  else ob_supply prev.

Definition mon_step (univ : list addr) (prev : obs) (it : item) : bool :=
  let cur := it_obs it in
  let P := combine univ (ob_accts prev) in
  let Q := combine univ (ob_accts cur) in
  let lk := fun a => look a P in
  let la := fun o sp => look2 o sp (combine (pairs univ) (ob_allow prev)) in
  let la' := fun o sp => look2 o sp (combine (pairs univ) (ob_allow cur)) in
  (length (ob_accts cur) =? length univ)%nat
  && wf_call univ (it_call it)
  && inv_ok cur
  && links_ok prev cur (it_call it) (is_ok (it_out it))
  && asked_ok prev cur
  && allow_ok (it_call it) (is_ok (it_out it)) (pairs univ) (ob_allow prev) (ob_allow cur)
  && (ob_supply cur =? supply_after prev (it_call it) (is_ok (it_out it)))
  && match it_out it with
     | Fail =>
         (* a failing call leaves no trace: same accounts, same pause flag, nobody was told anything *)
         eqb_list eqb_acct (ob_accts prev) (ob_accts cur)
         && Bool.eqb (ob_paused prev) (ob_paused cur)
         && match ob_idv cur, ob_cmp cur with [], [] => true | _, _ => false end
     | Ok r =>
         gates_ok lk la la' prev cur (it_call it) r
         && accts_ok lk (it_call it) r P Q
         && Bool.eqb (ob_paused cur) (paused_after prev (it_call it))
         && match expected_notifs lk (it_call it) r with
            | Some l => eqb_list eqb_cev (filter is_notif (ob_cmp cur)) l
            | None => true
            end
     end.

Fixpoint mon_from (univ : list addr) (prev : obs) (items : list item) (i : N) : N :=
  match items with
  | [] => 0%N
  | it :: r => if mon_step univ prev it then mon_from univ (it_obs it) r (N.succ i) else N.succ i
  end.

(* a fresh token: nothing minted, nothing frozen, not paused *)
Definition obs0 (univ : list addr) : obs :=
  mkObs false 0 (map (fun _ => (0, 0, false)) univ) (map (fun _ => 0) (pairs univ)) [] [] None None None None.

Definition check_token (t : ttrace) : verdict :=
  (diff_from (t_hc t) (t_univ t) init (t_items t) 0%N,
   mon_from (t_univ t) (obs0 (t_univ t)) (t_items t) 0%N,
   0%N).
(* the observations the model itself produces *)
Fixpoint model_items (hc : hostcfg) (univ : list addr) (s : state) (cs : list call) : list item :=
  match cs with
  | [] => []
  | c :: r => let '(s', o) := step hc s c in I c o (observe univ s') :: model_items hc univ s' r
  end.
