(* C17: trace checker (model vs implementation) and monitor (property vs implementation).

   A trace is (header, initial observation, [(call, outcome, observation)]).
   The header carries what the harness knows about the REAL hash function: the table of
   pair-hash evaluations it performed (digests are numbered by byte order, so only
   equalities and the order of real digests enter), the table of leaf-hash evaluations,
   and the trees it built (sorted-pair trees and positional trees).

   diff    : replay through Model.Merkle.step instantiated with the tables.
   monitor : the property over observations only.  A verification must return true
             exactly for (root, value, proof[, index]) where root is the root of a
             (sub)tree the harness built and (value, proof, index) is one of that tree's
             (node, honest proof, position) triples - or the trivial one-node tree;
             a claim must be accepted only with such a proof for the leaf hash against the
             root observed before the call and an index observed unclaimed, it then marks
             exactly that index (and pays exactly the amount); any failing call leaves every
             observed value unchanged; flags never go back to false. *)
From SC Require Import Lib.Prelude Lib.Int Lib.Host Model.Merkle.
Open Scope Z_scope.

Record hdr := mk_hdr {
  h_tab : htab;                 (* pair-hash evaluations, sorted by output *)
  h_ltab : ltab;                (* leaf-hash evaluations *)
  h_strees : list (tree dg);    (* trees hashed with the sorted (commutative) pair hash *)
  h_itrees : list (tree dg);    (* trees hashed positionally *)
  h_self : addr                 (* address of the distributor contract *)
}.

(* observation: get_root (None = unset), is_claimed for the index universe, token balances *)
Definition obs := (option dg * list (N * bool) * list (addr * Z))%type.
Definition o_root (o : obs) := fst (fst o).
Definition o_cl (o : obs) := snd (fst o).
Definition o_bal (o : obs) := snd o.

Definition item := (call dg * outcome * obs)%type.
Definition trace := (hdr * obs * list item)%type.
(* typed constructors used by the harness's printer *)
Definition ob (r : option dg) (c : list (N * bool)) (b : list (addr * Z)) : obs := (r, c, b).
Definition it (c : call dg) (out : outcome) (o : obs) : item := (c, out, o).
Definition mk_trace (h : hdr) (o : obs) (l : list item) : trace := (h, o, l).

(* ---------- instantiated model ---------- *)
Definition Hh (h : hdr) := Htab (h_tab h).
Definition Ch (h : hdr) := cpair (Hh h) dg_gtb.
Definition Lh (h : hdr) := LHtab (h_ltab h).
Definition mstep (h : hdr) := step dg_eqb (Hh h) dg_gtb (Lh h).

(* ---------- boolean equalities ---------- *)
Fixpoint plist_eqb (a b : list dg) : bool :=
  match a, b with
  | [], [] => true
  | x :: a', y :: b' => dg_eqb x y && plist_eqb a' b'
  | _, _ => false
  end.
Definition out_eqb (a b : outcome) : bool :=
  match a, b with
  | Ok (Some x), Ok (Some y) => Bool.eqb x y
  | Ok None, Ok None => true
  | Fail, Fail => true
  | _, _ => false
  end.
Definition oroot_eqb (a b : option dg) : bool :=
  match a, b with Some x, Some y => dg_eqb x y | None, None => true | _, _ => false end.
Fixpoint cl_eqb (a b : list (N * bool)) : bool :=
  match a, b with
  | [], [] => true
  | (i, x) :: a', (j, y) :: b' => N.eqb i j && Bool.eqb x y && cl_eqb a' b'
  | _, _ => false
  end.
Fixpoint bal_eqb (a b : list (addr * Z)) : bool :=
  match a, b with
  | [], [] => true
  | (i, x) :: a', (j, y) :: b' => N.eqb i j && Z.eqb x y && bal_eqb a' b'
  | _, _ => false
  end.
Definition obs_eqb (a b : obs) : bool :=
  oroot_eqb (o_root a) (o_root b) && cl_eqb (o_cl a) (o_cl b) && bal_eqb (o_bal a) (o_bal b).

(* ---------- the model's observation and initial state ---------- *)
Definition observe (univ : list N) (addrs : list addr) (s : state dg) : obs :=
  (root s, map (fun j => (j, is_claimed s j)) univ, map (fun a => (a, balance s a)) addrs).
Definition init_of (h : hdr) (o : obs) : state dg :=
  mk_state (o_root o) (map fst (filter snd (o_cl o))) (o_bal o) (h_self h).
Definition observe_like (o : obs) (s : state dg) : obs :=
  observe (map fst (o_cl o)) (map fst (o_bal o)) s.

(* ---------- well-formedness of the harness's inputs (booleans; part of diff) ---------- *)
(* outputs strictly increasing: no two table entries have the same output *)
Fixpoint tab_sorted_from (last : option N) (t : htab) : bool :=
  match t with
  | [] => true
  | (_, _, c) :: r =>
      (match last with Some l => N.ltb l c | None => true end) && tab_sorted_from (Some c) r
  end.
Definition tab_sorted (t : htab) := tab_sorted_from None t.

(* d is an output of the table (for positional hashing: d is a node hash) *)
Definition in_range (t : htab) (d : N) : bool := existsb (fun e => N.eqb (snd e) d) t.
(* d is an output of the table for an ascending pair (d is a sorted-pair node hash) *)
Definition in_crange (t : htab) (d : N) : bool :=
  existsb (fun e => N.eqb (snd e) d && N.leb (fst (fst e)) (snd (fst e))) t.
Definition leafp_i (t : htab) (d : dg) : bool :=
  match d with At n => negb (in_range t n) | Pr _ _ => false end.
Definition leafp_s (t : htab) (d : dg) : bool :=
  match d with At n => negb (in_crange t n) | Pr _ _ => false end.

Definition squads (h : hdr) := flat_map (fun t => snd (quads_go (Ch h) t)) (h_strees h).
Definition iquads (h : hdr) := flat_map (fun t => snd (quads_go (Hh h) t)) (h_itrees h).

(* the leaf-hash table: a digest is the hash of one (index, address, amount) only, and a leaf hash
   is never the output of a pair hash (leaves are not 64-byte values) *)
Definition lkey_eqb (x y : N * addr * Z * N) : bool :=
  N.eqb (fst (fst (fst x))) (fst (fst (fst y))) && N.eqb (snd (fst (fst x))) (snd (fst (fst y)))
  && Z.eqb (snd (fst x)) (snd (fst y)).
Fixpoint ltab_ok (t : htab) (l : ltab) : bool :=
  match l with
  | [] => true
  | e :: r =>
      negb (in_range t (snd e))
      && forallb (fun e' => negb (N.eqb (snd e') (snd e)) || lkey_eqb e' e) r
      && ltab_ok t r
  end.

Definition wf_hdr (h : hdr) : bool :=
  tab_sorted (h_tab h)
  && forallb (fun t => forallb (leafp_s (h_tab h)) (leaves t)) (h_strees h)
  && forallb (fun t => forallb (leafp_i (h_tab h)) (leaves t)) (h_itrees h)
  && ltab_ok (h_tab h) (h_ltab h).

Definition QS := list (dg * (dg * list dg * Z)).
Definition is_qroot (qs : QS) (r : dg) : bool := existsb (fun q => dg_eqb r (fst q)) qs.
Definition sroot_ok (h : hdr) (sq : QS) (r : dg) : bool := is_qroot sq r || leafp_s (h_tab h) r.
Definition iroot_ok (h : hdr) (iq : QS) (r : dg) : bool := is_qroot iq r || leafp_i (h_tab h) r.

Definition mem_n (i : N) (l : list N) : bool := existsb (N.eqb i) l.

(* [u] = the initial observation (it fixes the universe of indices and addresses), [cur] = the
   stored root before the call: indices / addresses must be in the universe, the roots the call
   verifies against must be roots the harness has declared a tree for (or not hashes) *)
Definition wf_call (h : hdr) (sq iq : QS) (u : obs) (cur : option dg) (c : call dg) : bool :=
  let univ := map fst (o_cl u) in
  let addrs := map fst (o_bal u) in
  let cur_s := match cur with Some r => sroot_ok h sq r | None => true end in
  let cur_i := match cur with Some r => iroot_ok h iq r | None => true end in
  match c with
  | Verify p r v => sroot_ok h sq r
  | VerifyIdx p r v i => iroot_ok h iq r && (0 <=? i)
  | SetRoot r => true
  | SetClaimed i => mem_n i univ
  | ClaimS i a m p => mem_n i univ && cur_s
  | ClaimI i a m p => mem_n i univ && cur_i
  | Airdrop i a m p => mem_n i univ && cur_s && mem_n a addrs && mem_n (h_self h) addrs
  | Advance n => true
  end.

(* every hash the model needs was evaluated by the harness (no formal [Pr] term appears) *)
Definition call_hits (h : hdr) (s : state dg) (c : call dg) : bool :=
  match c with
  | Verify p r v => is_at (climb (Hh h) dg_gtb v p)
  | VerifyIdx p r v i =>
      match verify_with_index dg_eqb (Hh h) p r v i with
      | Ok _ => is_at (fst (iclimb (Hh h) v i p))
      | Fail => true
      end
  | ClaimS i a m p | Airdrop i a m p =>
      match root s with
      | Some _ => is_at (climb (Hh h) dg_gtb (Lh h i a m) p)
      | None => true
      end
  | ClaimI i a m p =>
      match root s with
      | Some r => match verify_with_index dg_eqb (Hh h) p r (Lh h i a m) (Z.of_N i) with
                  | Ok _ => is_at (fst (iclimb (Hh h) (Lh h i a m) (Z.of_N i) p))
                  | Fail => is_at (Lh h i a m)
                  end
      | None => true
      end
  | _ => true
  end.

(* ---------- diff: replay through the model ---------- *)
(* an observation may leave flags unread (their keys are simply absent): the model is observed on
   exactly the keys the implementation was observed on *)
Fixpoint diff_from (h : hdr) (sq iq : QS) (u : obs) (s : state dg) (t : list item) (k : N) : N :=
  match t with
  | [] => 0%N
  | (c, out, o) :: r =>
      let '(s', mo) := mstep h s c in
      if wf_call h sq iq u (root s) c && call_hits h s c && out_eqb mo out && obs_eqb (observe_like o s') o
      then diff_from h sq iq u s' r (N.succ k)
      else N.succ k
  end.

(* ---------- monitor ---------- *)
Definition honest_s (sq : QS) (r v : dg) (p : list dg) : bool :=
  (match p with [] => dg_eqb r v | _ => false end)
  || existsb (fun q => dg_eqb r (fst q) && dg_eqb v (fst (fst (snd q))) && plist_eqb p (snd (fst (snd q)))) sq.
Definition honest_i (iq : QS) (r v : dg) (p : list dg) (i : Z) : bool :=
  (match p with [] => dg_eqb r v && (i =? 0) | _ => false end)
  || existsb (fun q => dg_eqb r (fst q) && dg_eqb v (fst (fst (snd q)))
                       && plist_eqb p (snd (fst (snd q))) && (i =? snd (snd q))) iq.

(* what verify_with_index must answer *)
Definition exp_idx (iq : QS) (p : list dg) (r v : dg) (i : Z) : outcome :=
  let len := Z.of_nat (length p) in
  if 32 <=? len then Fail
  else if 2 ^ len <=? i then Fail
  else Ok (Some (honest_i iq r v p i)).

Definition upd_claimed (cl : list (N * bool)) (i : N) : list (N * bool) :=
  map (fun jb => (fst jb, N.eqb (fst jb) i || snd jb)) cl.
Definition upd_bals (bl : list (addr * Z)) (from to : addr) (m : Z) : list (addr * Z) :=
  map (fun xz => (fst xz, snd xz - (if N.eqb (fst xz) from then m else 0)
                                 + (if N.eqb (fst xz) to then m else 0))) bl.
Definition bal_of (bl : list (addr * Z)) (a : addr) : Z :=
  match alist_get a bl with Some z => z | None => 0 end.

(* [o] was read from the implementation, possibly leaving some flags unread: every flag that was
   read must have the expected value (a key that is not expected at all is a mismatch), root and
   balances are always read *)
Definition cl_sub (o e : list (N * bool)) : bool :=
  forallb (fun ib => match alist_get (fst ib) e with Some b => Bool.eqb b (snd ib) | None => false end) o.
Definition obs_sub (o e : obs) : bool :=
  oroot_eqb (o_root o) (o_root e) && cl_sub (o_cl o) (o_cl e) && bal_eqb (o_bal o) (o_bal e).

(* the call must have succeeded iff [ok]; on success the values are [o_ok], on failure nothing
   may have changed; None = the outcome itself is wrong *)
Definition unit_expect (ok : bool) (po o_ok : obs) (out : outcome) : option obs :=
  if ok then (if out_eqb out (Ok None) then Some o_ok else None)
  else (if out_eqb out Fail then Some po else None).

(* the text leaves the outcome open: success with [o_ok] or failure with nothing changed *)
Definition unit_either (po o_ok : obs) (out : outcome) : option obs :=
  if out_eqb out (Ok None) then Some o_ok
  else if out_eqb out Fail then Some po else None.

(* Verifier::verify must answer [honest_s]; for a value that is an INTERNAL node of the tree
   (a pair hash) with its truncated proof the text ("a value that is not in the tree") allows a
   hardened implementation to answer false as well *)
Definition verify_out_ok (h : hdr) (sq : QS) (p : list dg) (r v : dg) (out : outcome) : bool :=
  let e := honest_s sq r v p in
  out_eqb out (Ok (Some e))
  || (e && negb (leafp_s (h_tab h) v) && out_eqb out (Ok (Some false))).

(* Verifier::verify_with_index: inside the bounds the answer must be [honest_i].  The library
   traps for len >= 32 (documented bound: MerkleProofOutOfBounds) and for index >= 2^len
   (MerkleIndexOutOfBounds); the text says "returns false or fails" for a wrong index and "accepts"
   for an honest proof, so out of the bounds both the trap and the right boolean are accepted.
   Internal nodes as for [verify]. *)
Definition idx_out_ok (h : hdr) (iq : QS) (p : list dg) (r v : dg) (i : Z) (out : outcome) : bool :=
  let len := Z.of_nat (length p) in
  let e := honest_i iq r v p i in
  out_eqb out (exp_idx iq p r v i)
  || (((32 <=? len) || (2 ^ len <=? i)) && out_eqb out (Ok (Some e)))
  || (e && negb (leafp_i (h_tab h) v) && out_eqb out (Ok (Some false))).

(* [po] = the values every getter must have before the call (initially the first observation,
   which reads everything; afterwards what this function returned); [u] = the first observation (it
   fixes the universe).  Result: the values every getter must have after the call, or None if the
   outcome violates the property or the call is one the monitor cannot judge ([wf_call]: index or
   address outside the universe, root without a declared tree). *)
Definition mon_expect (h : hdr) (sq iq : QS) (u po : obs) (c : call dg) (out : outcome) : option obs :=
  if negb (wf_call h sq iq u (o_root po) c) then None else
  match c with
  | Verify p r v =>
      if verify_out_ok h sq p r v out then Some po else None
  | VerifyIdx p r v i =>
      if idx_out_ok h iq p r v i out then Some po else None
  | SetRoot r =>
      if out_eqb out (Ok None) then Some (Some r, o_cl po, o_bal po) else None
  | SetClaimed i =>
      (* the library's explicit marking entry point (no root, no proof needed) *)
      if out_eqb out (Ok None) then Some (o_root po, upd_claimed (o_cl po) i, o_bal po) else None
  | ClaimS i a m p =>
      let ok := match o_root po, alist_get i (o_cl po) with
                | Some r, Some false => honest_s sq r (Lh h i a m) p
                | _, _ => false
                end in
      unit_expect ok po (o_root po, upd_claimed (o_cl po) i, o_bal po) out
  | ClaimI i a m p =>
      let ok := match o_root po, alist_get i (o_cl po) with
                | Some r, Some false =>
                    match exp_idx iq p r (Lh h i a m) (Z.of_N i) with Ok (Some true) => true | _ => false end
                | _, _ => false
                end in
      (* an honest proof of length >= 32: the library refuses it (documented bound), the text would accept *)
      let ok_text := match o_root po, alist_get i (o_cl po) with
                     | Some r, Some false => honest_i iq r (Lh h i a m) p (Z.of_N i)
                     | _, _ => false
                     end in
      let o_ok := (o_root po, upd_claimed (o_cl po) i, o_bal po) in
      if ok then unit_expect true po o_ok out
      else if ok_text then unit_either po o_ok out
      else unit_expect false po o_ok out
  | Airdrop i a m p =>
      let ok := match o_root po, alist_get i (o_cl po) with
                | Some r, Some false =>
                    honest_s sq r (Lh h i a m) p && (0 <=? m) && (m <=? bal_of (o_bal po) (h_self h))
                | _, _ => false
                end in
      unit_expect ok po (o_root po, upd_claimed (o_cl po) i, upd_bals (o_bal po) (h_self h) a m) out
  | Advance n =>
      (* time passing changes nothing: root, flags and balances are kept forever *)
      if out_eqb out (Ok None) then Some po else None
  end.

Fixpoint mon_from (h : hdr) (sq iq : QS) (u po : obs) (t : list item) (k : N) : N :=
  match t with
  | [] => 0%N
  | (c, out, o) :: r =>
      match mon_expect h sq iq u po c out with
      | Some e => if obs_sub o e then mon_from h sq iq u e r (N.succ k) else N.succ k
      | None => N.succ k
      end
  end.

(* ---------- verdict ---------- *)
Fixpoint nodupb (l : list N) : bool :=
  match l with [] => true | x :: r => negb (mem_n x r) && nodupb r end.
(* the first observation reads everything, each key once *)
Definition wf_obs (o : obs) : bool := nodupb (map fst (o_cl o)) && nodupb (map fst (o_bal o)).

(* a malformed header or first observation is both a disagreement and a monitor failure at call 1 *)
Definition check (t : trace) : verdict :=
  let '(h, o0, items) := t in
  let sq := squads h in
  let iq := iquads h in
  if wf_hdr h && wf_obs o0
  then (diff_from h sq iq o0 (init_of h o0) items 0%N, mon_from h sq iq o0 o0 items 0%N, 0%N)
  else (1%N, 1%N, 0%N).
Definition check_all (ts : list trace) : list verdict := map check ts.

(* the trace the model itself produces from the state [init_of h o0]; each call comes with the
   list of flags that are read after it (the harness may leave flags unread), balances and the
   root are always read *)
Fixpoint model_items (h : hdr) (u : obs) (s : state dg) (cs : list (call dg * list N)) : list item :=
  match cs with
  | [] => []
  | (c, reads) :: r =>
      let '(s', out) := mstep h s c in
      (c, out, observe reads (map fst (o_bal u)) s') :: model_items h u s' r
  end.
Definition model_trace (h : hdr) (o0 : obs) (cs : list (call dg * list N)) : trace :=
  (h, o0, model_items h o0 (init_of h o0) cs).

(* ---------- the boolean well-formedness under which the model's own traces are accepted ---------- *)

(* the per-call conditions [diff_from] checks, along the model's own run *)
Fixpoint wf_run (h : hdr) (sq iq : QS) (u : obs) (s : state dg) (cs : list (call dg * list N)) : bool :=
  match cs with
  | [] => true
  | (c, reads) :: r =>
      let '(s', out) := mstep h s c in
      wf_call h sq iq u (root s) c && call_hits h s c
      && forallb (fun i => mem_n i (map fst (o_cl u))) reads
      && wf_run h sq iq u s' r
  end.
Definition wf_input (h : hdr) (o0 : obs) (cs : list (call dg * list N)) : bool :=
  wf_hdr h && wf_obs o0 && wf_run h (squads h) (iquads h) o0 (init_of h o0) cs.

(* ---------- hand-made traces: the monitor accepts a correct history and rejects each kind of violation ---------- *)
Module Examples.

Definition T0 : tree dg := Nd (Lf (At 1%N)) (Lf (At 3%N)).
Definition h0 := mk_hdr [(1%N,3%N,2%N)] [(0%N,5%N,100,1%N); (1%N,6%N,50,3%N)] [T0] [T0] 9%N.
Definition f0 := [(0%N,false);(1%N,false);(2%N,false)].
Definition f1 := [(0%N,true);(1%N,false);(2%N,false)].
Definition f2 := [(0%N,true);(1%N,true);(2%N,false)].
Definition b0 := [(9%N,1000);(5%N,0);(6%N,0)].
Definition b1 := [(9%N,950);(5%N,0);(6%N,50)].
Definition R := Some (At 2%N).
Definition good := mk_trace h0 (ob None f0 b0)
  [ it (ClaimS 0%N 5%N 100 [At 3%N]) Fail (ob None f0 b0);
    it (SetRoot (At 2%N)) (Ok None) (ob R f0 b0);
    it (ClaimS 0%N 5%N 100 [At 3%N]) (Ok None) (ob R f1 b0);
    it (ClaimS 0%N 5%N 100 [At 3%N]) Fail (ob R f1 b0);
    it (Verify [At 3%N] (At 2%N) (At 1%N)) (Ok (Some true)) (ob R f1 b0);
    it (Verify [] (At 2%N) (At 1%N)) (Ok (Some false)) (ob R f1 b0);
    it (VerifyIdx [At 1%N] (At 2%N) (At 3%N) 1) (Ok (Some true)) (ob R f1 b0);
    it (VerifyIdx [At 1%N] (At 2%N) (At 3%N) 3) Fail (ob R f1 b0);
    it (Airdrop 1%N 6%N 50 [At 1%N]) (Ok None) (ob R f2 b1);
    it (Airdrop 1%N 6%N 50 [At 1%N]) Fail (ob R f2 b1);
    it (SetRoot (At 7%N)) (Ok None) (ob (Some (At 7%N)) f2 b1);
    it (ClaimI 0%N 5%N 100 []) Fail (ob (Some (At 7%N)) f2 b1) ].
(* a correct history: unset root, claim, repeated claim, verifications, wrong index, airdrop, root change *)
Example check_good : check good = (0%N, 0%N, 0%N).
Proof. vm_compute. reflexivity. Qed.
Definition bad_forged := mk_trace h0 (ob None f0 b0) [ it (Verify [] (At 2%N) (At 1%N)) (Ok (Some true)) (ob None f0 b0) ].
(* a verification accepts a value that is not in the tree *)
Example check_bad_forged : check bad_forged = (1%N, 1%N, 0%N).
Proof. vm_compute. reflexivity. Qed.
Definition bad_double := mk_trace h0 (ob None f0 b0)
  [ it (SetRoot (At 2%N)) (Ok None) (ob R f0 b0);
    it (ClaimS 0%N 5%N 100 [At 3%N]) (Ok None) (ob R f1 b0);
    it (ClaimS 0%N 5%N 100 [At 3%N]) (Ok None) (ob R f1 b0) ].
(* a second claim for the same index is accepted *)
Example check_bad_double : check bad_double = (3%N, 3%N, 0%N).
Proof. vm_compute. reflexivity. Qed.
Definition bad_failed_marks := mk_trace h0 (ob None f0 b0)
  [ it (SetRoot (At 2%N)) (Ok None) (ob R f0 b0);
    it (ClaimS 0%N 5%N 100 []) Fail (ob R f1 b0) ].
(* a failing claim leaves the index marked *)
Example check_bad_failed_marks : check bad_failed_marks = (2%N, 2%N, 0%N).
Proof. vm_compute. reflexivity. Qed.
Definition bad_index := mk_trace h0 (ob None f0 b0) [ it (VerifyIdx [At 1%N] (At 2%N) (At 3%N) 3) (Ok (Some true)) (ob None f0 b0) ].
(* an index beyond 2^len is accepted instead of failing *)
Example check_bad_index : check bad_index = (1%N, 1%N, 0%N).
Proof. vm_compute. reflexivity. Qed.
Definition bad_old_root := mk_trace h0 (ob None f0 b0)
  [ it (SetRoot (At 2%N)) (Ok None) (ob R f0 b0);
    it (SetRoot (At 7%N)) (Ok None) (ob (Some (At 7%N)) f0 b0);
    it (ClaimS 0%N 5%N 100 [At 3%N]) (Ok None) (ob (Some (At 7%N)) f1 b0) ].
(* a claim with a proof for the previous root is accepted after a root change *)
Example check_bad_old_root : check bad_old_root = (3%N, 3%N, 0%N).
Proof. vm_compute. reflexivity. Qed.
Definition bad_unclaim := mk_trace h0 (ob None f0 b0)
  [ it (SetRoot (At 2%N)) (Ok None) (ob R f0 b0);
    it (ClaimS 0%N 5%N 100 [At 3%N]) (Ok None) (ob R f1 b0);
    it (SetRoot (At 2%N)) (Ok None) (ob R f0 b0) ].
(* a claimed flag goes back to false *)
Example check_bad_unclaim : check bad_unclaim = (3%N, 3%N, 0%N).
Proof. vm_compute. reflexivity. Qed.
Definition bad_pay := mk_trace h0 (ob R f0 b0)
  [ it (Airdrop 1%N 6%N 50 [At 1%N]) (Ok None) (ob R [(0%N,false);(1%N,true);(2%N,false)] [(9%N,940);(5%N,0);(6%N,60)]) ].
(* the airdrop pays more than the leaf amount *)
Example check_bad_pay : check bad_pay = (1%N, 1%N, 0%N).
Proof. vm_compute. reflexivity. Qed.
Definition bad_reject_honest := mk_trace h0 (ob None f0 b0) [ it (Verify [At 3%N] (At 2%N) (At 1%N)) (Ok (Some false)) (ob None f0 b0) ].
(* the honest proof of a leaf is rejected *)
Example check_bad_reject_honest : check bad_reject_honest = (1%N, 1%N, 0%N).
Proof. vm_compute. reflexivity. Qed.
(* flag 0 is left unread after the claim (its key is absent), the ledger jumps, then everything is read *)
Definition u0 := [(1%N,false);(2%N,false)].
Definition good_unread := mk_trace h0 (ob None f0 b0)
  [ it (SetRoot (At 2%N)) (Ok None) (ob R f0 b0);
    it (ClaimS 0%N 5%N 100 [At 3%N]) (Ok None) (ob R u0 b0);
    it (Verify [At 3%N] (At 2%N) (At 1%N)) (Ok (Some true)) (ob R u0 b0);
    it (Advance 600000) (Ok None) (ob R f1 b0);
    it (ClaimS 0%N 5%N 100 [At 3%N]) Fail (ob R f1 b0) ].
Example check_good_unread : check good_unread = (0%N, 0%N, 0%N).
Proof. vm_compute. reflexivity. Qed.
(* the claimed flag lapses while nobody reads it: after the jump it reads false *)
Definition bad_lapse := mk_trace h0 (ob None f0 b0)
  [ it (SetRoot (At 2%N)) (Ok None) (ob R f0 b0);
    it (ClaimS 0%N 5%N 100 [At 3%N]) (Ok None) (ob R u0 b0);
    it (Advance 600000) (Ok None) (ob R f0 b0) ].
Example check_bad_lapse : check bad_lapse = (3%N, 3%N, 0%N).
Proof. vm_compute. reflexivity. Qed.
(* the root lapses *)
Definition bad_root_lapse := mk_trace h0 (ob None f0 b0)
  [ it (SetRoot (At 2%N)) (Ok None) (ob R f0 b0);
    it (Advance 4000000) (Ok None) (ob None f0 b0) ].
Example check_bad_root_lapse : check bad_root_lapse = (2%N, 2%N, 0%N).
Proof. vm_compute. reflexivity. Qed.
(* a getter that traps is printed under an out-of-range key: rejected *)
Definition bad_getter_trap := mk_trace h0 (ob None f0 b0)
  [ it (SetRoot (At 2%N)) (Ok None) (ob R [(1099511627776%N,true);(1%N,false);(2%N,false)] b0) ].
Example check_bad_getter_trap : check bad_getter_trap = (1%N, 1%N, 0%N).
Proof. vm_compute. reflexivity. Qed.
Example good_is_wf : wf_input h0 (ob None f0 b0) (map (fun x => (fst (fst x), map fst (o_cl (snd x)))) (snd good)) = true.
Proof. vm_compute. reflexivity. Qed.


(* ---- traces from the adversarial review ---- *)
(* reviewer c8: the leaf table maps two different leaves to one digest *)
Definition hL := mk_hdr [(1%N,3%N,2%N)] [(0%N,5%N,100,1%N); (0%N,6%N,999,1%N); (1%N,6%N,50,3%N)] [T0] [T0] 9%N.
Definition bad_ltab_collision := mk_trace hL (ob R f0 b0)
  [ it (Airdrop 0%N 6%N 999 [At 3%N]) (Ok None) (ob R f1 [(9%N,1);(5%N,0);(6%N,999)]) ].
Example check_bad_ltab_collision : check bad_ltab_collision = (1%N, 1%N, 0%N).
Proof. vm_compute. reflexivity. Qed.
Definition hL2 := mk_hdr [(1%N,3%N,2%N)] [(7%N,5%N,100,2%N)] [T0] [T0] 9%N.
Definition bad_leaf_is_node := mk_trace hL2 (ob R [(7%N,false)] b0) [ it (ClaimS 7%N 5%N 100 []) (Ok None) (ob R [(7%N,true)] b0) ].
Example check_bad_leaf_is_node : check bad_leaf_is_node = (1%N, 1%N, 0%N).
Proof. vm_compute. reflexivity. Qed.
(* reviewer c1: honest proof refused, no tree declared *)
Definition hN := mk_hdr [(1%N,3%N,2%N)] [] [] [] 9%N.
Definition bad_undeclared := mk_trace hN (ob None [] []) [ it (Verify [At 3%N] (At 2%N) (At 1%N)) (Ok (Some false)) (ob None [] []) ].
Example check_bad_undeclared : check bad_undeclared = (1%N, 1%N, 0%N).
Proof. vm_compute. reflexivity. Qed.
(* reviewer c7: non-injective table *)
Definition hC := mk_hdr [(1%N,3%N,2%N);(4%N,5%N,2%N)] [] [T0] [T0] 9%N.
Definition bad_table := mk_trace hC (ob None [] []) [ it (Verify [At 5%N] (At 2%N) (At 4%N)) (Ok (Some true)) (ob None [] []) ].
Example check_bad_table : check bad_table = (1%N, 1%N, 0%N).
Proof. vm_compute. reflexivity. Qed.
(* duplicate keys in the first observation *)
Definition bad_obs0 := mk_trace h0 (ob None [(0%N,false);(0%N,true)] b0) [ it (Advance 1) (Ok None) (ob None [(0%N,false)] b0) ].
Example check_bad_obs0 : check bad_obs0 = (1%N, 1%N, 0%N).
Proof. vm_compute. reflexivity. Qed.
(* text-liberal outcomes: accepted by the monitor (the diff still reports that the code changed) *)
Definition lib_index_false := mk_trace h0 (ob None f0 b0) [ it (VerifyIdx [At 1%N] (At 2%N) (At 3%N) 3) (Ok (Some false)) (ob None f0 b0) ].
Example check_lib_index_false : check lib_index_false = (1%N, 0%N, 0%N).
Proof. vm_compute. reflexivity. Qed.
(* internal node with its truncated proof: true (the library) and false (hardened) both accepted *)
Definition T1 : tree dg := Nd T0 (Lf (At 5%N)).
Definition h1 := mk_hdr [(1%N,3%N,2%N);(2%N,5%N,4%N)] [] [T1] [T1] 9%N.
Definition lib_internal_true := mk_trace h1 (ob None [] []) [ it (Verify [At 5%N] (At 4%N) (At 2%N)) (Ok (Some true)) (ob None [] []) ;
   it (VerifyIdx [At 5%N] (At 4%N) (At 2%N) 0) (Ok (Some true)) (ob None [] []) ].
Definition lib_internal_false := mk_trace h1 (ob None [] []) [ it (Verify [At 5%N] (At 4%N) (At 2%N)) (Ok (Some false)) (ob None [] []);
   it (VerifyIdx [At 5%N] (At 4%N) (At 2%N) 0) (Ok (Some false)) (ob None [] []) ].
Example check_lib_internal : check lib_internal_true = (0%N, 0%N, 0%N) /\ check lib_internal_false = (1%N, 0%N, 0%N).
Proof. vm_compute. split; reflexivity. Qed.
(* but a LEAF with its honest proof must be accepted, and a non-member refused *)
Definition bad_leaf_refused := mk_trace h1 (ob None [] []) [ it (Verify [At 3%N; At 5%N] (At 4%N) (At 1%N)) (Ok (Some false)) (ob None [] []) ].
Definition bad_nonmember := mk_trace h1 (ob None [] []) [ it (Verify [At 3%N; At 5%N] (At 4%N) (At 7%N)) (Ok (Some true)) (ob None [] []) ].
Example check_bad_leaf_refused : check bad_leaf_refused = (1%N, 1%N, 0%N) /\ check bad_nonmember = (1%N, 1%N, 0%N).
Proof. vm_compute. split; reflexivity. Qed.
(* the depth-32 bound *)
Fixpoint chain (k : nat) : tree dg := match k with O => Lf (At 0%N) | S k' => Nd (Lf (At (N.of_nat k))) (chain k') end.
Definition t33 := chain 32.  Definition path32 := repeat true 32.
Definition hE := mk_hdr [] [] [t33] [t33] 9%N.
Definition d32 (out : outcome) := mk_trace hE (ob None [] [])
  [ it (VerifyIdx (proof_of (Htab []) t33 path32) (troot (Htab []) t33) (At 0%N) (index_of path32)) out (ob None [] []) ].
(* depth 32: the library's trap is accepted (documented bound), so is the answer true; the answer false is not *)
Example check_d32 : check (d32 Fail) = (0%N, 0%N, 0%N) /\ check (d32 (Ok (Some true))) = (1%N, 0%N, 0%N) /\ check (d32 (Ok (Some false))) = (1%N, 1%N, 0%N).
Proof. vm_compute. repeat split; reflexivity. Qed.
(* claim outside the universe *)
Definition bad_outside := mk_trace h0 (ob R f0 b0) [ it (ClaimS 9%N 5%N 100 [At 3%N]) Fail (ob R f0 b0) ].
Example check_bad_outside : check bad_outside = (1%N, 1%N, 0%N).
Proof. vm_compute. reflexivity. Qed.

End Examples.
