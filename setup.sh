#!/bin/sh
# Build the framework from files on disk only (offline): Coq development, Rust harness.
set -e
cd "$(dirname "$0")"
export RUSTUP_TOOLCHAIN=stable-x86_64-unknown-linux-gnu CARGO_NET_OFFLINE=true CARGO_TARGET_DIR="$PWD/.cache/target"
mkdir -p .cache evidence replay
cd coq
coq_makefile -f _CoqProject -o Makefile $(find . -name '*.v' | sed 's|^\./||' | sort) >/dev/null
find . -name '*.v' | sed 's|^\./||' | sort | python3 -c "import sys,hashlib;print(hashlib.sha256('\n'.join(l.strip() for l in sys.stdin).encode()).hexdigest(),end='')" > .files.stamp
# -k: one property's broken file must not take the others down (each check rebuilds its own closure)
timeout 7200 make -k -j16 >/dev/null 2>../.cache/coq-build.log || { tail -30 ../.cache/coq-build.log; echo "(some Coq files failed in setup; each check rebuilds its own closure)"; }
cd ../harness
cp /repo/Cargo.lock Cargo.lock 2>/dev/null || true
for b in src/bin/*.rs; do
  n=$(basename "$b" .rs)
  timeout 3600 cargo build --offline --release --bin "$n" 2>>../.cache/cargo-build.log >/dev/null || echo "(harness bin $n failed to build in setup; its check rebuilds it)"
done
echo setup-ok
