#!/bin/sh
# Build the framework from files on disk only (offline): Coq development, Rust harness.
set -e
cd "$(dirname "$0")"
export RUSTUP_TOOLCHAIN=stable-x86_64-unknown-linux-gnu CARGO_NET_OFFLINE=true CARGO_TARGET_DIR="$PWD/.cache/target"
mkdir -p .cache evidence replay
cd coq
coq_makefile -f _CoqProject -o Makefile $(find . -name '*.v' | sed 's|^\./||' | sort) >/dev/null
find . -name '*.v' | sed 's|^\./||' | sort | python3 -c "import sys,hashlib;print(hashlib.sha256('\n'.join(l.strip() for l in sys.stdin).encode()).hexdigest(),end='')" > .files.stamp
timeout 7200 make -j16 >/dev/null 2>../.cache/coq-build.log || { tail -50 ../.cache/coq-build.log; exit 1; }
cd ../harness
cp /repo/Cargo.lock Cargo.lock 2>/dev/null || true
timeout 7200 cargo build --offline --release --bins 2>../.cache/cargo-build.log >/dev/null || { tail -50 ../.cache/cargo-build.log; echo "(harness build failed in setup; each check rebuilds its own binary)"; }
echo setup-ok
