//! C07 correspondence harness: the two-step ownership / admin handshake of the REAL example
//! contracts (examples/ownable, examples/nft-access-control) inside the Soroban test host,
//! with exact authorisation sets, explicit ledger movement and min_temp_entry_ttl = 1.
//! Third wiring of the same handshake: examples/fungible-votes (`impl Ownable` + `#[only_owner] mint`), printed as kind Own.
//! Address universe = `naddr` plain accounts (authorise by an exact mock auth entry) + two SPECIAL parties:
//!   index naddr     = the contract under test ITSELF (nothing can authorise for it: no __check_auth, no re-entrancy -
//!                     it therefore never occurs in an authorisation set),
//!   index naddr + 1 = another contract (a forwarder), which authorises the way contracts do: by being the DIRECT INVOKER
//!                     (a call whose authorisation set contains it is routed through it; the accounts' entries are then
//!                     rooted at the inner invocation).
//! Each of them can be the constructor's holder, the addressee of an offer / cancel, and (the forwarder) a signer.
#![allow(clippy::too_many_arguments)]
use soroban_sdk::testutils::storage::Temporary as _;
use soroban_sdk::testutils::{Address as _, Ledger as _, MockAuth, MockAuthInvoke};
use soroban_sdk::{Address, Env, IntoVal, String, Symbol, TryFromVal, Val};
use stellar_access::access_control::AccessControlStorageKey;
use stellar_access::ownable::OwnableStorageKey;
use vh::*;

#[path = "/repo/examples/ownable/src/contract.rs"]
mod ownable_ex;
#[path = "/repo/examples/nft-access-control/src/contract.rs"]
mod ac_ex;

mod votes_ex {
    #![allow(dead_code)]
    #[path = "/repo/examples/fungible-votes/src/contract.rs"]
    pub mod contract;
}
/// the forwarder: a contract that is a party of the handshake; it authorises by invoking directly
mod fwd {
    use soroban_sdk::{contract, contractimpl, Address, Env, Symbol, Val, Vec};
    #[contract]
    pub struct Fwd;
    #[contractimpl]
    impl Fwd {
        pub fn fwd(e: Env, target: Address, f: Symbol, args: Vec<Val>) -> Val { e.invoke_contract::<Val>(&target, &f, args) }
    }
}

type V<T> = std::vec::Vec<T>;

#[derive(Clone, Copy, PartialEq)]
enum Kind { Own, AC, Votes }
impl Kind { fn tag(self) -> &'static str { match self { Kind::Own => "own", Kind::AC => "ac", Kind::Votes => "votes" } } }

struct World {
    e: Env,
    kind: Kind,
    cid: Address,
    addrs: V<Address>,   // accounts 0..naddr-1, then the contract itself (slf), then the forwarder contract (fwd)
    slf: usize,
    fwd: usize,
    h0: usize,           // the constructor's holder
    now: u32,
    start: u32,
    min_ttl: u32,
    max_ttl: u32,
    items: V<std::string::String>,
    // generator-side memory (never printed): live_untils of all offers made so far
    lus: V<u32>,
    // the constructor trapped: the trace consists of one impossible observation (flagged by diff and monitor)
    dead: bool,
    // generator-side tracking for the situation labels (never printed)
    t_new: Option<usize>,      // addressee of the latest successful offer not yet cancelled / accepted
    t_lu: Option<u32>,         // its own live_until
    t_replaced: Option<usize>, // the addressee that offer replaced
    t_cancelled: Option<usize>,
    t_accepted: Option<usize>,
}

#[derive(Clone, Debug)]
enum Call { Offer(usize, u32, V<usize>), Accept(V<usize>), Renounce(V<usize>), Guarded(V<usize>), Advance(u32),
            /// AccessControl's sibling gate for the admin: set_role_admin (its own `admin.require_auth()`, not enforce_admin_auth);
            /// printed as Guarded (same clause: runs exactly with the current holder's authorisation). Own / Votes: = Guarded
            Guarded2(V<usize>) }

fn auths_s(a: &[usize]) -> std::string::String { list(&a.iter().map(|i| n(*i as u64)).collect::<V<_>>()) }

impl World {
    fn new(kind: Kind, naddr: usize, start: u32, min_ttl: u32, max_ttl: u32) -> World { World::new_cfg(kind, naddr, start, min_ttl, max_ttl, std::cmp::min(max_ttl, 4096)) }
    /// min_persist: ledger info min_persistent_entry_ttl (lifetime of the contract instance / code entries in the test host)
    fn new_cfg(kind: Kind, naddr: usize, start: u32, min_ttl: u32, max_ttl: u32, min_persist: u32) -> World { World::new_h(kind, naddr, start, min_ttl, max_ttl, min_persist, 0) }
    /// h0: index (in the extended universe) of the holder handed to the constructor: an account, naddr = the contract itself
    /// (self-governed deployment at a pre-computed address), naddr + 1 = the forwarder contract
    fn new_h(kind: Kind, naddr: usize, start: u32, min_ttl: u32, max_ttl: u32, min_persist: u32, h0: usize) -> World {
        let e = Env::default();
        e.cost_estimate().budget().reset_unlimited();
        e.cost_estimate().disable_resource_limits();
        e.ledger().with_mut(|l| {
            l.sequence_number = start;
            l.min_temp_entry_ttl = min_ttl;
            l.max_entry_ttl = max_ttl;
            l.min_persistent_entry_ttl = min_persist;
        });
        let mut addrs: V<Address> = (0..naddr).map(|_| Address::generate(&e)).collect();
        let cid = Address::generate(&e);
        let fwd_addr = e.register(fwd::Fwd, ());
        addrs.push(cid.clone());
        addrs.push(fwd_addr);
        let (slf, fwd) = (naddr, naddr + 1);
        let h0a = addrs[h0].clone();
        let reg = std::panic::catch_unwind(std::panic::AssertUnwindSafe(|| match kind {
            Kind::Own => e.register_at(&cid, ownable_ex::ExampleContract, (h0a.clone(),)),
            Kind::Votes => e.register_at(&cid, votes_ex::contract::ExampleContract, (h0a.clone(),)),
            Kind::AC => e.register_at(
                &cid,
                ac_ex::ExampleContract,
                (String::from_str(&e, "u"), String::from_str(&e, "n"), String::from_str(&e, "s"), h0a.clone()),
            ),
        }));
        let w = World { e, kind, cid, addrs, slf, fwd, h0, now: start, start, min_ttl, max_ttl, items: vec![], lus: vec![], dead: false, t_new: None, t_lu: None, t_replaced: None, t_cancelled: None, t_accepted: None };
        match reg {
            Ok(_) => w,
            Err(_) => { let e = Env::default(); let cid = Address::generate(&e); World { e, cid, addrs: vec![], dead: true, ..w } }
        }
    }
    fn header(&self) -> std::string::String {
        format!("(Build_header {} {} {} {} (Some {}))", if self.kind == Kind::AC { "AC" } else { "Own" }, self.min_ttl, self.max_ttl, self.start, n(self.h0 as u64))
    }
    fn idx(&self, a: &Address) -> u64 { self.addrs.iter().position(|x| x == a).unwrap_or(999) as u64 }
    /// the public getter; a trapping getter becomes the sentinel Some(998) (never an abort)
    fn holder(&self) -> Option<usize> {
        if self.dead { return None; }
        let h = match self.kind {
            Kind::Own => match ownable_ex::ExampleContractClient::new(&self.e, &self.cid).try_get_owner() { Ok(Ok(h)) => h, _ => return Some(998) },
            Kind::Votes => match votes_ex::contract::ExampleContractClient::new(&self.e, &self.cid).try_get_owner() { Ok(Ok(h)) => h, _ => return Some(998) },
            Kind::AC => match ac_ex::ExampleContractClient::new(&self.e, &self.cid).try_get_admin() { Ok(Ok(h)) => h, _ => return Some(998) },
        };
        h.map(|a| self.idx(&a) as usize)
    }
    /// test-only look at the pending entry: (address, live_until) if live
    fn pending(&self) -> Option<(usize, u32)> {
        if self.dead { return None; }
        let e = &self.e;
        let kind = self.kind;
        let r: Option<(Address, u32)> = std::panic::catch_unwind(std::panic::AssertUnwindSafe(|| e.as_contract(&self.cid, || match kind {
            Kind::Own | Kind::Votes => {
                let k = OwnableStorageKey::PendingOwner;
                e.storage().temporary().get::<_, Address>(&k).map(|a| (a, e.storage().temporary().get_ttl(&k)))
            }
            Kind::AC => {
                let k = AccessControlStorageKey::PendingAdmin;
                e.storage().temporary().get::<_, Address>(&k).map(|a| (a, e.storage().temporary().get_ttl(&k)))
            }
        }))).unwrap_or(None);
        r.map(|(a, ttl)| (self.idx(&a) as usize, self.now.saturating_add(ttl)))
    }
    fn obs(&self) -> std::string::String {
        let h = self.holder();
        let p = self.pending();
        pair(&opt(h.map(|i| n(i as u64))), &opt(p.map(|(a, l)| pair(&n(a as u64), &z(l as i128)))))
    }
    /// exact authorisation entries for the accounts in `auths`; the forwarder authorises by invoking (see via_fwd), and
    /// nothing can authorise for the contract itself (mock_auths would REPLACE a registered contract by a mock account)
    fn mock(&self, fn_name: &str, args: soroban_sdk::Vec<Val>, auths: &[usize]) {
        assert!(!auths.contains(&self.slf), "the contract under test cannot be a signer");
        let inv = MockAuthInvoke { contract: &self.cid, fn_name, args, sub_invokes: &[] };
        let mas: V<MockAuth> = auths.iter().filter(|&&i| i != self.fwd).map(|&i| MockAuth { address: &self.addrs[i], invoke: &inv }).collect();
        self.e.mock_auths(&mas);
    }
    /// the same invocation made BY the forwarder contract (the direct invoker of the contract under test)
    fn via_fwd(&self, fn_name: &str, args: soroban_sdk::Vec<Val>) -> Option<Val> {
        match fwd::FwdClient::new(&self.e, &self.addrs[self.fwd]).try_fwd(&self.cid, &Symbol::new(&self.e, fn_name), &args) { Ok(Ok(v)) => Some(v), _ => None }
    }
    /// executes one call on the real contract, appends (call, outcome, observation)
    fn exec(&mut self, out: &mut Out, c: &Call) -> bool {
        if self.dead { return false; }
        let e = self.e.clone();
        let (holder0, pend0, now0) = (self.holder(), self.pending(), self.now);
        let c = &match c { Call::Guarded2(au) if self.kind != Kind::AC => Call::Guarded(au.clone()), _ => c.clone() };
        let (text, res, label): (std::string::String, Option<i128>, &str) = match c {
            Call::Offer(new, lu, au) => {
                let newa = self.addrs[*new].clone();
                let args: soroban_sdk::Vec<Val> = (newa.clone(), *lu).into_val(&e);
                let f = if self.kind == Kind::AC { "transfer_admin_role" } else { "transfer_ownership" };
                self.mock(f, args.clone(), au);
                let ok = if au.contains(&self.fwd) { self.via_fwd(f, args).is_some() } else { match self.kind {
                    Kind::Own => matches!(ownable_ex::ExampleContractClient::new(&e, &self.cid).try_transfer_ownership(&newa, lu), Ok(Ok(()))),
                    Kind::Votes => matches!(votes_ex::contract::ExampleContractClient::new(&e, &self.cid).try_transfer_ownership(&newa, lu), Ok(Ok(()))),
                    Kind::AC => matches!(ac_ex::ExampleContractClient::new(&e, &self.cid).try_transfer_admin_role(&newa, lu), Ok(Ok(()))),
                } };
                if ok && *lu != 0 { self.lus.push(*lu); }
                (format!("Offer {} {} {}", n(*new as u64), lu, auths_s(au)), if ok { Some(0) } else { None }, if *lu == 0 { "cancel" } else { "offer" })
            }
            Call::Accept(au) => {
                let args: soroban_sdk::Vec<Val> = ().into_val(&e);
                let f = if self.kind == Kind::AC { "accept_admin_transfer" } else { "accept_ownership" };
                self.mock(f, args.clone(), au);
                let ok = if au.contains(&self.fwd) { self.via_fwd(f, args).is_some() } else { match self.kind {
                    Kind::Own => matches!(ownable_ex::ExampleContractClient::new(&e, &self.cid).try_accept_ownership(), Ok(Ok(()))),
                    Kind::Votes => matches!(votes_ex::contract::ExampleContractClient::new(&e, &self.cid).try_accept_ownership(), Ok(Ok(()))),
                    Kind::AC => matches!(ac_ex::ExampleContractClient::new(&e, &self.cid).try_accept_admin_transfer(), Ok(Ok(()))),
                } };
                (format!("Accept {}", auths_s(au)), if ok { Some(0) } else { None }, "accept")
            }
            Call::Renounce(au) => {
                let args: soroban_sdk::Vec<Val> = ().into_val(&e);
                let f = if self.kind == Kind::AC { "renounce_admin" } else { "renounce_ownership" };
                self.mock(f, args.clone(), au);
                let ok = if au.contains(&self.fwd) { self.via_fwd(f, args).is_some() } else { match self.kind {
                    Kind::Own => matches!(ownable_ex::ExampleContractClient::new(&e, &self.cid).try_renounce_ownership(), Ok(Ok(()))),
                    Kind::Votes => matches!(votes_ex::contract::ExampleContractClient::new(&e, &self.cid).try_renounce_ownership(), Ok(Ok(()))),
                    Kind::AC => matches!(ac_ex::ExampleContractClient::new(&e, &self.cid).try_renounce_admin(), Ok(Ok(()))),
                } };
                (format!("Renounce {}", auths_s(au)), if ok { Some(0) } else { None }, "renounce")
            }
            Call::Guarded(au) => {
                let via = au.contains(&self.fwd);
                let r = match self.kind {
                    Kind::Own => {
                        let args: soroban_sdk::Vec<Val> = ().into_val(&e);
                        self.mock("increment", args.clone(), au);
                        if via { self.via_fwd("increment", args).and_then(|v| i32::try_from_val(&e, &v).ok()).map(|v| v as i128) }
                        else { match ownable_ex::ExampleContractClient::new(&e, &self.cid).try_increment() { Ok(Ok(v)) => Some(v as i128), _ => None } }
                    }
                    Kind::Votes => {
                        // #[only_owner] mint of ONE unit to account 0; the value reported for a successful call is the total supply
                        // read back through the public getter = the number of successful guarded calls (the model's counter)
                        let to = self.addrs[0].clone();
                        let args: soroban_sdk::Vec<Val> = (to.clone(), 1i128).into_val(&e);
                        self.mock("mint", args.clone(), au);
                        let cl = votes_ex::contract::ExampleContractClient::new(&e, &self.cid);
                        let ok = if via { self.via_fwd("mint", args).is_some() } else { matches!(cl.try_mint(&to, &1i128), Ok(Ok(()))) };
                        if ok { match cl.try_total_supply() { Ok(Ok(v)) => Some(v), _ => Some(-1) } } else { None }
                    }
                    Kind::AC => {
                        let args: soroban_sdk::Vec<Val> = ().into_val(&e);
                        self.mock("admin_restricted_function", args.clone(), au);
                        if via { self.via_fwd("admin_restricted_function", args).map(|_| 0) }
                        else { match ac_ex::ExampleContractClient::new(&e, &self.cid).try_admin_restricted_function() { Ok(Ok(_)) => Some(0), _ => None } }
                    }
                };
                (format!("Guarded {}", auths_s(au)), r, "guarded")
            }
            Call::Guarded2(au) => {
                // AccessControl::set_role_admin: `admin.require_auth()` of its own (kind AC only, see above)
                let (role, adm) = (Symbol::new(&e, "minter"), Symbol::new(&e, "manager"));
                let args: soroban_sdk::Vec<Val> = (role.clone(), adm.clone()).into_val(&e);
                self.mock("set_role_admin", args.clone(), au);
                let ok = if au.contains(&self.fwd) { self.via_fwd("set_role_admin", args).is_some() }
                         else { matches!(ac_ex::ExampleContractClient::new(&e, &self.cid).try_set_role_admin(&role, &adm), Ok(Ok(()))) };
                out.label(if ok { "guarded-sibling-gate/ok" } else { "guarded-sibling-gate/fail" });
                (format!("Guarded {}", auths_s(au)), if ok { Some(0) } else { None }, "guarded")
            }
            Call::Advance(k) => {
                self.now += *k;
                let nw = self.now;
                e.ledger().with_mut(|l| l.sequence_number = nw);
                if *k >= 17281 { out.label("advance-long/ok"); }
                (format!("Advance {}", n(*k as u64)), Some(0), "advance")
            }
        };
        self.e.mock_auths(&[]);
        let outs = match res { Some(v) => format!("(Ok {})", z(v)), None => "Fail".to_string() };
        out.case(&format!("{}/{}", label, if res.is_some() { "ok" } else { "fail" }), &format!("{} @{} {}", text, self.now, self.items.len()));
        out.label(&format!("{}:{}/{}", self.kind.tag(), label, if res.is_some() { "ok" } else { "fail" }));
        self.items.push(format!("({}, {}, {})", text, outs, self.obs()));
        self.situation(out, c, res.is_some(), holder0, pend0, now0);
        res.is_some()
    }
    /// situation labels (coverage gate) and the tracking behind them; uses only what was observed before the call
    fn situation(&mut self, out: &mut Out, c: &Call, ok: bool, holder0: Option<usize>, pend0: Option<(usize, u32)>, now0: u32) {
        let own_dead = self.t_lu.map(|l| l < now0).unwrap_or(false);
        let signed_holder = |au: &V<usize>| holder0.map(|h| au.contains(&h)).unwrap_or(false);
        match c {
            Call::Offer(new, lu, au) if *lu != 0 => {
                if ok {
                    match pend0 { Some((_, l)) => out.label(if *lu < l { "offer-shorter-over-stored/ok" } else if *lu == l { "offer-equal-over-stored/ok" } else { "offer-longer-over-stored/ok" }), None => out.label("offer-fresh/ok") }
                    if Some(*new) == holder0 { out.label("offer-to-self/ok"); }
                    self.t_replaced = if pend0.is_some() { self.t_new } else { None };
                    self.t_new = Some(*new); self.t_lu = Some(*lu); self.t_cancelled = None; self.t_accepted = None;
                } else if !signed_holder(au) { out.label("offer-without-holder-auth/fail"); }
                else if *lu < now0 { out.label("offer-live-until-past/fail"); }
                else if *lu > now0 + self.max_ttl - 1 { out.label("offer-beyond-max/fail"); }
                if ok && *lu == now0 { out.label("offer-live-until-now/ok"); }
                if now0 == 0 { out.label(if ok { "offer-at-ledger-zero/ok" } else { "offer-at-ledger-zero/fail" }); }
                if ok && *lu == now0 + self.max_ttl - 1 { out.label("offer-live-until-max/ok"); }
            }
            Call::Offer(new, _, au) => {
                if ok { self.t_cancelled = self.t_new; self.t_new = None; self.t_lu = None; self.t_replaced = None; }
                else if signed_holder(au) && pend0.map(|p| p.0 != *new).unwrap_or(false) { out.label("cancel-wrong-account/fail"); }
                else if signed_holder(au) && pend0.is_none() { out.label("cancel-nothing-pending/fail"); }
                else if !signed_holder(au) && pend0.is_some() { out.label("cancel-without-holder-auth/fail"); }
            }
            Call::Accept(au) => {
                let by_addressee = self.t_new.map(|a| au.contains(&a)).unwrap_or(false);
                if ok {
                    if own_dead { out.label("accept-after-own-live-until/ok"); }
                    if self.t_lu == Some(now0) { out.label("accept-at-live-until/ok"); }
                    if au.len() >= 2 { out.label("accept-with-extra-signers/ok"); }
                    self.t_accepted = self.t_new; self.t_new = None; self.t_lu = None; self.t_replaced = None; self.t_cancelled = None;
                } else {
                    if pend0.is_some() && !pend0.map(|p| au.contains(&p.0)).unwrap_or(false) { out.label("accept-unauthorised/fail"); }
                    if pend0.is_none() && own_dead { out.label("accept-expired/fail"); }
                    if pend0.is_none() && own_dead && by_addressee { out.label("accept-by-addressee-after-live-until/fail"); }
                    if pend0.is_none() && by_addressee && self.t_lu.map(|l| l.checked_add(1) == Some(now0)).unwrap_or(false) { out.label("accept-by-addressee-at-live-until-plus-1/fail"); }
                    if self.t_replaced.map(|a| au.contains(&a) && Some(a) != self.t_new).unwrap_or(false) && pend0.is_some() { out.label("accept-by-replaced-addressee/fail"); }
                    if self.t_cancelled.map(|a| au.contains(&a)).unwrap_or(false) && pend0.is_none() { out.label("accept-after-cancel/fail"); }
                    if self.t_accepted.map(|a| au.contains(&a)).unwrap_or(false) && pend0.is_none() { out.label("accept-twice/fail"); }
                    if holder0.is_none() { out.label("accept-after-renounce/fail"); }
                }
            }
            Call::Renounce(au) => {
                if !ok && pend0.is_some() && signed_holder(au) { out.label(if own_dead { "renounce-in-known-window/fail" } else { "renounce-while-pending/fail" }); }
                if ok && own_dead { out.label("renounce-after-expiry/ok"); }
                if !ok && holder0.is_some() && !signed_holder(au) { out.label("renounce-without-holder-auth/fail"); }
            }
            Call::Guarded(au) | Call::Guarded2(au) => {
                if ok && pend0.is_some() { out.label("guarded-while-pending/ok"); }
                if !ok && holder0.is_none() { out.label("guarded-after-renounce/fail"); }
                if !ok && pend0.map(|p| au.contains(&p.0)).unwrap_or(false) { out.label("guarded-by-pending/fail"); }
            }
            Call::Advance(_) => {}
        }
        self.special(out, c, ok, holder0, pend0);
    }
    /// labels of the situations with a SPECIAL party (the contract itself / another contract acting as direct invoker); each is
    /// emitted per wiring (own: / ac: / votes:) so that the gate demands every one of them on every contract
    fn special(&mut self, out: &mut Out, c: &Call, ok: bool, holder0: Option<usize>, pend0: Option<(usize, u32)>) {
        let (slf, fwd, tag) = (self.slf, self.fwd, self.kind.tag());
        let okf = if ok { "ok" } else { "fail" };
        let mut lab = |name: &str| out.label(&format!("{}:{}/{}", tag, name, okf));
        let self_owned = holder0 == Some(slf);
        let h_fwd = holder0 == Some(fwd);
        let p = pend0.map(|p| p.0);
        let signed_holder = |au: &V<usize>| holder0.map(|h| au.contains(&h)).unwrap_or(false);
        match c {
            Call::Offer(new, lu, au) => {
                let via = au.contains(&fwd);
                let kind = if *lu == 0 { "cancel" } else { "offer" };
                if self_owned { lab(&format!("self-owned-{}", kind)); }
                if *new == slf && signed_holder(au) { lab(&format!("{}-to-contract-itself", kind)); }
                if *new == fwd && signed_holder(au) { lab(&format!("{}-to-other-contract", kind)); }
                if h_fwd { lab(&format!("{}-by-contract-holder-{}", kind, if via { "as-invoker" } else { "not-invoker" })); }
                else if via && !self_owned { lab(&format!("{}-via-other-contract-{}", kind, if signed_holder(au) { "with-holder-auth" } else { "without-holder-auth" })); }
            }
            Call::Accept(au) => {
                let via = au.contains(&fwd);
                if self_owned { lab("self-owned-accept"); }
                if p == Some(slf) { lab("accept-offer-to-contract-itself"); }
                if p == Some(fwd) { lab(if via { "accept-by-contract-addressee-as-invoker" } else { "accept-contract-addressee-not-invoker" }); }
                else if via && p.is_some() { lab(if p.map(|a| au.contains(&a)).unwrap_or(false) { "accept-via-other-contract-with-addressee-auth" } else { "accept-via-other-contract-without-addressee-auth" }); }
            }
            Call::Renounce(au) => {
                let via = au.contains(&fwd);
                if self_owned { lab("self-owned-renounce"); }
                if p == Some(slf) && signed_holder(au) { lab("renounce-while-pending-to-contract-itself"); }
                if h_fwd { lab(if via { "renounce-by-contract-holder-as-invoker" } else { "renounce-contract-holder-not-invoker" }); }
                else if via && !self_owned { lab(if signed_holder(au) { "renounce-via-other-contract-with-holder-auth" } else { "renounce-via-other-contract-without-holder-auth" }); }
            }
            Call::Guarded(au) | Call::Guarded2(au) => {
                let via = au.contains(&fwd);
                if self_owned { lab("self-owned-guarded"); }
                if h_fwd { lab(if via { "guarded-by-contract-holder-as-invoker" } else { "guarded-contract-holder-not-invoker" }); }
                else if via && !self_owned { lab(if signed_holder(au) { "guarded-via-other-contract-with-holder-auth" } else { "guarded-via-other-contract-without-holder-auth" }); }
            }
            Call::Advance(_) => {}
        }
    }
    fn flush(mut self, out: &mut Out, desc: &str) {
        if self.dead { out.label("constructor/trap"); self.items = vec!["(Advance 0%N, Fail, (Some 998%N, None))".to_string()]; }
        let nn = self.items.len();
        let term = format!("(({}, {}) : trace)", self.header(), list(&self.items));
        out.trace(desc, term, nn);
    }
}

/// authorisation subset for a call whose needed principal is `principal`: the principal alone, with one or two extra
/// signers, duplicated, missing, somebody else, the counterpart (`alt`), everybody
fn pick_auths(rng: &mut Rng, principal: Option<usize>, alt: Option<usize>, naddr: usize) -> V<usize> {
    let other = rng.below(naddr as u64) as usize;
    let other2 = rng.below(naddr as u64) as usize;
    match (principal, rng.below(100)) {
        (Some(p), 0..=59) => vec![p],
        (Some(p), 60..=65) => vec![p, other],
        (Some(p), 66..=70) => vec![other, p],
        (Some(p), 71..=73) => vec![other, other2, p],
        (Some(p), 74..=75) => vec![p, p],
        (Some(p), 76..=77) => match alt { Some(a) => vec![p, a], None => vec![p] },
        (_, 78..=83) => vec![],
        (_, 84..=91) => match alt { Some(a) if Some(a) != principal => vec![a], _ => if Some(other) != principal { vec![other] } else { vec![] } },
        (Some(p), 92..=94) => (0..naddr).filter(|x| *x != p).collect(),
        _ => if Some(other) != principal { vec![other] } else { vec![] },
    }
}

/// one adaptive random trace
fn random_trace(out: &mut Out, rng: &mut Rng, kind: Kind, len: usize, desc: &str) {
    let naddr = 4usize;
    // host configurations: tiny / small max_entry_ttl, min_temp_entry_ttl 16, the test host's defaults, everything long-lived
    // min_temp_entry_ttl = 1 as C07 prescribes (with a larger minimum a short offer's entry outlives its live_until: the documented
    // caveat of transfer_role, outside the property)
    let (min_ttl, max_ttl, min_persist) = match rng.below(12) { 0 | 1 => (1u32, 40u32, 40u32), 2 | 3 => (1, 300, 300), 4 | 5 => (1, 6_312_000, 4096), 6 => (1, 8_000_000, 7_999_999), _ => (1, 5000, 4096) };
    let start = 100 + rng.below(50) as u32;
    // the constructor's holder: an account, the contract itself (self-governed), another contract
    let h0 = match rng.below(20) { 0 => naddr, 1..=3 => naddr + 1, _ => 0 };
    let mut w = World::new_h(kind, naddr, start, min_ttl, max_ttl, min_persist, h0);
    let (slf, fwd) = (w.slf, w.fwd);
    let mut last_lu: Option<u32> = None;
    for step in 0..len {
        if w.dead { break; }
        let holder = w.holder();
        let pend = w.pending();
        let pa = pend.map(|p| p.0);
        let now = w.now;
        let maxl = now + max_ttl - 1;
        let r = rng.below(100);
        // a party: mostly an account, sometimes the contract itself / the other contract
        let rnd = match rng.below(12) { 0 => slf, 1 => fwd, _ => rng.below(naddr as u64) as usize };
        let call = if r < 30 {
            // offer
            let new = match rng.below(10) { 0 => holder.unwrap_or(0), 1 | 2 => pa.unwrap_or(1), _ => rnd };
            let mut cands: V<i64> = vec![now as i64, now as i64 + 1, now as i64 + rng.range(2, 20), now as i64 + rng.range(20, 300),
                                         maxl as i64 - 1, maxl as i64, maxl as i64 + 1];
            if now > 1 { cands.push(now as i64 - 1); cands.push(rng.range(1, now as i64)); }
            if let Some((_, l)) = pend {
                for d in [-1i64, 0, 1] { cands.push(l as i64 + d); }
                cands.push((now as i64 + l as i64) / 2); cands.push(now as i64 + 1); cands.push(now as i64 + rng.range(0, 5));
            }
            if let Some(l) = last_lu { for d in [-1i64, 0, 1] { cands.push(l as i64 + d); } }
            for l in w.lus.iter().rev().take(3) { cands.push(*l as i64 + rng.range(-1, 1)); }
            if rng.chance(1, 40) { cands.push(u32::MAX as i64); cands.push(u32::MAX as i64 - 1); }
            let mut lu = *rng.pick(&cands);
            if lu < 1 { lu = 1; }
            let au = pick_auths(rng, holder, pa, naddr);
            Call::Offer(new, lu as u32, au)
        } else if r < 38 {
            // cancel
            let new = if rng.chance(1, 5) { rnd } else { pa.unwrap_or(rnd) };
            let au = pick_auths(rng, holder, pa, naddr);
            Call::Offer(new, 0, au)
        } else if r < 58 {
            // the addressee (also after its offer lapsed), sometimes the replaced one
            let who = if rng.chance(1, 8) { w.t_replaced.or(w.t_new) } else { pa.or(w.t_new) };
            let au = pick_auths(rng, who.or(Some(rnd)), holder, naddr);
            Call::Accept(au)
        } else if r < 70 {
            let au = pick_auths(rng, holder, pa, naddr);
            Call::Guarded(au)
        } else if r < 76 {
            // renounce: with the holder's auth mostly while an offer is stored, or at the end of the trace
            let au = if pend.is_some() || (step + 5 > len && rng.chance(1, 2)) || rng.chance(1, 25) {
                pick_auths(rng, holder, pa, naddr)
            } else if Some(rnd) == holder || rng.chance(1, 4) { vec![] } else { vec![rnd] };
            Call::Renounce(au)
        } else {
            // advance: aim at the boundaries of the latest offer, of the stored entry and of older offers
            let mut targets: V<i64> = vec![];
            if let Some(l) = last_lu { for d in [-1i64, 0, 1] { targets.push(l as i64 + d); } }
            if let Some((_, l)) = pend { for d in [-1i64, 0, 1] { targets.push(l as i64 + d); } targets.push((now as i64 + l as i64) / 2); }
            for l in w.lus.iter().rev().take(4) { targets.push(*l as i64); targets.push(*l as i64 + 1); }
            targets.retain(|t| *t >= now as i64 && *t <= now as i64 + 7_000_000);
            // besides the boundaries: very long gaps in ONE step (the holder must not lapse, the offer must)
            let k = if rng.chance(1, 7) { *rng.pick(&[20u32, 100, 17281, 20000, 600000, 4_000_000]) }
                    else if !targets.is_empty() && rng.chance(3, 4) { (*rng.pick(&targets) - now as i64) as u32 } else { rng.below(4) as u32 };
            Call::Advance(k)
        };
        // signer sets: the contract itself can never sign; the other contract signs by being the invoker - also on top of any set
        let fix = |mut au: V<usize>, extra: bool| { au.retain(|x| *x != slf); if extra && !au.contains(&fwd) { au.push(fwd); } au };
        let extra = rng.chance(1, 9);
        let call = match call {
            Call::Offer(a, l, au) => Call::Offer(a, l, fix(au, extra)), Call::Accept(au) => Call::Accept(fix(au, extra)),
            Call::Renounce(au) => Call::Renounce(fix(au, extra)),
            Call::Guarded(au) => if rng.chance(1, 3) { Call::Guarded2(fix(au, extra)) } else { Call::Guarded(fix(au, extra)) },
            c => c,
        };
        w.exec(out, &call);
        last_lu = w.t_lu;
    }
    w.flush(out, desc);
}

fn scripted(out: &mut Out, kind: Kind, start: u32, min_ttl: u32, max_ttl: u32, calls: &[Call], desc: &str) {
    let mut w = World::new(kind, 4, start, min_ttl, max_ttl);
    for c in calls { w.exec(out, c); }
    w.flush(out, desc);
}
/// directed history on a contract whose constructor got holder `h0` (4 accounts; 4 = the contract itself, 5 = the other contract)
fn scripted_h(out: &mut Out, kind: Kind, h0: usize, calls: &[Call], desc: &str) {
    let mut w = World::new_h(kind, 4, 100, 1, 5000, 4096, h0);
    for c in calls { w.exec(out, c); }
    w.flush(out, desc);
}

fn main() {
    let mut out = Out::new("From SC Require Import Lib.Prelude Lib.Int Lib.Host Model.RoleTransfer Run.C07.\nOpen Scope Z_scope.", "check_all");
    out.per_shard(900);
    let mut rng = Rng::new(out.cfg.seed);
    let thorough = out.cfg.thorough;
    use Call::*;
    let directed_only = std::env::var("VERIF_DIRECTED_ONLY").is_ok();
    for kind in [Kind::Own, Kind::AC, Kind::Votes] {
        // the known finding F2: offer A until 1000, offer B until 110, ledger 500, B accepts
        scripted(&mut out, kind, 100, 1, 5000, &[Offer(1, 1000, vec![0]), Offer(2, 110, vec![0]), Advance(400), Accept(vec![2]), Guarded(vec![2]), Guarded(vec![0])], "corpus/F2-known");
        // the same shape, but the window is left before accepting: dead
        scripted(&mut out, kind, 100, 1, 5000, &[Offer(1, 1000, vec![0]), Offer(2, 110, vec![0]), Advance(901), Accept(vec![2]), Guarded(vec![0]), Renounce(vec![0])], "corpus/F2-window-over");
        // F2 window: renounce still refused, cancel succeeds (harmless), then nothing to accept
        scripted(&mut out, kind, 100, 1, 5000, &[Offer(1, 1000, vec![0]), Offer(2, 110, vec![0]), Advance(400), Renounce(vec![0]), Offer(2, 0, vec![0]), Accept(vec![2]), Renounce(vec![0]), Guarded(vec![0])], "corpus/F2-window-cancel");
        // a fresh offer until 510 is dead at 511
        scripted(&mut out, kind, 100, 1, 5000, &[Advance(400), Offer(1, 510, vec![0]), Advance(10), Guarded(vec![0]), Guarded(vec![1]), Advance(1), Accept(vec![1]), Renounce(vec![0]), Guarded(vec![0]), Offer(1, 600, vec![0]), Accept(vec![1])], "corpus/fresh-510-dead-at-511");
        scripted(&mut out, kind, 100, 1, 5000, &[Advance(400), Offer(1, 510, vec![0]), Advance(10), Accept(vec![1]), Guarded(vec![1]), Guarded(vec![0]), Accept(vec![1])], "corpus/fresh-510-live-at-510");
        // cancel kills; accept once; the new holder takes over
        scripted(&mut out, kind, 100, 1, 5000, &[Offer(1, 200, vec![0]), Offer(1, 0, vec![0]), Accept(vec![1]), Offer(2, 150, vec![0]), Accept(vec![2]), Accept(vec![2]), Guarded(vec![2]), Guarded(vec![0]), Offer(0, 160, vec![0]), Offer(0, 160, vec![2]), Accept(vec![0]), Guarded(vec![0])], "corpus/cancel-accept-once");
        // renounce refused while pending, allowed after expiry
        scripted(&mut out, kind, 100, 1, 5000, &[Offer(1, 200, vec![0]), Renounce(vec![0]), Advance(100), Renounce(vec![0]), Advance(1), Renounce(vec![1]), Renounce(vec![0]), Accept(vec![1]), Guarded(vec![0]), Offer(1, 300, vec![0])], "corpus/renounce-while-pending");
        // replaced by a longer one: the old addressee is out
        scripted(&mut out, kind, 100, 1, 5000, &[Offer(1, 110, vec![0]), Offer(2, 1000, vec![0]), Accept(vec![1]), Advance(11), Accept(vec![1]), Accept(vec![2])], "corpus/replaced-by-longer");
        // cancel with the wrong account / wrong signer
        scripted(&mut out, kind, 100, 1, 5000, &[Offer(1, 0, vec![0]), Offer(1, 200, vec![0]), Offer(2, 0, vec![0]), Offer(1, 0, vec![1]), Offer(1, 0, vec![0]), Offer(1, 0, vec![0])], "corpus/cancel-guards");
        // live_until boundaries: past, now, max, max+1; second host configuration
        scripted(&mut out, kind, 100, 1, 40, &[Offer(1, 99, vec![0]), Offer(1, 100, vec![0]), Accept(vec![1]), Offer(2, 139, vec![1]), Offer(2, 140, vec![1]), Advance(39), Accept(vec![2]), Offer(3, 178, vec![2]), Advance(39), Accept(vec![3]), Advance(1), Accept(vec![3])], "corpus/live-until-bounds");
        // (min_temp_entry_ttl other than 1 is outside the property: see wf_header in Run/C07.v)
        // aliasing and signer sets: offer to oneself (renounce must stay refused, cf. a pending offer to the owner itself), equal
        // live_until over a stored entry, accept with extra and duplicated signers
        scripted(&mut out, kind, 100, 1, 5000, &[Offer(0, 200, vec![0]), Renounce(vec![0]), Guarded(vec![0]), Accept(vec![0, 0]), Offer(1, 200, vec![0, 3]), Offer(2, 200, vec![3, 0]),
                 Accept(vec![1, 3]), Accept(vec![3, 1, 2]), Guarded(vec![2]), Offer(2, 300, vec![2]), Renounce(vec![2]), Accept(vec![2]), Renounce(vec![2]), Accept(vec![2])], "corpus/self-offer-and-signer-sets");
        // the very first ledgers: sequence 0 (live_until = 0 is the cancel request there too) and 1
        scripted(&mut out, kind, 0, 1, 5000, &[Offer(1, 0, vec![0]), Offer(1, 1, vec![0]), Offer(1, 0, vec![0]), Offer(1, 4999, vec![0]), Offer(2, 5000, vec![0]), Offer(1, 0, vec![0]), Offer(2, 0, vec![0]),
                 Offer(2, 1, vec![0]), Advance(1), Accept(vec![1]), Accept(vec![2]), Offer(1, 1, vec![2]), Advance(1), Accept(vec![1]), Renounce(vec![2]), Guarded(vec![2])], "corpus/ledger-zero");
        // offer expires, a later offer starts afresh (no F2 window)
        scripted(&mut out, kind, 100, 1, 5000, &[Offer(1, 110, vec![0]), Advance(11), Offer(2, 120, vec![0]), Advance(9), Accept(vec![1]), Advance(1), Accept(vec![2])], "corpus/expired-then-fresh");
    }
    // ---- special parties: S = the contract under test itself, F = another contract (authorises as the direct invoker) ----
    const S: usize = 4;
    const F: usize = 5;
    for kind in [Kind::Own, Kind::AC, Kind::Votes] {
        // self-governed deployment: the holder is the contract itself. Nobody can authorise for it, so NOTHING restricted may
        // succeed, whoever signs and whoever invokes - the holder keeps the role for good
        scripted_h(&mut out, kind, S, &[Guarded(vec![]), Guarded(vec![1]), Guarded(vec![F]), Guarded2(vec![1]), Offer(1, 200, vec![]), Offer(1, 200, vec![1]), Offer(1, 200, vec![F]),
                 Offer(1, 200, vec![0, 1, 2, 3, F]), Accept(vec![1]), Accept(vec![F, 1]), Offer(1, 0, vec![1]), Renounce(vec![]), Renounce(vec![2]), Renounce(vec![F]), Advance(10),
                 Offer(2, 300, vec![2]), Accept(vec![2]), Offer(S, 300, vec![1]), Offer(S, 0, vec![]), Accept(vec![]), Guarded(vec![0, 1, 2, 3]), Guarded2(vec![])], "special/self-owned");
        // an offer TO the contract itself can never be accepted; it blocks renounce while stored, can be cancelled / replaced / lapses
        scripted_h(&mut out, kind, 0, &[Offer(S, 200, vec![0]), Accept(vec![]), Accept(vec![0]), Accept(vec![1, F]), Renounce(vec![0]), Guarded(vec![0]), Offer(S, 0, vec![1]), Offer(S, 0, vec![0]),
                 Accept(vec![0]), Offer(1, 150, vec![0]), Offer(S, 110, vec![0]), Accept(vec![1]), Advance(11), Accept(vec![0]), Accept(vec![F]), Renounce(vec![0]), Advance(40), Accept(vec![1]),
                 Renounce(vec![0]), Accept(vec![])], "special/offer-to-self-contract");
        // the holder is ANOTHER CONTRACT: it offers / cancels / uses the gate / renounces exactly when it is the direct invoker;
        // it is offered the role back and accepts as the invoker
        scripted_h(&mut out, kind, F, &[Guarded(vec![]), Guarded(vec![1]), Guarded(vec![F]), Offer(1, 200, vec![1]), Offer(1, 200, vec![]), Offer(1, 200, vec![F]), Renounce(vec![F]), Offer(1, 0, vec![]),
                 Offer(1, 0, vec![1]), Offer(1, 0, vec![F]), Renounce(vec![]), Offer(1, 200, vec![F, 2]), Accept(vec![F]), Accept(vec![1]), Guarded(vec![F]), Guarded2(vec![F]), Offer(F, 300, vec![1]), Accept(vec![]), Accept(vec![1]),
                 Guarded(vec![1]), Guarded(vec![F]), Accept(vec![F]), Guarded(vec![1]), Guarded(vec![F, 1]), Guarded2(vec![F]), Renounce(vec![]), Renounce(vec![1]), Renounce(vec![F]), Guarded(vec![F]), Accept(vec![F])], "special/contract-holder");
        // the holder is an account and the calls come THROUGH another contract: the invoker's identity is worth nothing, the
        // accounts' entries (rooted at the inner invocation) decide
        scripted_h(&mut out, kind, 0, &[Offer(1, 200, vec![F]), Guarded(vec![F]), Guarded2(vec![F]), Renounce(vec![F]), Offer(1, 200, vec![0, F]), Accept(vec![F]), Offer(1, 0, vec![F]), Renounce(vec![F, 0]), Offer(1, 0, vec![F, 0]),
                 Offer(1, 200, vec![F, 0]), Accept(vec![F, 2]), Accept(vec![1, F]), Guarded(vec![0, F]), Guarded(vec![1, F]), Guarded2(vec![F, 1]), Renounce(vec![F]), Renounce(vec![F, 0]), Renounce(vec![F, 1]), Guarded(vec![F, 1])], "special/via-other-contract");
        // the sibling gate (AccessControl::set_role_admin; the other wirings have one restricted entry point) along a handover
        scripted_h(&mut out, kind, 0, &[Guarded2(vec![0]), Guarded2(vec![1]), Guarded2(vec![]), Offer(1, 200, vec![0]), Guarded2(vec![1]), Guarded2(vec![0]), Accept(vec![1]), Guarded2(vec![0]), Guarded2(vec![1]),
                 Guarded2(vec![0, 1]), Renounce(vec![1]), Guarded2(vec![1])], "special/sibling-gate");
        // offers to the two contracts lapse / are replaced like any other
        scripted_h(&mut out, kind, 0, &[Offer(F, 110, vec![0]), Advance(11), Accept(vec![F]), Offer(F, 130, vec![0]), Offer(S, 140, vec![0]), Accept(vec![F]), Offer(F, 0, vec![0]), Offer(S, 0, vec![0]), Offer(F, 120, vec![0]),
                 Offer(F, 0, vec![0]), Accept(vec![F]), Offer(F, 125, vec![0]), Accept(vec![F]), Accept(vec![F]), Offer(F, 126, vec![F]), Accept(vec![F]), Guarded(vec![F])], "special/offers-to-contracts");
    }
    for kind in [Kind::Own, Kind::AC, Kind::Votes] {
        for (maxt, minp) in [(6_312_000u32, 4096u32), (8_000_000, 7_999_999)] {
            let mut w = World::new_cfg(kind, 4, 100, 1, maxt, minp);
            for c in [Guarded(vec![0]), Offer(1, 2_000_000, vec![0]), Advance(17281), Guarded(vec![0]), Advance(600_000), Accept(vec![1]), Guarded(vec![1]), Guarded(vec![0]),
                      Offer(2, 3_000_000, vec![1]), Advance(4_000_000), Guarded(vec![1]), Accept(vec![2]), Offer(2, 4_700_000, vec![1]), Advance(20_000), Accept(vec![2]), Advance(4_000_000), Guarded(vec![2]), Renounce(vec![2]), Advance(4_000_000), Guarded(vec![2])] { w.exec(&mut out, &c); }
            w.flush(&mut out, "corpus/long-gaps");
        }
    }
    let ntr = if directed_only { 0 } else { (if thorough { 2400 } else { 400 }) * out.cfg.scale as usize };
    for i in 0..ntr {
        let kind = match i % 8 { 7 => Kind::Votes, k if k % 2 == 0 => Kind::Own, _ => Kind::AC };
        let len = if thorough { 40 + rng.below(60) as usize } else { 25 + rng.below(20) as usize };
        let mut r = rng.fork(i as u64);
        random_trace(&mut out, &mut r, kind, len, &format!("random/{}", i));
    }
    if !directed_only {
        // exhaustive small scope: every sequence of length 3 (quick) / 5 (thorough) over an 8-letter alphabet (relative to the current ledger)
        let depth: u32 = if thorough { 5 } else { 3 };
        for kind in [Kind::Own, Kind::AC] {
            let nl = 8usize;
            let total = nl.pow(depth);
            for code in 0..total {
                let mut w = World::new(kind, 3, 100, 1, 5000);
                let mut c = code;
                for _ in 0..depth {
                    let l = c % nl; c /= nl;
                    let now = w.now;
                    let call = match l {
                        0 => Offer(1, now + 1, vec![0]), 1 => Offer(2, now + 3, vec![0]), 2 => Offer(1, 0, vec![0]),
                        3 => Accept(vec![1]), 4 => Accept(vec![2]), 5 => Advance(1), 6 => Advance(2), _ => Renounce(vec![0]),
                    };
                    w.exec(&mut out, &call);
                }
                w.flush(&mut out, &format!("exhaustive{}/{}", depth, code));
            }
        }
        // the same with the special parties: the constructor's holder is the other contract F; offers go to account 1, to the
        // contract itself and back to F, always signed by whoever holds the role at that moment (F signs as the invoker)
        let depth2: u32 = if thorough { 4 } else { 3 };
        for kind in [Kind::Own, Kind::AC] {
            let nl = 7usize;
            for code in 0..nl.pow(depth2) {
                let mut w = World::new_h(kind, 2, 100, 1, 5000, 4096, 3);
                let (s_, f_) = (w.slf, w.fwd);
                let mut c = code;
                for _ in 0..depth2 {
                    let l = c % nl; c /= nl;
                    let now = w.now;
                    let sig: V<usize> = match w.holder() { Some(h) if h != s_ && h < 100 => vec![h], _ => vec![] };
                    let call = match l {
                        0 => Offer(1, now + 1, sig), 1 => Offer(s_, now + 3, sig), 2 => Offer(f_, now + 1, sig),
                        3 => Accept(vec![1]), 4 => Accept(vec![f_]), 5 => Advance(2), _ => Renounce(sig),
                    };
                    w.exec(&mut out, &call);
                }
                w.flush(&mut out, &format!("exhaustive-special{}/{}", depth2, code));
            }
        }
    }
    out.finish();
}
