//! C07 correspondence harness: the two-step ownership / admin handshake of the REAL example
//! contracts (examples/ownable, examples/nft-access-control) inside the Soroban test host,
//! with exact authorisation sets, explicit ledger movement and min_temp_entry_ttl = 1.
#![allow(clippy::too_many_arguments)]
use soroban_sdk::testutils::storage::Temporary as _;
use soroban_sdk::testutils::{Address as _, Ledger as _, MockAuth, MockAuthInvoke};
use soroban_sdk::{Address, Env, IntoVal, String, Val};
use stellar_access::access_control::AccessControlStorageKey;
use stellar_access::ownable::OwnableStorageKey;
use vh::*;

#[path = "/repo/examples/ownable/src/contract.rs"]
mod ownable_ex;
#[path = "/repo/examples/nft-access-control/src/contract.rs"]
mod ac_ex;

type V<T> = std::vec::Vec<T>;

#[derive(Clone, Copy, PartialEq)]
enum Kind { Own, AC }

struct World {
    e: Env,
    kind: Kind,
    cid: Address,
    addrs: V<Address>,
    now: u32,
    start: u32,
    min_ttl: u32,
    max_ttl: u32,
    items: V<std::string::String>,
    // generator-side memory (never printed): live_untils of all offers made so far
    lus: V<u32>,
    // the constructor trapped: the trace consists of one impossible observation (flagged by diff and monitor)
    dead: bool,
    // generator-side tracking for the situation labels (never printed)
    t_new: Option<usize>,      // addressee of the latest successful offer not yet cancelled / accepted
    t_lu: Option<u32>,         // its own live_until
    t_replaced: Option<usize>, // the addressee that offer replaced
    t_cancelled: Option<usize>,
    t_accepted: Option<usize>,
}

#[derive(Clone, Debug)]
enum Call { Offer(usize, u32, V<usize>), Accept(V<usize>), Renounce(V<usize>), Guarded(V<usize>), Advance(u32) }

fn auths_s(a: &[usize]) -> std::string::String { list(&a.iter().map(|i| n(*i as u64)).collect::<V<_>>()) }

impl World {
    fn new(kind: Kind, naddr: usize, start: u32, min_ttl: u32, max_ttl: u32) -> World { World::new_cfg(kind, naddr, start, min_ttl, max_ttl, std::cmp::min(max_ttl, 4096)) }
    /// min_persist: ledger info min_persistent_entry_ttl (lifetime of the contract instance / code entries in the test host)
    fn new_cfg(kind: Kind, naddr: usize, start: u32, min_ttl: u32, max_ttl: u32, min_persist: u32) -> World {
        let e = Env::default();
        e.cost_estimate().budget().reset_unlimited();
        e.cost_estimate().disable_resource_limits();
        e.ledger().with_mut(|l| {
            l.sequence_number = start;
            l.min_temp_entry_ttl = min_ttl;
            l.max_entry_ttl = max_ttl;
            l.min_persistent_entry_ttl = min_persist;
        });
        let addrs: V<Address> = (0..naddr).map(|_| Address::generate(&e)).collect();
        let reg = std::panic::catch_unwind(std::panic::AssertUnwindSafe(|| match kind {
            Kind::Own => e.register(ownable_ex::ExampleContract, (addrs[0].clone(),)),
            Kind::AC => e.register(
                ac_ex::ExampleContract,
                (String::from_str(&e, "u"), String::from_str(&e, "n"), String::from_str(&e, "s"), addrs[0].clone()),
            ),
        }));
        match reg {
            Ok(cid) => World { e, kind, cid, addrs, now: start, start, min_ttl, max_ttl, items: vec![], lus: vec![], dead: false, t_new: None, t_lu: None, t_replaced: None, t_cancelled: None, t_accepted: None },
            Err(_) => { let e = Env::default(); let cid = Address::generate(&e); World { e, kind, cid, addrs: vec![], now: start, start, min_ttl, max_ttl, items: vec![], lus: vec![], dead: true, t_new: None, t_lu: None, t_replaced: None, t_cancelled: None, t_accepted: None } }
        }
    }
    fn header(&self) -> std::string::String {
        format!("(Build_header {} {} {} {} (Some {}))", if self.kind == Kind::Own { "Own" } else { "AC" }, self.min_ttl, self.max_ttl, self.start, n(0))
    }
    fn idx(&self, a: &Address) -> u64 { self.addrs.iter().position(|x| x == a).unwrap_or(999) as u64 }
    /// the public getter; a trapping getter becomes the sentinel Some(998) (never an abort)
    fn holder(&self) -> Option<usize> {
        if self.dead { return None; }
        let h = match self.kind {
            Kind::Own => match ownable_ex::ExampleContractClient::new(&self.e, &self.cid).try_get_owner() { Ok(Ok(h)) => h, _ => return Some(998) },
            Kind::AC => match ac_ex::ExampleContractClient::new(&self.e, &self.cid).try_get_admin() { Ok(Ok(h)) => h, _ => return Some(998) },
        };
        h.map(|a| self.idx(&a) as usize)
    }
    /// test-only look at the pending entry: (address, live_until) if live
    fn pending(&self) -> Option<(usize, u32)> {
        if self.dead { return None; }
        let e = &self.e;
        let kind = self.kind;
        let r: Option<(Address, u32)> = std::panic::catch_unwind(std::panic::AssertUnwindSafe(|| e.as_contract(&self.cid, || match kind {
            Kind::Own => {
                let k = OwnableStorageKey::PendingOwner;
                e.storage().temporary().get::<_, Address>(&k).map(|a| (a, e.storage().temporary().get_ttl(&k)))
            }
            Kind::AC => {
                let k = AccessControlStorageKey::PendingAdmin;
                e.storage().temporary().get::<_, Address>(&k).map(|a| (a, e.storage().temporary().get_ttl(&k)))
            }
        }))).unwrap_or(None);
        r.map(|(a, ttl)| (self.idx(&a) as usize, self.now + ttl))
    }
    fn obs(&self) -> std::string::String {
        let h = self.holder();
        let p = self.pending();
        pair(&opt(h.map(|i| n(i as u64))), &opt(p.map(|(a, l)| pair(&n(a as u64), &z(l as i128)))))
    }
    fn mock(&self, fn_name: &str, args: soroban_sdk::Vec<Val>, auths: &[usize]) {
        let inv = MockAuthInvoke { contract: &self.cid, fn_name, args, sub_invokes: &[] };
        let mas: V<MockAuth> = auths.iter().map(|&i| MockAuth { address: &self.addrs[i], invoke: &inv }).collect();
        self.e.mock_auths(&mas);
    }
    /// executes one call on the real contract, appends (call, outcome, observation)
    fn exec(&mut self, out: &mut Out, c: &Call) -> bool {
        if self.dead { return false; }
        let e = self.e.clone();
        let (holder0, pend0, now0) = (self.holder(), self.pending(), self.now);
        let (text, res, label): (std::string::String, Option<i128>, &str) = match c {
            Call::Offer(new, lu, au) => {
                let newa = self.addrs[*new].clone();
                let args: soroban_sdk::Vec<Val> = (newa.clone(), *lu).into_val(&e);
                let ok = match self.kind {
                    Kind::Own => { self.mock("transfer_ownership", args, au); matches!(ownable_ex::ExampleContractClient::new(&e, &self.cid).try_transfer_ownership(&newa, lu), Ok(Ok(()))) }
                    Kind::AC => { self.mock("transfer_admin_role", args, au); matches!(ac_ex::ExampleContractClient::new(&e, &self.cid).try_transfer_admin_role(&newa, lu), Ok(Ok(()))) }
                };
                if ok && *lu != 0 { self.lus.push(*lu); }
                (format!("Offer {} {} {}", n(*new as u64), lu, auths_s(au)), if ok { Some(0) } else { None }, if *lu == 0 { "cancel" } else { "offer" })
            }
            Call::Accept(au) => {
                let args: soroban_sdk::Vec<Val> = ().into_val(&e);
                let ok = match self.kind {
                    Kind::Own => { self.mock("accept_ownership", args, au); matches!(ownable_ex::ExampleContractClient::new(&e, &self.cid).try_accept_ownership(), Ok(Ok(()))) }
                    Kind::AC => { self.mock("accept_admin_transfer", args, au); matches!(ac_ex::ExampleContractClient::new(&e, &self.cid).try_accept_admin_transfer(), Ok(Ok(()))) }
                };
                (format!("Accept {}", auths_s(au)), if ok { Some(0) } else { None }, "accept")
            }
            Call::Renounce(au) => {
                let args: soroban_sdk::Vec<Val> = ().into_val(&e);
                let ok = match self.kind {
                    Kind::Own => { self.mock("renounce_ownership", args, au); matches!(ownable_ex::ExampleContractClient::new(&e, &self.cid).try_renounce_ownership(), Ok(Ok(()))) }
                    Kind::AC => { self.mock("renounce_admin", args, au); matches!(ac_ex::ExampleContractClient::new(&e, &self.cid).try_renounce_admin(), Ok(Ok(()))) }
                };
                (format!("Renounce {}", auths_s(au)), if ok { Some(0) } else { None }, "renounce")
            }
            Call::Guarded(au) => {
                let args: soroban_sdk::Vec<Val> = ().into_val(&e);
                let r = match self.kind {
                    Kind::Own => { self.mock("increment", args, au); match ownable_ex::ExampleContractClient::new(&e, &self.cid).try_increment() { Ok(Ok(v)) => Some(v as i128), _ => None } }
                    Kind::AC => { self.mock("admin_restricted_function", args, au); match ac_ex::ExampleContractClient::new(&e, &self.cid).try_admin_restricted_function() { Ok(Ok(_)) => Some(0), _ => None } }
                };
                (format!("Guarded {}", auths_s(au)), r, "guarded")
            }
            Call::Advance(k) => {
                self.now += *k;
                let nw = self.now;
                e.ledger().with_mut(|l| l.sequence_number = nw);
                if *k >= 17281 { out.label("advance-long/ok"); }
                (format!("Advance {}", n(*k as u64)), Some(0), "advance")
            }
        };
        self.e.mock_auths(&[]);
        let outs = match res { Some(v) => format!("(Ok {})", z(v)), None => "Fail".to_string() };
        out.case(&format!("{}/{}", label, if res.is_some() { "ok" } else { "fail" }), &format!("{} @{} {}", text, self.now, self.items.len()));
        self.items.push(format!("({}, {}, {})", text, outs, self.obs()));
        self.situation(out, c, res.is_some(), holder0, pend0, now0);
        res.is_some()
    }
    /// situation labels (coverage gate) and the tracking behind them; uses only what was observed before the call
    fn situation(&mut self, out: &mut Out, c: &Call, ok: bool, holder0: Option<usize>, pend0: Option<(usize, u32)>, now0: u32) {
        let own_dead = self.t_lu.map(|l| l < now0).unwrap_or(false);
        let signed_holder = |au: &V<usize>| holder0.map(|h| au.contains(&h)).unwrap_or(false);
        match c {
            Call::Offer(new, lu, au) if *lu != 0 => {
                if ok {
                    match pend0 { Some((_, l)) => out.label(if *lu < l { "offer-shorter-over-stored/ok" } else if *lu == l { "offer-equal-over-stored/ok" } else { "offer-longer-over-stored/ok" }), None => out.label("offer-fresh/ok") }
                    if Some(*new) == holder0 { out.label("offer-to-self/ok"); }
                    self.t_replaced = if pend0.is_some() { self.t_new } else { None };
                    self.t_new = Some(*new); self.t_lu = Some(*lu); self.t_cancelled = None; self.t_accepted = None;
                } else if !signed_holder(au) { out.label("offer-without-holder-auth/fail"); }
                else if *lu < now0 { out.label("offer-live-until-past/fail"); }
                else if *lu > now0 + self.max_ttl - 1 { out.label("offer-beyond-max/fail"); }
                if ok && *lu == now0 { out.label("offer-live-until-now/ok"); }
                if ok && *lu == now0 + self.max_ttl - 1 { out.label("offer-live-until-max/ok"); }
            }
            Call::Offer(new, _, au) => {
                if ok { self.t_cancelled = self.t_new; self.t_new = None; self.t_lu = None; self.t_replaced = None; }
                else if signed_holder(au) && pend0.map(|p| p.0 != *new).unwrap_or(false) { out.label("cancel-wrong-account/fail"); }
                else if signed_holder(au) && pend0.is_none() { out.label("cancel-nothing-pending/fail"); }
                else if !signed_holder(au) && pend0.is_some() { out.label("cancel-without-holder-auth/fail"); }
            }
            Call::Accept(au) => {
                let by_addressee = self.t_new.map(|a| au.contains(&a)).unwrap_or(false);
                if ok {
                    if own_dead { out.label("accept-after-own-live-until/ok"); }
                    if self.t_lu == Some(now0) { out.label("accept-at-live-until/ok"); }
                    if au.len() >= 2 { out.label("accept-with-extra-signers/ok"); }
                    self.t_accepted = self.t_new; self.t_new = None; self.t_lu = None; self.t_replaced = None; self.t_cancelled = None;
                } else {
                    if pend0.is_some() && !pend0.map(|p| au.contains(&p.0)).unwrap_or(false) { out.label("accept-unauthorised/fail"); }
                    if pend0.is_none() && own_dead { out.label("accept-expired/fail"); }
                    if pend0.is_none() && own_dead && by_addressee { out.label("accept-by-addressee-after-live-until/fail"); }
                    if pend0.is_none() && by_addressee && self.t_lu.map(|l| l + 1 == now0).unwrap_or(false) { out.label("accept-by-addressee-at-live-until-plus-1/fail"); }
                    if self.t_replaced.map(|a| au.contains(&a) && Some(a) != self.t_new).unwrap_or(false) && pend0.is_some() { out.label("accept-by-replaced-addressee/fail"); }
                    if self.t_cancelled.map(|a| au.contains(&a)).unwrap_or(false) && pend0.is_none() { out.label("accept-after-cancel/fail"); }
                    if self.t_accepted.map(|a| au.contains(&a)).unwrap_or(false) && pend0.is_none() { out.label("accept-twice/fail"); }
                    if holder0.is_none() { out.label("accept-after-renounce/fail"); }
                }
            }
            Call::Renounce(au) => {
                if !ok && pend0.is_some() && signed_holder(au) { out.label(if own_dead { "renounce-in-known-window/fail" } else { "renounce-while-pending/fail" }); }
                if ok && own_dead { out.label("renounce-after-expiry/ok"); }
                if !ok && holder0.is_some() && !signed_holder(au) { out.label("renounce-without-holder-auth/fail"); }
            }
            Call::Guarded(au) => {
                if ok && pend0.is_some() { out.label("guarded-while-pending/ok"); }
                if !ok && holder0.is_none() { out.label("guarded-after-renounce/fail"); }
                if !ok && pend0.map(|p| au.contains(&p.0)).unwrap_or(false) { out.label("guarded-by-pending/fail"); }
            }
            Call::Advance(_) => {}
        }
    }
    fn flush(mut self, out: &mut Out, desc: &str) {
        if self.dead { out.label("constructor/trap"); self.items = vec!["(Advance 0%N, Fail, (Some 998%N, None))".to_string()]; }
        let nn = self.items.len();
        let term = format!("(({}, {}) : trace)", self.header(), list(&self.items));
        out.trace(desc, term, nn);
    }
}

/// authorisation subset for a call whose needed principal is `principal`: the principal alone, with one or two extra
/// signers, duplicated, missing, somebody else, the counterpart (`alt`), everybody
fn pick_auths(rng: &mut Rng, principal: Option<usize>, alt: Option<usize>, naddr: usize) -> V<usize> {
    let other = rng.below(naddr as u64) as usize;
    let other2 = rng.below(naddr as u64) as usize;
    match (principal, rng.below(100)) {
        (Some(p), 0..=59) => vec![p],
        (Some(p), 60..=65) => vec![p, other],
        (Some(p), 66..=70) => vec![other, p],
        (Some(p), 71..=73) => vec![other, other2, p],
        (Some(p), 74..=75) => vec![p, p],
        (Some(p), 76..=77) => match alt { Some(a) => vec![p, a], None => vec![p] },
        (_, 78..=83) => vec![],
        (_, 84..=91) => match alt { Some(a) if Some(a) != principal => vec![a], _ => if Some(other) != principal { vec![other] } else { vec![] } },
        (Some(p), 92..=94) => (0..naddr).filter(|x| *x != p).collect(),
        _ => if Some(other) != principal { vec![other] } else { vec![] },
    }
}

/// one adaptive random trace
fn random_trace(out: &mut Out, rng: &mut Rng, kind: Kind, len: usize, desc: &str) {
    let naddr = 4usize;
    // host configurations: tiny / small max_entry_ttl, min_temp_entry_ttl 16, the test host's defaults, everything long-lived
    // min_temp_entry_ttl = 1 as C07 prescribes (with a larger minimum a short offer's entry outlives its live_until: the documented
    // caveat of transfer_role, outside the property)
    let (min_ttl, max_ttl, min_persist) = match rng.below(12) { 0 | 1 => (1u32, 40u32, 40u32), 2 | 3 => (1, 300, 300), 4 | 5 => (1, 6_312_000, 4096), 6 => (1, 8_000_000, 7_999_999), _ => (1, 5000, 4096) };
    let start = 100 + rng.below(50) as u32;
    let mut w = World::new_cfg(kind, naddr, start, min_ttl, max_ttl, min_persist);
    let mut last_lu: Option<u32> = None;
    for step in 0..len {
        if w.dead { break; }
        let holder = w.holder();
        let pend = w.pending();
        let pa = pend.map(|p| p.0);
        let now = w.now;
        let maxl = now + max_ttl - 1;
        let r = rng.below(100);
        let rnd = rng.below(naddr as u64) as usize;
        let call = if r < 30 {
            // offer
            let new = match rng.below(10) { 0 => holder.unwrap_or(0), 1 | 2 => pa.unwrap_or(1), _ => rnd };
            let mut cands: V<i64> = vec![now as i64, now as i64 + 1, now as i64 + rng.range(2, 20), now as i64 + rng.range(20, 300),
                                         maxl as i64 - 1, maxl as i64, maxl as i64 + 1];
            if now > 1 { cands.push(now as i64 - 1); cands.push(rng.range(1, now as i64)); }
            if let Some((_, l)) = pend {
                for d in [-1i64, 0, 1] { cands.push(l as i64 + d); }
                cands.push((now as i64 + l as i64) / 2); cands.push(now as i64 + 1); cands.push(now as i64 + rng.range(0, 5));
            }
            if let Some(l) = last_lu { for d in [-1i64, 0, 1] { cands.push(l as i64 + d); } }
            for l in w.lus.iter().rev().take(3) { cands.push(*l as i64 + rng.range(-1, 1)); }
            if rng.chance(1, 40) { cands.push(u32::MAX as i64); cands.push(u32::MAX as i64 - 1); }
            let mut lu = *rng.pick(&cands);
            if lu < 1 { lu = 1; }
            let au = pick_auths(rng, holder, pa, naddr);
            Call::Offer(new, lu as u32, au)
        } else if r < 38 {
            // cancel
            let new = if rng.chance(1, 5) { rnd } else { pa.unwrap_or(rnd) };
            let au = pick_auths(rng, holder, pa, naddr);
            Call::Offer(new, 0, au)
        } else if r < 58 {
            // the addressee (also after its offer lapsed), sometimes the replaced one
            let who = if rng.chance(1, 8) { w.t_replaced.or(w.t_new) } else { pa.or(w.t_new) };
            let au = pick_auths(rng, who.or(Some(rnd)), holder, naddr);
            Call::Accept(au)
        } else if r < 70 {
            let au = pick_auths(rng, holder, pa, naddr);
            Call::Guarded(au)
        } else if r < 76 {
            // renounce: with the holder's auth mostly while an offer is stored, or at the end of the trace
            let au = if pend.is_some() || (step + 5 > len && rng.chance(1, 2)) || rng.chance(1, 25) {
                pick_auths(rng, holder, pa, naddr)
            } else if Some(rnd) == holder || rng.chance(1, 4) { vec![] } else { vec![rnd] };
            Call::Renounce(au)
        } else {
            // advance: aim at the boundaries of the latest offer, of the stored entry and of older offers
            let mut targets: V<i64> = vec![];
            if let Some(l) = last_lu { for d in [-1i64, 0, 1] { targets.push(l as i64 + d); } }
            if let Some((_, l)) = pend { for d in [-1i64, 0, 1] { targets.push(l as i64 + d); } targets.push((now as i64 + l as i64) / 2); }
            for l in w.lus.iter().rev().take(4) { targets.push(*l as i64); targets.push(*l as i64 + 1); }
            targets.retain(|t| *t >= now as i64 && *t <= now as i64 + 7_000_000);
            // besides the boundaries: very long gaps in ONE step (the holder must not lapse, the offer must)
            let k = if rng.chance(1, 7) { *rng.pick(&[20u32, 100, 17281, 20000, 600000, 4_000_000]) }
                    else if !targets.is_empty() && rng.chance(3, 4) { (*rng.pick(&targets) - now as i64) as u32 } else { rng.below(4) as u32 };
            Call::Advance(k)
        };
        w.exec(out, &call);
        last_lu = w.t_lu;
    }
    w.flush(out, desc);
}

fn scripted(out: &mut Out, kind: Kind, start: u32, min_ttl: u32, max_ttl: u32, calls: &[Call], desc: &str) {
    let mut w = World::new(kind, 4, start, min_ttl, max_ttl);
    for c in calls { w.exec(out, c); }
    w.flush(out, desc);
}

fn main() {
    let mut out = Out::new("From SC Require Import Lib.Prelude Lib.Int Lib.Host Model.RoleTransfer Run.C07.\nOpen Scope Z_scope.", "check_all");
    out.per_shard(900);
    let mut rng = Rng::new(out.cfg.seed);
    let thorough = out.cfg.thorough;
    use Call::*;
    for kind in [Kind::Own, Kind::AC] {
        // the known finding F2: offer A until 1000, offer B until 110, ledger 500, B accepts
        scripted(&mut out, kind, 100, 1, 5000, &[Offer(1, 1000, vec![0]), Offer(2, 110, vec![0]), Advance(400), Accept(vec![2]), Guarded(vec![2]), Guarded(vec![0])], "corpus/F2-known");
        // the same shape, but the window is left before accepting: dead
        scripted(&mut out, kind, 100, 1, 5000, &[Offer(1, 1000, vec![0]), Offer(2, 110, vec![0]), Advance(901), Accept(vec![2]), Guarded(vec![0]), Renounce(vec![0])], "corpus/F2-window-over");
        // F2 window: renounce still refused, cancel succeeds (harmless), then nothing to accept
        scripted(&mut out, kind, 100, 1, 5000, &[Offer(1, 1000, vec![0]), Offer(2, 110, vec![0]), Advance(400), Renounce(vec![0]), Offer(2, 0, vec![0]), Accept(vec![2]), Renounce(vec![0]), Guarded(vec![0])], "corpus/F2-window-cancel");
        // a fresh offer until 510 is dead at 511
        scripted(&mut out, kind, 100, 1, 5000, &[Advance(400), Offer(1, 510, vec![0]), Advance(10), Guarded(vec![0]), Guarded(vec![1]), Advance(1), Accept(vec![1]), Renounce(vec![0]), Guarded(vec![0]), Offer(1, 600, vec![0]), Accept(vec![1])], "corpus/fresh-510-dead-at-511");
        scripted(&mut out, kind, 100, 1, 5000, &[Advance(400), Offer(1, 510, vec![0]), Advance(10), Accept(vec![1]), Guarded(vec![1]), Guarded(vec![0]), Accept(vec![1])], "corpus/fresh-510-live-at-510");
        // cancel kills; accept once; the new holder takes over
        scripted(&mut out, kind, 100, 1, 5000, &[Offer(1, 200, vec![0]), Offer(1, 0, vec![0]), Accept(vec![1]), Offer(2, 150, vec![0]), Accept(vec![2]), Accept(vec![2]), Guarded(vec![2]), Guarded(vec![0]), Offer(0, 160, vec![0]), Offer(0, 160, vec![2]), Accept(vec![0]), Guarded(vec![0])], "corpus/cancel-accept-once");
        // renounce refused while pending, allowed after expiry
        scripted(&mut out, kind, 100, 1, 5000, &[Offer(1, 200, vec![0]), Renounce(vec![0]), Advance(100), Renounce(vec![0]), Advance(1), Renounce(vec![1]), Renounce(vec![0]), Accept(vec![1]), Guarded(vec![0]), Offer(1, 300, vec![0])], "corpus/renounce-while-pending");
        // replaced by a longer one: the old addressee is out
        scripted(&mut out, kind, 100, 1, 5000, &[Offer(1, 110, vec![0]), Offer(2, 1000, vec![0]), Accept(vec![1]), Advance(11), Accept(vec![1]), Accept(vec![2])], "corpus/replaced-by-longer");
        // cancel with the wrong account / wrong signer
        scripted(&mut out, kind, 100, 1, 5000, &[Offer(1, 0, vec![0]), Offer(1, 200, vec![0]), Offer(2, 0, vec![0]), Offer(1, 0, vec![1]), Offer(1, 0, vec![0]), Offer(1, 0, vec![0])], "corpus/cancel-guards");
        // live_until boundaries: past, now, max, max+1; second host configuration
        scripted(&mut out, kind, 100, 1, 40, &[Offer(1, 99, vec![0]), Offer(1, 100, vec![0]), Accept(vec![1]), Offer(2, 139, vec![1]), Offer(2, 140, vec![1]), Advance(39), Accept(vec![2]), Offer(3, 178, vec![2]), Advance(39), Accept(vec![3]), Advance(1), Accept(vec![3])], "corpus/live-until-bounds");
        // (min_temp_entry_ttl other than 1 is outside the property: see wf_header in Run/C07.v)
        // aliasing and signer sets: offer to oneself (renounce must stay refused, cf. a pending offer to the owner itself), equal
        // live_until over a stored entry, accept with extra and duplicated signers
        scripted(&mut out, kind, 100, 1, 5000, &[Offer(0, 200, vec![0]), Renounce(vec![0]), Guarded(vec![0]), Accept(vec![0, 0]), Offer(1, 200, vec![0, 3]), Offer(2, 200, vec![3, 0]),
                 Accept(vec![1, 3]), Accept(vec![3, 1, 2]), Guarded(vec![2]), Offer(2, 300, vec![2]), Renounce(vec![2]), Accept(vec![2]), Renounce(vec![2]), Accept(vec![2])], "corpus/self-offer-and-signer-sets");
        // offer expires, a later offer starts afresh (no F2 window)
        scripted(&mut out, kind, 100, 1, 5000, &[Offer(1, 110, vec![0]), Advance(11), Offer(2, 120, vec![0]), Advance(9), Accept(vec![1]), Advance(1), Accept(vec![2])], "corpus/expired-then-fresh");
    }
    for kind in [Kind::Own, Kind::AC] {
        for (maxt, minp) in [(6_312_000u32, 4096u32), (8_000_000, 7_999_999)] {
            let mut w = World::new_cfg(kind, 4, 100, 1, maxt, minp);
            for c in [Guarded(vec![0]), Offer(1, 2_000_000, vec![0]), Advance(17281), Guarded(vec![0]), Advance(600_000), Accept(vec![1]), Guarded(vec![1]), Guarded(vec![0]),
                      Offer(2, 3_000_000, vec![1]), Advance(4_000_000), Guarded(vec![1]), Accept(vec![2]), Offer(2, 4_700_000, vec![1]), Advance(20_000), Accept(vec![2]), Advance(4_000_000), Guarded(vec![2]), Renounce(vec![2]), Advance(4_000_000), Guarded(vec![2])] { w.exec(&mut out, &c); }
            w.flush(&mut out, "corpus/long-gaps");
        }
    }
    let ntr = (if thorough { 2400 } else { 400 }) * out.cfg.scale as usize;
    for i in 0..ntr {
        let kind = if i % 2 == 0 { Kind::Own } else { Kind::AC };
        let len = if thorough { 40 + rng.below(60) as usize } else { 25 + rng.below(20) as usize };
        let mut r = rng.fork(i as u64);
        random_trace(&mut out, &mut r, kind, len, &format!("random/{}", i));
    }
    {
        // exhaustive small scope: every sequence of length 3 (quick) / 5 (thorough) over an 8-letter alphabet (relative to the current ledger)
        let depth: u32 = if thorough { 5 } else { 3 };
        for kind in [Kind::Own, Kind::AC] {
            let nl = 8usize;
            let total = nl.pow(depth);
            for code in 0..total {
                let mut w = World::new(kind, 3, 100, 1, 5000);
                let mut c = code;
                for _ in 0..depth {
                    let l = c % nl; c /= nl;
                    let now = w.now;
                    let call = match l {
                        0 => Offer(1, now + 1, vec![0]), 1 => Offer(2, now + 3, vec![0]), 2 => Offer(1, 0, vec![0]),
                        3 => Accept(vec![1]), 4 => Accept(vec![2]), 5 => Advance(1), 6 => Advance(2), _ => Renounce(vec![0]),
                    };
                    w.exec(&mut out, &call);
                }
                w.flush(&mut out, &format!("exhaustive{}/{}", depth, code));
            }
        }
    }
    out.finish();
}
