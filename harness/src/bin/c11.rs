//! C11 correspondence harness: an NFT moves only by its owner, its approved account or a live
//! operator.  approve / approve_for_all / revoke / transfer / transfer_from / burn / burn_from
//! on the three flavours, issued by owner, approved account, operator, former owner, former
//! approved account and strangers, each with a drawn authorisation subset, with the ledger
//! moved onto and just past every live_until.  The address universe also contains "special" addresses (the token
//! contract's own address, a classic account, a contract that authorises by being the invoker) in every party
//! position of every call kind; equal parties and boundary argument values have their own directed histories.
#[path = "../common/nft.rs"]
mod nft;
use nft::*;
use vh::*;

fn profile(fl: Fl, mode: u32) -> Profile {
    Profile {
        mint: 50, transfer: 110, transfer_from: 230, burn: 40, burn_from: 110, approve: 210, approve_all: 140, advance: 110,
        p_wrong_auth: 28, mint_mode: mode, p_long_advance: 12, batches: std::vec![1, 2, 3],
        max_ids: if fl == Fl::Cons { 12 } else { 7 },
    }
}

struct Gen { lus: Vec<u32> }

fn one_step(w: &mut World, out: &mut Out, rng: &mut Rng, g: &mut Gen, p: &Profile) {
    let mut c = w.gen_call(rng, p);
    if let Call::Advance(1..=9) = c {
        // half of the time land exactly on / just past the expiry of an approval given earlier
        let live: Vec<u32> = g.lus.iter().cloned().filter(|l| *l >= w.now && *l - w.now < 60).collect();
        if !live.is_empty() && rng.chance(1, 2) {
            let l = *rng.pick(&live);
            let d = l - w.now + rng.below(2) as u32;
            if d > 0 { c = Call::Advance(d); }
        }
    }
    let (ok, _) = w.step(out, rng, &c);
    if ok {
        match c {
            Call::Approve { live_until, .. } | Call::ApproveForAll { live_until, .. } => { if live_until != 0 && live_until < u32::MAX / 2 { g.lus.push(live_until); } }
            _ => {}
        }
    }
}

fn random_trace(out: &mut Out, rng: &mut Rng, fl: Fl, nsteps: usize, outside: bool, special: bool) {
    // every third history: three plain accounts + the contract's own address, a calling contract and a classic account
    let naddr = if special { 3 } else { 4 + rng.below(2) as usize };
    let now0 = *rng.pick(&[0u32, 1, 5, 1000, 100_000]);
    let min_ttl = *rng.pick(&[1u32, 1, 16]);
    let max_ttl = *rng.pick(&[30u32, 1000, 6_312_000]);
    let mode = if outside { 3 } else { rng.below(3) as u32 };
    let mut w = World::new(fl, naddr, now0, min_ttl, max_ttl, None);
    if special { w.add_special(); }
    let p = profile(fl, mode);
    let mut g = Gen { lus: std::vec![] };
    // a few tokens for two or three owners (and for each special address)
    for k in 0..(2 + rng.below(3) as usize + if special { 3 } else { 0 }) {
        let to = if special { k % 6 } else { k % 3 };
        let c = match fl { Fl::Cons => Call::BatchMint(to, 1 + rng.below(3) as u32), _ => if mode == 1 { Call::MintId(to, EXPLICIT_BASE + k as u32) } else { Call::MintSeq(to) } };
        w.step(out, rng, &c);
    }
    for _ in 0..nsteps { one_step(&mut w, out, rng, &mut g, &p); }
    out.label(if outside { "family/outside-quantifier" } else if special { "family/random-special-addresses" } else { "family/random" });
    w.flush(out, if outside { "outside-quantifier" } else if special { "random-special" } else { "random" });
}

fn scenario(out: &mut Out, rng: &mut Rng, fl: Fl, max_ttl: u32, desc: &str, calls: &[Call]) {
    // host configurations: temporary entries live 1 ledger / 16 ledgers by default (an entry may then outlive
    // the live_until_ledger it carries)
    for min_ttl in [1u32, 16] {
        let mut w = World::new(fl, 5, 10, min_ttl, max_ttl, None);
        for c in calls { w.step(out, rng, c); }
        w.flush(out, &format!("{}/minttl{}", desc, min_ttl));
    }
}

fn tr(from: usize, to: usize, id: u32) -> Call { Call::Transfer { auths: std::vec![from], from, to, id } }
fn trf(sp: usize, from: usize, to: usize, id: u32) -> Call { Call::TransferFrom { auths: std::vec![sp], spender: sp, from, to, id } }
fn bu(from: usize, id: u32) -> Call { Call::Burn { auths: std::vec![from], from, id } }
fn buf(sp: usize, from: usize, id: u32) -> Call { Call::BurnFrom { auths: std::vec![sp], spender: sp, from, id } }
fn ap(approver: usize, approved: usize, id: u32, lu: u32) -> Call { Call::Approve { auths: std::vec![approver], approver, approved, id, live_until: lu } }
fn apa(owner: usize, op: usize, lu: u32) -> Call { Call::ApproveForAll { auths: std::vec![owner], owner, operator: op, live_until: lu } }

fn directed(out: &mut Out, rng: &mut Rng) {
    for fl in [Fl::Base, Fl::Enum, Fl::Cons] {
        let mint2: Vec<Call> = match fl { Fl::Cons => std::vec![Call::BatchMint(0, 2), Call::BatchMint(1, 1)], _ => std::vec![Call::MintSeq(0), Call::MintSeq(0), Call::MintSeq(1)] };
        let run = |out: &mut Out, rng: &mut Rng, desc: &str, max_ttl: u32, rest: Vec<Call>| {
            let mut cs = mint2.clone(); cs.extend(rest); scenario(out, rng, fl, max_ttl, desc, &cs);
        };
        // now = 10. approval cleared by a move; a previous owner's approval does not come back with the token
        run(out, rng, "stale-approval-after-round-trip", 1000, std::vec![ap(0, 3, 0, 40), tr(0, 2, 0), trf(3, 2, 4, 0), trf(3, 0, 4, 0), tr(2, 0, 0), trf(3, 0, 4, 0), buf(3, 0, 0),
            ap(0, 3, 1, 40), trf(3, 0, 3, 1), trf(3, 3, 0, 1), trf(3, 0, 4, 1), ap(0, 4, 1, 40), buf(3, 0, 1), buf(4, 0, 1)]);
        // expiry exactly at live_until, gone one ledger later; revoke; re-approval to another account
        run(out, rng, "expiry-boundary", 1000, std::vec![ap(0, 3, 0, 13), ap(0, 4, 1, 13), Call::Advance(3), trf(3, 0, 2, 0), Call::Advance(1), trf(4, 0, 2, 1), buf(4, 0, 1),
            ap(0, 4, 1, 14), ap(0, 3, 1, 0), trf(4, 0, 2, 1), ap(0, 4, 1, 20), ap(0, 3, 1, 20), trf(4, 0, 2, 1), trf(3, 0, 2, 1), ap(0, 3, 1, 13)]);
        // operators: scope (only the appointing owner's tokens), expiry, revoke, approvals set by an operator
        run(out, rng, "operator-scope-expiry", 1000, std::vec![apa(0, 3, 12), trf(3, 1, 3, 2), buf(3, 1, 2), ap(3, 4, 2, 30), ap(3, 4, 0, 30), Call::Advance(2), trf(3, 0, 3, 1), Call::Advance(1),
            trf(3, 0, 3, 0), ap(3, 2, 0, 30), trf(4, 0, 4, 0), apa(1, 3, 30), apa(1, 3, 0), trf(3, 1, 3, 2), apa(3, 0, 30), trf(0, 3, 0, 1), Call::Transfer { auths: std::vec![3], from: 0, to: 3, id: 1 },
            Call::TransferFrom { auths: std::vec![0], spender: 3, from: 3, to: 0, id: 1 }, Call::TransferFrom { auths: std::vec![], spender: 3, from: 3, to: 0, id: 1 }]);
        // beyond the maximal ttl the approval is refused; at the maximum it is accepted
        run(out, rng, "max-ttl", 30, std::vec![ap(0, 3, 0, 10 + 29), ap(0, 3, 1, 10 + 30), apa(0, 4, 10 + 29), apa(1, 4, 10 + 30), ap(0, 3, 0, 9), apa(0, 4, 9), ap(0, 3, 0, 10), Call::Advance(1), trf(3, 0, 3, 0), trf(4, 0, 4, 0)]);
    }
    // burn and explicit re-mint of the same id: the old approval must not survive
    for fl in [Fl::Base, Fl::Enum] {
        scenario(out, rng, fl, 1000, "approval-across-burn-and-remint", &[Call::MintId(0, EXPLICIT_BASE), ap(0, 3, EXPLICIT_BASE, 50), apa(0, 4, 50), bu(0, EXPLICIT_BASE), Call::MintId(1, EXPLICIT_BASE),
            trf(3, 1, 3, EXPLICIT_BASE), trf(4, 1, 4, EXPLICIT_BASE), trf(3, 0, 3, EXPLICIT_BASE), trf(4, 0, 4, EXPLICIT_BASE), buf(3, 1, EXPLICIT_BASE), tr(1, 0, EXPLICIT_BASE), trf(4, 0, 4, EXPLICIT_BASE)]);
    }
}

/// One directed history per flavour in which every role x liveness situation named by the property's quantifier
/// occurs; each situation has its own coverage label `<flavour>/role/<situation>/<kind>/<outcome>`.
fn roles(out: &mut Out, rng: &mut Rng) {
    for fl in [Fl::Base, Fl::Enum, Fl::Cons] {
        for min_ttl in [1u32, 16] {
            let mut w = World::new(fl, 5, 10, min_ttl, 1000, None);
            match fl { Fl::Cons => { w.step(out, rng, &Call::BatchMint(0, 7)); w.step(out, rng, &Call::BatchMint(1, 1)); }
                       _ => { for _ in 0..7 { w.step(out, rng, &Call::MintSeq(0)); } w.step(out, rng, &Call::MintSeq(1)); } }
            // tokens 0..6 belong to account 0, token 7 to account 1; 3 = approved account, 4 = operator, 2 = stranger
            let l = |w: &mut World, out: &mut Out, rng: &mut Rng, situation: &str, c: Call| {
                let (ok, _) = w.step(out, rng, &c);
                out.label(&format!("{}/role/{}/{}/{}", fl.tag(), situation, c.kind(), if ok { "ok" } else { "fail" }));
            };
            for id in [0u32, 2, 4] { w.step(out, rng, &ap(0, 3, id, 13)); }
            w.step(out, rng, &apa(0, 4, 13));
            w.step(out, rng, &Call::Advance(3));                                  // now = 13 = live_until
            l(&mut w, out, rng, "approved-at-live-until", trf(3, 0, 3, 0));
            l(&mut w, out, rng, "operator-at-live-until", buf(4, 0, 1));
            l(&mut w, out, rng, "operator-at-live-until", ap(4, 2, 3, 20));
            l(&mut w, out, rng, "operator-revokes-live-approval", ap(4, 3, 2, 0));
            l(&mut w, out, rng, "revoked-approved", trf(3, 0, 3, 2));
            w.step(out, rng, &Call::Advance(1));                                  // now = 14 = live_until + 1
            l(&mut w, out, rng, "approved-after-live-until", trf(3, 0, 3, 4));
            l(&mut w, out, rng, "approved-after-live-until", buf(3, 0, 4));
            l(&mut w, out, rng, "operator-after-live-until", buf(4, 0, 4));
            l(&mut w, out, rng, "operator-after-live-until", trf(4, 0, 4, 4));
            l(&mut w, out, rng, "operator-after-live-until", ap(4, 2, 4, 30));
            l(&mut w, out, rng, "approval-given-by-expired-operator-still-live", trf(2, 0, 2, 3));
            l(&mut w, out, rng, "former-owner", tr(0, 1, 0));
            l(&mut w, out, rng, "former-owner", trf(0, 0, 1, 0));
            l(&mut w, out, rng, "former-owner", bu(0, 0));
            l(&mut w, out, rng, "former-owner", ap(0, 2, 0, 40));
            w.step(out, rng, &ap(0, 3, 5, 40));
            w.step(out, rng, &tr(0, 1, 5));
            l(&mut w, out, rng, "former-approved-after-transfer", trf(3, 1, 3, 5));
            l(&mut w, out, rng, "former-approved-after-transfer", buf(3, 1, 5));
            w.step(out, rng, &tr(1, 0, 5));
            l(&mut w, out, rng, "former-approved-after-round-trip", trf(3, 0, 3, 5));
            w.step(out, rng, &ap(0, 3, 5, 40));
            l(&mut w, out, rng, "approved-account-approves", ap(3, 2, 5, 40));
            l(&mut w, out, rng, "approved-names-itself-as-from", tr(3, 1, 5));
            w.step(out, rng, &apa(0, 4, 60));
            l(&mut w, out, rng, "operator-names-itself-as-from", bu(4, 5));
            l(&mut w, out, rng, "entitled-spender-with-owner-auth-only", Call::TransferFrom { auths: std::vec![0], spender: 3, from: 0, to: 3, id: 5 });
            l(&mut w, out, rng, "entitled-spender-with-owner-auth-only", Call::BurnFrom { auths: std::vec![0], spender: 4, from: 0, id: 5 });
            l(&mut w, out, rng, "owner-without-auth", Call::Transfer { auths: std::vec![3, 4], from: 0, to: 1, id: 5 });
            l(&mut w, out, rng, "stranger", trf(2, 0, 2, 5));
            l(&mut w, out, rng, "stranger", ap(2, 2, 5, 40));
            w.step(out, rng, &apa(1, 2, 60));
            l(&mut w, out, rng, "operator-of-another-owner", trf(2, 0, 2, 5));
            l(&mut w, out, rng, "operator-of-another-owner", buf(2, 0, 6));
            w.step(out, rng, &apa(0, 4, 0));
            l(&mut w, out, rng, "revoked-operator", trf(4, 0, 4, 5));
            l(&mut w, out, rng, "revoked-operator", buf(4, 0, 6));
            l(&mut w, out, rng, "approved-before-live-until", buf(3, 0, 5));
            w.flush(out, &format!("roles/minttl{}", min_ttl));
        }
    }
    // outside the quantifier: the re-mint of an existing id keeps the previous owner's approval (model and code agree)
    for fl in [Fl::Base, Fl::Enum] {
        let mut w = World::new(fl, 5, 10, 1, 1000, None);
        for c in [Call::MintId(0, EXPLICIT_BASE), ap(0, 3, EXPLICIT_BASE, 50), Call::MintId(1, EXPLICIT_BASE), trf(3, 1, 3, EXPLICIT_BASE),
                  Call::MintId(0, 1), ap(0, 3, 1, 50), Call::MintSeq(2), Call::MintSeq(2), buf(3, 2, 1)] { w.step(out, rng, &c); }
        out.label(&format!("scenario/{}/outside-remint-keeps-stale-approval", fl.tag()));
        w.flush(out, "outside-remint-keeps-stale-approval");
    }
}

/// Special members of the address universe in EVERY party position of EVERY call kind (label
/// `<flavour>/special/<situation>/<kind>/<outcome>`): the NFT contract's own address and a classic account (nobody can
/// sign for them: whatever they own, are approved for or operate never moves), and a contract that authorises by
/// being the invoker (its calls go THROUGH it; a signature-less direct call in its name is refused).
fn special_parties(out: &mut Out, rng: &mut Rng) {
    for fl in [Fl::Base, Fl::Enum, Fl::Cons] {
        // (who may sign does not depend on the lifetime of temporary entries: one host configuration per flavour)
        for min_ttl in [if fl == Fl::Enum { 16u32 } else { 1 }] {
            let mut w = World::new(fl, 3, 10, min_ttl, 1000, None);
            let sp = w.add_special();
            let (me, px, acc) = (sp.me, sp.proxy, sp.account);
            // ids 0..3 -> account 0, 4..6 -> the contract itself, 7..9 -> the calling contract, 10..11 -> the classic
            // account, 12 -> account 1
            for (to, k) in [(0usize, 4u32), (me, 3), (px, 3), (acc, 2), (1, 1)] {
                match fl { Fl::Cons => { w.step(out, rng, &Call::BatchMint(to, k)); } _ => { for _ in 0..k { w.step(out, rng, &Call::MintSeq(to)); } } }
            }
            let l = |w: &mut World, out: &mut Out, rng: &mut Rng, situation: &str, c: Call| {
                let (ok, _) = w.step(out, rng, &c);
                out.label(&format!("{}/special/{}/{}/{}", fl.tag(), situation, c.kind(), if ok { "ok" } else { "fail" }));
            };
            // ---- an owner nobody can sign for: the contract's own address / a classic account
            for (who, name, id) in [(me, "own-address", 4u32), (acc, "account-address", 10u32)] {
                let everybody: Vec<usize> = std::vec![0, 1, 2, px];
                for (auths, sit) in [(std::vec![], "owner-nobody-signs"), (std::vec![2usize], "owner-recipient-signs"), (everybody, "owner-everybody-else-signs")] {
                    let s = format!("{}-{}", name, sit);
                    l(&mut w, out, rng, &s, Call::Transfer { auths: auths.clone(), from: who, to: 2, id });
                    l(&mut w, out, rng, &s, Call::TransferFrom { auths: auths.clone(), spender: who, from: who, to: 2, id });
                    l(&mut w, out, rng, &s, Call::TransferFrom { auths: auths.clone(), spender: 2, from: who, to: 2, id });
                    l(&mut w, out, rng, &s, Call::Burn { auths: auths.clone(), from: who, id: id + 1 });
                    l(&mut w, out, rng, &s, Call::BurnFrom { auths: auths.clone(), spender: who, from: who, id: id + 1 });
                    l(&mut w, out, rng, &s, Call::BurnFrom { auths: auths.clone(), spender: 2, from: who, id: id + 1 });
                    l(&mut w, out, rng, &s, Call::Approve { auths: auths.clone(), approver: who, approved: 2, id, live_until: 40 });
                    l(&mut w, out, rng, &s, Call::ApproveForAll { auths: auths.clone(), owner: who, operator: 2, live_until: 40 });
                }
            }
            // ---- the same addresses as approved account, as operator and as recipient of somebody else's token
            for (who, name) in [(me, "own-address"), (acc, "account-address")] {
                l(&mut w, out, rng, &format!("{}-becomes-approved", name), ap(0, who, 0, 40));
                for (auths, sit) in [(std::vec![], "is-approved-nobody-signs"), (std::vec![0usize], "is-approved-owner-signs")] {
                    let s = format!("{}-{}", name, sit);
                    l(&mut w, out, rng, &s, Call::TransferFrom { auths: auths.clone(), spender: who, from: 0, to: 2, id: 0 });
                    l(&mut w, out, rng, &s, Call::BurnFrom { auths: auths.clone(), spender: who, from: 0, id: 0 });
                    l(&mut w, out, rng, &s, Call::Approve { auths: auths.clone(), approver: who, approved: 2, id: 0, live_until: 40 });
                }
                l(&mut w, out, rng, &format!("{}-becomes-operator", name), apa(0, who, 40));
                for (auths, sit) in [(std::vec![], "is-operator-nobody-signs"), (std::vec![0usize], "is-operator-owner-signs")] {
                    let s = format!("{}-{}", name, sit);
                    l(&mut w, out, rng, &s, Call::TransferFrom { auths: auths.clone(), spender: who, from: 0, to: 2, id: 1 });
                    l(&mut w, out, rng, &s, Call::BurnFrom { auths: auths.clone(), spender: who, from: 0, id: 1 });
                    l(&mut w, out, rng, &s, Call::Approve { auths: auths.clone(), approver: who, approved: 2, id: 1, live_until: 40 });
                }
                w.step(out, rng, &apa(0, who, 0));
            }
            l(&mut w, out, rng, "own-address-receives", tr(0, me, 1));
            l(&mut w, out, rng, "own-address-received-former-owner-signs", tr(0, 0, 1));
            l(&mut w, out, rng, "own-address-received-former-owner-signs", Call::Transfer { auths: std::vec![0], from: me, to: 0, id: 1 });
            l(&mut w, out, rng, "own-address-received-former-owner-signs", Call::TransferFrom { auths: std::vec![0], spender: 0, from: me, to: 0, id: 1 });
            l(&mut w, out, rng, "own-address-received-former-owner-signs", Call::BurnFrom { auths: std::vec![0], spender: 0, from: me, id: 1 });
            // ---- a contract as a party: it authorises the calls it makes itself and nothing else
            l(&mut w, out, rng, "contract-owner-not-invoking", Call::Transfer { auths: std::vec![], from: px, to: 2, id: 7 });
            l(&mut w, out, rng, "contract-owner-not-invoking", Call::TransferFrom { auths: std::vec![2], spender: 2, from: px, to: 2, id: 7 });
            l(&mut w, out, rng, "contract-owner-not-invoking", Call::Burn { auths: std::vec![], from: px, id: 7 });
            l(&mut w, out, rng, "contract-owner-not-invoking", Call::BurnFrom { auths: std::vec![0, 1, 2], spender: px, from: px, id: 7 });
            l(&mut w, out, rng, "contract-owner-not-invoking", Call::Approve { auths: std::vec![], approver: px, approved: 2, id: 7, live_until: 40 });
            l(&mut w, out, rng, "contract-owner-not-invoking", Call::ApproveForAll { auths: std::vec![2], owner: px, operator: 2, live_until: 40 });
            l(&mut w, out, rng, "contract-owner-invoking", tr(px, 2, 7));
            l(&mut w, out, rng, "contract-owner-invoking", ap(px, 2, 8, 40));
            l(&mut w, out, rng, "approved-by-invoking-contract", trf(2, px, 2, 8));
            l(&mut w, out, rng, "contract-owner-invoking", bu(px, 9));
            l(&mut w, out, rng, "contract-owner-invoking", apa(px, 1, 40));
            l(&mut w, out, rng, "invoking-contract-not-entitled", trf(px, 1, px, 12));
            l(&mut w, out, rng, "invoking-contract-not-entitled", buf(px, 1, 12));
            l(&mut w, out, rng, "invoking-contract-not-entitled", ap(px, 2, 12, 40));
            l(&mut w, out, rng, "invoking-contract-not-entitled", Call::Transfer { auths: std::vec![px], from: 1, to: px, id: 12 });
            l(&mut w, out, rng, "invoking-contract-not-entitled", Call::ApproveForAll { auths: std::vec![px], owner: 1, operator: px, live_until: 40 });
            l(&mut w, out, rng, "invoking-contract-becomes-approved", ap(0, px, 2, 40));
            l(&mut w, out, rng, "invoking-contract-is-approved", trf(px, 0, px, 2));
            l(&mut w, out, rng, "invoking-contract-becomes-operator", apa(0, px, 40));
            l(&mut w, out, rng, "invoking-contract-is-operator", ap(px, 1, 0, 40));
            l(&mut w, out, rng, "invoking-contract-is-operator", buf(px, 0, 3));
            l(&mut w, out, rng, "owner-signs-inside-contract-invocation", Call::Transfer { auths: std::vec![1, px], from: 1, to: px, id: 12 });
            w.flush(out, &format!("special-parties/minttl{}", min_ttl));
        }
    }
}

/// Equal parties (`from == to`, `spender == from == to`, `approved == owner`, `operator == owner`, `approver == approved`)
/// and boundary argument values (token id 0 / the largest id, live_until 0 / now-1 / now / the host maximum / u32::MAX)
/// for all call kinds; labels `<flavour>/alias/<situation>/<kind>/<outcome>` and `<flavour>/bound/...`.
fn aliasing_and_bounds(out: &mut Out, rng: &mut Rng) {
    for fl in [Fl::Base, Fl::Enum, Fl::Cons] {
        for min_ttl in [1u32, 16] {
            let mut w = World::new(fl, 5, 10, min_ttl, 1000, None);
            match fl { Fl::Cons => { w.step(out, rng, &Call::BatchMint(0, 6)); w.step(out, rng, &Call::BatchMint(1, 1)); }
                       _ => { for _ in 0..6 { w.step(out, rng, &Call::MintSeq(0)); } w.step(out, rng, &Call::MintSeq(1)); } }
            let l = |w: &mut World, out: &mut Out, rng: &mut Rng, situation: &str, c: Call| {
                let (ok, _) = w.step(out, rng, &c);
                out.label(&format!("{}/alias/{}/{}/{}", fl.tag(), situation, c.kind(), if ok { "ok" } else { "fail" }));
            };
            for id in [0u32, 1, 2, 3] { w.step(out, rng, &ap(0, 3, id, 40)); }
            l(&mut w, out, rng, "owner-transfers-to-itself", tr(0, 0, 0));
            l(&mut w, out, rng, "approved-before-self-transfer", trf(3, 0, 3, 0));
            l(&mut w, out, rng, "owner-transfers-to-itself", trf(0, 0, 0, 1));
            l(&mut w, out, rng, "approved-before-self-transfer", buf(3, 0, 1));
            l(&mut w, out, rng, "approved-moves-owner-to-owner", trf(3, 0, 0, 2));
            l(&mut w, out, rng, "approved-before-self-transfer", trf(3, 0, 3, 2));
            l(&mut w, out, rng, "approved-takes-for-itself", trf(3, 0, 3, 3));
            l(&mut w, out, rng, "new-owner-transfers-to-itself", tr(3, 3, 3));
            l(&mut w, out, rng, "owner-approves-itself", ap(0, 0, 4, 40));
            l(&mut w, out, rng, "owner-approved-for-own-token", trf(0, 0, 0, 4));
            l(&mut w, out, rng, "owner-appoints-itself", apa(0, 0, 40));
            l(&mut w, out, rng, "owner-its-own-operator", buf(0, 0, 5));
            l(&mut w, out, rng, "stranger-approves-itself", ap(2, 2, 4, 40));
            l(&mut w, out, rng, "stranger-appoints-itself-for-others", Call::ApproveForAll { auths: std::vec![2], owner: 0, operator: 2, live_until: 40 });
            w.step(out, rng, &apa(0, 4, 40));
            l(&mut w, out, rng, "operator-approves-itself", ap(4, 4, 4, 40));
            l(&mut w, out, rng, "operator-approved-by-itself", trf(4, 0, 4, 4));
            l(&mut w, out, rng, "operator-moves-owner-to-owner", trf(4, 0, 0, 0));
            l(&mut w, out, rng, "spender-signs-twice", Call::TransferFrom { auths: std::vec![4, 4], spender: 4, from: 0, to: 0, id: 0 });
            l(&mut w, out, rng, "owner-revokes-itself", apa(0, 0, 0));
            w.flush(out, &format!("aliasing/minttl{}", min_ttl));

            // boundary values of every argument type: ids (0, the largest), live_until (0, now-1, now, host maximum, u32::MAX)
            let mut w = World::new(fl, 5, 10, min_ttl, 30, None);
            let top = match fl {
                Fl::Cons => { w.step(out, rng, &Call::BatchMint(0, 3)); 2u32 }
                _ => { w.step(out, rng, &Call::MintId(0, 0)); w.step(out, rng, &Call::MintId(0, 1)); w.step(out, rng, &Call::MintId(0, u32::MAX)); u32::MAX }
            };
            let l = |w: &mut World, out: &mut Out, rng: &mut Rng, situation: &str, c: Call| {
                let (ok, _) = w.step(out, rng, &c);
                out.label(&format!("{}/bound/{}/{}/{}", fl.tag(), situation, c.kind(), if ok { "ok" } else { "fail" }));
            };
            for id in [0u32, top] {
                let t = if id == 0 { "id-zero" } else { "id-largest" };
                l(&mut w, out, rng, &format!("{}-live-until-zero-nothing-to-revoke", t), ap(0, 3, id, 0));
                l(&mut w, out, rng, &format!("{}-live-until-past", t), ap(0, 3, id, 9));
                l(&mut w, out, rng, &format!("{}-live-until-u32-max", t), ap(0, 3, id, u32::MAX));
                l(&mut w, out, rng, &format!("{}-live-until-beyond-host-maximum", t), ap(0, 3, id, 10 + 30));
                l(&mut w, out, rng, &format!("{}-nothing-approved", t), trf(3, 0, 3, id));
                l(&mut w, out, rng, &format!("{}-live-until-host-maximum", t), ap(0, 3, id, 10 + 29));
                l(&mut w, out, rng, &format!("{}-live-until-now", t), ap(0, 4, id, 10));
                l(&mut w, out, rng, &format!("{}-replaced-approved", t), trf(3, 0, 3, id));
                l(&mut w, out, rng, &format!("{}-live-until-now", t), trf(4, 0, 4, id));
                l(&mut w, out, rng, &format!("{}-back", t), tr(4, 0, id));
            }
            l(&mut w, out, rng, "operator-live-until-zero-nothing-to-revoke", apa(0, 3, 0));
            l(&mut w, out, rng, "operator-live-until-past", apa(0, 3, 9));
            l(&mut w, out, rng, "operator-live-until-u32-max", apa(0, 3, u32::MAX));
            l(&mut w, out, rng, "operator-live-until-beyond-host-maximum", apa(0, 3, 10 + 30));
            l(&mut w, out, rng, "operator-nothing-appointed", buf(3, 0, 1));
            l(&mut w, out, rng, "operator-live-until-now", apa(0, 3, 10));
            l(&mut w, out, rng, "operator-live-until-now", trf(3, 0, 3, top));
            w.step(out, rng, &Call::Advance(1));
            l(&mut w, out, rng, "operator-live-until-now-one-later", buf(3, 0, 0));
            let none = w.last.next + 2;          // an id nobody ever held (within the observed range)
            l(&mut w, out, rng, "unknown-id", tr(0, 1, none));
            l(&mut w, out, rng, "unknown-id", ap(0, 1, none, 20));
            l(&mut w, out, rng, "unknown-id", buf(0, 0, none));
            w.flush(out, &format!("bounds/minttl{}", min_ttl));
        }
    }
}

fn main() {
    let mut out = Out::new("From SC Require Import Lib.Prelude Lib.Int Lib.Host Model.Nft Run.NftCommon Run.C11.\nOpen Scope Z_scope.", "check_all");
    out.per_shard(260);
    let mut rng = Rng::new(out.cfg.seed);
    let thorough = out.cfg.thorough;
    let scale = out.cfg.scale as usize;
    directed(&mut out, &mut rng);
    roles(&mut out, &mut rng);
    special_parties(&mut out, &mut rng);
    aliasing_and_bounds(&mut out, &mut rng);
    persistence_scenarios(&mut out, &mut rng);
    let (ntr, nsteps) = if thorough { (600 * scale, 70) } else { (111 * scale, 45) };
    for i in 0..ntr {
        let fl = match i % 3 { 0 => Fl::Base, 1 => Fl::Enum, _ => Fl::Cons };
        random_trace(&mut out, &mut rng, fl, nsteps, false, (i / 3) % 3 == 1);
    }
    // OUTSIDE the property's quantifier (explicit ids colliding with the counter / with existing ids): compared with the
    // model by the diff; the monitor stops judging at the offending mint
    for i in 0..(if thorough { 60 * scale } else { 8 * scale }) { random_trace(&mut out, &mut rng, if i % 2 == 0 { Fl::Base } else { Fl::Enum }, nsteps, true, false); }
    out.finish();
}
