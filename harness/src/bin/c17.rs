//! C17 correspondence harness: Merkle proof verification (Verifier<Sha256>, Verifier<Keccak256>),
//! the Merkle distributor library and the real fungible-merkle-airdrop example contract,
//! executed in the Soroban test host.
//!
//! Digests are printed as `At k` where k is the rank of the real 32-byte value among all digests
//! of the trace in byte order; the header of each trace lists every hash evaluation the harness
//! performed (host sha256 / keccak256 over the concatenation) so that the Coq side can relate real
//! digests by equality, order and "c = hash(a ‖ b)" only.
use soroban_sdk::{
    contracttype, testutils::{Address as _, Ledger as _}, token, xdr::ToXdr, Address, Bytes, BytesN, Env, Vec,
};
use std::collections::HashMap;
use stellar_contract_utils::merkle_distributor::{IndexableLeaf, MerkleDistributorStorageKey};
use vh::*;

#[path = "/repo/examples/fungible-merkle-airdrop/src/contract.rs"]
mod airdrop;

/// the leaf type of the distributor traces: same fields (hence same XDR) as the example's `Receiver`
#[contracttype]
#[derive(Clone)]
pub struct Receiver {
    pub index: u32,
    pub address: Address,
    pub amount: i128,
}
impl IndexableLeaf for Receiver {
    fn index(&self) -> u32 { self.index }
}

macro_rules! lib_contract {
    ($m:ident, $h:ty) => {
        mod $m {
            use super::Receiver;
            use soroban_sdk::{contract, contractimpl, Address, BytesN, Env, Vec};
            use stellar_contract_utils::{crypto::merkle::Verifier, merkle_distributor::MerkleDistributor};
            #[contract]
            pub struct Lib;
            #[contractimpl]
            impl Lib {
                pub fn verify(e: Env, proof: Vec<BytesN<32>>, root: BytesN<32>, leaf: BytesN<32>) -> bool {
                    Verifier::<$h>::verify(&e, proof, root, leaf)
                }
                pub fn verify_idx(e: Env, proof: Vec<BytesN<32>>, root: BytesN<32>, leaf: BytesN<32>, index: u32) -> bool {
                    Verifier::<$h>::verify_with_index(&e, proof, root, leaf, index)
                }
                pub fn set_root(e: Env, root: BytesN<32>) { MerkleDistributor::<$h>::set_root(&e, root) }
                pub fn get_root(e: Env) -> BytesN<32> { MerkleDistributor::<$h>::get_root(&e) }
                pub fn is_claimed(e: Env, index: u32) -> bool { MerkleDistributor::<$h>::is_claimed(&e, index) }
                pub fn set_claimed(e: Env, index: u32) { MerkleDistributor::<$h>::set_claimed(&e, index) }
                pub fn claim_s(e: Env, index: u32, address: Address, amount: i128, proof: Vec<BytesN<32>>) {
                    MerkleDistributor::<$h>::verify_and_set_claimed(&e, Receiver { index, address, amount }, proof)
                }
                pub fn claim_i(e: Env, index: u32, address: Address, amount: i128, proof: Vec<BytesN<32>>) {
                    MerkleDistributor::<$h>::verify_with_index_and_set_claimed(&e, Receiver { index, address, amount }, proof)
                }
            }
        }
    };
}
lib_contract!(libs, stellar_contract_utils::crypto::sha256::Sha256);
lib_contract!(libk, stellar_contract_utils::crypto::keccak::Keccak256);

type Dg = [u8; 32];

#[derive(Clone, Copy, PartialEq, Eq)]
enum Hk { S, K }
impl Hk { fn name(self) -> &'static str { match self { Hk::S => "sha256", Hk::K => "keccak256" } } }

#[derive(Clone)]
enum T { L(Dg), N(Box<T>, Box<T>) }

/// (node hash, honest proof deepest-first, position at its depth, is a leaf)
#[derive(Clone)]
struct NodeInfo { hash: Dg, proof: std::vec::Vec<Dg>, index: u64, leaf: bool }

enum Target { Lib(Address), Air(Address, Address) } // Air(contract, token)

/// one trace: environment, registry of digests, tables of hash evaluations
struct W {
    e: Env,
    hk: Hk,
    reg: HashMap<Dg, usize>,
    digs: std::vec::Vec<Dg>,
    tab: HashMap<(usize, usize), usize>,
    ltab: std::vec::Vec<(u32, usize, i128, usize)>,
    lset: HashMap<(u32, usize, i128), usize>,
    addrs: std::vec::Vec<Address>,
    strees: std::vec::Vec<T>,
    itrees: std::vec::Vec<T>,
    items: std::vec::Vec<String>,
    /// indices whose flag is deliberately not read (a read extends the entry's TTL and would hide a lapse)
    unread: std::collections::HashSet<u32>,
    leave_next: bool,
    /// entry point of the next claim on a library contract (None = the trace's default)
    entry: Option<bool>,
    rng: Rng,
}

impl W {
    /// two host configurations; in both the library's extend_ttl(…, 30 days) is within max_entry_ttl
    fn new(hk: Hk, rng: Rng, hostcfg: usize) -> W {
        let e = Env::default();
        e.cost_estimate().budget().reset_unlimited();
        e.cost_estimate().disable_resource_limits();
        if hostcfg % 2 == 0 {
            e.ledger().with_mut(|l| { l.sequence_number = 100; l.min_temp_entry_ttl = 16; l.min_persistent_entry_ttl = 4096; l.max_entry_ttl = 6_312_000; });
        } else {
            e.ledger().with_mut(|l| { l.sequence_number = 7; l.min_temp_entry_ttl = 1; l.min_persistent_entry_ttl = 100; l.max_entry_ttl = 520_000; });
        }
        W { e, hk, reg: HashMap::new(), digs: vec![], tab: HashMap::new(), ltab: vec![], lset: HashMap::new(), addrs: vec![],
            strees: vec![], itrees: vec![], items: vec![], unread: Default::default(), leave_next: false, entry: None, rng }
    }
    fn id(&mut self, d: Dg) -> usize {
        if let Some(&k) = self.reg.get(&d) { return k; }
        let k = self.digs.len(); self.digs.push(d); self.reg.insert(d, k); k
    }
    /// placeholder of a digest, replaced by `(At rank)` when the trace is printed
    fn d(&mut self, d: Dg) -> String { format!("@{}@", self.id(d)) }
    fn dl(&mut self, p: &[Dg]) -> String { let v: std::vec::Vec<String> = p.iter().map(|x| self.d(*x)).collect(); list(&v) }
    fn raw_hash(&self, bytes: &[u8]) -> Dg {
        let b = Bytes::from_slice(&self.e, bytes);
        match self.hk { Hk::S => self.e.crypto().sha256(&b).to_array(), Hk::K => self.e.crypto().keccak256(&b).to_array() }
    }
    /// hash of the concatenation a ‖ b, recorded in the table
    fn hp(&mut self, a: Dg, b: Dg) -> Dg {
        let (ia, ib) = (self.id(a), self.id(b));
        if let Some(&c) = self.tab.get(&(ia, ib)) { return self.digs[c]; }
        let mut buf = [0u8; 64]; buf[..32].copy_from_slice(&a); buf[32..].copy_from_slice(&b);
        let c = self.raw_hash(&buf);
        let ic = self.id(c); self.tab.insert((ia, ib), ic); c
    }
    fn cp(&mut self, a: Dg, b: Dg) -> Dg { if a > b { self.hp(b, a) } else { self.hp(a, b) } }
    fn pair(&mut self, sorted: bool, a: Dg, b: Dg) -> Dg { if sorted { self.cp(a, b) } else { self.hp(a, b) } }
    /// hash of the XDR encoding of the leaf data, recorded in the leaf table
    fn lh(&mut self, index: u32, addr: usize, amount: i128) -> Dg {
        if let Some(&c) = self.lset.get(&(index, addr, amount)) { return self.digs[c]; }
        let r = Receiver { index, address: self.addrs[addr].clone(), amount };
        let x = r.to_xdr(&self.e);
        let mut v = std::vec::Vec::new(); for b in x.iter() { v.push(b); }
        let c = self.raw_hash(&v);
        let ic = self.id(c); self.lset.insert((index, addr, amount), ic); self.ltab.push((index, addr, amount, ic)); c
    }
    fn rand_digest(&mut self) -> Dg {
        let mut d = [0u8; 32];
        for k in 0..4 { d[k * 8..k * 8 + 8].copy_from_slice(&self.rng.next_u64().to_be_bytes()); }
        // now and then share a long prefix with an existing digest so that the byte order is decided late
        if !self.digs.is_empty() && self.rng.chance(1, 6) {
            let o = self.digs[self.rng.below(self.digs.len() as u64) as usize];
            let keep = 1 + self.rng.below(31) as usize; d[..keep].copy_from_slice(&o[..keep]);
        }
        d
    }
    fn bn(&self, d: &Dg) -> BytesN<32> { BytesN::from_array(&self.e, d) }
    fn pv(&self, p: &[Dg]) -> Vec<BytesN<32>> { let mut v = Vec::new(&self.e); for d in p { v.push_back(self.bn(d)); } v }

    /// nodes of a tree relative to its root (all hash evaluations are recorded)
    fn nodes(&mut self, t: &T, sorted: bool) -> (Dg, std::vec::Vec<NodeInfo>) {
        match t {
            T::L(d) => (*d, vec![NodeInfo { hash: *d, proof: vec![], index: 0, leaf: true }]),
            T::N(l, r) => {
                let (rl, nl) = self.nodes(l, sorted);
                let (rr, nr) = self.nodes(r, sorted);
                let rt = self.pair(sorted, rl, rr);
                let mut ns = vec![NodeInfo { hash: rt, proof: vec![], index: 0, leaf: false }];
                for q in nl { let mut p = q.proof.clone(); p.push(rr); ns.push(NodeInfo { hash: q.hash, proof: p, index: q.index, leaf: q.leaf }); }
                for q in nr {
                    let len = q.proof.len() as u32;
                    let mut p = q.proof.clone(); p.push(rl);
                    ns.push(NodeInfo { hash: q.hash, proof: p, index: q.index + (1u64 << len.min(62)), leaf: q.leaf });
                }
                (rt, ns)
            }
        }
    }
    /// the positional tree whose positional root is the sorted root of `t` (children in ascending order)
    fn sort_children(&mut self, t: &T) -> (T, Dg) {
        match t {
            T::L(d) => (T::L(*d), *d),
            T::N(l, r) => {
                let (tl, hl) = self.sort_children(l); let (tr, hr) = self.sort_children(r);
                if hl > hr { let h = self.hp(hr, hl); (T::N(Box::new(tr), Box::new(tl)), h) } else { let h = self.hp(hl, hr); (T::N(Box::new(tl), Box::new(tr)), h) }
            }
        }
    }
    /// the sorted-form tree whose sorted root is the positional root of `t`: cut where a pair is descending
    fn prune_desc(&mut self, t: &T) -> (T, Dg) {
        match t {
            T::L(d) => (T::L(*d), *d),
            T::N(l, r) => {
                let (tl, hl) = self.prune_desc(l); let (tr, hr) = self.prune_desc(r);
                let h = self.hp(hl, hr);
                if hl > hr { (T::L(h), h) } else { (T::N(Box::new(tl), Box::new(tr)), h) }
            }
        }
    }
    fn tree_term(&mut self, t: &T) -> String {
        match t { T::L(d) => format!("(Lf {})", self.d(*d)), T::N(l, r) => { let a = self.tree_term(l); let b = self.tree_term(r); format!("(Nd {} {})", a, b) } }
    }
    /// the evaluations the sorted verification performs
    fn sim_sorted(&mut self, v: Dg, p: &[Dg]) -> Dg { let mut acc = v; for h in p { acc = self.cp(acc, *h); } acc }
    /// the evaluations the positional verification performs (when its guards pass)
    fn sim_idx(&mut self, v: Dg, idx: u32, p: &[Dg]) {
        if p.len() >= 32 || (idx as u64) >= (1u64 << p.len()) { return; }
        let (mut acc, mut i) = (v, idx);
        for h in p { acc = if i % 2 == 0 { self.hp(acc, *h) } else { self.hp(*h, acc) }; i /= 2; }
    }

    fn observe(&mut self, tg: &Target, univ: &[u32], addrs: &[usize]) -> String {
        let univ: std::vec::Vec<u32> = univ.iter().filter(|i| !self.unread.contains(i)).cloned().collect();
        let univ = &univ[..];
        let (root, cl, bal): (Option<Dg>, std::vec::Vec<String>, std::vec::Vec<String>) = match tg {
            Target::Lib(id) => {
                let (root, cl) = match self.hk {
                    Hk::S => { let c = libs::LibClient::new(&self.e, id);
                        (match c.try_get_root() { Ok(Ok(r)) => Some(r.to_array()), _ => None },
                         univ.iter().map(|i| flag(*i, c.try_is_claimed(i))).collect()) }
                    Hk::K => { let c = libk::LibClient::new(&self.e, id);
                        (match c.try_get_root() { Ok(Ok(r)) => Some(r.to_array()), _ => None },
                         univ.iter().map(|i| flag(*i, c.try_is_claimed(i))).collect()) }
                };
                (root, cl, vec![])
            }
            Target::Air(id, tok) => {
                let c = airdrop::AirdropContractClient::new(&self.e, id);
                let e = self.e.clone();
                // the example has no root getter: read the distributor's instance entry
                let root: Option<BytesN<32>> = self.e.as_contract(id, || e.storage().instance().get(&MerkleDistributorStorageKey::Root));
                let t = token::TokenClient::new(&self.e, tok);
                (root.map(|r| r.to_array()), univ.iter().map(|i| flag(*i, c.try_is_claimed(i))).collect(),
                 addrs.iter().map(|a| pair(&n(*a as u64), &z(t.balance(&self.addrs[*a])))).collect())
            }
        };
        let r = match root { Some(r) => format!("(Some {})", self.d(r)), None => "None".into() };
        format!("(ob {} {} {})", r, list(&cl), list(&bal))
    }

    /// print the trace: digests are numbered by byte order
    fn finish(mut self, out: &mut Out, desc: &str, obs0: &str, self_addr: usize) {
        let mut order: std::vec::Vec<usize> = (0..self.digs.len()).collect();
        order.sort_by(|a, b| self.digs[*a].cmp(&self.digs[*b]));
        let mut rank = vec![0usize; self.digs.len()];
        for (r, k) in order.iter().enumerate() { rank[*k] = r; }
        let mut tab: std::vec::Vec<(usize, usize, usize)> = self.tab.iter().map(|((a, b), c)| (rank[*a], rank[*b], rank[*c])).collect();
        tab.sort_by_key(|x| x.2);
        let tabs: std::vec::Vec<String> = tab.iter().map(|(a, b, c)| format!("({}%N,{}%N,{}%N)", a, b, c)).collect();
        let ltabs: std::vec::Vec<String> = self.ltab.iter().map(|(i, a, m, c)| format!("({}%N,{}%N,{},{}%N)", i, a, z(*m), rank[*c])).collect();
        let st = self.strees.clone(); let it = self.itrees.clone();
        let sts: std::vec::Vec<String> = st.iter().map(|t| self.tree_term(t)).collect();
        let its: std::vec::Vec<String> = it.iter().map(|t| self.tree_term(t)).collect();
        let items = std::mem::take(&mut self.items);
        let nitems = items.len();
        let raw = format!("mk_trace (mk_hdr {} {} {} {} {}%N) {} {}", list(&tabs), list(&ltabs), list(&sts), list(&its), self_addr, obs0, list(&items));
        // substitute @k@
        let mut s = String::with_capacity(raw.len());
        let mut it = raw.split('@');
        if let Some(first) = it.next() { s.push_str(first); }
        let mut is_id = true;
        for part in it {
            if is_id { let k: usize = part.parse().unwrap(); s.push_str(&format!("(At {}%N)", rank[k])); } else { s.push_str(part); }
            is_id = !is_id;
        }
        out.trace(desc, s, nitems);
    }
}

// ------------------------------------------------------------------ tree shapes
#[derive(Clone, Copy, Debug)]
enum Shape { Pow2, Half, Oz, LeftChain, RightChain, Random }
const SHAPES: [Shape; 6] = [Shape::Pow2, Shape::Half, Shape::Oz, Shape::LeftChain, Shape::RightChain, Shape::Random];

fn build(shape: Shape, leaves: &[Dg], rng: &mut Rng) -> T {
    let n = leaves.len();
    assert!(n >= 1);
    if n == 1 { return T::L(leaves[0]); }
    match shape {
        Shape::Oz => {
            // OpenZeppelin merkle-tree layout: node i has children 2i+1, 2i+2; 2n-1 nodes; leaves fill the shape left to right
            fn go(i: usize, n: usize, next: &mut usize, leaves: &[Dg]) -> T {
                if 2 * i + 1 < 2 * n - 1 { let l = go(2 * i + 1, n, next, leaves); let r = go(2 * i + 2, n, next, leaves); T::N(Box::new(l), Box::new(r)) }
                else { let t = T::L(leaves[*next]); *next += 1; t }
            }
            let mut next = 0; go(0, n, &mut next, leaves)
        }
        _ => {
            let k = match shape {
                Shape::Pow2 => { let mut p = 1; while p * 2 < n { p *= 2; } p }
                Shape::Half => (n + 1) / 2,
                Shape::LeftChain => n - 1,
                Shape::RightChain => 1,
                _ => 1 + rng.below((n - 1) as u64) as usize,
            };
            T::N(Box::new(build(shape, &leaves[..k], rng)), Box::new(build(shape, &leaves[k..], rng)))
        }
    }
}

// ------------------------------------------------------------------ pure verification traces
struct VCall { label: String, p: std::vec::Vec<Dg>, r: Dg, v: Dg, i: u32 }

fn lib_verify(w: &W, lib: &Address, c: &VCall) -> Option<bool> {
    let (p, r, v) = (w.pv(&c.p), w.bn(&c.r), w.bn(&c.v));
    match w.hk {
        Hk::S => match libs::LibClient::new(&w.e, lib).try_verify(&p, &r, &v) { Ok(Ok(b)) => Some(b), _ => None },
        Hk::K => match libk::LibClient::new(&w.e, lib).try_verify(&p, &r, &v) { Ok(Ok(b)) => Some(b), _ => None },
    }
}
fn lib_verify_idx(w: &W, lib: &Address, c: &VCall) -> Option<bool> {
    let (p, r, v) = (w.pv(&c.p), w.bn(&c.r), w.bn(&c.v));
    match w.hk {
        Hk::S => match libs::LibClient::new(&w.e, lib).try_verify_idx(&p, &r, &v, &c.i) { Ok(Ok(b)) => Some(b), _ => None },
        Hk::K => match libk::LibClient::new(&w.e, lib).try_verify_idx(&p, &r, &v, &c.i) { Ok(Ok(b)) => Some(b), _ => None },
    }
}
fn outcome_b(o: Option<bool>) -> (&'static str, &'static str) {
    match o { Some(true) => ("(Ok (Some true))", "true"), Some(false) => ("(Ok (Some false))", "false"), None => ("Fail", "fail") }
}

/// a trapping getter is printed under an out-of-range key, which every comparison rejects
fn flag<E1, E2>(i: u32, r: Result<Result<bool, E1>, E2>) -> String {
    match r { Ok(Ok(v)) => pair(&n(i as u64), &b(v)), _ => pair(&n(i as u64 + (1u64 << 40)), &b(true)) }
}

/// a digest that differs from `d` only in its last byte (last bit half of the time)
fn near(mut d: Dg) -> Dg { d[31] ^= 1; d }

const EMPTY_OBS: &str = "(ob None [] [])";

fn emit_verify(w: &mut W, out: &mut Out, lib: &Address, sorted: bool, c: &VCall) {
    if sorted {
        w.sim_sorted(c.v, &c.p);
        let (o, tag) = outcome_b(lib_verify(w, lib, c));
        let call = format!("Verify {} {} {}", w.dl(&c.p), w.d(c.r), w.d(c.v));
        out.case(&format!("verify/{}/{}", c.label, tag), &format!("{}{:?}{:?}{:?}", w.hk.name(), c.p, c.r, c.v));
        w.items.push(format!("it ({}) {} {}", call, o, EMPTY_OBS));
    } else {
        w.sim_idx(c.v, c.i, &c.p);
        let (o, tag) = outcome_b(lib_verify_idx(w, lib, c));
        let call = format!("VerifyIdx {} {} {} {}", w.dl(&c.p), w.d(c.r), w.d(c.v), c.i);
        out.case(&format!("verify_idx/{}/{}", c.label, tag), &format!("{}{:?}{:?}{:?}{}", w.hk.name(), c.p, c.r, c.v, c.i));
        w.items.push(format!("it ({}) {} {}", call, o, EMPTY_OBS));
    }
}

/// boundary catalogue of the digest type: values that are legal 32-byte strings but that a random draw never
/// produces (an implementation may treat them as "empty", "padding", "unset" or a sentinel)
const ZERO: Dg = [0u8; 32];
fn specials(w: &W) -> std::vec::Vec<(&'static str, Dg)> {
    let mut one = [0u8; 32]; one[31] = 1;
    let mut high = [0u8; 32]; high[0] = 0x80;
    std::vec![("zero", ZERO), ("ones", [0xFFu8; 32]), ("one", one), ("high", high), ("empty-hash", w.raw_hash(&[]))]
}

/// the running node after the first `k` proof elements (all evaluations recorded)
fn running(w: &mut W, sorted: bool, v: Dg, idx: u32, p: &[Dg], k: usize) -> Dg {
    let (mut acc, mut i) = (v, idx);
    for h in &p[..k] { acc = if sorted { w.cp(acc, *h) } else if i % 2 == 0 { w.hp(acc, *h) } else { w.hp(*h, acc) }; i /= 2; }
    acc
}

/// corruptions of (leaf, proof, root) of one node with the special digests: the all-zero digest at EVERY position
/// of the proof (inserted), replacing an element, as the whole proof, as value and as root; the other special
/// digests (all of them with `all`, else one drawn) inserted / replacing / as value / as root; the running node
/// itself inserted at an interior position (a pair of equal children)
fn special_corruptions(w: &mut W, sorted: bool, root: Dg, q: &NodeInfo, all: bool, full: bool) -> std::vec::Vec<VCall> {
    let mut cs = vec![];
    let idx = q.index as u32;
    let len = q.proof.len();
    let mk = |label: String, p: std::vec::Vec<Dg>, r: Dg, v: Dg, i: u32| VCall { label, p, r, v, i };
    let sp = specials(w);
    let one = if all { usize::MAX } else { 1 + w.rng.below(sp.len() as u64 - 1) as usize };
    for (k, (name, s)) in sp.iter().enumerate() {
        let zero = k == 0;
        if !zero && !all && k != one { continue; }
        let tag = if zero { "zero" } else { "special" };
        let _ = name;
        if len < 31 {
            // inserted: the all-zero digest at every position (front, every interior position, end); the others at one position
            let interior = if len >= 2 { 1 + w.rng.below(len as u64 - 1) as usize } else { 0 };
            let rj = w.rng.below(len as u64 + 1) as usize;
            for j in 0..=len {
                let want = if zero { full || len <= 3 || j == 0 || j == len || j == interior } else { j == rj || (all && (j == 0 || j == len)) };
                if !want { continue; }
                let mut p = q.proof.clone(); p.insert(j, *s);
                cs.push(mk(format!("proof-extend-{}", tag), p, root, q.hash, idx));
            }
        }
        if len > 0 {
            let j = w.rng.below(len as u64) as usize;
            let mut p = q.proof.clone(); p[j] = *s;
            if p != q.proof { cs.push(mk(format!("proof-alter-{}", tag), p, root, q.hash, idx)); }
        }
        if len > 1 && (zero || all) { cs.push(mk(format!("proof-all-{}", tag), vec![*s; len], root, q.hash, idx)); }
        if *s != q.hash { cs.push(mk(format!("leaf-{}", tag), q.proof.clone(), root, *s, idx)); }
        if *s != root { cs.push(mk(format!("root-{}", tag), q.proof.clone(), *s, q.hash, idx)); }
    }
    // the running node inserted where it stands (the next level would pair it with itself)
    if len >= 2 && len < 31 {
        let j = 1 + w.rng.below(len as u64 - 1) as usize;
        let acc = running(w, sorted, q.hash, idx, &q.proof, j);
        let mut p = q.proof.clone(); p.insert(j, acc);
        cs.push(mk("proof-insert-running".into(), p, root, q.hash, idx));
    }
    cs
}

/// honest call + every single-element corruption of (leaf, proof, index, root) for one node
fn corruptions(w: &mut W, sorted: bool, root: Dg, q: &NodeInfo, all: &[NodeInfo], other_root: Dg, full: bool, special: bool) -> std::vec::Vec<VCall> {
    let mut cs = vec![];
    let idx = q.index as u32;
    let len = q.proof.len();
    let hon = if q.leaf { "honest" } else { "honest-internal" };
    cs.push(VCall { label: hon.into(), p: q.proof.clone(), r: root, v: q.hash, i: idx });
    let mk = |label: &str, p: std::vec::Vec<Dg>, r: Dg, v: Dg, i: u32| VCall { label: label.into(), p, r, v, i };
    // value
    cs.push(mk("leaf-random", q.proof.clone(), root, w.rand_digest(), idx));
    // near misses: the true digest with only its last bit changed
    cs.push(mk("leaf-near", q.proof.clone(), root, near(q.hash), idx));
    cs.push(mk("root-near", q.proof.clone(), near(root), q.hash, idx));
    if len > 0 { let j = w.rng.below(len as u64) as usize; let mut p = q.proof.clone(); p[j] = near(p[j]); cs.push(mk("proof-near", p, root, q.hash, idx)); }
    let o = &all[w.rng.below(all.len() as u64) as usize];
    if o.hash != q.hash { cs.push(mk("leaf-other-node", q.proof.clone(), root, o.hash, idx)); }
    if len > 0 { cs.push(mk("leaf-is-sibling", q.proof.clone(), root, q.proof[0], idx)); }
    // proof: alter, reorder, truncate, extend
    for j in 0..len {
        if !full && len > 3 && !w.rng.chance(3, len as u64) { continue; }
        let mut p = q.proof.clone(); p[j] = w.rand_digest(); cs.push(mk("proof-alter", p, root, q.hash, idx));
        let mut p = q.proof.clone(); p[j] = all[w.rng.below(all.len() as u64) as usize].hash;
        if p != q.proof { cs.push(mk("proof-alter-known", p, root, q.hash, idx)); }
        if j + 1 < len && q.proof[j] != q.proof[j + 1] { let mut p = q.proof.clone(); p.swap(j, j + 1); cs.push(mk("proof-reorder", p, root, q.hash, idx)); }
        let mut p = q.proof.clone(); p.remove(j); cs.push(mk("proof-truncate", p, root, q.hash, if sorted { idx } else { idx & ((1u32 << (len - 1)) - 1) }));
        let mut p = q.proof.clone(); p.insert(j, q.proof[j]);
        if p.len() < 32 { cs.push(mk("proof-extend-dup", p, root, q.hash, idx)); }
    }
    if len > 1 { let mut p = q.proof.clone(); p.reverse(); if p != q.proof { cs.push(mk("proof-reorder", p, root, q.hash, idx)); } }
    if len > 0 { cs.push(mk("proof-truncate", vec![], root, q.hash, 0)); }
    if len < 31 {
        let mut p = q.proof.clone(); p.push(w.rand_digest()); cs.push(mk("proof-extend", p, root, q.hash, idx));
        let mut p = q.proof.clone(); p.push(root); cs.push(mk("proof-extend", p, root, q.hash, idx));
        let mut p = q.proof.clone(); p.insert(0, w.rand_digest()); cs.push(mk("proof-extend", p, root, q.hash, idx));
        let mut p = q.proof.clone(); p.insert(0, q.hash); cs.push(mk("proof-extend", p, root, q.hash, idx.wrapping_mul(2)));
    }
    // index (positional form only)
    if !sorted {
        for j in 0..len { if full || len <= 3 || w.rng.chance(3, len as u64) { cs.push(mk("index-flip", q.proof.clone(), root, q.hash, idx ^ (1u32 << j))); } }
        if len < 32 {
            let top = 1u64 << len;
            if top <= u32::MAX as u64 {
                cs.push(mk("index-plus-2^len", q.proof.clone(), root, q.hash, (idx as u64 + top).min(u32::MAX as u64) as u32));
                cs.push(mk("index-eq-2^len", q.proof.clone(), root, q.hash, top as u32));
            }
            if (top - 1) as u32 != idx { cs.push(mk("index-2^len-1", q.proof.clone(), root, q.hash, (top - 1) as u32)); }
        }
        cs.push(mk("index-u32max", q.proof.clone(), root, q.hash, u32::MAX));
        cs.push(mk("index-high-bit", q.proof.clone(), root, q.hash, idx | (1u32 << 31)));
    }
    // root
    cs.push(mk("root-random", q.proof.clone(), w.rand_digest(), q.hash, idx));
    if other_root != root { cs.push(mk("root-other-tree", q.proof.clone(), other_root, q.hash, idx)); }
    cs.push(mk("root-is-leaf", q.proof.clone(), q.hash, q.hash, idx));
    cs.push(mk("trivial-tree", vec![], q.hash, q.hash, 0));
    if len > 0 {
        // an ancestor as root with the proof cut at that ancestor: a genuine membership in the subtree
        let k = 1 + w.rng.below(len as u64) as usize;
        let mut acc = q.hash; let mut i = idx;
        for h in &q.proof[..k] { acc = if sorted { w.cp(acc, *h) } else if i % 2 == 0 { w.hp(acc, *h) } else { w.hp(*h, acc) }; i /= 2; }
        let sub_idx = if k >= 32 { idx } else { idx & (((1u64 << k) - 1) as u32) };
        cs.push(mk("subtree-root-honest", q.proof[..k].to_vec(), acc, q.hash, sub_idx));
        cs.push(mk("root-subtree", q.proof.clone(), acc, q.hash, idx));
    }
    if special { cs.extend(special_corruptions(w, sorted, root, q, false, full)); }
    cs
}

fn verify_trace(out: &mut Out, rng: &mut Rng, hk: Hk, shape: Shape, n: usize, sample: usize, full: bool) {
    let mut w = W::new(hk, rng.fork(n as u64), n);
    let lib = match hk { Hk::S => w.e.register(libs::Lib, ()), Hk::K => w.e.register(libk::Lib, ()) };
    let mut leaves: std::vec::Vec<Dg> = (0..n).map(|_| w.rand_digest()).collect();
    if n >= 3 && w.rng.chance(1, 3) { leaves.sort(); if w.rng.chance(1, 2) { leaves.reverse(); } }
    // trees with a duplicated leaf value (two honest proofs for one value): adjacent for n = 3, 7, ..., apart for n = 5, 9, ...
    let dup = n >= 3 && n % 2 == 1;
    if dup { if n % 4 == 3 { leaves[1] = leaves[0]; } else { leaves[n - 1] = leaves[0]; } }
    let mut r2 = w.rng.fork(7);
    let t = build(shape, &leaves, &mut r2);
    // a second tree sharing some leaves
    let m = 1 + w.rng.below(5) as usize;
    let other_leaves: std::vec::Vec<Dg> = (0..m).map(|k| if k < n && w.rng.chance(1, 2) { leaves[k] } else { w.rand_digest() }).collect();
    let t2 = build(Shape::Random, &other_leaves, &mut r2);
    w.strees = vec![t.clone(), t2.clone()]; w.itrees = vec![t.clone(), t2.clone()];
    for sorted in [true, false] {
        let (root, nodes) = w.nodes(&t, sorted);
        let (oroot, _) = w.nodes(&t2, sorted);
        // which nodes get the full corruption treatment
        let mut pick: std::vec::Vec<usize> = (0..nodes.len()).filter(|k| nodes[*k].leaf).collect();
        if pick.len() > sample {
            // keep the deepest, the shallowest and random others
            pick.sort_by_key(|k| nodes[*k].proof.len());
            let mut keep = vec![pick[0], pick[pick.len() - 1]];
            while keep.len() < sample { let c = pick[w.rng.below(pick.len() as u64) as usize]; if !keep.contains(&c) { keep.push(c); } }
            pick = keep;
        }
        let internals: std::vec::Vec<usize> = (0..nodes.len()).filter(|k| !nodes[*k].leaf).collect();
        if !internals.is_empty() { pick.push(internals[w.rng.below(internals.len() as u64) as usize]); }
        // every leaf at least with its honest proof
        for q in nodes.iter().filter(|q| q.leaf) {
            let c = VCall { label: if dup { "honest-dup-tree" } else { "honest" }.into(), p: q.proof.clone(), r: root, v: q.hash, i: q.index as u32 };
            emit_verify(&mut w, out, &lib, sorted, &c);
        }
        // the special digests (boundary catalogue of the digest type): on the deepest picked leaf of each form
        let spk = *pick.iter().filter(|k| nodes[**k].leaf).max_by_key(|k| nodes[**k].proof.len()).unwrap();
        for k in pick {
            let cs = corruptions(&mut w, sorted, root, &nodes[k], &nodes, oroot, full, k == spk);
            for c in cs.iter().skip(1) { emit_verify(&mut w, out, &lib, sorted, c); }
        }
    }
    // cross-form: positional proofs offered to the sorted verification and sorted proofs to the positional one.
    // What "the tree with that root" is in the other form is declared: t with ascending children / t cut at descending pairs.
    if n <= 9 {
        let (tasc, _) = w.sort_children(&t);
        let (tcut, _) = w.prune_desc(&t);
        w.itrees.push(tasc.clone()); w.strees.push(tcut);
        let (iroot, inodes) = w.nodes(&t, false);
        let (sroot, snodes) = w.nodes(&t, true);
        let (aroot, anodes) = w.nodes(&tasc, false);
        assert!(aroot == sroot);
        for q in inodes.iter().filter(|q| q.leaf) {
            emit_verify(&mut w, out, &lib, true, &VCall { label: "cross-positional-proof".into(), p: q.proof.clone(), r: iroot, v: q.hash, i: 0 });
        }
        for q in snodes.iter().filter(|q| q.leaf) {
            emit_verify(&mut w, out, &lib, false, &VCall { label: "cross-sorted-proof".into(), p: q.proof.clone(), r: sroot, v: q.hash, i: q.index as u32 });
        }
        for q in anodes.iter().filter(|q| q.leaf) {
            emit_verify(&mut w, out, &lib, false, &VCall { label: "cross-sorted-proof-own-position".into(), p: q.proof.clone(), r: sroot, v: q.hash, i: q.index as u32 });
        }
    }
    // proof length boundary of the positional form: 31 accepted (as a length), 32 refused
    if n <= 4 {
        let v = leaves[0];
        let (root, _) = w.nodes(&t, false);
        let (sroot, _) = w.nodes(&t, true);
        for len in [31usize, 32, 33] {
            let p: std::vec::Vec<Dg> = (0..len).map(|_| w.rand_digest()).collect();
            let c = VCall { label: format!("proof-len-{}", len), p: p.clone(), r: root, v, i: w.rng.below(4) as u32 };
            emit_verify(&mut w, out, &lib, false, &c);
            let c = VCall { label: format!("proof-len-{}", len), p, r: sroot, v, i: 0 };
            if len != 31 { emit_verify(&mut w, out, &lib, true, &c); }
        }
    }
    let desc = format!("verify {} {:?} n={}", hk.name(), shape, n);
    w.finish(out, &desc, EMPTY_OBS, 0);
}

/// deep chains: proofs of length 31 (largest accepted) and 32 (refused by the positional form)
fn chain_trace(out: &mut Out, rng: &mut Rng, hk: Hk, n: usize, right: bool) {
    let mut w = W::new(hk, rng.fork(n as u64 + 1000), right as usize);
    let lib = match hk { Hk::S => w.e.register(libs::Lib, ()), Hk::K => w.e.register(libk::Lib, ()) };
    let leaves: std::vec::Vec<Dg> = (0..n).map(|_| w.rand_digest()).collect();
    let mut r2 = w.rng.fork(7);
    let t = build(if right { Shape::RightChain } else { Shape::LeftChain }, &leaves, &mut r2);
    w.strees = vec![t.clone()]; w.itrees = vec![t.clone()];
    for sorted in [true, false] {
        let (root, nodes) = w.nodes(&t, sorted);
        let mut lf: std::vec::Vec<&NodeInfo> = nodes.iter().filter(|q| q.leaf).collect();
        lf.sort_by_key(|q| q.proof.len());
        let deepest = lf[lf.len() - 1].clone(); let shallow = lf[0].clone(); let mid = lf[lf.len() / 2].clone();
        for q in [&deepest, &mid, &shallow] {
            let len = q.proof.len();
            let c = VCall { label: format!("honest-depth-{}", if len >= 31 { len.to_string() } else { "x".into() }), p: q.proof.clone(), r: root, v: q.hash, i: q.index as u32 };
            emit_verify(&mut w, out, &lib, sorted, &c);
            if len > 0 {
                let mut p = q.proof.clone(); let j = w.rng.below(len as u64) as usize; p[j] = w.rand_digest();
                emit_verify(&mut w, out, &lib, sorted, &VCall { label: "proof-alter".into(), p, r: root, v: q.hash, i: q.index as u32 });
                if !sorted {
                    emit_verify(&mut w, out, &lib, false, &VCall { label: "index-flip".into(), p: q.proof.clone(), r: root, v: q.hash, i: (q.index as u32) ^ (1u32 << (len.min(32) - 1)) });
                    if len < 32 { emit_verify(&mut w, out, &lib, false, &VCall { label: "index-eq-2^len".into(), p: q.proof.clone(), r: root, v: q.hash, i: 1u32 << len }); }
                    emit_verify(&mut w, out, &lib, false, &VCall { label: "index-u32max".into(), p: q.proof.clone(), r: root, v: q.hash, i: u32::MAX });
                }
            }
        }
    }
    let desc = format!("chain {} n={} {}", hk.name(), n, if right { "right" } else { "left" });
    w.finish(out, &desc, EMPTY_OBS, 0);
}

/// trees that CONTAIN the special digests: (A) leaves alternating random values and the special digests (the honest
/// proof of a random leaf contains a special digest as its first element), (B) a tree padded with all-zero leaves to
/// eight leaves (the honest proofs contain the all-zero digest and the hashes of all-zero subtrees; the padding value
/// has several honest proofs). Every leaf with its honest proof in both forms, the special corruptions of every
/// (distinct) leaf with ALL special digests, and the verifications of an all-zero value against an all-zero root.
fn special_trace(out: &mut Out, rng: &mut Rng, hk: Hk, shape: Shape, hostcfg: usize) {
    let mut w = W::new(hk, rng.fork(77_000), hostcfg);
    let lib = match hk { Hk::S => w.e.register(libs::Lib, ()), Hk::K => w.e.register(libk::Lib, ()) };
    let sp = specials(&w);
    let mut r2 = w.rng.fork(7);
    // (A) random / special alternating
    let mut la: std::vec::Vec<Dg> = vec![];
    for (_, s) in sp.iter() { la.push(w.rand_digest()); la.push(*s); }
    if w.rng.chance(1, 2) { la.rotate_left(1); }
    let ta = build(shape, &la, &mut r2);
    // (B) three data leaves and five all-zero padding leaves
    let mut lb: std::vec::Vec<Dg> = (0..3).map(|_| w.rand_digest()).collect();
    lb.extend([ZERO; 5]);
    let tb = build(Shape::Pow2, &lb, &mut r2);
    // (C) data leaves and padding interleaved, the seed's shape
    let mut lc: std::vec::Vec<Dg> = vec![];
    for _ in 0..3 { lc.push(w.rand_digest()); lc.push(ZERO); }
    let tc = build(shape, &lc, &mut r2);
    w.strees = vec![ta.clone(), tb.clone(), tc.clone()]; w.itrees = vec![ta.clone(), tb.clone(), tc.clone()];
    for sorted in [true, false] {
        for (t, name) in [(&ta, "special-leaf-tree"), (&tb, "zero-padded-tree"), (&tc, "zero-padded-tree")] {
            let (root, nodes) = w.nodes(t, sorted);
            let mut seen: std::vec::Vec<Dg> = vec![];
            for q in nodes.iter().filter(|q| q.leaf) {
                let c = VCall { label: format!("honest-{}", name), p: q.proof.clone(), r: root, v: q.hash, i: q.index as u32 };
                emit_verify(&mut w, out, &lib, sorted, &c);
                if seen.contains(&q.hash) { continue; }
                seen.push(q.hash);
                // tree A: the random leaves with ALL special digests; the padded trees: every distinct leaf with the all-zero one and one drawn
                let is_special = sp.iter().any(|(_, s)| *s == q.hash);
                if name == "special-leaf-tree" && is_special { continue; }
                let cs = special_corruptions(&mut w, sorted, root, q, name == "special-leaf-tree", true);
                for c in cs.iter() { emit_verify(&mut w, out, &lib, sorted, c); }
                // the hash of the all-zero pair (a node of the padded trees) inserted / as value
                let z1 = w.pair(sorted, ZERO, ZERO);
                let j = w.rng.below(q.proof.len() as u64 + 1) as usize;
                let mut p = q.proof.clone(); p.insert(j, z1);
                emit_verify(&mut w, out, &lib, sorted, &VCall { label: "proof-extend-zero-pair".into(), p, r: root, v: q.hash, i: q.index as u32 });
            }
        }
        // all-zero value against an all-zero root: the one-node tree is accepted with the empty proof only
        for len in 0..4usize {
            let c = VCall { label: if len == 0 { "trivial-tree-zero".into() } else { "zero-root-zero-proof".to_string() }, p: vec![ZERO; len], r: ZERO, v: ZERO, i: 0 };
            emit_verify(&mut w, out, &lib, sorted, &c);
        }
        // a non-zero value, all-zero proofs, its own value as root (no element is neutral)
        let v = *la.iter().find(|x| !sp.iter().any(|(_, s)| s == *x)).unwrap();
        for len in 1..3usize {
            let c = VCall { label: "self-root-zero-proof".into(), p: vec![ZERO; len], r: v, v, i: 0 };
            emit_verify(&mut w, out, &lib, sorted, &c);
        }
    }
    let desc = format!("special digests {} {:?}", hk.name(), shape);
    w.finish(out, &desc, EMPTY_OBS, 0);
}

// ------------------------------------------------------------------ distributor traces
#[derive(Clone)]
struct LeafData { index: u32, addr: usize, amount: i128, hash: Dg, proof: std::vec::Vec<Dg>, misplaced: bool }

/// build a tree of leaf data; with `positional` the index of every leaf is its position at its depth
/// `pad` all-zero padding leaves are interleaved with the data leaves (after each of the first `pad` data leaves; the
/// rest at the end): they are leaves of the tree that are the hash of no data, so nothing can be claimed for them
fn data_tree(w: &mut W, n: usize, shape: Shape, positional: bool, naddr: usize, amounts: &dyn Fn(&mut Rng, usize) -> i128, idx_base: u32, pad: usize) -> (T, Dg, std::vec::Vec<LeafData>) {
    let mut r2 = w.rng.fork(11);
    // shape first (with placeholder leaves numbered 0..n for the data, n.. for the padding), then positions, then the data
    let mut order: std::vec::Vec<usize> = vec![];
    for k in 0..n { order.push(k); if k < pad { order.push(n + k); } }
    for k in n.min(pad)..pad { order.push(n + k); }
    let ph: std::vec::Vec<Dg> = order.iter().map(|k| { let mut d = [0u8; 32]; d[0] = *k as u8; d[1] = 0xEE; d }).collect();
    let tshape = build(shape, &ph, &mut r2);
    fn positions(t: &T, depth: u32, pos: u64, acc: &mut std::vec::Vec<(usize, u32, u64)>) {
        match t { T::L(d) => acc.push((d[0] as usize, depth, pos)), T::N(l, r) => { positions(l, depth + 1, pos * 2, acc); positions(r, depth + 1, pos * 2 + 1, acc); } }
    }
    let mut pos = vec![]; positions(&tshape, 0, 0, &mut pos);
    let mut data: std::vec::Vec<(u32, usize, i128)> = vec![(0, 0, 0); n];
    let mut posof: std::vec::Vec<u64> = vec![0; n];
    let mut misplaced: std::vec::Vec<bool> = vec![false; n];
    for (k, depth, p) in &pos {
        if *k >= n { continue; }
        posof[*k] = *p;
        // positional trees with >= 3 leaves: the last leaf carries an index that is NOT its position
        let mis = positional && n >= 3 && *k == n - 1 && *depth >= 1;
        misplaced[*k] = mis;
        let index = if positional { if mis { (*p as u32) ^ 1 } else { *p as u32 } } else if *k >= 2 && w.rng.chance(1, 8) { idx_base + w.rng.below(n as u64) as u32 } else { idx_base + *k as u32 };
        let addr = if w.rng.chance(1, 8) { 0 } else { 1 + w.rng.below(naddr as u64) as usize };
        data[*k] = (index, addr, amounts(&mut w.rng, *k));
    }
    let mut hashes: std::vec::Vec<Dg> = data.iter().map(|(i, a, m)| w.lh(*i, *a, *m)).collect();
    hashes.extend(std::iter::repeat(ZERO).take(pad));
    fn subst(t: &T, hs: &[Dg]) -> T { match t { T::L(d) => T::L(hs[d[0] as usize]), T::N(l, r) => T::N(Box::new(subst(l, hs)), Box::new(subst(r, hs))) } }
    let t = subst(&tshape, &hashes);
    let (root, nodes) = w.nodes(&t, !positional);
    let mut lds = vec![];
    for (k, (i, a, m)) in data.iter().enumerate() {
        // the node of this leaf (first node with that hash that is a leaf and, if positional, at that index)
        let q = nodes.iter().find(|q| q.leaf && q.hash == hashes[k] && (!positional || q.index == posof[k])).unwrap();
        lds.push(LeafData { index: *i, addr: *a, amount: *m, hash: hashes[k], proof: q.proof.clone(), misplaced: misplaced[k] });
    }
    (t, root, lds)
}

struct Dist { tg: Target, univ: std::vec::Vec<u32>, addrs: std::vec::Vec<usize>, positional: bool, mixed: bool }

fn do_claim(w: &mut W, out: &mut Out, d: &Dist, label: &str, index: u32, addr: usize, amount: i128, proof: &[Dg], cur_root: Option<Dg>) -> bool {
    // hash evaluations the model will need
    let lhash = w.lh(index, addr, amount);
    let positional = match &d.tg { Target::Air(..) => { w.entry = None; false }, _ => { let dflt = if d.mixed { w.rng.chance(1, 2) } else { d.positional }; w.entry.take().unwrap_or(dflt) } };
    if cur_root.is_some() { if positional { w.sim_idx(lhash, index, proof); } else { w.sim_sorted(lhash, proof); } }
    let a = w.addrs[addr].clone();
    let pv = w.pv(proof);
    w.e.mock_auths(&[]);
    let (ok, name) = match &d.tg {
        Target::Lib(id) => match (w.hk, positional) {
            (Hk::S, false) => (matches!(libs::LibClient::new(&w.e, id).try_claim_s(&index, &a, &amount, &pv), Ok(Ok(()))), "ClaimS"),
            (Hk::S, true) => (matches!(libs::LibClient::new(&w.e, id).try_claim_i(&index, &a, &amount, &pv), Ok(Ok(()))), "ClaimI"),
            (Hk::K, false) => (matches!(libk::LibClient::new(&w.e, id).try_claim_s(&index, &a, &amount, &pv), Ok(Ok(()))), "ClaimS"),
            (Hk::K, true) => (matches!(libk::LibClient::new(&w.e, id).try_claim_i(&index, &a, &amount, &pv), Ok(Ok(()))), "ClaimI"),
        },
        Target::Air(id, _) => (matches!(airdrop::AirdropContractClient::new(&w.e, id).try_claim(&index, &a, &amount, &pv), Ok(Ok(()))), "Airdrop"),
    };
    let call = format!("{} {} {} {} {}", name, n(index as u64), n(addr as u64), z(amount), w.dl(proof));
    let kind = match &d.tg { Target::Air(..) => "airdrop", _ => if positional { "claim_idx" } else { "claim" } };
    out.case(&format!("{}/{}/{}", kind, label, if ok { "ok" } else { "fail" }), &format!("{}{}{:?}{:?}", w.hk.name(), call, proof, cur_root));
    if ok && w.leave_next { w.unread.insert(index); }
    w.leave_next = false;
    let o = w.observe(&d.tg, &d.univ, &d.addrs);
    w.items.push(format!("it ({}) {} {}", call, if ok { "(Ok None)" } else { "Fail" }, o));
    ok
}

fn do_set_root(w: &mut W, out: &mut Out, d: &Dist, label: &str, r: Dg) {
    if let Target::Lib(id) = &d.tg {
        w.e.mock_auths(&[]);
        let ok = match w.hk { Hk::S => matches!(libs::LibClient::new(&w.e, id).try_set_root(&w.bn(&r)), Ok(Ok(()))), Hk::K => matches!(libk::LibClient::new(&w.e, id).try_set_root(&w.bn(&r)), Ok(Ok(()))) };
        let call = format!("SetRoot {}", w.d(r));
        out.case(&format!("set_root/{}/{}", label, if ok { "ok" } else { "fail" }), &format!("{}{:?}", w.hk.name(), r));
        let o = w.observe(&d.tg, &d.univ, &d.addrs);
        w.items.push(format!("it ({}) {} {}", call, if ok { "(Ok None)" } else { "Fail" }, o));
    }
}
fn do_set_claimed(w: &mut W, out: &mut Out, d: &Dist, i: u32) {
    if let Target::Lib(id) = &d.tg {
        w.e.mock_auths(&[]);
        let ok = match w.hk { Hk::S => matches!(libs::LibClient::new(&w.e, id).try_set_claimed(&i), Ok(Ok(()))), Hk::K => matches!(libk::LibClient::new(&w.e, id).try_set_claimed(&i), Ok(Ok(()))) };
        let call = format!("SetClaimed {}", n(i as u64));
        out.case(&format!("set_claimed/{}", if ok { "ok" } else { "fail" }), &format!("{}{}", w.hk.name(), call));
        if ok && w.leave_next { w.unread.insert(i); }
        w.leave_next = false;
        let o = w.observe(&d.tg, &d.univ, &d.addrs);
        w.items.push(format!("it ({}) {} {}", call, if ok { "(Ok None)" } else { "Fail" }, o));
    }
}
fn do_advance(w: &mut W, out: &mut Out, d: &Dist, k: u32) {
    // ONE jump of the ledger; the observation after it reads every flag again (also the ones left unread)
    w.e.ledger().with_mut(|l| { l.sequence_number += k; });
    out.case(&format!("advance/{}", if GAPS.contains(&k) || k == 1 { k.to_string() } else { "to-round-ledger".into() }), &format!("{}/{}", k, w.unread.len()));
    w.unread.clear();
    let o = w.observe(&d.tg, &d.univ, &d.addrs);
    w.items.push(format!("it (Advance {}) (Ok None) {}", k, o));
}

/// a random claim history against the distributor: valid claims, repeats, proofs of other leaves,
/// corrupted proofs / data, leaves of the other tree, root changes
const GAPS: [u32; 6] = [20, 100, 17_281, 20_000, 600_000, 4_000_000];

const CORRUPTIONS: [&str; 15] = ["proof-of-other", "proof-altered", "proof-dropped", "proof-extended", "amount-altered",
                                 "address-altered", "index-altered", "other-tree", "proof-len-32",
                                 // the special digests (boundary catalogue of the digest type) inside claims
                                 "proof-zero-prepended", "proof-zero-appended", "proof-zero-inserted", "proof-zero-altered",
                                 "proof-special-extended", "proof-special-altered"];
/// the kinds that make sense for a one-leaf tree (empty honest proof)
const CORRUPTIONS_1: [&str; 4] = ["proof-extended", "proof-zero-appended", "proof-special-extended", "proof-len-32"];

/// one invalid claim derived from the leaf `l` of the current tree; the label says whether the index it
/// names was still unclaimed (only then does the outcome depend on the proof check)
fn corrupt_claim(w: &mut W, out: &mut Out, d: &Dist, trees: &[(Dg, std::vec::Vec<LeafData>)], tk: usize, kind: &str, l: &LeafData,
                 cur_root: Option<Dg>, claimed: &mut std::vec::Vec<u32>) {
    let lds = &trees[tk].1;
    let (mut i, mut a, mut m, mut p) = (l.index, l.addr, l.amount, l.proof.clone());
    match kind {
        "proof-of-other" => { match lds.iter().find(|o| o.hash != l.hash && o.proof != l.proof) { Some(o) => p = o.proof.clone(), None => return } }
        "proof-altered" => { if p.is_empty() { return; } let j = w.rng.below(p.len() as u64) as usize; p[j] = if w.rng.chance(1, 2) { w.rand_digest() } else { near(p[j]) }; }
        "proof-dropped" => { if p.is_empty() { return; } if w.rng.chance(1, 2) { p.pop(); } else { p.remove(0); } }
        "proof-extended" => { let x = if w.rng.chance(1, 2) { w.rand_digest() } else { l.hash }; if w.rng.chance(1, 2) { p.push(x); } else { p.insert(0, x); } }
        "amount-altered" => { m = if m == i128::MAX { m - 1 } else { m + 1 }; }
        "address-altered" => { a = 1 + (a % (w.addrs.len() - 1)); }
        "index-altered" => { match d.univ.iter().find(|x| **x != l.index && !claimed.contains(x)) { Some(x) => i = *x, None => return } }
        "other-tree" => {
            if trees.len() < 2 { return; }
            let ot = (tk + 1) % trees.len();
            let x = trees[ot].1[w.rng.below(trees[ot].1.len() as u64) as usize].clone();
            if lds.iter().any(|y| y.hash == x.hash) { return; }
            i = x.index; a = x.addr; m = x.amount; p = x.proof.clone();
        }
        "proof-len-32" => { p = (0..32).map(|_| w.rand_digest()).collect(); }
        "proof-zero-prepended" => { p.insert(0, ZERO); }
        "proof-zero-appended" => { p.push(ZERO); }
        "proof-zero-inserted" => { if p.len() < 2 { return; } let j = 1 + w.rng.below(p.len() as u64 - 1) as usize; p.insert(j, ZERO); }
        "proof-zero-altered" => { if p.is_empty() { return; } let j = w.rng.below(p.len() as u64) as usize; if p[j] == ZERO { return; } p[j] = ZERO; }
        "proof-special-extended" | "proof-special-altered" => {
            let sp = specials(w);
            let x = sp[1 + w.rng.below(sp.len() as u64 - 1) as usize].1;
            if kind == "proof-special-extended" { let j = w.rng.below(p.len() as u64 + 1) as usize; p.insert(j, x); }
            else { if p.is_empty() { return; } let j = w.rng.below(p.len() as u64) as usize; p[j] = x; }
        }
        _ => unreachable!(),
    }
    let tag = if claimed.contains(&i) { "claimed" } else { "unclaimed" };
    if do_claim(w, out, d, &format!("{}-{}", kind, tag), i, a, m, &p, cur_root) { claimed.push(i); }
}

fn claim_history(w: &mut W, out: &mut Out, d: &Dist, trees: &[(Dg, std::vec::Vec<LeafData>)], mut cur: Option<usize>, steps: usize, root_changes: bool, gap: u32) {
    let mut claimed: std::vec::Vec<u32> = vec![];
    if let Some(k) = cur {
        let lds = &trees[k].1;
        let root = Some(trees[k].0);
        // directed 1: on the fresh distributor (nothing claimed) every kind of invalid claim, so that the
        // outcome is decided by the proof check and not by the already-claimed guard
        if lds.len() < 2 {
            let v = lds[0].clone();
            for kind in CORRUPTIONS_1 { corrupt_claim(w, out, d, trees, k, kind, &v, root, &mut claimed); }
        }
        if lds.len() >= 2 {
            let v = lds.iter().find(|x| !x.misplaced).unwrap().clone();
            for kind in CORRUPTIONS { corrupt_claim(w, out, d, trees, k, kind, &v, root, &mut claimed); }
            // the insertion in the middle needs a proof of two elements: the deepest leaf
            let deep = lds.iter().filter(|x| !x.misplaced).max_by_key(|x| x.proof.len()).unwrap().clone();
            if v.proof.len() < 2 && deep.proof.len() >= 2 { corrupt_claim(w, out, d, trees, k, "proof-zero-inserted", &deep, root, &mut claimed); }
            // a correctly hashed leaf whose embedded index is not its position (positional trees)
            if let Some(x) = lds.iter().find(|x| x.misplaced) { let x = x.clone();
                w.entry = Some(true);
                if do_claim(w, out, d, "index-not-position", x.index, x.addr, x.amount, &x.proof, root) { claimed.push(x.index); } }
        }
        // directed 1b (trees padded with all-zero leaves): the honest claim of a leaf whose proof contains the
        // all-zero digest must succeed, its repetition must fail
        if let Some(zs) = lds.iter().find(|x| !x.misplaced && x.proof.contains(&ZERO)) { let zs = zs.clone();
            if d.mixed { w.entry = Some(true); }
            if do_claim(w, out, d, "honest-zero-sibling", zs.index, zs.addr, zs.amount, &zs.proof, root) { claimed.push(zs.index); }
            do_claim(w, out, d, "repeat-zero-sibling", zs.index, zs.addr, zs.amount, &zs.proof, root);
        }
        // directed 2: a flag (and the root) must survive a long gap during which nobody reads it
        let l0 = lds.iter().find(|x| !x.misplaced && !claimed.contains(&x.index)).or(lds.iter().find(|x| !x.misplaced)).unwrap().clone();
        w.leave_next = true;
        if d.mixed { w.entry = Some(true); }
        if do_claim(w, out, d, "honest", l0.index, l0.addr, l0.amount, &l0.proof, root) { claimed.push(l0.index); }
        if d.mixed {
            // the same index through the other entry point of the same contract
            w.entry = Some(false);
            do_claim(w, out, d, "cross-entry-repeat", l0.index, l0.addr, l0.amount, &l0.proof, root);
        }
        if root_changes { let i = d.univ[d.univ.len() - 1]; w.leave_next = true; do_set_claimed(w, out, d, i); claimed.push(i); }
        do_advance(w, out, d, gap);
        do_claim(w, out, d, if claimed.contains(&l0.index) { "repeat-after-gap" } else { "retry-after-gap" }, l0.index, l0.addr, l0.amount, &l0.proof, root);
        if let Some(l1) = lds.iter().find(|x| !claimed.contains(&x.index) && !x.misplaced) { let l1 = l1.clone();
            w.leave_next = true;
            if d.mixed { w.entry = Some(true); }
            if do_claim(w, out, d, "honest-after-gap", l1.index, l1.addr, l1.amount, &l1.proof, root) { claimed.push(l1.index); }
            let g2 = GAPS[w.rng.below(6) as usize]; do_advance(w, out, d, g2);
        }
    }
    // directed 3: root changes - a root that is no tree, the other tree (stale proofs must fail), and back
    if let (true, Some(k)) = (root_changes, cur) {
        let lds = &trees[k].1;
        let v = lds.iter().find(|x| !claimed.contains(&x.index) && !x.misplaced).or(lds.first()).unwrap().clone();
        let tag = if claimed.contains(&v.index) { "claimed" } else { "unclaimed" };
        let r = w.rand_digest(); do_set_root(w, out, d, "random", r);
        do_claim(w, out, d, &format!("root-random-{}", tag), v.index, v.addr, v.amount, &v.proof, Some(r));
        // special digests as the root: nothing can be claimed against them, whatever the proof
        let sp = specials(w);
        let drawn = sp[1 + w.rng.below(sp.len() as u64 - 1) as usize].1;
        for (name, r) in [("zero", ZERO), ("special", drawn)] {
            do_set_root(w, out, d, name, r);
            do_claim(w, out, d, &format!("root-{}-{}", name, tag), v.index, v.addr, v.amount, &v.proof, Some(r));
            do_claim(w, out, d, &format!("root-{}-empty-proof-{}", name, tag), v.index, v.addr, v.amount, &[], Some(r));
            do_claim(w, out, d, &format!("root-{}-same-proof-{}", name, tag), v.index, v.addr, v.amount, &[r], Some(r));
        }
        let ot = (k + 1) % trees.len();
        do_set_root(w, out, d, "tree", trees[ot].0);
        if !trees[ot].1.iter().any(|y| y.hash == v.hash) {
            do_claim(w, out, d, &format!("stale-root-proof-{}", tag), v.index, v.addr, v.amount, &v.proof, Some(trees[ot].0));
        }
        do_set_root(w, out, d, "tree", trees[k].0);
    }
    for _ in 0..steps {
        let cur_root = cur.map(|k| trees[k].0);
        let tk = cur.unwrap_or(0);
        let lds = &trees[tk].1;
        let l = lds[w.rng.below(lds.len() as u64) as usize].clone();
        // for invalid claims prefer a leaf whose index is still unclaimed
        let fresh: std::vec::Vec<LeafData> = lds.iter().filter(|x| !claimed.contains(&x.index)).cloned().collect();
        let victim = if !fresh.is_empty() && w.rng.chance(3, 4) { fresh[w.rng.below(fresh.len() as u64) as usize].clone() } else { l.clone() };
        match w.rng.below(100) {
            0..=24 => { // honest claim of a leaf of the current tree (fresh or repeated)
                let isfresh = !claimed.contains(&l.index);
                let lab = if cur.is_none() { "no-root" } else if l.misplaced { "index-not-position" } else if isfresh { "honest" } else { "repeat" };
                w.leave_next = w.rng.chance(1, 2);
                if do_claim(w, out, d, lab, l.index, l.addr, l.amount, &l.proof, cur_root) { claimed.push(l.index); }
            }
            25..=32 => { // prefer an unclaimed leaf
                if let Some(x) = fresh.iter().find(|x| !x.misplaced) { let x = x.clone();
                    let lab = if cur.is_none() { "no-root" } else { "honest" };
                    if do_claim(w, out, d, lab, x.index, x.addr, x.amount, &x.proof, cur_root) { claimed.push(x.index); } }
            }
            33..=39 => { // repeat of a claimed index (same data)
                if let Some(x) = lds.iter().find(|x| claimed.contains(&x.index)) { let x = x.clone();
                    do_claim(w, out, d, "repeat", x.index, x.addr, x.amount, &x.proof, cur_root); }
            }
            40..=79 => { // an invalid claim
                if cur.is_some() { let kind = CORRUPTIONS[w.rng.below(CORRUPTIONS.len() as u64) as usize]; corrupt_claim(w, out, d, trees, tk, kind, &victim, cur_root, &mut claimed); }
            }
            80..=88 => { // root change
                if root_changes {
                    match w.rng.below(6) {
                        0 => { let r = w.rand_digest(); do_set_root(w, out, d, "random", r);
                               // a claim against a root that is no tree root
                               let tag = if claimed.contains(&victim.index) { "claimed" } else { "unclaimed" };
                               do_claim(w, out, d, &format!("root-random-{}", tag), victim.index, victim.addr, victim.amount, &victim.proof, Some(r));
                               let k = w.rng.below(trees.len() as u64) as usize; do_set_root(w, out, d, "tree", trees[k].0); cur = Some(k); }
                        _ => { let k = w.rng.below(trees.len() as u64) as usize; do_set_root(w, out, d, if Some(k) == cur { "same" } else { "tree" }, trees[k].0); cur = Some(k); }
                    }
                }
            }
            89..=92 => { if root_changes { let i = d.univ[w.rng.below(d.univ.len() as u64) as usize]; w.leave_next = w.rng.chance(1, 2); do_set_claimed(w, out, d, i); claimed.push(i); } }
            _ => {
                // a gap from the list, one ledger, or up to the next "round" ledger number
                let k = match w.rng.below(5) {
                    0 => 1,
                    1 => { let m = [4096u32, 17_280, 65_536, 1 << 20][w.rng.below(4) as usize]; let seq = w.e.ledger().sequence(); m - seq % m }
                    _ => GAPS[w.rng.below(6) as usize],
                };
                do_advance(w, out, d, k);
            }
        }
        if !w.unread.is_empty() && w.rng.chance(1, 3) { let k = GAPS[w.rng.below(6) as usize]; do_advance(w, out, d, k); }
    }
    // at the end everything is read once more: at a round ledger number and after a last gap
    { let m = [4096u32, 17_280, 65_536, 1 << 20][w.rng.below(4) as usize]; let seq = w.e.ledger().sequence(); do_advance(w, out, d, m - seq % m); }
    let k = GAPS[w.rng.below(6) as usize]; do_advance(w, out, d, k);
}

fn lib_dist_trace(out: &mut Out, rng: &mut Rng, hk: Hk, positional: bool, mixed: bool, n: usize, shape: Shape, steps: usize, hostcfg: usize, gap: u32, pad: usize) {
    let mut w = W::new(hk, rng.fork(n as u64 + 5000), hostcfg);
    let id = match hk { Hk::S => w.e.register(libs::Lib, ()), Hk::K => w.e.register(libk::Lib, ()) };
    w.addrs.push(id.clone());
    let naddr = 3;
    for _ in 0..naddr { let a = Address::generate(&w.e); w.addrs.push(a); }
    let amounts = |r: &mut Rng, _k: usize| -> i128 { match r.below(6) { 0 => 0, 1 => -(r.below(50) as i128) - 1, 2 => r.i128_any(), _ => 1 + r.below(1000) as i128 } };
    let (t1, r1, l1) = data_tree(&mut w, n, shape, positional, naddr, &amounts, 0, pad);
    let n2 = 1 + w.rng.below(6) as usize;
    let (t2, r2, l2) = data_tree(&mut w, n2, Shape::Random, positional, naddr, &amounts, 0, 0);
    if mixed {
        // both entry points on one contract: the roots are the positional ones; what the sorted
        // verification can find under such a root is the tree cut at its descending pairs
        let (c1, _) = w.prune_desc(&t1); let (c2, _) = w.prune_desc(&t2);
        w.strees = vec![c1, c2]; w.itrees = vec![t1, t2];
    } else if positional { w.itrees = vec![t1, t2]; } else { w.strees = vec![t1, t2]; }
    let mut univ: std::vec::Vec<u32> = l1.iter().chain(l2.iter()).map(|x| x.index).collect();
    univ.push(univ.iter().max().unwrap() + 1); univ.push(u32::MAX); univ.push(7);
    for k in 0..univ.len().min(3) { let i = univ[k]; univ.push(i ^ (1 << 8)); univ.push(i ^ (1 << 16)); univ.push(i ^ (1 << 31)); }
    univ.sort(); univ.dedup();
    let d = Dist { tg: Target::Lib(id), univ, addrs: vec![], positional, mixed };
    let obs0 = w.observe(&d.tg, &d.univ, &d.addrs);
    let trees = vec![(r1, l1), (r2, l2)];
    // start: sometimes without a root (claims must fail), then set it
    let mut cur = None;
    { let l = trees[0].1[0].clone();
      do_claim(&mut w, out, &d, "no-root", l.index, l.addr, l.amount, &l.proof, None); }
    do_set_root(&mut w, out, &d, "tree", trees[0].0); cur.replace(0usize);
    claim_history(&mut w, out, &d, &trees, cur, steps, true, gap);
    let desc = format!("distributor {} {} n={} pad={} {:?} hostcfg={} gap={}", hk.name(), if mixed { "mixed-entry-points" } else if positional { "indexed" } else { "sorted" }, n, pad, shape, hostcfg % 2, gap);
    w.finish(out, &desc, &obs0, 0);
}

fn airdrop_trace(out: &mut Out, rng: &mut Rng, n: usize, shape: Shape, steps: usize, underfunded: bool, hostcfg: usize, gap: u32, pad: usize) {
    let mut w = W::new(Hk::S, rng.fork(n as u64 + 9000), hostcfg);
    // token (Stellar asset contract) and funding
    w.e.mock_all_auths_allowing_non_root_auth();
    let admin = Address::generate(&w.e);
    let funder = Address::generate(&w.e);
    let sac = w.e.register_stellar_asset_contract_v2(admin.clone());
    let tok = sac.address();
    token::StellarAssetClient::new(&w.e, &tok).mint(&funder, &1_000_000_000_000i128);
    // addresses: 0 = the airdrop contract (known after registration; registered at a fixed generated address)
    let cid = Address::generate(&w.e);
    w.addrs.push(cid.clone());
    let naddr = 3;
    for _ in 0..naddr { let a = Address::generate(&w.e); w.addrs.push(a); }
    // the first leaf of every tree has the largest amount (it is claimed first)
    let amounts = |r: &mut Rng, k: usize| -> i128 { if k == 0 { 2000 + r.below(1000) as i128 } else { match r.below(8) { 0 => 0, 1 => -(r.below(50) as i128) - 1, _ => 1 + r.below(1000) as i128 } } };
    let (t1, r1, mut l1) = data_tree(&mut w, n, shape, false, naddr, &amounts, 0, pad);
    let n2 = 1 + w.rng.below(4) as usize;
    let (t2, r2, l2) = data_tree(&mut w, n2, Shape::Random, false, naddr, &amounts, 0, 0);
    w.strees = vec![t1, t2];
    let total: i128 = l1.iter().map(|x| x.amount.max(0)).sum();
    // under-funded: one token short of the largest leaf, so that the first honest claim fails for lack of funds
    let funding = if underfunded { l1.iter().map(|x| x.amount).max().unwrap() - 1 } else { total + 5 };
    w.e.register_at(&cid, airdrop::AirdropContract, (w.bn(&r1), tok.clone(), funding, funder.clone()));
    w.e.mock_auths(&[]);
    let mut univ: std::vec::Vec<u32> = l1.iter().chain(l2.iter()).map(|x| x.index).collect();
    univ.push(univ.iter().max().unwrap() + 1); univ.push(u32::MAX);
    for k in 0..univ.len().min(2) { let i = univ[k]; univ.push(i ^ (1 << 8)); univ.push(i ^ (1 << 16)); univ.push(i ^ (1 << 31)); }
    univ.sort(); univ.dedup();
    let d = Dist { tg: Target::Air(cid, tok), univ, addrs: (0..=naddr).collect(), positional: false, mixed: false };
    let obs0 = w.observe(&d.tg, &d.univ, &d.addrs);
    l1.sort_by_key(|x| std::cmp::Reverse(x.amount));
    let trees = vec![(r1, l1), (r2, l2)];
    claim_history(&mut w, out, &d, &trees, Some(0), steps, false, gap);
    let desc = format!("airdrop n={} pad={} {:?} {} hostcfg={} gap={}", n, pad, shape, if underfunded { "underfunded" } else { "funded" }, hostcfg % 2, gap);
    w.finish(out, &desc, &obs0, 0);
}

fn main() {
    let mut out = Out::new("From SC Require Import Lib.Prelude Lib.Int Lib.Host Model.Merkle Run.C17.\nOpen Scope Z_scope.", "check_all");
    out.per_shard(700);
    let mut rng = Rng::new(out.cfg.seed);
    let thorough = out.cfg.thorough;
    let scale = out.cfg.scale as usize;

    // ---- pure verification: every tree size 1..N, several shapes, both hashers
    let sizes: std::vec::Vec<usize> = if thorough { (1..=33).collect() } else { vec![1, 2, 3, 4, 5, 6, 7, 8, 9, 12, 16, 17, 33] };
    for (k, &n) in sizes.iter().enumerate() {
        let shapes: std::vec::Vec<Shape> = if thorough { SHAPES.to_vec() } else {
            // quick: two shapes per size chosen by the seed, never a chain for big n (table size)
            let a = SHAPES[(k + out.cfg.seed as usize) % 3]; let b = SHAPES[3 + rng.below(3) as usize]; vec![a, b] };
        for sh in shapes {
            if n > 12 && matches!(sh, Shape::LeftChain | Shape::RightChain) { continue; }
            for hk in [Hk::S, Hk::K] {
                if !thorough && n > 6 && rng.chance(1, 2) { continue; }
                let sample = if n <= 8 { n } else if thorough { 6 } else { 3 };
                for _ in 0..scale { verify_trace(&mut out, &mut rng, hk, sh, n, sample, n <= 5 || thorough); }
            }
        }
    }
    // deep chains: depth 31 and 32
    for hk in [Hk::S, Hk::K] {
        for (n, right) in [(32usize, true), (32, false), (33, true), (33, false)] {
            // the right chains of depth 31 and 32 always run (their labels are in must_cover); the left ones half of the time in quick
            if !thorough && !right && rng.chance(1, 2) { continue; }
            chain_trace(&mut out, &mut rng, hk, n, right);
        }
    }
    // ---- trees that contain the special digests (all-zero padding, all-ones, ...), both hashers
    for (k, hk) in [Hk::S, Hk::K].into_iter().enumerate() {
        for r in 0..(if thorough { 6 } else { 1 }) * scale {
            let sh = SHAPES[(out.cfg.seed as usize + k + r) % 6];
            special_trace(&mut out, &mut rng, hk, sh, k + r);
        }
    }
    // ---- distributor (library, both hashers, both forms)
    let mut tno = out.cfg.seed as usize;
    let nd = (if thorough { 60 } else { 5 }) * scale;
    for k in 0..nd {
        for hk in [Hk::S, Hk::K] {
            for (positional, mixed) in [(false, false), (true, false), (true, true)] {
                let n = 2 + rng.below(11) as usize;
                let sh = SHAPES[rng.below(6) as usize];
                tno += 1;
                // the first round has fixed sizes (a one-leaf sorted tree, four-leaf positional trees)
                let n = if k == 0 { if positional { 4 } else { 1 } } else if k == 1 { 5 } else { n };
                if mixed && k >= (nd + 1) / 2 { continue; }
                // the third round: trees padded with all-zero leaves (four data leaves, balanced, so that the first leaf's
                // sibling is a padding leaf); later rounds are padded one time in four
                let (n, sh, pad) = if k == 2 { (4, Shape::Pow2, 2) } else if k > 2 && rng.chance(1, 4) { (n, sh, 1 + rng.below(3) as usize) } else { (n, sh, 0) };
                lib_dist_trace(&mut out, &mut rng, hk, positional, mixed, n, sh, if thorough { 60 } else { 30 }, tno / 6, GAPS[tno % 6], pad);
            }
        }
    }
    // ---- the airdrop example
    let na = (if thorough { 80 } else { 8 }) * scale;
    for k in 0..na {
        let n = if k == 0 { 4 } else { 1 + rng.below(10) as usize };
        let sh = SHAPES[rng.below(6) as usize];
        tno += 1;
        // the third trace (funded): a tree padded with all-zero leaves; later ones one time in four
        let (n, sh, pad) = if k == 2 { (4, Shape::Pow2, 2) } else if k > 2 && rng.chance(1, 4) { (n, sh, 1 + rng.below(3) as usize) } else { (n, sh, 0) };
        airdrop_trace(&mut out, &mut rng, n, sh, if thorough { 50 } else { 30 }, k % 3 == 1, tno / 6, GAPS[tno % 6], pad);
    }
    out.finish();
}
