//! C10 correspondence harness: every NFT has exactly one owner and enumerations mirror ownership.
//! Drives the real Base / Enumerable / Consecutive code in the Soroban host with mint / batch
//! mint / transfer / transfer_from / burn / burn_from histories and observes owner_of for every
//! id, balances, approvals and both enumerations after every call.
#[path = "../common/nft.rs"]
mod nft;
use nft::*;
use vh::*;

fn profile(fl: Fl, mode: u32, big: bool, rng: &mut Rng) -> Profile {
    let batches: Vec<u32> = if big {
        let ib = ids_in_bucket();
        std::vec![1, 2, 31, 32, 33, 100, ib - 1, ib, ib + 1, 2 * ib, ib / 2 + 7, max_batch(), max_batch() - ib + 1, 9 * ib + 5]
    } else { std::vec![1, 1, 2, 2, 3, 3, 4, 5, 8] };
    let _ = rng;
    Profile {
        mint: if fl == Fl::Cons { 160 } else { 260 }, transfer: 250, transfer_from: 120, burn: 130, burn_from: 90,
        approve: 60, approve_all: 40, advance: 50, p_wrong_auth: 8, mint_mode: mode, p_long_advance: 40, batches,
        max_ids: if big { 100_000 } else if fl == Fl::Cons { 34 } else { 14 },
    }
}

fn random_trace(out: &mut Out, rng: &mut Rng, fl: Fl, big: bool, nsteps: usize, desc: &str) {
    let naddr = 3 + rng.below(2) as usize;
    let now0 = *rng.pick(&[0u32, 1, 7, 1000]);
    let min_ttl = *rng.pick(&[1u32, 1, 16]);
    let max_ttl = *rng.pick(&[50u32, 1000, 6_312_000]);
    let mode = if desc == "outside-quantifier" { 3 } else { rng.below(3) as u32 };
    let sample = if big { Some(if out.cfg.thorough { 200 } else { 40 }) } else { None };
    let mut w = World::new(fl, naddr, now0, min_ttl, max_ttl, sample);
    if big { w.light_appr = true; }
    let p = profile(fl, mode, big, rng);
    // start with something to work on
    let first = match fl { Fl::Cons => Call::BatchMint(0, *rng.pick(&p.batches)), _ => if mode == 1 { Call::MintId(0, EXPLICIT_BASE) } else { Call::MintSeq(0) } };
    w.step(out, rng, &first);
    for _ in 1..nsteps {
        let c = w.gen_call(rng, &p);
        w.step(out, rng, &c);
    }
    out.label(&format!("family/{}", desc));
    w.flush(out, desc);
}

/// run a fixed list of calls (directed scenario); every scenario has its own coverage label
fn scenario(out: &mut Out, rng: &mut Rng, fl: Fl, sample: Option<u32>, desc: &str, calls: &[Call]) {
    let mut w = World::new(fl, 4, 10, 1, 1000, sample);
    if desc.ends_with("-full") || sample.is_some() { w.light_appr = true; }
    for c in calls { w.step(out, rng, c); }
    out.label(&format!("scenario/{}/{}", fl.tag(), desc));
    w.flush(out, desc);
}

fn tr(from: usize, to: usize, id: u32) -> Call { Call::Transfer { auths: std::vec![from], from, to, id } }
fn bu(from: usize, id: u32) -> Call { Call::Burn { auths: std::vec![from], from, id } }

fn directed(out: &mut Out, rng: &mut Rng) {
    let ib = ids_in_bucket();
    // consecutive: neighbours burned / transferred in every order around one token, first and last of a batch, id 0
    scenario(out, rng, Fl::Cons, None, "burn-then-burn-down", &[Call::BatchMint(0, 8), Call::BatchMint(1, 4), bu(0, 5), bu(0, 4), tr(0, 2, 6), bu(0, 3), tr(0, 2, 2), tr(0, 3, 0), bu(1, 8), tr(1, 2, 11), bu(0, 7), tr(1, 3, 9)]);
    scenario(out, rng, Fl::Cons, None, "burn-up", &[Call::BatchMint(0, 8), bu(0, 3), bu(0, 4), bu(0, 5), tr(0, 1, 6), tr(0, 2, 2), bu(0, 7), bu(0, 0), tr(0, 3, 1)]);
    scenario(out, rng, Fl::Cons, None, "transfer-then-burn-same", &[Call::BatchMint(0, 6), tr(0, 1, 3), bu(1, 3), tr(0, 2, 2), tr(0, 2, 4), bu(2, 4), bu(0, 5), tr(0, 0, 0), tr(0, 1, 1)]);
    scenario(out, rng, Fl::Cons, None, "self-transfer-and-batch-edges", &[Call::BatchMint(0, 3), Call::BatchMint(1, 3), tr(1, 1, 3), tr(0, 0, 2), tr(1, 2, 5), bu(0, 2), tr(1, 0, 3), Call::BatchMint(2, 1), tr(2, 0, 6), bu(1, 4)]);
    // consecutive: batches crossing word and bucket edges (sampled observation)
    scenario(out, rng, Fl::Cons, Some(20), "bucket-edge", &[Call::BatchMint(0, ib - 10), Call::BatchMint(1, 20), tr(1, 2, ib), tr(1, 3, ib - 1), bu(0, ib - 11), tr(1, 2, ib + 1), bu(2, ib), tr(0, 3, 31), tr(0, 3, 32), bu(0, 33), Call::BatchMint(2, ib), tr(2, 0, 2 * ib - 1), tr(2, 0, 2 * ib), bu(1, ib + 9), tr(2, 1, ib + 10)]);
    scenario(out, rng, Fl::Cons, Some(20), "max-batch", &[Call::BatchMint(0, max_batch()), Call::BatchMint(1, max_batch() + 1), Call::BatchMint(1, 0), tr(0, 1, 0), tr(0, 2, max_batch() - 1), bu(0, ib * 3), tr(0, 3, ib * 3 - 1), Call::BatchMint(1, 5), tr(1, 2, max_batch()), bu(0, max_batch() - 2)]);
    // consecutive: a maximal batch that is not bucket aligned spans 11 buckets; its first (partial) bucket is queried
    // before anything planted a marker in between
    scenario(out, rng, Fl::Cons, Some(20), "unaligned-max-batch", &[Call::BatchMint(0, 1), Call::BatchMint(1, max_batch()), tr(1, 2, 5), bu(1, ib + 1), Call::BatchMint(2, max_batch() - 7), tr(2, 3, max_batch() + 2), tr(1, 3, max_batch())]);
    // the bucket edge once more with EVERY id 0 .. next_id+2 queried after every call (full mode: literal counting of
    // owner_of answers against balances across the bucket boundary)
    scenario(out, rng, Fl::Cons, None, "bucket-edge-full", &[Call::BatchMint(0, ib - 10), Call::BatchMint(1, 20), tr(1, 2, ib), tr(1, 3, ib - 1), bu(0, ib - 11), bu(2, ib), tr(0, 3, 31), tr(1, 1, ib + 1)]);
    // explicit-only contracts: id 0, ids up to u32::MAX, burn and re-mint
    for fl in [Fl::Base, Fl::Enum] {
        scenario(out, rng, fl, None, "explicit-extremes", &[Call::MintId(0, 0), Call::MintId(1, u32::MAX), Call::MintId(0, u32::MAX - 1), Call::MintId(2, 1), tr(1, 0, u32::MAX), bu(0, 0), Call::MintId(1, 0), bu(0, u32::MAX - 1), tr(2, 2, 1), Call::MintId(2, u32::MAX - 1)]);
        // an explicitly minted and burned id is met by the sequential counter; a sequentially issued and burned id is
        // minted explicitly again (both in scope: the id does not exist at that moment)
        scenario(out, rng, fl, None, "burned-ids-reissued", &[Call::MintId(0, 1), bu(0, 1), Call::MintSeq(1), Call::MintSeq(1), Call::MintSeq(2), bu(1, 0), Call::MintId(0, 0), tr(0, 1, 0), bu(2, 2), Call::MintId(2, 2)]);
        // OUTSIDE the quantifier (documented caveat: uniqueness of explicit ids is the integrator's business): the counter
        // meets a live explicit id; an explicit mint onto an existing id.  Compared with the model (diff); the monitor
        // stops judging at the offending mint.
        scenario(out, rng, fl, None, "outside-mixing-mint-strategies", &[Call::MintId(0, 1), Call::MintSeq(1), Call::MintSeq(1), tr(1, 2, 1), bu(0, 1), Call::MintSeq(0), bu(1, 0)]);
        scenario(out, rng, fl, None, "outside-remint-existing-id", &[Call::MintSeq(0), Call::MintSeq(0), Call::MintId(1, 0), tr(1, 2, 0), tr(0, 2, 0), bu(2, 0), Call::MintId(2, 1), bu(0, 1), bu(2, 1)]);
    }
    // enumerable: swap-and-pop in every position
    scenario(out, rng, Fl::Enum, None, "swap-pop", &[Call::MintSeq(0), Call::MintSeq(0), Call::MintSeq(0), Call::MintSeq(1), Call::MintSeq(0), bu(0, 1), tr(0, 1, 0), tr(0, 0, 2), bu(1, 3), tr(1, 0, 0), bu(0, 4), bu(0, 0), bu(0, 2), Call::MintSeq(2), Call::MintId(2, EXPLICIT_BASE), bu(2, 5), tr(2, 2, EXPLICIT_BASE), bu(2, EXPLICIT_BASE)]);
    // enumerable: the *_from paths run by an operator / approved account that is not the owner, holding 0, 1 or 2
    // tokens itself, on first / middle / last entries of the owner's list
    for fl in [Fl::Enum, Fl::Base] {
        let apa = |o: usize, p: usize| Call::ApproveForAll { auths: std::vec![o], owner: o, operator: p, live_until: 500 };
        let buf = |sp: usize, from: usize, id: u32| Call::BurnFrom { auths: std::vec![sp], spender: sp, from, id };
        let trf = |sp: usize, from: usize, to: usize, id: u32| Call::TransferFrom { auths: std::vec![sp], spender: sp, from, to, id };
        scenario(out, rng, fl, None, "from-paths-by-others", &[Call::MintSeq(0), Call::MintSeq(0), Call::MintSeq(0), Call::MintSeq(0), Call::MintSeq(0), Call::MintSeq(2), Call::MintSeq(1), Call::MintSeq(1),
            apa(0, 2), apa(0, 1), apa(0, 3), buf(3, 0, 0), buf(2, 0, 2), trf(1, 0, 3, 1), buf(1, 0, 4), trf(3, 0, 3, 3),
            apa(1, 0), buf(0, 1, 6), apa(3, 1), buf(1, 3, 1), trf(1, 3, 1, 3), buf(0, 1, 7)]);
    }
    // base: burn and re-mint an explicit id
    scenario(out, rng, Fl::Base, None, "explicit-remint", &[Call::MintId(0, EXPLICIT_BASE + 1), Call::MintId(1, EXPLICIT_BASE), bu(0, EXPLICIT_BASE + 1), Call::MintId(2, EXPLICIT_BASE + 1), tr(2, 1, EXPLICIT_BASE + 1), tr(1, 1, EXPLICIT_BASE), Call::MintSeq(0), bu(1, EXPLICIT_BASE), bu(0, 0), Call::MintSeq(3)]);
}

/// thorough tier: every sequence of three transfers / burns (by the then owner) over a batch of 4 followed
/// by a batch of 2 - all orders of touching neighbours, batch edges and id 0, every id queried after every step
fn exhaustive_cons(out: &mut Out, rng: &mut Rng) {
    let ntok = 6u32;
    let nops = (ntok * 2) as usize;
    for a in 0..nops { for b in 0..nops { for c in 0..nops {
        let mut w = World::new(Fl::Cons, 3, 10, 1, 1000, None);
        w.step(out, rng, &Call::BatchMint(0, 4));
        w.step(out, rng, &Call::BatchMint(1, 2));
        for op in [a, b, c] {
            let id = (op as u32) / 2;
            let from = w.last.owner(id).unwrap_or(0);
            let call = if op % 2 == 0 { tr(from, 2, id) } else { bu(from, id) };
            w.step(out, rng, &call);
        }
        w.flush(out, "exhaustive-3");
    } } }
}

fn main() {
    BTRACE.store(true, std::sync::atomic::Ordering::Relaxed);
    let mut out = Out::new("From SC Require Import Lib.Prelude Lib.Int Lib.Host Model.Nft Model.NftBits Run.NftCommon Run.C10.\nOpen Scope Z_scope.", "check_all");
    out.per_shard(110);
    let mut rng = Rng::new(out.cfg.seed);
    let thorough = out.cfg.thorough;
    let scale = out.cfg.scale as usize;
    directed(&mut out, &mut rng);
    persistence_scenarios(&mut out, &mut rng);
    if thorough { exhaustive_cons(&mut out, &mut rng); }
    let (ntr, nsteps) = if thorough { (540 * scale, 60) } else { (144 * scale, 32) };
    for i in 0..ntr {
        let fl = match i % 3 { 0 => Fl::Base, 1 => Fl::Enum, _ => Fl::Cons };
        random_trace(&mut out, &mut rng, fl, false, nsteps, "random");
    }
    // outside the quantifier: random histories whose explicit ids collide with the counter and with existing ids
    for i in 0..(if thorough { 60 * scale } else { 8 * scale }) {
        random_trace(&mut out, &mut rng, if i % 2 == 0 { Fl::Base } else { Fl::Enum }, false, nsteps, "outside-quantifier");
    }
    let nbig = if thorough { 60 * scale } else { 12 * scale };
    for _ in 0..nbig { random_trace(&mut out, &mut rng, Fl::Cons, true, if thorough { 60 } else { 30 }, "random-big-batches"); }
    out.finish();
}
